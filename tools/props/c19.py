"""C19 — constant pool: aligned, stable, deduplicated offsets with exact contents (DESIGN.md section 6, C19)."""
import itertools
import vlib

PID = "C19"
MANIFEST = {
    "technique": "Lean 4 invariant/refinement theorems over all add/reset/fill/embed histories of a hand model of constpool.cpp "
                 "+ C++/Lean correspondence on outputs and internal state + Lean monitor of the property on the real code's answers",
    "text": "Lean proves, for every history of add(data) (all sizes, valid and invalid), reset, fill and embed_const_pool, that the model of "
            "ConstPool is accepted by an independent observer-level specification: returned offsets are aligned and inside the reported size, "
            "equal constants get equal offsets for ever, placed constants agree wherever they overlap, a refused add changes nothing, every "
            "image has length = size, carries each constant at its offset, is zero elsewhere, and the reported alignment is a multiple of every "
            "constant's size. The model is tied to the real ConstPool by running both on the same histories and comparing every answer and the "
            "complete internal state (gap lists, trees in traversal order); the Lean monitor judges every answer of the real code.",
    "note": "Trusted: Lean kernel; Spec/ConstPool.lean as the meaning of the property; harness/driver/diff. Abstracted: the red-black tree is an "
            "ordered association list (C18), arena allocation never fails (C15), Node::_offset is Nat not uint32 (pools < 4 GiB). "
            "embed_const_pool is modelled for its data effect (align + bind + fill) on x86/a64 Assembler and Builder; "
            "BaseCompiler::_new_const is exercised by the harness and judged by the monitor only (tested, not proved).",
}
MODS = ["AsmjitVerif.Props.C19"]
VALID = (1, 2, 4, 8, 16, 32, 64)


# ------------------------------------------------------------------------------------------------
# generators
# ------------------------------------------------------------------------------------------------

def patterns(rng, n=6):
    """64-byte base patterns; several have repeated halves/quarters so that sub-constants coincide."""
    pats = []
    for k in range(n):
        r = rng.random()
        if r < 0.35:
            p = bytes(rng.getrandbits(8) for _ in range(64))
        elif r < 0.55:
            q = bytes(rng.getrandbits(8) for _ in range(rng.choice((4, 8, 16, 32))))
            p = (q * 64)[:64]
        elif r < 0.75:
            p = bytes([rng.choice((0, 0xFF, 1, 0x80))]) * 64
        else:
            # few distinct 4-byte words
            ws = [bytes(rng.getrandbits(8) for _ in range(4)) for _ in range(3)]
            p = b"".join(rng.choice(ws) for _ in range(16))
        pats.append(p)
    return pats


def pick_const(rng, pats):
    r = rng.random()
    if r < 0.12:
        size = rng.choice((0, 3, 5, 6, 7, 9, 12, 15, 17, 24, 31, 33, 48, 63, 65, 96, 128, rng.randrange(0, 70)))
        return bytes(rng.getrandbits(8) for _ in range(size))
    size = rng.choice(VALID) if r < 0.8 else rng.choice((1, 2, 4, 8))
    if rng.random() < 0.1:
        return bytes(rng.getrandbits(8) for _ in range(size))
    p = rng.choice(pats)
    pos = rng.randrange(0, 64 // size) * size
    if rng.random() < 0.05 and size < 64:          # unaligned slice of a pattern: looks similar, is different
        pos = min(64 - size, pos + rng.randrange(0, size))
    return p[pos:pos + size]


def hx(b):
    return b.hex() if b else "-"


def gen_history(rng, maxlen):
    pats = patterns(rng, rng.choice((1, 2, 3, 6)))
    n = rng.randrange(1, maxlen + 1)
    ops = ["new"]
    # a bias phase: small constants first (creates misalignment and gaps), or large first (creates sharing)
    mode = rng.choice(("mixed", "small-first", "large-first", "ascending", "mixed"))
    consts = [pick_const(rng, pats) for _ in range(n)]
    if mode == "small-first":
        consts.sort(key=len)
    elif mode == "large-first":
        consts.sort(key=lambda c: -len(c))
    elif mode == "ascending":
        k = len(consts) // 2
        consts = sorted(consts[:k], key=len) + consts[k:]
    for c in consts:
        ops.append("add " + hx(c))
        r = rng.random()
        if r < 0.03:
            ops.append("fill")
        elif r < 0.04:
            ops.append("dump")
        elif r < 0.045:
            ops.append("reset")
        elif r < 0.055:
            ops.append(rand_embed(rng))
    ops += ["fill", "dump", rand_embed(rng)]
    return ops


def rand_embed(rng):
    pre = bytes(rng.getrandbits(8) for _ in range(rng.choice((0, 1, 2, 3, 4, 7, 8, 15, 16, 17, 31, 33, 63, 64, 65))))
    return "embed %s %s %s" % (rng.choice(("x86", "a64")), rng.choice(("asm", "bld")), hx(pre))


def exhaustive_histories(rng, length):
    """all sequences of `length` adds over 3 nested patterns x 7 sizes (bounded-exhaustive part)."""
    base = bytes(range(1, 65))
    rep = (bytes([0xAA, 0xBB, 0xCC, 0xDD]) * 16)
    half = bytes(range(1, 33)) * 2
    alphabet = [p[:s] for p in (base, rep, half) for s in VALID]
    alphabet = list(dict.fromkeys(alphabet))
    for seq in itertools.product(alphabet, repeat=length):
        yield ["new"] + ["add " + hx(c) for c in seq] + ["fill", "dump"]


def gen_ops(rng, tier):
    hs = []
    if tier == "quick":
        for L in (1, 2):
            hs += list(exhaustive_histories(rng, L))
        ex3 = list(exhaustive_histories(rng, 3))
        hs += rng.sample(ex3, 2500)
        hs += [gen_history(rng, rng.choice((8, 30, 200))) for _ in range(2000)]
        hs += [gen_history(rng, 1500) for _ in range(3)]
    else:
        for L in (1, 2, 3):
            hs += list(exhaustive_histories(rng, L))
        ex4 = exhaustive_histories(rng, 4)
        hs += [h for h in ex4 if rng.random() < 0.35]
        hs += [gen_history(rng, rng.choice((8, 30, 200, 200))) for _ in range(40000)]
        hs += [gen_history(rng, 2000) for _ in range(40)]
    return hs


# ------------------------------------------------------------------------------------------------
# running
# ------------------------------------------------------------------------------------------------

def mon_lines(ops, impl):
    out = []
    for o, r in zip(ops, impl):
        w = o.split()
        if w[0] in ("new", "reset"):
            out.append("m-new")
        elif w[0] == "add":
            out.append("m-add %s %s" % (w[1], r))
        elif w[0] == "fill":
            out.append("m-fill " + r)
        elif w[0] == "embed":
            out.append("m-embed %s %s %s %s" % (w[1], w[2], w[3], r))
        else:
            out.append("# " + w[0])          # dump: no judgement (comment line, produces no output)
    return out


def judge(h, ops):
    """run the real code and the Lean monitor on one op list -> (impl lines, list of (index, BAD text), crashed?)"""
    impl, rc, err = vlib.run_lines([str(h)], ops)
    if rc != 0 or len(impl) != len(ops):
        head = [l for l in err.splitlines() if "ERROR:" in l or "runtime error" in l][:2]
        return impl, [], "rc=%d %s %s" % (rc, " | ".join(head)[:600], err[-300:])
    ml = mon_lines(ops, impl)
    mon, rc2, err2 = vlib.run_model("C19", ml)
    idx = [i for i, l in enumerate(ml) if not l.startswith("#")]
    bad = [(idx[k], m) for k, m in enumerate(mon) if m != "good"]
    return impl, bad, None


def judge_compile(h, case):
    """`compile` line through BaseCompiler::_new_const; the answers are split per pool scope and judged by the Lean monitor.
    Returns None when good, else a text starting with a stable class word."""
    r, rc, err = vlib.run_lines([str(h)], case)
    if rc != 0 or len(r) != 1:
        return "crash rc=%d %s" % (rc, err[-800:])
    a = r[0]
    if not a.startswith("cc "):
        return "compile-failed " + a
    parts = a[3:].split(" || ")
    if len(parts) != 3:
        return "compile-failed " + a
    items = case[0].split()[2:]
    answers = [x.strip() for x in parts[0].split(" | ")]
    if len(answers) != len(items):
        return "compile-failed " + a
    for scope, emb in (("l", parts[1][2:]), ("g", parts[2][2:])):
        ml = ["m-new"]
        for it, an in zip(items, answers):
            if it[0] == scope:
                ml.append("m-add %s %s" % (it[2:], an[2:]))
        if len(ml) == 1:
            continue
        if not emb.startswith("emb "):
            return "pool-not-embedded " + emb
        ml.append("m-embed cc cc - " + emb)
        mon, _, _ = vlib.run_model("C19", ml)
        for l, m in zip(ml, mon):
            if m != "good":
                return "monitor %s on %s" % (m, l[:200])
    return None


def classify(ops, impl, dist):
    seen, placed = set(), []
    size = 0
    for o, r in zip(ops, impl):
        w = o.split()
        if w[0] in ("new", "reset"):
            seen, placed, size = set(), [], 0
            dist["op:" + w[0]] = dist.get("op:" + w[0], 0) + 1
            continue
        if w[0] != "add":
            dist["op:" + w[0]] = dist.get("op:" + w[0], 0) + 1
            continue
        a = r.split()
        if a[0] != "ok":
            k = "add:refused-invalid-size"
        else:
            off, nsize = int(a[1]), int(a[2])
            n = 0 if w[1] == "-" else len(w[1]) // 2
            if w[1] in seen:
                k = "add:hit-same-constant"
            elif nsize == size:
                k = "add:hit-shared-sub-constant" if any(po <= off and off + n <= po + pn for po, pn in placed) else "add:gap-reuse"
            elif nsize == size + n:
                k = "add:append-aligned"
            else:
                k = "add:append-with-new-gap"
            seen.add(w[1])
            placed.append((off, n))
            size = nsize
        dist[k] = dist.get(k, 0) + 1


def shrink(h, hist, is_bad):
    keep_new = hist[:1]
    body = hist[1:]
    small = vlib.ddmin(body, lambda c: is_bad(keep_new + c), max_tests=300)
    return keep_new + small


def run(res):
    rng = vlib.rng_for(res.seed, PID)
    res.assumptions += [
        "ConstPool::Tree (red-black tree) = association list in memcmp order (balance and memory safety: C18)",
        "arena allocation inside add never fails (C15); Node::_offset is uint32 in C++, Nat in the model (pool < 4 GiB)",
        "BaseCompiler::_new_const / GlobalConstPoolPass are exercised by the harness and judged by the monitor, not modelled",
        "embed_const_pool is modelled for its effect on the section bytes and the label offset (x86 pad 0xCC, a64 pad 0x00)"]
    broken = []

    ok, out = vlib.lean_stage(res, PID, MODS)
    if not ok and not res.violations:
        for ft in getattr(res, "build_failures", []) or [{"decl": "?", "msg": out[-800:]}]:
            broken.append("theorem %s (%s:%s) no longer checks: %s" % (ft.get("decl"), ft.get("file"), ft.get("line"), ft.get("msg")))
        vlib.lake_build(["vdriver"])
    if not vlib.driver_path().exists():
        res.violation("Lean driver does not build", {"log": out[-3000:]}, found_input=False, key="driver")
        return

    h = vlib.build_harness("c19")
    hists = gen_ops(rng, res.tier)
    cc_hists = gen_compiler_cases(rng, res.tier)
    ops = [o for hh in hists for o in hh]
    starts, p = [], 0
    for hh in hists:
        starts.append(p)
        p += len(hh)

    def hist_of(i):
        import bisect
        k = bisect.bisect_right(starts, i) - 1
        return hists[k]

    impl, rc, err = vlib.run_lines([str(h)], ops)
    if rc != 0 or len(impl) != len(ops):
        # crash / sanitizer: find the history (stdout of an aborted harness is lost, so search by groups)
        bad_h = None
        for g in range(0, len(hists), 200):
            grp = hists[g:g + 200]
            _, rcg, _ = vlib.run_lines([str(h)], [o for hh in grp for o in hh])
            if rcg != 0:
                for hh in grp:
                    if judge(h, hh)[2]:
                        bad_h = hh
                        break
                if bad_h is not None:
                    break
        if bad_h is None:
            res.violation("harness aborted rc=%d but no single history reproduces it: %s" % (rc, err[-1500:]), {"stderr": err[-3000:]},
                          found_input=False, key="harness-abort")
            return
        small = shrink(h, bad_h, lambda c: judge(h, c)[2] is not None)
        res.violation("real ConstPool crashes / sanitizer report: %s" % judge(h, small)[2], {"ops": small}, True, key="crash")
        return
    model, rc2, err2 = vlib.run_model("C19", ops)
    if rc2 != 0 or len(model) != len(ops):
        res.violation("driver protocol failure rc=%d lines %d/%d %s" % (rc2, len(model), len(ops), err2[-500:]), {}, False, key="protocol")
        return

    # monitor over the whole implementation trace (always)
    ml = mon_lines(ops, impl)
    mon, rc3, err3 = vlib.run_model("C19", ml)
    idx = [i for i, l in enumerate(ml) if not l.startswith("#")]
    if rc3 != 0 or len(mon) != len(idx):
        res.violation("monitor protocol failure rc=%d %d/%d %s" % (rc3, len(mon), len(idx), err3[-500:]), {}, False, key="protocol")
        return
    bad = [(idx[k], m) for k, m in enumerate(mon) if m != "good"]
    diffs = [i for i in range(len(ops)) if impl[i] != model[i]]

    # compiler path (_new_const): judged by the monitor only
    cc_bad = []
    cc_eval = 0
    for case in cc_hists:
        cc_eval += 1
        verdict = judge_compile(h, case)
        if verdict:
            cc_bad.append((case, verdict))

    dist = {}
    classify(ops, impl, dist)
    dist["compile-cases"] = len(cc_hists)
    res.coverage["evaluations"] = len(ops) + cc_eval
    res.coverage["distinct_nontrivial"] = len({(tuple(hh)) for hh in hists if any(o.startswith("add") for o in hh)})
    res.coverage["rule"] = ("histories = bounded-exhaustive add sequences over 3 nested patterns x 7 sizes (length<=2 all, 3 sampled in quick; <=3 all, 4 "
                            "sampled in thorough) + seeded random histories (length<=200, a few <=2000) over pattern slices (halves/quarters of wider "
                            "constants, repeated halves), invalid sizes, interleaved fill/dump/reset/embed; non-trivial = distinct history with >=1 add; "
                            "every line compared impl vs model (dump = whole internal state) and judged by the Lean monitor")
    res.coverage["exhaustive"] = False
    res.coverage["input_distribution"] = dist
    n = len(ops)
    res.add_samples([{"op": ops[i][:200], "impl": impl[i][:300], "model": model[i][:300]} for i in (1, n // 3, n // 2, n - 2, n - 1)])
    res.coverage["traces_validated_against_impl"] = len(hists)

    if bad:
        i, m = bad[0]
        hh = hist_of(i)
        reason = m.split()[1] if len(m.split()) > 1 else m

        def is_bad(c):
            _, b, crashed = judge(h, c)
            return crashed is not None or any(x[1].split()[1:2] == [reason] for x in b)
        small = shrink(h, hh, is_bad)
        im, b2, _ = judge(h, small)
        res.violation("ConstPool violates C19 on the real code: monitor says %s (%d failing answers in this run); shrunk history: %s -> %s"
                      % (m, len(bad), small, im), {"ops": small, "impl": im, "monitor": [x[1] for x in b2]}, True, key="mon:" + reason)
    elif cc_bad:
        case, a = cc_bad[0]
        res.violation("BaseCompiler::_new_const / pool embedding violates C19: %s on %s" % (a, case), {"ops": case, "impl": a}, True,
                      key="compile:" + " ".join(a.split()[:3]))
    elif diffs:
        i = diffs[0]
        hh = hist_of(i)

        def differs(c):
            a, _, _ = vlib.run_lines([str(h)], c)
            b, _, _ = vlib.run_model("C19", c)
            return a != b
        small = shrink(h, hh, differs)
        a, _, _ = vlib.run_lines([str(h)], small)
        b, _, _ = vlib.run_model("C19", small)
        res.violation("correspondence Model/ConstPool.lean ~ constpool.cpp differs (%d lines) at %r: impl=%s model=%s; the property monitor accepts "
                      "every answer of the real code; shrunk: %s" % (len(diffs), ops[i][:100], impl[i][:200], model[i][:200], small),
                      {"ops": small, "impl": a, "model": b, "unchecked": "correspondence Model/ConstPool.lean ~ constpool.cpp"}, False, key="corr")
    elif broken:
        res.violation("proof obligation no longer checks: " + " | ".join(broken)[:1500], {"unchecked": broken}, False, key="obligation")


def gen_compiler_cases(rng, tier):
    cases = []
    n = 60 if tier == "quick" else 1500
    for _ in range(n):
        pats = patterns(rng, 3)
        k = rng.randrange(1, 12)
        items = []
        for _ in range(k):
            c = pick_const(rng, pats)
            items.append("%s:%s" % (rng.choice("lg"), hx(c)))
        cases.append(["compile %s %s" % (rng.choice(("x86", "a64")), " ".join(items))])
    return cases


def replay(data):
    ops = data["replay"].get("ops", [])
    h = vlib.build_harness("c19")
    impl, bad, crashed = judge(h, ops)
    for o, r in zip(ops, impl):
        print(o, "->", r)
    for i, m in bad:
        print("monitor:", ops[i], "=>", m)
    if crashed:
        print("crash:", crashed)
    return 1 if (bad or crashed) else 0
