"""C06 — calling conventions and argument assignment (DESIGN.md section 6, C06)."""
import itertools
import re

import vlib

PID = "C06"
MANIFEST = {
    "technique": "Lean 4 theorems (induction over the argument list with the counter state as invariant; decide over all integer type pairs "
                 "for the move selection) on hand models of x86func.cpp, a64func.cpp, func.cpp, funcargscontext.cpp, emithelper.cpp and the "
                 "x86/a64 emit helpers + ABI rules and an abstract machine written independently + C++/Lean correspondence",
    "text": "PARTIAL. Proved in Lean for every signature (any length, varargs or not) over the convention's type domain: the model of "
            "FuncDetail::init yields exactly the locations, stack-area size, callee-pop flag, red / shadow zone, stack alignment and preserved "
            "sets that the ABI rules prescribe for SysV x86-64, Win64, AAPCS64 and Apple arm64 (detail_matches_abi_sysv/_win64/_a64, "
            "ret_matches_abi; SysV over every concrete TypeId including __m64 = class SSE and long double = class MEMORY, fixes C06-14/15) "
            "and for 32-bit cdecl/stdcall/fastcall/thiscall/regparm (detail_matches_abi_x32; 64-bit integers under cdecl/stdcall and, passed "
            "on the stack as a whole, under __fastcall/__thiscall, fix C06-16; not under GCC regparm); light-call and x64 vectorcall model + correspondence only. Argument shuffle: Model/ArgShuffle.lean is an executable model of init_work_data, WorkData, the three phases "
            "of emit_args_assignment and of emit_arg_move/emit_reg_move/emit_reg_swap (x86 and a64) that reproduces the real Builder output "
            "instruction for instruction on every generated line. Proved: the x86 integer move selection extends as the types require for all "
            "type pairs (x86_int_arg_move_extends), AArch64 moves and loads likewise (a64_int_load_extends, a64_int_moves_ok; fix C06-13); the register phase at schedule "
            "level (shuffle_regphase_correct: induction over visits and passes with the invariant 'phys is the inverse of cur, every value "
            "sits at cur, writes hit only unassigned registers or exchange two variables'): from any well-formed context, for every number "
            "of register arguments and every injective destination assignment, ok => every destination holds its variable in destination "
            "form, under the hypothesis that the selected moves produce destination form (no hypothesis about exchanges is left: a variable an "
            "exchange leaves unextended stays not done, fix C06-12; a destination in another group is refused, fix C06-11); init_work_data is proved to establish the invariant (initWorkData_wf), giving shuffle_correct_regs: for "
            "every register-only assignment, emitArgsAssignment ok => judge(run prog (setup ..)) = true; all hypotheses are discharged for integer "
            "arguments in GP registers on x86 (every emitter configuration) and AArch64, all register ids: shuffle_correct_int_regs, which has "
            "no hypothesis on the code's choices and covers exchanged pairs with widening, chains, scratch-broken cycles and widening in place; "
            "round 10: the same for every register group (shuffle_correct_typed_regs: float/double/vector incl. conversions, opmask, mm) and, from FuncDetail-style inputs with register AND stack arguments into registers, shuffle_correct_typed: init_work_data establishes the invariant for stack sources (initWorkData_wf2), phase 2 and phase 3 compose, loads proved for every covered kind, frames addressing the stack arguments through sp / fp; every register-only initial context of the sweep is checked "
            "at run time against an executable mirror of the invariant (wf0). phase 3 (stack sources loaded into registers) is proved at context level (shuffle_phase3_correct) on the generalised "
            "invariant; NOT proved: phase 1 (stack destinations), the moving SA variable (dynamic alignment without frame pointer / set_sa_reg_id), "
            "and 'nothing else preserved is clobbered' beyond the variables' own registers; "
            "the former K3/K4/K5 witnesses are now theorems of correct / refused behaviour (shuffle_swap_ext_repaired, shuffle_cross_group_refused, "
            "shuffle_a64_ext_repaired). Every schedule the real code emits is additionally "
            "judged by the abstract machine of Spec/Machine.lean (monitor = testing). "
            "Invoke lowering of the x86 Compiler (round 11, Props/C06Invoke.lean): temps_ok - for every signature and operand list the stack "
            "temporaries of by-reference vector arguments are aligned, pairwise disjoint, above the callee's stack arguments and inside the "
            "call_stack_size / call_stack_alignment that on_before_invoke records (so never over the caller's locals); imm_stack_arg_machine / "
            "imm_reg_arg_machine - for every 64-bit immediate and every accepted type the emitted stores / mov leave the immediate's bytes at the "
            "argument's location (the sign-extending mov qword shortcut only when it reproduces the value); reg_stack_arg_machine - every integer "
            "type pair and register value is extended as the parameter type requires on its way to a stack slot; reg_reg_arg_machine - likewise for "
            "8/16-bit registers and wider integer register parameters and for int32 -> int64 (fixes C06-17, C06-20). AArch64: a64_imm_stack_machine - an "
            "immediate stack argument is stored in exactly size_of(type) bytes of its slot (fix C06-21; Apple packs small stack arguments); "
            "a64_reg_reg_arg_machine - a narrower register for a wider integer parameter is extended as the type requires (fix C06-22). Whole argument lists (Props/C06InvokeList.lean): pack_machine / "
            "invoke_int_args_machine - for any number of integer arguments (immediates and GP virtual registers of every integer type, register and "
            "stack positions, 32/64-bit targets) the instructions on_before_invoke emits, run on the machine from any state, leave EVERY argument's "
            "location holding the value passed (immediate / register extended as required / register as it is in register positions when it is not "
            "narrower or is an unsigned 32-bit register) and change nothing below the fresh registers and outside the arguments' own slots; hypotheses on the inputs only (distinct "
            "virtual registers per argument, disjoint slots). Vector / by-reference arguments: per-path theorems + temps_ok, not yet in the list theorem.",
    "note": "Model follows the code with fixes C06-1..16 (all in /repo). Trusted: Lean kernel; Spec/ABI.lean and Spec/Machine.lean as the meaning of the ABIs / of "
            "the mov family; the FuncFrame facts (dirty/preserved masks, SA register/offsets) are inputs taken from the real frame (C07); the "
            "harness/driver diff. No open finding: K9 / K10 / K11 repaired by fixes C06-20 / C06-21 / C06-22 (C06-22 is proposed; until it is in /repo the check reports the K11 class and the matching correspondence differences there). Not claimed: mmx on 32-bit, 64-bit integers under GCC regparm, call-site marshalling inside the "
            "register allocator (C05: the allocator's own moves are only judged by the machine monitor), theorems for the AArch64 invoke lowering beyond a64_imm_value / store8_first_and_overflow, vector / by-reference arguments in the list theorem, shuffle_correct for stack destinations / non-integer groups without the selection hypothesis, byte overlap of stack slots (movaps stores 16 bytes for a float).",
}
MODS = ["AsmjitVerif.Props.C06", "AsmjitVerif.Props.C06Invoke", "AsmjitVerif.Props.C06InvokeList", "AsmjitVerif.Props.C06InvokeA64"]

INTS = [32, 33, 34, 35, 36, 37, 38, 39, 40, 41]
FLTS = [42, 43]
MASKS = [45, 46, 47, 48]
MMX = [49, 50]
V32 = [51, 52, 53, 54, 55, 56, 59]
V64 = list(range(61, 71))
V128 = list(range(71, 81))
V256 = list(range(81, 91))
V512 = list(range(91, 101))
ENVS = {
    "x86l": [0, 1, 2, 3, 4, 5, 6, 7, 16, 17, 18], "x86w": [0, 1, 2, 3, 4, 5, 6, 7, 16, 17, 18],
    "x64l": [0, 1, 2, 3, 4, 5, 6, 7, 16, 17, 18, 32, 33], "x64w": [0, 1, 2, 3, 4, 5, 6, 7, 16, 17, 18, 32, 33],
    "a64l": [0, 1, 2, 3, 4, 5, 6, 7, 16, 30], "a64d": [0, 1, 2, 3, 4, 5, 6, 7, 16, 30],
}


def fd_line(env, cc, va, ret, args):
    return "fd %s %d %d %d %d%s" % (env, cc, va, ret, len(args), "".join(" %d" % a for a in args))


def type_pool(env, rng, rich):
    pool = INTS * 3 + FLTS * 6 + V128 + V64[:3] + V32[:2]
    if rich:
        pool += MASKS + MMX + V256[:4] + V512[:3]
    return pool


def gen_fd(rng, tier):
    """Signatures aimed at the boundaries the property names: register exhaustion per class, 16-byte arguments after an odd number of
    8-byte slots, by-reference vectors at every position (also >= 16), small Apple stack arguments, varargs at every index."""
    ops = []
    for env, ccs in ENVS.items():
        for cc in ccs:
            ops.append("cc %s %d" % (env, cc))
        ops.append("cc %s 40" % env)
        ops.append("cc %s 31" % env)
    nrand = 60 if tier == "quick" else 1500
    for env, ccs in ENVS.items():
        for cc in ccs:
            sigs = []
            for t in (38, 40, 34, 42, 43, 79, 65, 89, 33):
                for n in (1, 3, 5, 7, 9, 10, 17, 32):
                    sigs.append((255, 0, [t] * n))
            for n in (6, 9, 12, 20, 32):
                sigs.append((255, 38, [38 if i % 2 == 0 else 43 for i in range(n)]))
                sigs.append((255, 43, [79 if i % 3 == 0 else 40 for i in range(n)]))
            # 16-byte (and larger) arguments after k eight-byte stack slots
            for k in range(0, 4):
                for v in (79, 75, 89, 99):
                    sigs.append((255, 0, [43] * 8 + [40] * 8 + [43] * k + [v, 38, v]))
                    sigs.append((255, 0, [43] * 8 + [40] * 8 + [42] * k + [v]))
            # small stack arguments (Apple)
            sigs.append((255, 0, [38] * 8 + [34, 34, 36, 40, 35, 38, 37, 34, 41]))
            sigs.append((255, 0, [38] * 8 + [43] * 8 + [34, 42, 36, 43, 34, 79, 35]))
            # vectors by reference at every position up to 32
            for pos in (0, 1, 3, 4, 5, 6, 15, 16, 17, 31):
                a = [38] * 32
                a[pos] = 79
                sigs.append((255, 0, a[:max(pos + 2, 6)]))
                sigs.append((255, 79, [79] * (pos + 1)))
            # long double (SysV: class MEMORY, fix C06-15; outside the domain elsewhere)
            sigs.append((255, 0, [44]))
            sigs.append((255, 0, [43] * 8 + [44, 38]))
            # varargs at every index
            for va in range(0, 6):
                sigs.append((va, 38, [38, 79, 43, 79, 40, 79][:max(va, 1) + 2]))
            # return types
            for r in INTS + FLTS + [44] + MMX + [79, 89, 99, 65, 55] + MASKS[:1]:
                sigs.append((255, r, [38]))
            for _ in range(nrand):
                rich = rng.random() < 0.3
                pool = type_pool(env, rng, rich)
                n = rng.choice((0, 1, 2, 3, 4, 5, 6, 7, 8, 9, 10, 12, 14, 16, 17, 20, 24, 31, 32))
                if rng.random() < 0.5:
                    sub = [rng.choice(pool) for _ in range(rng.randrange(1, 4))]
                    args = [rng.choice(sub) for _ in range(n)]
                else:
                    args = [rng.choice(pool) for _ in range(n)]
                va = 255 if rng.random() < 0.85 else rng.randrange(0, n + 1)
                ret = 0 if rng.random() < 0.4 else rng.choice(pool)
                sigs.append((va, ret, args))
            if tier == "thorough" and cc in (0, 2, 7, 3, 32, 33):
                # bounded-exhaustive: all signatures of length <= 4 over 6 representative types
                reps = [38, 40, 42, 43, 79, 34]
                for n in range(0, 5):
                    for a in itertools.product(reps, repeat=n):
                        sigs.append((255, 0, list(a)))
            for va, ret, args in sigs:
                ops.append(fd_line(env, cc, va, ret, args))
    ops.append(fd_line("x64l", 0, 255, 0, [38] * 32))
    return ops


_CCF = re.compile(r"rz=(\d+) sz=(\d+) nsa=(\d+) flags=([0-9a-f]+) g0=[^;]*;[^;]*;([0-9a-f]+);\S* g1=[^;]*;[^;]*;([0-9a-f]+);")


def mon_line(op, ans, ccans):
    """fd op + implementation answers -> monitor line (None if the implementation refused)."""
    if not ans.startswith("ok ") or not ccans.startswith("ok "):
        return None
    m = _CCF.search(ccans)
    f = dict(x.split("=", 1) for x in ans.split()[1:])
    packs = f["args"].split(",") if f["args"] != "-" else []
    return "monfd %s %s %s %s %s %s %s %s %s %s" % (op[3:], f["ss"], m.group(4), m.group(1), m.group(2), m.group(3), m.group(5), m.group(6),
                                                 f["ret"], " ".join(packs))


def family(env, cc):
    cdecl = cc in (0, 1, 2, 4, 5, 6, 7)
    if env.startswith("x64"):
        if cc == 32 or (cdecl and env == "x64l"):
            return "sysv"
        if cc == 33 or (cdecl and env == "x64w"):
            return "win64"
        return "%s:%d" % (env, cc)
    if env.startswith("a64"):
        return ("apple" if env == "a64d" else "aapcs64") if (cdecl or cc == 3) else "%s:%d" % (env, cc)
    return "x86-32"


def fd_key(op, why):
    """stable key naming the failing class: ABI family + which part differs (mmx / long double are separate known classes)"""
    w = op.split()
    env, cc = w[1], int(w[2])
    types = [int(x) for x in w[6:]] + [int(w[4])]
    fam = family(env, cc)
    if fam == "sysv" and any(t in MMX for t in types):
        return "abi:sysv-mmx"
    if 44 in types:
        return "abi:float80"
    if fam == "x86-32" and cc in (2, 4) and any(t in (40, 41) for t in types):
        return "abi:x86-32-fastcall-int64"
    return "abi:%s:%s" % (fam, why.split()[1] if len(why.split()) > 1 else "?")


def shrink_fd(h, op, key):
    """drop arguments while the monitor still reports the same class"""
    w = op.split()
    head, args = w[:6], w[6:]

    def bad(a):
        o = " ".join(head[:5] + [str(len(a))] + a)
        r, rc, _ = vlib.run_lines([str(h)], [o, "cc %s %s" % (w[1], w[2])])
        if rc != 0 or len(r) != 2:
            return False
        ml = mon_line(o, r[0], r[1])
        if not ml:
            return False
        m, _, _ = vlib.run_model("C06", [ml])
        return bool(m) and m[0].startswith("BAD") and fd_key(o, m[0]) == key
    if len(args) > 1:
        args = vlib.ddmin(args, bad, 60)
    return " ".join(head[:5] + [str(len(args))] + args)


def run(res):
    import props.c06_shuffle as shf
    rng = vlib.rng_for(res.seed, PID)
    res.assumptions += [
        "Spec/ABI.lean is our reading of the psABI / Microsoft / AAPCS64 / Apple documents (trusted as the meaning of 'the ABI prescribes')",
        "the model follows the code with fixes C06-1..10 (applied in /repo) and fixes/C06-11..16; light-call, x64 vectorcall, x87/mmx returns, Float80 outside SysV: model + correspondence only",
        "emit_args_assignment: executable model tied by correspondence + abstract-machine monitor on the real instruction lists; the schedule-level "
        "theorem covers register-only assignments (phase 3 at context level); instruction semantics = Spec/Machine.lean; "
        "FuncFrame facts are inputs of the shuffle model (taken from the real frame)",
        "invoke lowering (x86rapass.cpp on_before_invoke + move_* helpers): Model/InvokeLower.lean tied by correspondence on the lowering's "
        "instructions and the frame's call-stack numbers; every real post-RA instruction list is judged by Spec/InvokeMachine.lean; on an "
        "x86-64 host the calls are additionally executed (SysV caller, SysV / Microsoft x64 callee stub) and the received arguments compared; "
        "the register allocator itself is C05's; AArch64 (a64rapass.cpp; AAPCS64 and Apple arm64): the same `iv` op through a64::Compiler, "
        "correspondence with a64LowerValue and a byte-granular machine (Spec/InvokeMachineA64.lean) on the real lists; not executed"]
    broken = []
    ok, out = vlib.lean_stage(res, PID, MODS)
    if not ok and not res.violations:
        for ft in getattr(res, "build_failures", []) or [{"decl": "?", "msg": out[-800:]}]:
            broken.append("theorem %s (%s:%s) no longer checks: %s" % (ft.get("decl"), ft.get("file"), ft.get("line"), ft.get("msg")))
        vlib.lake_build(["vdriver"])
    if not vlib.driver_path().exists():
        res.violation("Lean driver does not build", {"log": out[-3000:]}, found_input=False, key="driver")
        return
    h = vlib.build_harness("c06")

    # ---- FuncDetail / CallConv ---------------------------------------------------------------------------------
    ops = gen_fd(rng, res.tier)
    impl, rc, err = vlib.run_lines([str(h)], ops)
    if rc != 0 or len(impl) != len(ops):
        # find the crashing line
        bad_op = None
        for o in ops:
            r, rc1, e1 = vlib.run_lines([str(h)], [o])
            if rc1 != 0:
                bad_op, err = o, e1
                break
        res.violation("harness aborted (sanitizer or crash) on %r: %s" % (bad_op, err[-800:]), {"ops": [bad_op], "stderr": err[-3000:]},
                      True, key="crash:fd")
        return
    model, rc2, err2 = vlib.run_model("C06", ops)
    if rc2 != 0 or len(model) != len(ops):
        res.violation("driver protocol failure rc=%d lines %d/%d %s" % (rc2, len(ops), len(model), err2[-500:]), {}, False, key="protocol")
        return
    ccans = {}
    for o, r in zip(ops, impl):
        if o.startswith("cc "):
            ccans[o[3:]] = r
    mon_ops, idx = [], []
    for i, (o, r) in enumerate(zip(ops, impl)):
        if o.startswith("fd "):
            w = o.split()
            ml = mon_line(o, r, ccans.get("%s %s" % (w[1], w[2]), ""))
            if ml:
                mon_ops.append(ml)
                idx.append(i)
    mon, rc3, err3 = vlib.run_model("C06", mon_ops)
    if len(mon) != len(mon_ops):
        res.violation("monitor protocol failure %d/%d %s" % (len(mon), len(mon_ops), err3[-300:]), {}, False, key="protocol")
        return
    bad = {}
    judged = 0
    for k, m in enumerate(mon):
        if m == "good":
            judged += 1
        elif m.startswith("BAD"):
            judged += 1
            bad.setdefault(fd_key(ops[idx[k]], m), []).append((idx[k], m))
        elif not m.startswith("skip"):
            bad.setdefault("monitor:" + m, []).append((idx[k], m))
    diffs = [i for i in range(len(ops)) if impl[i] != model[i]]
    kinds = {}
    for o, r in zip(ops, impl):
        w = o.split()
        k = "%s:%s:%s" % (w[0], w[1], r.split()[0] if r.split()[0] != "err" else r)
        kinds[k] = kinds.get(k, 0) + 1
    res.coverage["input_distribution"] = kinds
    res.coverage["fd_evaluations"] = len(ops)
    res.coverage["fd_judged_by_abi_monitor"] = judged
    res.add_samples([{"op": ops[i], "impl": impl[i], "model": model[i]} for i in (3, len(ops) // 3, len(ops) // 2, len(ops) - 1)], limit=4)

    for key, lst in sorted(bad.items()):
        i, m = lst[0]
        op = shrink_fd(h, ops[i], key) if key.startswith("abi:") else ops[i]
        r, _, _ = vlib.run_lines([str(h)], [op])
        res.violation("ABI deviation of the real code (%s, %d inputs): %s -> %s ; monitor: %s" % (key, len(lst), op, r[0] if r else "?", m[:300]),
                      {"ops": [op], "impl": r[0] if r else None, "monitor": m}, True, key=key)
    bad_idx = {i for lst in bad.values() for i, _ in lst}
    fd_corr = [i for i in diffs if i not in bad_idx]

    # ---- argument shuffle -------------------------------------------------------------------------------------------
    sh_corr = shf.run_shuffle(res, h, rng)

    # ---- invoke lowering (x86 Compiler) ---------------------------------------------------------------------------
    import props.c06_invoke as ivk
    iv_corr = ivk.run_invoke(res, h, rng)

    res.coverage["evaluations"] = res.coverage["fd_evaluations"] + res.coverage.get("sh_evaluations", 0) + res.coverage.get("iv_evaluations", 0)
    res.coverage["distinct_nontrivial"] = len({o for o, r in zip(ops, impl) if r.startswith("ok")}) + res.coverage.get("sh_nontrivial", 0)
    res.coverage["rule"] = ("fd: per (target, convention): uniform/alternating signatures up to 32 arguments, 16..64-byte vectors after 0..3 "
                            "eight-byte stack slots, by-reference vectors at positions 0..31, small Apple stack arguments, varargs at every index, "
                            "all return types, seeded random signatures (thorough: all signatures of length <= 4 over 6 types); "
                            "sh: all permutations of <= 4 (quick) / 5 (thorough) GP and vector registers, random partial injective maps with cycles, "
                            "widening self-moves, stack sources/destinations; iv: per (target, callee convention) every boundary immediate x every integer "
                            "type at register and stack positions, every (parameter, register) type pair, by-reference / by-value vectors of 16/32/64 "
                            "bytes at positions 0..6 with and without a local, floats, seeded mixes; ivx: the same classes executed on the host; "
                            "non-trivial = distinct op the real code answers with ok")
    res.coverage["exhaustive"] = False
    res.coverage["traces_validated_against_impl"] = len(ops) + res.coverage.get("sh_evaluations", 0)

    known_keys = {e.get("key") for e in vlib.load_known_findings(PID) if e.get("status") == "open"}
    unknown_found = [v for v in res.violations if v["found_input"] and v["key"] not in known_keys]
    if fd_corr and not unknown_found:
        i = fd_corr[0]
        res.violation("correspondence model/implementation differs at %r: impl=%s model=%s (%d differing ops); the ABI monitor "
                      "is good or silent on them" % (ops[i], impl[i], model[i], len(fd_corr)),
                      {"ops": [ops[i]], "impl": impl[i], "model": model[i], "unchecked": "correspondence Model/CallConv.lean ~ x86func.cpp/a64func.cpp"},
                      False, key="corr")
    elif sh_corr and not unknown_found:
        o, a, b, n = sh_corr
        res.violation("correspondence model/implementation differs at %r: impl=%s model=%s (%d differing ops); the machine monitor is good "
                      "on them" % (o, a, b, n), {"ops": [o], "impl": a, "model": b,
                                                 "unchecked": "correspondence Model/ArgShuffle.lean ~ emithelper.cpp/funcargscontext.cpp"},
                      False, key="corr")
    if iv_corr and not fd_corr and not sh_corr and not unknown_found:
        o, a, b, n = iv_corr
        res.violation("correspondence model/implementation differs at %r: impl=%s model=%s (%d differing ops); the machine monitor is good "
                      "on them" % (o, a[:600], b[:600], n), {"ops": [o], "impl": a, "model": b,
                                                 "unchecked": "correspondence Model/InvokeLower.lean ~ x86rapass.cpp on_before_invoke"},
                      False, key="corr")
    if broken:
        # always reported (known findings among res.violations must not hide a failed proof build)
        res.violation("proof obligation no longer checks: " + " | ".join(broken)[:1500], {"unchecked": broken}, False, key="obligation")


def replay(data):
    ops = data["replay"].get("ops", [])
    h = vlib.build_harness("c06")
    impl, rc, err = vlib.run_lines([str(h)], ops)
    for o, r in zip(ops, impl):
        print(o, "->", r)
    if rc != 0:
        print(err[-2000:])
    return 0
