"""C15 - allocation failure yields an error: never a crash, leak or wrong code (DESIGN.md section 6, C15)."""
import re
import vlib

PID = "C15"
MANIFEST = {
    "technique": "Lean 4 theorems over ALL fault oracles and ALL histories of a hand model of the allocating CodeHolder / ArenaVector / String "
                 "operations (fail-atomicity, refinement of a failure-free spec, reserve-then-append safety, retry convergence) + C++/Lean "
                 "correspondence per operation and per-request fault mask (answers, request counts, observable state, capacities) + exhaustive "
                 "single-fault sweeps and random multi-fault runs of whole workloads on the real library judged by a Lean monitor",
    "text": "Lean proves for a model that follows the C++ statement order of new_section, new_label_id, new_named_label_id, new_reloc_entry, "
            "new_fixup, add_address_to_address_table, embed_label_delta (expression branch), grow_buffer/embed, ArenaVector append/reserve and "
            "String append - with a universally quantified oracle deciding every single allocation request - that an out-of-memory answer leaves the "
            "observable state untouched (add_address: at most the empty address-table section exists), every other answer is exactly the failure-free "
            "effect, no append_unchecked ever runs without capacity, and repeating failed calls converges to the failure-free history. The model is tied "
            "to the real code per operation and per fault mask; whole workloads (assemble with labels/sections/relocations on x86 and AArch64, "
            "Builder+serialize, Compiler functions with spills/calls/jump tables, JitRuntime add with 3 allocator configurations, containers and "
            "constant pool) are run once per allocation request of each class (arena via hook H1, heap and virtual memory via --wrap) and under random "
            "multi-failure patterns with ASan/UBSan/LSan and exact leak accounting.",
    "note": "Proved: the modelled CodeHolder/vector/string operations (Model/Fault.lean). Trusted: Lean kernel, Spec/Fault.lean, harness/driver/diff, "
            "the arena abstracted to succeed-or-fail per request (its internals under failing malloc are C18's arena_safe). Only fault-TESTED, not "
            "modelled: Builder/Compiler/RA pass internals, x86/a64 assembler emit paths, JitAllocator/VirtMem, ConstPool.add (not failure-atomic: a "
            "failed add wastes its slot), ArenaHash/ArenaBitSet/ArenaPool - for these: no crash, no sanitizer report, no leak, an error or correct "
            "completion, same objects and fresh objects reproduce the failure-free bytes (Compiler: byte-identical or execution-equivalent).",
}
MODS = ["AsmjitVerif.Props.C15"]
WRAP = "-Wl,--wrap=malloc,--wrap=realloc,--wrap=free,--wrap=mmap,--wrap=munmap,--wrap=mprotect,--wrap=shm_open," \
       "--wrap=ftruncate,--wrap=ftruncate64,--wrap=close,--wrap=syscall"

QUICK_WL = ["asm", "a64", "build", "comp", "jit", "jitdual", "cont", "asmretry", "asmbig", "buildbig", "compbig", "jitpools", "buildretry",
            "arenahist", "arenareuse", "compcf", "compa64"]
THOROUGH_WL = QUICK_WL
CLASSES = ("arena", "heap", "vm")


def generate():
    """Gen/ files this property's Lean imports: the hash prime table (shared with C18)."""
    import gen_primes
    vlib.gen_write("AsmjitVerif/Gen/HashPrimes.lean", gen_primes.render(gen_primes.collect(vlib.REPO)))


def harness():
    return vlib.build_harness("c15", link_flags=[WRAP])


# ------------------------------------------------------------------------------------------------
# PART 2: operations with fault masks (model correspondence + spec monitor)
# ------------------------------------------------------------------------------------------------

PATS = ["".join("%02x" % ((i * 7 + 3) & 255) for i in range(64)), "".join("%02x" % (i % 8 + 16) for i in range(64)),
        "".join("%02x" % (200 + i % 4) for i in range(64)), "".join("%02x" % ((i * i + 1) & 255) for i in range(64))]
NAMES = ["61", "6162", "2e64617461", "6c6f63", "67" * 12, "7a" * 40, "-"]


def gen_session(rng, n):
    ops = ["o reset", "o 0 mklabels"]
    nsec = 1
    for _ in range(n):
        r = rng.random()
        mask = 0
        m = rng.random()
        if m < 0.45:
            mask = 1 << rng.randrange(0, 4)
        elif m < 0.6:
            mask = rng.randrange(0, 16)
        if r < 0.07:
            # ConstPool::add: nested patterns so that gaps, gap recycling and shared sub-constants occur
            base = PATS[rng.randrange(len(PATS))]
            size = rng.choice((1, 2, 4, 8, 16, 32, 64, 3))
            pos = rng.randrange(0, max(1, 64 // size)) * size
            ops.append("o %x padd %s" % (rng.choice((0, 0, 1, 2, 4, 8, 3, 6, 12, rng.randrange(0, 256))), base[2 * pos:2 * (pos + size)]))
        elif r < 0.14:
            nm = rng.choice(NAMES)
            al = rng.choice((0, 1, 2, 4, 8, 16, 64, 3, 4096))
            ops.append("o %x sec %s %d %d" % (mask, nm, al, rng.choice((0, 0, 1, -1, 5, -5, 2147483647, -2147483648))))
            nsec += 1
        elif r < 0.24:
            ops.append("o %x label" % mask)
        elif r < 0.44:
            ty = rng.choice((0, 1, 2, 2, 2, 3, 4))
            parent = rng.choice((4294967295, 4294967295, 0, 1, 2, 50))
            ops.append("o %x named %s %d %d" % (mask, rng.choice(NAMES + ["%02x%02x" % (97 + rng.randrange(26), 97 + rng.randrange(26))] * 4), ty, parent))
        elif r < 0.52:
            ops.append("o %x reloc %d" % (mask, rng.randrange(1, 5)))
        elif r < 0.62:
            ops.append("o %x expr" % mask)
        elif r < 0.70:
            ops.append("o %x fixup" % mask)
        elif r < 0.74:
            ops.append("o 0 unfix")
        elif r < 0.82:
            ops.append("o %x addr %x" % (mask, rng.choice((0x1234, 0x5678, 0x9abc, rng.randrange(1, 1 << 40)))))
        elif r < 0.86:
            ops.append("o %x emit %d %d" % (mask & 1, rng.randrange(0, nsec + 1), rng.choice((1, 4, 100, 5000, 9000, 20000))))
        elif r < 0.90:
            ops.append(rng.choice(("o %x inst %d %d" % (mask & 1, rng.randrange(0, nsec + 1), rng.randrange(0, 4)),
                                   "o %x jmpf %d" % (mask & 3, rng.randrange(0, nsec + 1)))))
        elif r < 0.95:
            ops.append(rng.choice(("o %x vapp %d" % (mask & 1, rng.randrange(0, 1000)), "o %x vres %d" % (mask & 1, rng.choice((1, 3, 10, 100))))))
        else:
            ops.append("o %x sapp %d %d" % (mask & 1, rng.choice((0, 1, 10, 29, 31, 40)), 65 + rng.randrange(26)))
    return ops


def gen_retry_session(rng, n):
    """every operation first with each single-request fault, then without faults (the caller's retry protocol)"""
    base = [o for o in gen_session(rng, n)[2:]]
    ops = ["o reset", "o 0 mklabels"]
    for o in base:
        w = o.split()
        for bit in range(rng.choice((1, 2, 4, 5))):
            ops.append("o %x %s" % (1 << bit, " ".join(w[2:])))
        ops.append("o 0 " + " ".join(w[2:]))
    return ops


def asm_program(rng, big):
    """the shape of the assembler workload as operation bodies: sections, labels, named labels, instructions, forward jumps,
    data, label-delta expressions, absolute targets (relocation + address table), buffers that have to grow"""
    P = ["mklabels", "sec 2e64617461 16 0", "sec 2e726f64617461 8 1"]
    for i in range(4 if not big else 10):
        P.append("label")
    P += ["named 656e7472795f706f696e74 2 4294967295", "named 6c6f63 1 2", "named 616e6f6e 0 4294967295"]
    for i in range(3 if not big else 12):
        P.append("named %02x%02x 2 4294967295" % (103, 48 + i))
    for i in range(10 if not big else 40):
        P.append("inst 0 %d" % rng.randrange(0, 4))
        if i % 3 == 0:
            P.append("jmpf 0")
    P += ["reloc 2", "addr 123456789abc", "reloc 2", "addr 7fff12345678", "reloc 2", "addr 123456789abc"]
    P += ["emit 1 12", "reloc 1", "fixup", "emit 1 8", "expr", "emit 2 8", "expr", "jmpf 1"]
    if big:
        P += ["emit 1 5000"] * 4 + ["emit 0 9000", "inst 0 1", "emit 2 20000", "jmpf 2"]
    P += ["unfix", "jmpf 0", "inst 0 2"]
    return P


def program_sweep(h, P, rng, limit):
    """every allocation request of the program fails once (the failed operation is then repeated with memory available): the
    sessions for the model correspondence; returns (ops, expected final view)"""
    clean = ["o reset"] + ["o 0 " + b for b in P]
    impl, rc, err = vlib.run_lines([str(h)], clean)
    if rc != 0 or len(impl) != len(clean):
        return clean, None
    ns = []
    for a in impl:
        m = re.search(r" n=(\d+)", a)
        ns.append(int(m.group(1)) if m else 0)
    points = [(i, j) for i in range(1, len(clean)) for j in range(ns[i])]
    if len(points) > limit:
        points = sorted(rng.sample(points, limit))
    ops = list(clean)
    for (i, j) in points:
        body = P[i - 1]
        ops += ["o reset"] + ["o 0 " + b for b in P[:i - 1]] + ["o %x %s" % (1 << j, body), "o 0 " + body] + ["o 0 " + b for b in P[i:]]
    return ops, impl[-1].split(" | ")[1] if " | " in impl[-1] else None


def gen_builder_session(rng, n):
    ops = ["b reset"]
    labels = 0
    for _ in range(n):
        r = rng.random()
        m = rng.random()
        mask = (1 << rng.randrange(0, 3)) if m < 0.45 else (rng.randrange(0, 8) if m < 0.6 else 0)
        if r < 0.30:
            # one-shot state first (extra register = {k} mask or a GP count register, options, inline comment), then the instruction
            q = rng.random()
            if q < 0.35:
                ops.append("b 0 setextra %d" % rng.choice((1, 2, 3, 7, 17)))
            if 0.25 < q < 0.5:
                ops.append("b 0 setopts %d" % rng.choice((1, 2, 3)))
            if q > 0.7:
                ops.append("b 0 setcmt")
            ops.append("b %x emit %d" % (mask, rng.choice((0, 1, 2, 3, 4, 5, 7))))
        elif r < 0.45:
            ops.append("b %x newlabel" % mask)
            labels += 1
        elif r < 0.55:
            ops.append("b %x clabel" % mask)
            labels += 1
        elif r < 0.72:
            ops.append("b %x bind %d" % (mask, rng.randrange(0, labels + 2)))
        elif r < 0.78:
            ops.append("b %x align %d" % (mask, rng.choice((1, 4, 16, 64))))
        elif r < 0.86:
            ops.append("b %x embed %d" % (mask, rng.choice((0, 1, 8, 100, 3000))))
        elif r < 0.93:
            ops.append("b %x elabel %d" % (mask, rng.randrange(0, labels + 2)))
        else:
            ops.append("b %x comment %d" % (mask, rng.choice((0, 0, 1, 5, 40))))
    return ops


def gen_compiler_session(rng, n):
    """never calls add_func while a function is open (the model's `end_func` is tied for such histories only)"""
    ops = ["c reset"]
    isopen = False
    for _ in range(n):
        r = rng.random()
        m = rng.random()
        mask = (1 << rng.randrange(0, 8)) if m < 0.5 else (rng.randrange(0, 256) if m < 0.6 else 0)
        if r < 0.30:
            ops.append("c %x reg %d" % (mask & 7, rng.randrange(0, 2)))
        elif r < 0.50:
            if isopen:
                ops.append("c 0 endfunc")
                isopen = False
            else:
                ops.append("c %x func %d" % (mask, rng.choice((0, 1, 2, 4))))
                ops.append("c 0 func 0" if False else ops.pop())
                # whether it opened is only known from the answer: close defensively before the next func
                isopen = None
        elif r < 0.60:
            ops.append("c 0 endfunc")
            isopen = False
        elif r < 0.80:
            q = rng.random()
            if q < 0.4:
                ops.append("c 0 setextra %d" % rng.choice((1, 2, 7, 17)))
            if 0.3 < q < 0.5:
                ops.append("c 0 setopts %d" % rng.choice((1, 2, 3)))
            ops.append("c %x emit %d" % (mask & 1, rng.choice((0, 1, 3, 4, 5))))
        else:
            if rng.random() < 0.3:
                ops.append("c 0 setextra %d" % rng.choice((1, 3)))
            ops.append("c %x invoke %d" % (mask & 3, rng.choice((0, 1, 3))))
        if isopen is None:
            # a faulted func may or may not have opened a function: an `endfunc` answers InvalidState in the latter case
            ops.append("c 0 endfunc")
            isopen = False
    return ops


def jit_session(rng, n):
    """allocs with fault masks; `release <i>` of a span ordinal (both sides answer `precond` when it does not exist / is gone)"""
    ops = ["j reset %d" % rng.choice((0, 1, 2, 3, 4, 16, 18, 17))]
    for _ in range(n):
        if rng.random() < 0.75:
            m = rng.random()
            mask = (1 << rng.randrange(0, 5)) if m < 0.4 else (rng.randrange(0, 32) if m < 0.5 else 0)
            ops.append("j %x alloc %d" % (mask, rng.choice((0, 1, 64, 100, 3000, 70000, 131000, 200000, 300000))))
        else:
            ops.append("j 0 release %d" % rng.randrange(0, 8))
    return ops


def gen_jit_session(rng, n):
    ops = ["j reset %d" % rng.choice((0, 1, 2, 3, 4, 16, 18, 1 | 16))]
    spans = 0
    live = []
    for _ in range(n):
        r = rng.random()
        if r < 0.75 or not live:
            m = rng.random()
            mask = (1 << rng.randrange(0, 5)) if m < 0.4 else (rng.randrange(0, 32) if m < 0.5 else 0)
            ops.append("j %x alloc %d" % (mask, rng.choice((0, 1, 64, 100, 3000, 70000, 131000, 200000, 300000))))
            # whether a span was created is only known from the answer; ordinals are assigned by successful allocs only
            ops.append("#maybe")
        else:
            ops.append("#release")
    return ops


def materialise_jit(h, ops):
    """`#maybe` / `#release` markers need the answers: run the session once on the real allocator to learn which allocs succeeded"""
    out = []
    cur = []
    spans = 0
    live = []
    for o in ops:
        if o == "#maybe" or o == "#release":
            continue
        out.append(o)
    return out


ONESHOT_CARRIERS = [(["setextra 1"], 4), (["setextra 2"], 5), (["setextra 7", "setcmt"], 4), (["setopts 2"], 7),
                    (["setextra 3", "setcmt"], 5), (["setopts 2", "setcmt"], 7), (["setcmt"], 4)]
ONESHOT_FOLLOWERS = [5, 4, 7, 1, 3]


def oneshot_stage(res, h, rng, dist):
    """an instruction that carries one-shot state (write mask k(kN), a count register, lock/rep, an inline comment) and whose
    `_emit` fails for every request index; then a DIFFERENT plain instruction is emitted and the Builder is serialized: the bytes
    must be those of the failure-free run of the remaining calls (when the failed call answered out of memory) or of the full
    failure-free run (when the failure was tolerated: the comment copy)"""
    sessions = []
    for sets, x in ONESHOT_CARRIERS:
        for y in ONESHOT_FOLLOWERS:
            if y == x:
                continue
            prefix = ["b 0 emit %d" % rng.choice((0, 1, 3)) for _ in range(rng.randrange(0, 3))]
            nreq = 2 if "setcmt" in sets else 1
            for j in range(nreq):
                fail = ["b reset"] + prefix + ["b 0 " + t for t in sets] + ["b %x emit %d" % (1 << j, x), "b 0 emit %d" % y, "b 0 ser"]
                rest = ["b reset"] + prefix + ["b 0 emit %d" % y, "b 0 ser"]
                full = ["b reset"] + prefix + ["b 0 " + t for t in sets] + ["b 0 emit %d" % x, "b 0 emit %d" % y, "b 0 ser"]
                sessions.append((fail, rest, full))
    lines = [l for f, r, u in sessions for l in f + r + u]
    out, rc, err = vlib.run_lines([str(h)], lines)
    if rc != 0 or len(out) != len(lines):
        k, tail = vlib.locate_abort([str(h)], lines)
        res.violation("the real code crashed in the one-shot-state sessions: %s" % tail[-500:], {"ops": lines[max(0, k - 8):k + 1]},
                      found_input=True, key="crash:oneshot")
        return 0
    pos = 0
    n = 0
    for f, r, u in sessions:
        of, orr, ou = out[pos:pos + len(f)], out[pos + len(f):pos + len(f) + len(r)], out[pos + len(f) + len(r):pos + len(f) + len(r) + len(u)]
        pos += len(f) + len(r) + len(u)
        n += 1
        failed = of[-3].startswith("OutOfMemory")
        expect = orr[-1] if failed else ou[-1]
        if of[-1] != expect or not of[-1].startswith("ser ok"):
            res.violation("one-shot state of a failed _emit leaks into the next instruction: after `%s` answered %s the serialized code is %s, "
                          "the failure-free run of the %s gives %s" % (f[-3], of[-3].split(" |")[0], of[-1][:120],
                                                                       "remaining calls" if failed else "same calls", expect[:120]),
                          {"ops": f}, found_input=True, key="ops:oneshot")
            break
    dist["oneshot_sessions"] = n
    return n


def split_sessions(ops):
    out, cur = [], []
    for o in ops:
        if (o in ("o reset", "b reset", "c reset") or o.startswith("j reset")) and cur:
            out.append(cur)
            cur = []
        cur.append(o)
    if cur:
        out.append(cur)
    return out


def mon_lines(ops, impl):
    return [("mb " if o.startswith("b ") else "mc " if o.startswith("c ") else "mj " if o.startswith("j ") else "m ") + o[2:] + " => " + a
            for o, a in zip(ops, impl)]


def ops_stage(res, h, ops, dist):
    """returns True when everything is fine"""
    impl, rc, err = vlib.run_lines([str(h)], ops)
    if rc != 0 or len(impl) != len(ops):
        k, tail = vlib.locate_abort([str(h)], ops)
        sess = [s for s in split_sessions(ops[:k + 1])][-1]

        def crashes(c):
            o, r, _ = vlib.run_lines([str(h)], c)
            return r != 0
        small = vlib.ddmin(sess, crashes, 120) if crashes(sess) else sess
        res.violation("the real code crashed / was reported by a sanitizer under an injected allocation failure: %s" % tail[-600:],
                      {"ops": small}, found_input=True, key="crash:ops")
        return False
    # JitAllocator lines: which errno-derived error a failed mmap / memfd_create / ftruncate becomes is not modelled
    for a in impl:
        m0 = re.match(r"fail:(\S+)", a)
        if m0:
            dist["answers"]["jit-fail:" + m0.group(1)] = dist["answers"].get("jit-fail:" + m0.group(1), 0) + 1
    impl = [re.sub(r"^fail:\S+", "fail", a) for a in impl]
    model, rc2, err2 = vlib.run_model("C15", ops)
    mon, rc3, _ = vlib.run_model("C15", mon_lines(ops, impl))
    for o, a in zip(ops, impl):
        w = o.split()
        kind = w[2] if len(w) > 2 else w[1]
        e = a.split()[0]
        dist["ops"][kind] = dist["ops"].get(kind, 0) + 1
        dist["answers"][e] = dist["answers"].get(e, 0) + 1
        m = re.search(r" n=(\d+)", a)
        if m:
            dist["requests_per_op"][m.group(1)] = dist["requests_per_op"].get(m.group(1), 0) + 1
    ok = True
    bad = [i for i, m in enumerate(mon) if m != "good"]
    if bad or len(mon) != len(ops):
        i = bad[0] if bad else len(mon)
        sess_start = max(j for j in range(i + 1) if ops[j] in ("o reset", "b reset", "c reset") or ops[j].startswith("j reset"))
        sess = ops[sess_start:i + 1]

        def is_bad(c):
            im, r, _ = vlib.run_lines([str(h)], c)
            if r != 0 or len(im) != len(c):
                return True
            mo, _, _ = vlib.run_model("C15", mon_lines(c, im))
            return any(x != "good" for x in mo)
        small = vlib.ddmin(sess, is_bad, 150) if is_bad(sess) else sess
        res.violation("monitor (Spec/Fault.lean specStep): %s | op: %s" % (mon[i] if i < len(mon) else "no answer", ops[i]),
                      {"ops": small}, found_input=True, key="ops:" + (ops[i].split()[2] if len(ops[i].split()) > 2 else "reset"))
        ok = False
    d = vlib.first_diff(impl, model)
    # a correspondence difference is reported unless a monitor violation at or before that line already explains it
    if d is not None and (not bad or d < bad[0]):
        sess_start = max(j for j in range(d + 1) if ops[j] in ("o reset", "b reset", "c reset") or ops[j].startswith("j reset"))
        res.violation("correspondence: model and real code differ at op %r: impl=%s model=%s (the monitor accepts the real code's answers)" % (
            ops[d], impl[d][:300] if d < len(impl) else "-", model[d][:300] if d < len(model) else "-"),
            {"ops": ops[sess_start:d + 1], "correspondence": "Model/Fault.lean step vs harness/c15.cpp ops_step"}, found_input=False, key="corr")
        ok = False
    if any("CORRUPT" in m for m in model):
        res.violation("model: append_unchecked without capacity", {"ops": ops}, found_input=False, key="obligation")
        ok = False
    return ok


# ------------------------------------------------------------------------------------------------
# PART 1: workloads
# ------------------------------------------------------------------------------------------------

def parse_counts(line):
    m = re.match(r"n (\S+) arena=(\d+) heap=(\d+) vm=(\d+) err=(\S+) out=(\S+) exec=(\S+) leak=(\d+)", line)
    if not m:
        return None
    return {"w": m.group(1), "arena": int(m.group(2)), "heap": int(m.group(3)), "vm": int(m.group(4)), "err": m.group(5), "leak": int(m.group(8))}


def sweep_lines(w, counts, rng, tier):
    lines = []
    for cls in CLASSES:
        n = counts[cls]
        ks = list(range(n))
        cap = 700 if tier == "quick" else 100000
        if len(ks) > cap:      # quick: every request of the first 150, then a seeded sample
            ks = ks[:150] + sorted(rng.sample(ks[150:], cap - 150))
        lines += ["fault %s %s %d" % (w, cls, k) for k in ks]
        # pairs: a second failure after the first one (only reached when the first is tolerated or the work is repeated)
        for _ in range(min(n, 6 if tier == "quick" else 40)):
            a = rng.randrange(n)
            b = rng.randrange(n)
            if a != b:
                lines.append("fault %s %s %d %d" % (w, cls, min(a, b), max(a, b)))
    for i in range(40 if tier == "quick" else 300):
        lines.append("multi %s %d %d" % (w, rng.randrange(1, 1 << 30), rng.choice((2, 5, 10, 20, 50, 100, 300))))
    return lines


SHAPES = {"comp": "RALocalAllocator::init", "compbig": "RALocalAllocator::init", "compcf": "RALocalAllocator::init",
          "compa64": "RALocalAllocator::init"}


def shape_requests(h, w, needle=None):
    """ordinals of the arena requests made inside the function named in SHAPES (symbolised call stacks)"""
    if w not in SHAPES:
        return []
    needle = needle or SHAPES[w]
    out, rc, err = vlib.run_lines([str(h)], ["where %s %s" % (w, needle)])
    m = re.search(r" k=([\d,]*)$", out[0]) if out else None
    return [int(x) for x in m.group(1).split(",") if x] if m else []


def run_workload(res, h, w, rng, tier, dist):
    out, rc, err = vlib.run_lines([str(h)], ["count " + w])
    c = parse_counts(out[0]) if out else None
    if rc != 0 or c is None or c["err"] != "ok" or c["leak"] != 0:
        res.violation("workload %s does not run cleanly WITHOUT injected failures: %s %s" % (w, out[:1], err[-400:]),
                      {"ops": ["count " + w]}, found_input=True, key="clean:" + w)
        return 0
    dist["requests"][w] = {k: c[k] for k in CLASSES}
    lines = sweep_lines(w, c, rng, tier)
    must = shape_requests(h, w)
    if w in SHAPES:
        dist["shapes"]["%s: arena requests inside %s" % (w, SHAPES[w])] = len(must)
        have = set(lines)
        lines += [l for l in ("fault %s arena %d" % (w, k) for k in must) if l not in have]
        if not must:
            res.violation("the workload %s no longer reaches %s (generator shape lost)" % (w, SHAPES[w]), {"ops": ["where %s %s" % (w, SHAPES[w])]},
                          found_input=False, key="corr")
    if w in SHAPES:
        # a register's home slot whose creation fails is created again on the next spill: only a SECOND failure shortly
        # afterwards reaches the code that needs the slot - pairs (k, k + d) for every request of `_create_stack_slot`
        slots = shape_requests(h, w, "_create_stack_slot")
        dist["shapes"]["%s: arena requests inside _create_stack_slot" % w] = len(slots)
        for k in slots:
            lines += ["fault %s arena %d %d" % (w, k, k + d) for d in range(1, 13)]
    if w == "jitdual":
        dist["shapes"]["jitdual: vm requests (memfd_create, ftruncate, 2 x mmap per block)"] = c["vm"]
    if w == "arenareuse":
        dist["shapes"]["arenareuse: malloc requests (5 leftovers 16..2040: first block + the block alloc_reusable needs after pooling the leftover)"] = c["heap"]
    if w == "arenahist":
        dist["shapes"]["arenahist: malloc requests (3 growth blocks, replacement after soft reset, dynamic block)"] = c["heap"]
    pos = 0
    recs = []
    done_lines = []
    while pos < len(lines):
        chunk = lines[pos:]
        out, rc, err = vlib.run_lines([str(h)], chunk, env={"VH_FLUSH": "1"})
        recs += out
        done_lines += chunk[:len(out)]
        if rc != 0 and len(out) < len(chunk):
            bad = chunk[len(out)]
            tail = "\n".join(x for x in err.splitlines() if "ERROR" in x or "SUMMARY" in x or "runtime error" in x or "C15-CORRUPTION" in x or
                             re.match(r"\s+#[0-3] ", x))
            res.violation("crash / sanitizer report under injected allocation failure in `%s`: %s" % (bad, tail[-700:]),
                          {"ops": [bad]}, found_input=True, key="crash:" + w)
            dist["crashes"] = dist.get("crashes", 0) + 1
            pos += len(out) + 1
            if dist["crashes"] > 25:
                break
        elif rc != 0:
            # all lines answered but the process reported something at exit (LeakSanitizer)
            res.violation("sanitizer report at exit after the fault sweep of workload %s: %s" % (w, err[-700:]),
                          {"ops": chunk[:200]}, found_input=True, key="leak:" + w)
            pos = len(lines)
        else:
            pos = len(lines)
    if not recs:
        res.violation("workload %s: no fault-injected run produced a record" % w, {"ops": lines[:3]}, found_input=False, key="empty:" + w)
        return 0
    if tier == "thorough":
        # double / mixed faults: a reported failure ends the work, so only a TOLERATED first failure can expose a second one -
        # every pair (k1 tolerated, k2 > k1) of arena requests, and every tolerated arena failure with every heap request
        T = []
        for l, r in zip(done_lines, recs):
            w_ = l.split()
            if l.startswith("fault") and len(w_) == 4 and w_[2] == "arena" and " err=ok " in r and " fired=0 " not in r:
                T.append(int(w_[3]))
        extra = ["fault %s arena %d %d" % (w, a, b) for a in T for b in range(a + 1, c["arena"] + 3)]
        if len(extra) > 9000:
            extra = sorted(rng.sample(extra, 9000))
        extra += ["fault %s arena %d heap %d" % (w, a, hk) for a in T for hk in range(c["heap"] + 1)]
        dist["tolerated_first_pairs"] = dist.get("tolerated_first_pairs", 0) + len(extra)
        pos = 0
        while pos < len(extra):
            chunk = extra[pos:]
            out, rc, err = vlib.run_lines([str(h)], chunk, env={"VH_FLUSH": "1"})
            recs += out
            done_lines += chunk[:len(out)]
            if rc != 0 and len(out) < len(chunk):
                bad = chunk[len(out)]
                tail = "\n".join(x for x in err.splitlines() if "ERROR" in x or "SUMMARY" in x or "runtime error" in x)
                res.violation("crash / sanitizer report under injected allocation failures in `%s`: %s" % (bad, tail[-700:]),
                              {"ops": [bad]}, found_input=True, key="crash:" + w)
                pos += len(out) + 1
            else:
                pos = len(extra)
    mon, _, _ = vlib.run_model("C15", recs)
    if len(mon) != len(recs):
        res.violation("workload %s: the monitor answered %d of %d records" % (w, len(mon), len(recs)), {"ops": done_lines[:3]},
                      found_input=False, key="corr")
    fired_by_class = dist["fired"]
    for line, r, m in zip(done_lines, recs, mon):
        f = dict(x.split("=", 1) for x in r.split() if "=" in x)
        cls = line.split()[2] if line.startswith("fault") else "multi"
        fired_by_class[cls] = fired_by_class.get(cls, 0) + int(f.get("fired", "0"))
        e = f.get("err", "?")
        key = "%s:%s" % (cls, e)
        dist["outcomes"][key] = dist["outcomes"].get(key, 0) + 1
        if e == "ok" and int(f.get("fired", "0")) > 0:
            kind = "tolerated-same-bytes" if f.get("out") == f.get("clean") else "tolerated-equivalent-by-execution"
            dist["tolerated"][kind] = dist["tolerated"].get(kind, 0) + 1
        if m != "good":
            res.violation("monitor (Spec/Fault.lean runGood) on `%s`: %s | %s" % (line, m, r[:400]), {"ops": [line]}, found_input=True,
                          key="run:" + w)
    if len(res.coverage["samples"]) < 6 and recs:
        res.add_samples([{"line": done_lines[0], "record": recs[0][:300]}])
    return len(recs)


# ------------------------------------------------------------------------------------------------

def run(res):
    rng = vlib.rng_for(res.seed, PID)
    res.assumptions += [
        "arena abstracted to succeed-or-fail per request in the model (arena internals under failing malloc: C18 arena_safe)",
        "modelled and proved: new_section, new_label_id, new_named_label_id, new_reloc_entry, new_fixup/pool, add_address_to_address_table, "
        "embed_label_delta expression branch, grow_buffer/embed, ArenaVector<uint32> append/reserve_additional, String::append_chars",
        "fault-tested only (not modelled): Builder/Compiler/RA internals, assembler emit paths, JitAllocator/VirtMem, ConstPool.add, ArenaHash, "
        "ArenaBitSet, ArenaPool; Compiler results judged by byte equality or by executing the code on 6 inputs",
        "vm class = mmap/mprotect/shm_open/ftruncate and memfd_create (through --wrap=syscall) ; one-time probes of VirtMem run before the sweeps",
        "vector sizes < 2^32, buffers < 16 MiB in the model",
    ]
    generate()
    ok, out = vlib.lean_stage(res, PID, MODS)
    h = harness()
    dist = {"ops": {}, "answers": {}, "requests_per_op": {}, "requests": {}, "outcomes": {}, "tolerated": {}, "fired": {}, "shapes": {}}
    res.coverage["input_distribution"] = dist
    # ---- PART 2
    nsess = 240 if res.tier == "quick" else 2400
    ops = []
    for i in range(nsess):
        ops += gen_session(rng, rng.choice((10, 25, 45))) if i % 3 else gen_retry_session(rng, rng.choice((6, 12)))
        if i % 4 == 0:
            ops += gen_builder_session(rng, rng.choice((15, 40)))
        if i % 4 == 2:
            ops += gen_compiler_session(rng, rng.choice((15, 40)))
        if i % 8 == 1:
            ops += jit_session(rng, rng.choice((10, 25)))
    ops_ok = ops_stage(res, h, ops, dist)
    # the assembler workload's shape at the level of the model: every request of the program fails once, the failed call is
    # repeated; model = real code on every line, and every session must end in the failure-free state (runRetry_eq_specRun)
    for big in ((False,) if res.tier == "quick" else (False, True)):
        P = asm_program(rng, big)
        pops, final = program_sweep(h, P, rng, 60 if res.tier == "quick" else 400)
        ops_stage(res, h, pops, dist)
        impl2, rc2, _ = vlib.run_lines([str(h)], pops)
        ends = [i for i, o in enumerate(pops) if o == "o reset"][1:] + [len(pops)]
        bad_end = [e for e in ends if final is None or e - 1 >= len(impl2) or (impl2[e - 1].split(" | ") + ["", ""])[1] != final]
        dist["program_sweep_sessions"] = dist.get("program_sweep_sessions", 0) + len(ends)
        if bad_end and not any(v["found_input"] for v in res.violations):
            e = bad_end[0]
            st = max(i for i in range(e) if pops[i] == "o reset")
            res.violation("after a failed call was repeated the program does not end in the failure-free state", {"ops": pops[st:e]},
                          found_input=True, key="ops:program")
        ops += pops
    oneshot_stage(res, h, rng, dist)
    if not ops or sum(dist["ops"].values()) == 0:
        res.violation("empty run: no operation line was executed", {"ops": ops[:5]}, found_input=False, key="empty")
    # ---- PART 1
    n_runs = 0
    for w in (QUICK_WL if res.tier == "quick" else THOROUGH_WL):
        n_runs += run_workload(res, h, w, rng, res.tier, dist)
    if n_runs == 0:
        res.violation("empty run: no fault-injected workload run was executed", {"ops": []}, found_input=False, key="empty")
    if not ok:
        bf = getattr(res, "build_failures", [])
        found = any(v["found_input"] for v in res.violations)
        res.violation("proof obligations no longer check: %s" % ", ".join("%s (%s:%s)" % (b["decl"], b["file"], b["line"]) for b in bf[:8]) or out[-800:],
                      {"failed_obligations": bf, "searched": "ops sessions %d lines, workload runs %d: %s" % (
                          len(ops), n_runs, "failing input found (see other replays)" if found else "monitor good everywhere")},
                      found_input=False, key="obligation")
    res.coverage["evaluations"] = len(ops) + n_runs
    res.coverage["distinct_nontrivial"] = len({o for o in ops if not o.startswith("o 0 ") and o != "o reset"}) + sum(dist["fired"].values())
    res.coverage["rule"] = ("distinct (operation, fault mask) lines with at least one failing request + number of injected failures that actually fired "
                            "in workload runs (quick: every request index of 13 workloads up to 700 per class + pairs + 40 random multi-failure runs each; thorough: 2400 sessions, 300 multi-failure runs and 40 pairs per workload and class)")
    res.coverage["traces_validated_against_impl"] = len(split_sessions(ops)) + n_runs
    res.coverage["exhaustive"] = False


def replay(data):
    h = harness()
    ops = data["replay"].get("ops")
    if not ops:
        print("replay without ops: %s" % str(data["replay"])[:600])
        return 1
    impl, rc, err = vlib.run_lines([str(h)], ops)
    if rc != 0 or len(impl) != len(ops):
        print("REPRODUCED: crash / sanitizer report\n" + err[-1500:])
        return 1
    lines = mon_lines(ops, impl) if ops[0].startswith("o ") else impl
    mon, _, _ = vlib.run_model("C15", lines)
    for o, a, m in zip(ops, impl, mon):
        print("%s -> %s [%s]" % (o, a[:300], m))
    return 1 if any(m != "good" for m in mon) else 0
