"""C02 - AArch64 assembler emits a correct encoding of every instruction it accepts (DESIGN.md section 6, C02)."""
import re
import shlex

import vlib
import gen_a64

PID = "C02"
MANIFEST = {
    "technique": "Lean 4: hand model of a64::Assembler::_emit per encoding class + an ISA-database-driven decoder spec (regenerated from "
                 "db/isa_aarch64.json) + class theorems (bv_decide field packing, decide over regenerated table rows); tie = C++ harness vs compiled "
                 "Lean model on the same emit lines; every answer of the real assembler is judged by the Lean monitor",
    "text": "Every instruction the real assembler accepts in a sweep of all database forms x boundary operands (register ids incl. SP/ZR and "
            "invalid ids, shifts/extends, immediates at their limits, every addressing mode with boundary offsets, PC-relative targets) must be "
            "described by a database form of its mnemonic: template bits, register fields, and the operand semantics of Spec/A64Decode.lean. "
            "For the modelled encoding classes Lean proves for all operands that an accepted instruction is described by the generated database "
            "form (soundness) and the model is tied to the C++ by correspondence.",
    "note": "Trusted: Lean kernel + bv_decide certificates; db/index.js + tools/gen_a64.py (database syntax -> OpSpec); Spec/A64Decode.lean as the "
            "meaning of fields; tools/a64db_errata.json (database rows that contradict the Arm ARM, each vetted with llvm-mc-14). Forms with "
            "arrangement/element-index/system-operation operands are judged on template + register fields only (partial; counted in the evidence). "
            "Classes without a hand model are covered by the monitor sweep only (testing).",
}
MODS = ["AsmjitVerif.Props.C02", "AsmjitVerif.Props.C02E2E", "AsmjitVerif.Props.C02Valid", "AsmjitVerif.Props.C02Mov", "AsmjitVerif.Props.C02Bits", "AsmjitVerif.Props.C02Wide", "AsmjitVerif.Props.C02Refuse", "AsmjitVerif.Props.C02MemOff", "AsmjitVerif.Props.C02Logical", "AsmjitVerif.Props.C02LdSt", "AsmjitVerif.Props.C02Pair", "AsmjitVerif.Props.C02Rel", "AsmjitVerif.Props.C02Sys", "AsmjitVerif.Props.C02Refuse2", "AsmjitVerif.Props.C02Refuse3", "AsmjitVerif.Props.C02RR", "AsmjitVerif.Props.C02BfAlias"]
M64 = (1 << 64) - 1

GP_IDS_OK = [0, 1, 7, 8, 15, 16, 29, 30]
GP_IDS_EDGE = [31, 63]
IDS_BAD = [32, 33, 40, 62, 64, 95, 255]
VEC_IDS_OK = [0, 1, 7, 8, 15, 16, 30, 31]
ARRS = [(10, 1), (11, 1), (10, 2), (11, 2), (10, 3), (11, 3), (11, 4), (10, 4), (9, 2), (9, 1), (10, 0), (11, 0)]
ARR_NAME = {"8B": (10, 1), "16B": (11, 1), "4H": (10, 2), "8H": (11, 2), "2S": (10, 3), "4S": (11, 3), "2D": (11, 4), "1D": (10, 4),
            "2H": (9, 2), "4B": (9, 1), "1Q": (11, 0), "B": (7, 0), "H": (8, 0), "S": (9, 0), "D": (10, 0)}
ELEM = {"B": 1, "H": 2, "S": 3, "D": 4, "4B": 5, "2H": 6, "2B": 1, "4": 5}


def parse_spec(s):
    return shlex.split(s.strip()[1:-1])


def field_width(form, name):
    w = 0
    for n, pieces in form["fields"]:
        if n == name:
            for pos, frm, size in pieces:
                w = max(w, frm + size)
    return w


def reg(rt, rid, et=None, idx=None):
    s = "r%d.%d" % (rt, rid)
    if et is not None or idx is not None:
        s += ".%d" % (et or 0)
    if idx is not None:
        s += ".%d" % idx
    return s


def imm(v, pred=0):
    return "i%x" % (v & M64) + (".%d" % pred if pred else "")


def mem(base=1, bt=6, it=0, iid=0, sop=0, sh=0, mode=0, off=0):
    return "m%d.%d.%d.%d.%d.%d.%d.%x" % (bt, base, it, iid, sop, sh, mode, off & 0xFFFFFFFF)


def logical_values(rng, b64):
    from props import c17
    vals = set()
    for _ in range(6):
        n, s_, r = rng.randrange(2) if b64 else 0, rng.randrange(64), rng.randrange(64)
        v = c17.decode_bit_masks(n, s_, r)
        if v is not None:
            v &= M64 if b64 else 0xFFFFFFFF
            vals.add(v)
            vals.add(v ^ (1 << rng.randrange(64 if b64 else 32)))
    m = M64 if b64 else 0xFFFFFFFF
    vals |= {0, m, 1, m - 1, 0x5555555555555555 & m, 0xFF00FF00FF00FF00 & m, 0x7FFFFFFF, 0x80000000, 0xFFFFFFFF, 0x100000000, rng.getrandbits(64)}
    return sorted(vals)


def candidates(form, k, rng, pos):
    """(default operand tokens, list of alternative token lists) for spec k of the form; a spec may produce 0..2 tokens"""
    sp = parse_spec(form["ops"][k])
    kind = sp[0]
    src = form["opsrc"][k]
    if (kind in (".vany", ".velem") and int(sp[2]) > 0) or kind == ".gpNext":
        delta = int(sp[3]) if kind == ".gpNext" else int(sp[2])
        head = k - delta
        hd, _ = candidates(form, head, rng, pos)
        a = hd[0][1:].split(".")
        base = int(a[1])
        mk = lambda i: "r" + ".".join([a[0], str(i)] + a[2:])
        d = [mk((base + delta) % 32)]
        alts = [[mk((base + delta + x) % 32)] for x in (1, 2, 31)] + [[mk(40)]]
        if kind != ".gpNext":
            alts += [["r%d.%d.%d" % (10 if a[0] == "11" else 11, (base + delta) % 32, int(a[2]) if len(a) > 2 else 1)]]
        return d, alts
    if kind in (".gp", ".gpNext"):
        rts = {"w32": [5], "x64": [6], "any": [6, 5]}[sp[1].lstrip(".")]
        d = [reg(rts[0], 2 + k)]
        alts = [[reg(rt, i)] for rt in rts for i in GP_IDS_OK + GP_IDS_EDGE + IDS_BAD]
        alts += [[reg(11 - rts[0] + 0, 3)], [reg(10, 3)]]      # other width, a vector
        return d, alts
    if kind == ".vscalar":
        rt = int(sp[1])
        return [reg(rt, 2 + k)], [[reg(rt, i)] for i in VEC_IDS_OK + [32, 40, 63, 255]] + [[reg(rt ^ 1 if rt > 7 else 8, 3)], [reg(rt, 3, 2)], [reg(6, 3)]]
    if kind == ".vfixed":
        rt, et = int(sp[1]), int(sp[2])
        return [reg(rt, 2 + k, et)], [[reg(rt, i, et)] for i in VEC_IDS_OK + [32, 40, 63, 255]] + \
            [[reg(a, 3, e)] for a, e in ARRS if (a, e) != (rt, et)][:6] + [[reg(rt, 3, et, 1)]]
    if kind == ".vany":
        m = re.search(r"\.(\w+)", src)
        which = m.group(1) if m else ""
        names = form.get(which) or form.get("t") or ""
        if which in ("ta", "tb") and form.get("tatb"):
            names = " ".join(p.split(".")[0 if which == "ta" else 1] for p in form["tatb"].split() if "." in p)
        arrs = [ARR_NAME[n] for n in names.split() if n in ARR_NAME] or ARRS[:8]
        if which in ARR_NAME:
            arrs = [ARR_NAME[which]]
        d = [reg(arrs[0][0], 2 + k, arrs[0][1])]
        alts = [[reg(a, i, e)] for a, e in arrs for i in (0, 5, 17, 31)] + [[reg(arrs[-1][0], i, arrs[-1][1])] for i in (32, 40, 63)] + \
               [[reg(a, 3, e)] for a, e in ARRS]
        return d, alts
    if kind == ".velem":
        m = re.search(r"\.(\w+)\}?\+?\[", src)
        et = ELEM.get(m.group(1), 2) if m else 2
        alts = [[reg(11, i, et, x)] for i in (0, 7, 15, 16, 31) for x in range(16)]
        alts += [[reg(11, 40, et, 0)], [reg(11, 63, et, 1)]] + [[reg(11, 3, e, 1)] for e in range(1, 7)] + [[reg(10, 3, et, 1)]]
        return [reg(11, 1 + k, et, 0)], alts
    if kind == ".immU":
        w = field_width(form, sp[1])
        sc = int(sp[2])
        mx = (1 << w) - 1
        return [imm(1 * sc)], [[imm(v)] for v in {0, sc, mx * sc, (mx + 1) * sc, mx * sc + 1, mx >> 1, 1, 2, 1 << 31, 1 << 32, (1 << 32) + 1, M64, (1 << 63)}]
    if kind == ".immS":
        w = field_width(form, sp[1])
        h = 1 << (w - 1)
        return [imm(1)], [[imm(v)] for v in (0, 1, h - 1, h, h + 1, -1, -h, -h - 1, 2 * h - 1, 2 * h, 1 << 32, -(1 << 32), (1 << 63))]
    if kind == ".immConst":
        kk = int(sp[1])
        return [imm(kk)], [[imm(v)] for v in (kk, kk + 1, 0, 1, kk + (1 << 32), M64)]
    if kind == ".cond":
        return [imm(2)], [[imm(v)] for v in list(range(18)) + [255, 1 << 32]]
    if kind == ".shift":
        alts = [[imm(a, p)] for p in (0, 1, 2, 3, 4, 5, 6, 9, 13, 15) for a in (0, 1, 31, 32, 63, 64, 1 << 32)]
        return [], alts + [[imm(3, 0)]]
    if kind == ".extend":
        alts = [[imm(a, p)] for p in (0, 1, 6, 7, 8, 9, 10, 11, 12, 13, 14) for a in (0, 1, 4, 5, 1 << 32)]
        return [], alts
    if kind == ".addSubImm":
        vals = (0, 1, 0xFFF, 0x1000, 0x1001, 0x2000, 0xFFF000, 0xFFF001, 0x1000000, 0x800000, M64, 1 << 63, (1 << 32) + 5)
        alts = [[imm(v)] for v in vals] + [[imm(v), imm(s, p)] for v in (0, 1, 0xFFF, 0x1000, 0x5000) for s, p in ((0, 0), (12, 0), (1, 0), (12, 1), (24, 0), (12, 8))]
        return [imm(5)], alts
    if kind == ".logical":
        b64 = sp[2] == "true"
        return [imm(0xFF)], [[imm(v)] for v in logical_values(rng, b64)]
    if kind == ".wide":
        alts = [[imm(v)] for v in (0, 1, 0xFFFF, 0x10000, M64)] + [[imm(v), imm(s, p)] for v in (0, 0x1234, 0xFFFF, 0x10000)
                                                                  for s, p in ((0, 0), (16, 0), (32, 0), (48, 0), (64, 0), (8, 0), (16, 1))]
        return [imm(0x1234)], alts
    if kind == ".bfLsbWidth":
        return [imm(3), imm(4)], [[imm(a), imm(b)] for a in (0, 1, 31, 32, 63, 64, 1 << 32) for b in (0, 1, 2, 31, 32, 33, 63, 64, 65, 1 << 32)]
    if kind == ".shiftAlias":
        return [imm(3)], [[imm(a)] for a in (0, 1, 31, 32, 63, 64, 65, 1 << 32, M64)]
    if kind == ".rel":
        w = field_width(form, sp[1])
        sc = int(sp[2])
        lim = (1 << (w - 1)) * sc
        pc = 0x10000000 + pos
        if sp[3] == "true":
            pc &= ~0xFFF
        offs = {0, sc, -sc, lim - sc, lim, lim + sc, -lim, -lim - sc, -lim + sc, 1, 2, sc // 2 if sc > 1 else 3, lim - 1, 8, -8, 1 << 40}
        return [imm(pc + sc * 2)], [[imm(pc + o)] for o in sorted(offs)] + [["l"]]
    if kind == ".memBase":
        alts = [[mem(base=b)] for b in (0, 7, 30, 31, 63, 32, 40, 255)]
        alts += [[mem(off=8)], [mem(off=0xFFFFFFFF)], [mem(mode=1)], [mem(mode=2)], [mem(mode=1, off=8)], [mem(it=6, iid=2)], [mem(bt=5)], ["a10000040"], ["ml0"]]
        return [mem()], alts
    if kind == ".memOff":
        w = field_width(form, sp[2])
        signed = sp[3] == "true"
        sc = int(sp[4])
        mode = sp[5]
        lim = (1 << (w - 1)) if signed else (1 << w)
        offs = {0, sc, lim * sc - sc, lim * sc, lim * sc + sc, 1, sc + 1, sc // 2 if sc > 1 else 0, -sc, -1, -lim * sc, -lim * sc - sc, -lim * sc + sc,
                lim * sc * 2 - sc, 255, 256, 257, -256, -257, 4095, 4096, 0x7FFFFFFF, -0x80000000, 32760, 32768}
        dm = {".fixed": 0, ".pre": 1, ".post": 2, ".byFields": 0}[mode]
        alts = [[mem(off=o, mode=md)] for o in sorted(offs) for md in ((0, 1, 2) if mode == ".byFields" else (dm,))]
        alts += [[mem(off=sc, mode=md)] for md in (0, 1, 2)]
        alts += [[mem(base=b, off=sc, mode=dm)] for b in (0, 30, 31, 63, 32, 40)]
        alts += [[mem(bt=5, off=sc, mode=dm)], [mem(it=6, iid=2, mode=dm)]]
        return [mem(off=sc, mode=dm)], alts
    if kind == ".memIndex":
        alts = [[mem(it=it, iid=ii, sop=so, sh=sh)] for it in (6, 5) for ii in (2, 30) for so in (0, 8, 12, 13, 9, 1, 6) for sh in (0, 1, 2, 3, 4)]
        alts += [[mem(it=6, iid=ii)] for ii in (31, 63, 40)] + [[mem(base=b, it=6, iid=2)] for b in (31, 63, 40)]
        alts += [[mem(it=6, iid=2, mode=1)], [mem(it=6, iid=2, mode=2)], [mem(it=6, iid=2, off=8)], [mem(it=10, iid=2)]]
        return [mem(it=6, iid=2)], alts
    if kind == ".memLit":
        w = field_width(form, sp[1])
        sc = int(sp[2])
        lim = (1 << (w - 1)) * sc
        pc = 0x10000000 + pos
        offs = {0, sc, -sc, lim - sc, lim, -lim, -lim - sc, 1, 2, lim + sc}
        return ["a%x" % (pc + 8)], [["a%x" % ((pc + o) & M64)] for o in sorted(offs)] + [["ml0"], ["ml8"], ["ml1"], ["a0"], ["a8"], ["a100000008"]]
    if kind == ".memBaseOnly":
        m = re.search(r"#off==?(\d+)(<<sz)?\]@", src) or re.search(r"#(\d+)\]@", src)
        if m:
            o = int(m.group(1))
            d = [mem(mode=2, off=o)]
            alts = [[mem(mode=2, off=x)] for x in (o, o + 1, o * 2, o * 4, o * 8, 0, 1, 2, 3, 4, 6, 8, 12, 16, 24, 32, 48, 64, -o)] + [[mem(mode=md, off=o)] for md in (0, 1)]
        elif "Xm]@" in src:
            d = [mem(mode=2, it=6, iid=2)]
            alts = [[mem(mode=2, it=6, iid=i)] for i in (0, 30, 31, 63, 40)] + [[mem(mode=2, it=5, iid=2)], [mem(mode=0, it=6, iid=2)], [mem(mode=2, it=6, iid=2, sh=1)]]
        else:
            mm = re.search(r"#offS\*(\d+)", src)
            sc = int(mm.group(1)) if mm else 1
            d = [mem(off=sc)]
            alts = [[mem(off=o, mode=md)] for o in (0, sc, -sc, 63 * sc, 64 * sc, -64 * sc, -65 * sc, 1, 255, 256, -256, -257) for md in (0, 1, 2)]
        alts += [[mem(base=b, mode=int(d[0].split(".")[6]), off=int(d[0].split(".")[7], 16))] for b in (0, 30, 31, 63, 32, 40)]
        return d, alts
    # unchecked
    if src.startswith("#") or src.startswith("{"):
        vals = (0, 1, 2, 3, 4, 7, 8, 15, 16, 31, 32, 63, 64, 65, 90, 127, 128, 180, 255, 256, 270, 0xFFFF, 0x10000, 1 << 32, M64)
        alts = [[imm(v)] for v in vals]
        if "lsl" in src or "msl" in src or "sop" in src:
            alts += [[imm(8, 1)], [imm(8, 5)], [imm(16, 0)], [imm(16, 5)], [imm(24, 0)]]
        if "fimm" in src or form["name"] == "fmov":
            alts += [["f3ff0000000000000"], ["f4000000000000000"], ["f0"], ["f3fc0000000000000"], ["f7ff0000000000000"], ["f3ff0000000000001"]]
        return [imm(1)], alts
    if src.startswith("["):
        return [mem()], [[mem(off=o, mode=md)] for o in (0, 8, 16) for md in (0, 1, 2)]
    return [reg(6, 2 + k)], [[reg(6, i)] for i in (0, 30, 31, 63, 40)] + [[reg(5, 2)], [reg(11, 2, 3)], [reg(10, 2)]]


def tok_tag(d, t):
    """what distinguishes operand token t from the valid default d (names the kind of boundary probed)"""
    if d is None or t is None:
        return "opcount"
    if t[0] != d[0] or (t[:2] == "ml") != (d[:2] == "ml"):
        return "kind"
    if t[0] == "r":
        a, b = d[1:].split("."), t[1:].split(".")
        if a[0] != b[0]:
            return "regtype"
        if len(a) != len(b):
            return "elemidx" if max(len(a), len(b)) == 4 else "elemtype"
        if len(a) > 2 and a[2] != b[2]:
            return "elemtype"
        rid = int(b[1])
        if a[1] != b[1]:
            return "id31" if rid == 31 else "id63" if rid == 63 else "id>31" if rid > 31 else "id"
        return "elemidx-value"
    if t[0] == "i":
        a, b = (d[1:] + ".0").split(".")[:2], (t[1:] + ".0").split(".")[:2]
        return "imm-pred" if a[1] != b[1] else "imm"
    if t[0] == "m" and t[:2] != "ml":
        a, b = d[1:].split("."), t[1:].split(".")
        names = ["mem-basetype", "mem-baseid", "mem-index", "mem-index", "mem-shift", "mem-shift", "mem-mode", "mem-off"]
        diff = [names[i] for i in range(8) if a[i] != b[i]]
        return "+".join(sorted(set(diff))) or "same"
    return "other"


def line_tag(dflat, tflat):
    if len(dflat) != len(tflat):
        return "opcount"
    tags = [tok_tag(a, b) for a, b in zip(dflat, tflat) if a != b]
    return "+".join(sorted(set(tags))) or "valid"


# "Design equivalences": operand spellings AsmJit accepts on purpose although the architecture (database / llvm-mc) spells them
# differently.  A rejected line that the monitor accepts after ONE of these respellings gets the stable key
# `enc:<Class>:design:<rule>` (open findings, kept by design); every other failure keeps its exact key, so nothing else hides behind them.
def design_respellings(line, name, name2ids):
    w = line.split()
    out = []

    def rebuild(toks, inst=None):
        return " ".join(w[:2] + [str(inst) if inst is not None else w[2]] + [w[3]] + toks)

    toks = w[4:]
    # N1: an X index register with UXTW/SXTW stands for the W register of the same number (the test-suite relies on it)
    n1 = []
    for t in toks:
        if t[0] == "m" and t[:2] != "ml":
            a = t[1:].split(".")
            if a[2] == "6" and a[4] in ("8", "12"):
                a[2] = "5"
                t = "m" + ".".join(a)
        n1.append(t)
    if n1 != toks:
        out.append(("x-index-with-word-extend", rebuild(n1)))
    # N2: a 64-bit vector with D elements (v.1d) stands for the scalar D register
    n2 = [("r10." + t.split(".")[1]) if (t[0] == "r" and t.split(".")[0] == "r10" and len(t.split(".")) == 3 and t.split(".")[2] == "4") else t for t in toks]
    if n2 != toks:
        out.append(("1d-as-scalar-d", rebuild(n2)))
    # N3: a plain D / Q register stands for .8b / .16b in byte-wise vector instructions
    n3 = [(t + ".1") if (t[0] == "r" and t.split(".")[0] in ("r10", "r11") and len(t.split(".")) == 2) else t for t in toks]
    if n3 != toks:
        out.append(("plain-dq-as-bytes", rebuild(n3)))
    if name == "mov":
        # N4: `mov Vd.T, Vn.T` with any arrangement is the byte-wise ORR alias
        n4 = [(".".join(t.split(".")[:2]) + ".1") if (t[0] == "r" and t.split(".")[0] in ("r10", "r11") and len(t.split(".")) == 3) else t for t in toks]
        if n4 != toks:
            out.append(("mov-any-arrangement", rebuild(n4)))
        # N5: `mov` with an element source is emitted as DUP (element) / UMOV
        if len(toks) == 2 and len(toks[1].split(".")) == 4:
            for alias in ("dup", "umov"):
                for iid in name2ids.get(alias, []):
                    out.append(("mov-as-" + alias, rebuild(toks, iid)))
    return out


def gen_ops(forms, name2ids, rng, tier):
    """emit lines for every database form of an implemented mnemonic"""
    ops = []
    meta = []       # form index per line
    per_form_rand = 6 if tier == "quick" else 60
    for fi, f in enumerate(forms):
        ids = name2ids.get(f["name"])
        if not ids:
            continue
        pos = rng.choice((0, 8, 64))
        cc = 0
        try:
            cands = [candidates(f, k, rng, pos) for k in range(len(f["ops"]))]
        except Exception as e:           # a pattern the generator does not know: skip the form (counted)
            raise
        defaults = [c[0] for c in cands]
        dflat = [t for d in defaults for t in d]
        lines = {}
        for iid in ids:
            if f.get("cond"):
                ccs = [2, 3, 15, 1, 0]
            else:
                ccs = [0]
            for cc in ccs:
                head = "emit %d %d %d" % (pos, iid, cc)
                lines.setdefault(head + "".join(" " + t for t in dflat), "valid")
                for k, (d, alts) in enumerate(cands):
                    for alt in alts:
                        toks = [t for j, dd in enumerate(defaults) for t in (alt if j == k else dd)]
                        if len(alt) != len(d):
                            tag = "opcount"
                        else:
                            tag = line_tag(d, alt)
                        lines.setdefault(head + "".join(" " + t for t in toks), tag)
                for _ in range(per_form_rand):
                    toks = []
                    parts = []
                    for d, alts in cands:
                        a = rng.choice(alts) if alts and rng.random() < 0.6 else d
                        toks += a
                        if a != d:
                            parts.append("opcount" if len(a) != len(d) else line_tag(d, a))
                    lines.setdefault(head + "".join(" " + t for t in toks), "combo(" + ",".join(parts) + ")" if parts else "valid")
        for l in sorted(lines):
            if len(l.split()) <= 10:
                ops.append(l)
                meta.append((fi, lines[l]))
    # `mov Rd, #imm` (the move-immediate pseudo instruction, encode_mov_sequence_32/64): structured constants - every half-word
    # of a 32- and of a 64-bit value is 0, 0xFFFF or random - into W and X destinations.  The monitor judges them by VALUE
    # (Spec/A64Decode.lean describesMovImm: the register ends up equal to the immediate, zero-extended for a W write), so a
    # MOVN shortcut that sets sf for an X destination (`mov x1, #0xFFFF1234` = movn w1 - 129DB961, not 929DB961) is a BAD line.
    mov_form = next((i for i, f in enumerate(forms) if f["name"] == "mov"), 0)
    seen = set(ops)
    for iid in name2ids.get("mov", []):
        vals = set()
        for nh in (2, 4):
            choices = [[0, 0xFFFF, rng.randrange(1, 0xFFFF)] for _ in range(nh)]
            idx = [0] * nh
            while True:
                v = 0
                for k in range(nh):
                    c = choices[k][idx[k]]
                    v |= (c if c in (0, 0xFFFF) else rng.randrange(1, 0xFFFF)) << (16 * k)
                vals.add(v)
                k = 0
                while k < nh:
                    idx[k] += 1
                    if idx[k] < 3:
                        break
                    idx[k] = 0
                    k += 1
                if k == nh:
                    break
        for v in sorted(vals):
            for rt in (5, 6):
                for rid in (1, 30):
                    l = "emit %d %d 0 r%d.%d i%x" % (rng.choice((0, 8)), iid, rt, rid, v)
                    if l not in seen:
                        seen.add(l)
                        ops.append(l)
                        meta.append((mov_form, "mov-structured"))
    # movi / mvni / fmov (vector and scalar, immediate): structured immediates.  The monitor judges movi / mvni by the vector the
    # word loads (moviOk: AdvSIMDExpandImm against `#imm {, LSL|MSL #n}` over the arrangement) and fmov by the expanded imm8
    # (fmovImmOk), so a packer that maps a byte of a 64-bit byte mask to the wrong abc:defgh bit is a BAD line.
    def add(l, tag, form_name):
        if l not in seen:
            seen.add(l)
            ops.append(l)
            meta.append((form_of.get(form_name, 0), tag))
    form_of = {}
    for i, f in enumerate(forms):
        form_of.setdefault(f["name"], i)
    for nm in ("movi", "mvni"):
        for iid in name2ids.get(nm, []):
            # all 256 byte masks into Dd and Vd.2D (cmode 1110, op 1)
            for m8 in range(256):
                v = sum(0xFF << (8 * b) for b in range(8) if (m8 >> b) & 1)
                add("emit 0 %d 0 r10.%d i%x" % (iid, 16 + (m8 % 3), v), "movi-bytemask", nm)
                add("emit 0 %d 0 r11.%d.4 i%x" % (iid, 1 + (m8 % 30), v), "movi-bytemask", nm)
            # per cmode: 8-bit, 16-bit (LSL 0/8), 32-bit (LSL 0..24, MSL 8/16) - imm8 and shift at and beyond the limits
            for et, shifts in ((1, (0, 8)), (2, (0, 8, 16)), (3, (0, 8, 16, 24, 32))):
                for rt in (10, 11):
                    for i8 in (0, 1, 0x7F, 0x80, 0xAB, 0xFF, 0x100):
                        for sh in shifts:
                            add("emit 0 %d 0 r%d.3.%d i%x i%x.0" % (iid, rt, et, i8, sh), "movi-cmode", nm)
                            add("emit 0 %d 0 r%d.3.%d i%x" % (iid, rt, et, i8 << sh), "movi-cmode", nm)     # shift left to the assembler
                        if et == 3:
                            for sh in (0, 8, 16, 24):
                                add("emit 0 %d 0 r%d.3.%d i%x i%x.5" % (iid, rt, et, i8, sh), "movi-cmode", nm)
                    # values that halve to a smaller element (0xABAB -> bytes, 0x00AB00AB -> half-words) and that do not
                    for v in (0xABAB, 0xAB00AB, 0xABABABAB, 0xAB00, 0xAB0000, 0xAB000000, 0xAB00AB00, 0x1234, 0xFFFF, 0xFFFFFFFF, 0xFF00FF, 0x12345678):
                        add("emit 0 %d 0 r%d.3.%d i%x" % (iid, rt, et, v), "movi-cmode", nm)
            # 64-bit elements: non-mask values whose halves are equal fall back to 32-bit elements, others are refused
            for v in (0x000000AB000000AB, 0x0000AB000000AB00, 0xAB000000AB000000, 0x00000000000000AB, 0x0100000000000000, 0xFF000000000000FE,
                      0x00FF00FF00FF00FF, 0xFF00FF00FF00FF00, 0x123456789ABCDEF0):
                add("emit 0 %d 0 r11.2.4 i%x" % (iid, v), "movi-cmode", nm)
                add("emit 0 %d 0 r10.2 i%x" % (iid, v), "movi-cmode", nm)
    # fmov #imm: every one of the 256 encodable values (VFPExpandImm, as a double) and neighbours, into H/S/D scalars and vectors
    for iid in name2ids.get("fmov", []):
        for i8 in range(256):
            a, b, cdefgh = (i8 >> 7) & 1, (i8 >> 6) & 1, i8 & 0x3F
            bits = (a << 63) | ((b ^ 1) << 62) | ((0xFF if b else 0) << 54) | (cdefgh << 48)
            dests = ("r8.%d" % (i8 % 32), "r9.%d" % (i8 % 32), "r10.%d" % (i8 % 32), "r10.%d.2" % (i8 % 32), "r11.%d.2" % (i8 % 32),
                     "r10.%d.3" % (i8 % 32), "r11.%d.3" % (i8 % 32), "r11.%d.4" % (i8 % 32))
            for dst in (dests if i8 % 8 in (0, 7) or i8 in (0x70, 0x80, 0xFF, 0x3F, 0x40) else dests[i8 % 8:i8 % 8 + 2]):
                add("emit 0 %d 0 %s f%x" % (iid, dst, bits), "fmov-imm8", "fmov")
            if i8 % 16 == 0:
                for bad in (bits + 1, bits | (1 << 47), bits ^ (1 << 62)):
                    add("emit 0 %d 0 r11.3.4 f%x" % (iid, bad), "fmov-imm8", "fmov")
                    add("emit 0 %d 0 r9.3 f%x" % (iid, bad), "fmov-imm8", "fmov")
    return ops, meta


def generate():
    forms, applied = gen_a64.collect_forms(vlib.REPO)
    vlib.gen_write("AsmjitVerif/Gen/A64DB.lean", gen_a64.render_db(forms))
    h = vlib.build_harness("c02")
    insts, rows, consts = gen_a64.dump_tables(h)
    enc = gen_a64.encoding_ids(vlib.REPO)
    consts = dict(consts)
    consts.update(gen_a64.source_features(vlib.REPO))
    vlib.gen_write("AsmjitVerif/Gen/A64Tables.lean", gen_a64.render_tables(insts, rows, consts, enc))
    return forms, applied, insts, rows, enc, h


def run_sides(h, ops):
    impl, rc, err = vlib.run_lines([str(h)], ops)
    return impl, rc, err


def classify_key(op, insts, enc_names):
    w = op.split()
    iid = int(w[2])
    if iid < len(insts):
        return "%s" % enc_names.get(insts[iid]["enc"], "?")
    return "?"


def run(res):
    rng = vlib.rng_for(res.seed, PID)
    broken = []
    try:
        forms, applied, insts, rows, enc, h = generate()
    except gen_a64.TranslateError as e:
        res.violation("translator gen_a64: %s" % e, {"unchecked": str(e)}, False, key="obligation")
        return
    enc_names = {v: k for k, v in enc.items()}
    name2ids = {}
    for r in insts[1:]:
        name2ids.setdefault(r["name"], []).append(r["id"])
    res.coverage["db_forms"] = len(forms)
    res.coverage["db_forms_fully_interpreted"] = len([f for f in forms if not f["free"] and not any(
        s.startswith("(.vany") or s.startswith("(.velem") or s.startswith("(.unchecked") or s.startswith("(.memBaseOnly") for s in f["ops"])])
    res.coverage["db_errata_applied"] = len(applied)
    res.assumptions += ["db/isa_aarch64.json read through db/index.js states the ISA; rows contradicting the Arm ARM are replaced by tools/a64db_errata.json",
                        "forms whose operands include vector arrangements selected by sz/Q, element indices or system-operation immediates are judged on "
                        "template + register fields only", "refusing an encodable operand combination is not a C02 violation (the property forbids wrong encodings)"]

    ok, out = vlib.lean_stage(res, PID, MODS)
    if not ok and not res.violations:
        for ft in getattr(res, "build_failures", []) or [{"decl": "?", "msg": out[-800:]}]:
            broken.append("theorem %s (%s:%s) no longer checks: %s" % (ft.get("decl"), ft.get("file"), ft.get("line"), ft.get("msg")))
        vlib.lake_build(["vdriver"])
    if not vlib.driver_path().exists():
        res.violation("Lean driver does not build", {"log": out[-3000:]}, found_input=False, key="driver")
        return

    ops, meta = gen_ops(forms, name2ids, rng, res.tier)
    if res.tier == "quick" and len(ops) > 260000:
        keep = sorted(rng.sample(range(len(ops)), 260000))
        ops = [ops[i] for i in keep]
        meta = [meta[i] for i in keep]
    if len(ops) < 50000 or len({m[0] for m in meta}) < 1500:
        res.violation("the sweep is (nearly) empty: %d lines for %d forms - translator or generator no longer understands the sources" % (
            len(ops), len({m[0] for m in meta})), {"lines": len(ops)}, False, key="empty-sweep")
        return
    impl, rc, err = run_sides(h, ops)
    if rc != 0 or len(impl) != len(ops):
        i, tail = vlib.locate_abort([str(h)], ops)
        first = [l for l in tail.splitlines() if "runtime error" in l or "ERROR: AddressSanitizer" in l][:1]
        res.violation("real assembler aborts under ASan/UBSan on %r: %s" % (ops[i], (first or [tail[-300:]])[0]),
                      {"ops": [ops[i]], "stderr": tail}, True, key="abort:" + classify_key(ops[i], insts, enc_names))
        return
    # L3 monitor: the property predicate on every answer of the implementation
    mon_lines = ["mon " + o[5:] + " => " + r for o, r in zip(ops, impl)]
    bad = []
    special = [(i, r) for i, r in enumerate(impl) if "moved=" in r or "fixups=" in r or r.startswith("ok-but") or r in ("bad-op", "init-failed", "setup-failed")]
    for i, r in special:
        if r == "bad-op":
            res.violation("generator produced a line the harness cannot parse: %s" % ops[i], {"ops": [ops[i]]}, False, key="protocol")
            return
        bad.append((i, "BAD cursor/fixup state: " + r))
        mon_lines[i] = "mon " + ops[i][5:] + " => err X"
    mon, rc2, err2 = vlib.run_model("C02", mon_lines)
    if rc2 != 0 or len(mon) != len(ops):
        res.violation("monitor protocol failure rc=%d lines %d/%d %s" % (rc2, len(mon), len(ops), err2[-400:]), {}, False, key="protocol")
        return
    for i, m in enumerate(mon):
        if m.startswith("BAD") or m == "bad-op":
            bad.append((i, m))
    # L2b correspondence with the class models
    model, rc3, err3 = vlib.run_model("C02", ops)
    diffs = []
    modelled = 0
    if rc3 != 0 or len(model) != len(ops):
        res.violation("model protocol failure rc=%d lines %d/%d %s" % (rc3, len(model), len(ops), err3[-400:]), {}, False, key="protocol")
        return
    per_class = {}          # class -> [lines answered by the hand model, lines not modelled, accepted lines answered by the model]
    for i, (a, b) in enumerate(zip(impl, model)):
        pc_ = per_class.setdefault(classify_key(ops[i], insts, enc_names), [0, 0, 0])
        if b == "err NotModelled":
            pc_[1] += 1
            continue
        pc_[0] += 1
        if a.startswith("ok"):
            pc_[2] += 1
        modelled += 1
        if a != b:
            diffs.append(i)       # every difference is reported (key "corr"); the model follows /repo as it is

    if modelled < 20000 or modelled * 10 < len(ops) * 9 or len([1 for r in impl if r.startswith("ok")]) < 10000:
        res.violation("the correspondence is not exercised: %d model lines, %d accepted lines" % (modelled, len([1 for r in impl if r.startswith("ok")])),
                      {"model_lines": modelled}, False, key="empty-sweep")
    kinds = {}
    acc_by_class = {}
    for o, r, m in zip(ops, impl, mon):
        k = classify_key(o, insts, enc_names) + ":" + (r.split()[0] if r.startswith("ok") else r.split()[1] if r.startswith("err") else r)
        kinds[k] = kinds.get(k, 0) + 1
    res.coverage["evaluations"] = len(ops)
    accepted = [i for i, r in enumerate(impl) if r.startswith("ok")]
    res.coverage["distinct_nontrivial"] = len({ops[i] for i in accepted})
    res.coverage["rule"] = ("per database form of an implemented mnemonic: one valid operand tuple, then every operand varied alone over its boundary "
                            "set (register ids 0..30/SP/ZR/invalid, every shift/extend kind x {0,1,max,max+1}, immediates at field limits, "
                            "offsets at +-limit, +-limit+-scale, misaligned, every addressing mode, PC-relative targets at the range ends), "
                            "plus seeded random combinations; non-trivial = distinct line the real assembler accepted")
    res.coverage["accepted"] = len(accepted)
    res.coverage["judged_full"] = len([1 for i in accepted if mon[i] == "good"])
    res.coverage["judged_partial"] = len([1 for i in accepted if mon[i] == "good-partial"])
    res.coverage["forms_swept"] = len({m[0] for m in meta})
    res.coverage["forms_with_accepted_line"] = len({meta[i][0] for i in accepted})
    tags = {}
    for i in accepted:
        tags[meta[i][1]] = tags.get(meta[i][1], 0) + 1
    res.coverage["accepted_by_probe_kind"] = tags
    res.coverage["model_lines"] = modelled
    res.coverage["model_diffs"] = len(diffs)
    res.coverage["model_lines_by_class"] = {k: {"modelled": v[0], "not_modelled": v[1], "modelled_accepted": v[2]}
                                            for k, v in sorted(per_class.items(), key=lambda x: -(x[1][0] + x[1][1]))}
    res.coverage["classes_modelled"] = len([1 for v in per_class.values() if v[0] and not v[1]])
    res.coverage["classes_not_modelled"] = sorted(k for k, v in per_class.items() if v[1])
    res.coverage["model_diff_samples"] = [{"op": ops[i], "impl": impl[i], "model": model[i]} for i in diffs[:8]]
    res.coverage["input_distribution"] = dict(sorted(kinds.items(), key=lambda x: -x[1])[:120])
    res.coverage["traces_validated_against_impl"] = modelled
    res.coverage["exhaustive"] = False
    res.add_samples([{"op": ops[i], "impl": impl[i], "monitor": mon[i], "model": model[i]} for i in (accepted[:2] + accepted[len(accepted) // 2:len(accepted) // 2 + 2] + [0, len(ops) - 1])])

    if res.tier == "thorough":
        # oracle cross-check of the *spec*: llvm-mc-14 assembles the same instruction; a disagreement on a line the monitor
        # accepted is reported as SPEC-SUSPECT in the evidence, never as a violation (DESIGN.md section 2)
        import a64_gnu
        cand = [i for i in accepted if mon[i].startswith("good") and len(impl[i].split()) == 2]
        if len(cand) > 120000:
            cand = sorted(rng.sample(cand, 120000))
        texts = [(i, a64_gnu.text_of(ops[i], insts)) for i in cand]
        texts = [(i, t) for i, t in texts if t]
        lw = a64_gnu.llvm_assemble([t for _, t in texts])
        if lw is not None:
            agree = sum(1 for (i, _), w in zip(texts, lw) if w == int(impl[i].split()[1], 16))
            rejects = sum(1 for w in lw if w is None)
            differ = [(ops[i], impl[i], t, "%08x" % w) for (i, t), w in zip(texts, lw) if w is not None and w != int(impl[i].split()[1], 16)]
            res.coverage["oracle_llvm_mc"] = {"compared": len(texts), "same_word": agree, "llvm_refuses_text": rejects,
                                              "SPEC-SUSPECT": len(differ), "samples": differ[:10]}
    if bad:
        # one violation per exact key (class : probe kind : verdict), each with a concrete line; lines that only differ from a
        # described encoding by a documented design equivalence get the key of that equivalence (neighbourhood search, L3)
        resp = {}
        qlines = []
        for i, m in bad:
            if not impl[i].startswith("ok"):
                continue
            for rule, nl in design_respellings(ops[i], insts[int(ops[i].split()[2])]["name"], name2ids):
                qlines.append("mon " + nl[5:] + " => " + impl[i])
                resp.setdefault(i, []).append((rule, len(qlines) - 1))
        qans = vlib.run_model("C02", qlines)[0] if qlines else []
        seen = {}
        for i, m in bad:
            cls = classify_key(ops[i], insts, enc_names)
            why = m.split()[1] if m.startswith("BAD") and len(m.split()) > 1 else m.split()[0]
            key = "enc:" + cls + ":" + meta[i][1] + ":" + why
            for rule, qi in resp.get(i, []):
                if qi < len(qans) and qans[qi].startswith("good"):
                    key = "enc:" + cls + ":design:" + rule
                    break
            seen.setdefault(key, []).append((i, m))
        for key, lst in sorted(seen.items()):
            i, m = lst[0]
            res.violation("real assembler: %s -> %s ; monitor: %s (%d such lines; instruction %s)" % (
                ops[i], impl[i], m, len(lst), insts[int(ops[i].split()[2])]["name"]),
                {"ops": [ops[i]], "impl": impl[i], "monitor": m, "more": [ops[j] for j, _ in lst[1:6]]}, True, key=key)
    if diffs:
        i = diffs[0]
        res.violation("correspondence model/implementation differs at %r: impl=%s model=%s (%d differing lines); the monitor accepts every answer "
                      "of the implementation" % (ops[i], impl[i], model[i], len(diffs)),
                      {"ops": [ops[i]], "impl": impl[i], "model": model[i], "unchecked": "correspondence Model/A64Asm.lean ~ a64assembler.cpp",
                       "more": [ops[j] for j in diffs[1:6]]}, False, key="corr")
    if broken:
        res.violation("proof obligation no longer checks: " + " | ".join(broken)[:1500], {"unchecked": broken}, False, key="obligation")


def replay(data):
    ops = data["replay"].get("ops", [])
    h = vlib.build_harness("c02")
    impl, rc, err = vlib.run_lines([str(h)], ops)
    mon, _, _ = vlib.run_model("C02", ["mon " + o[5:] + " => " + r for o, r in zip(ops, impl)])
    for o, r, m in zip(ops, impl, mon):
        print(o, "->", r, "| monitor:", m)
    return 0
