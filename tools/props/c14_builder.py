"""C14, Builder sessions: correspondence of the real x86/a64 Builder with Model/Builder.lean (C08's model) + Model/BuilderC14.lean through
the driver component C14B, and the finalize tie: `Builder::finalize()` must leave in the CodeHolder exactly what assembling the serialized
calls directly does - all of them when it succeeds, the ones in front of the first refused call (and that call's error) when it fails.
Used by tools/props/c14.py (not a property module of its own)."""
import vlib


def _pre_model(pre):
    o, x, c = pre[1:].split(",")
    return "@%s,%s,%s" % (o, x, "1" if c == "1" else "-")


def model_lines(sess, answers, names, opw, pre_of, parse_answer, errname):
    """-> (lines for `vdriver C14B`, expected answers (None = not compared), index of the session op each line stands for,
           index of the finalize op or None)"""
    hdr = sess[0].split()
    lines, exp, idx = ["new %d" % (4 if hdr[1] == "x86" else 8)], ["ok"], [0]
    fin = None
    for oi in range(1, len(sess)):
        op, a = sess[oi], answers[oi]
        w, pre, d = opw(op), pre_of(op), parse_answer(a)
        ok = d["ret"] == 0
        res = "ok" if ok else "err " + errname(names, d["ret"])
        nsec = len(d["Bkv"]["sec"].split(","))
        ml = None
        if w[0] == "label":
            ml = "label"
        elif w[0] == "nlabel":
            ml = "label" if ok else None            # a named label is an anonymous one for the node list; a refused one leaves nothing
        elif w[0] == "newsec":
            ml = "newsec" if ok else None
        elif w[0] == "section":
            if w[1].isdigit() and int(w[1]) < nsec:
                ml = "section %s" % w[1]
            else:
                # the harness hands over a Section of another CodeHolder (its id is 1).  BaseBuilder::section() looks at the id only:
                # once this holder has a section 1 the call is accepted and means that section (the Assembler refuses the pointer)
                ml = "section 1" if ok else None
        elif w[0] == "embedarr":
            ml = "data %s %s %s embedarr_%s_%s_%s_%s" % (w[1], w[3], w[4], w[1], w[2], w[3], w[4])
        elif w[0] == "cpool":
            isz, cnt = int(w[2]), min(int(w[3]), 16)
            data = bytes((0xA0 + i + k) & 0xFF for i in range(cnt) for k in range(isz))
            ml = "cpool %s %d %s" % (w[1], isz, data.hex() or "-")
        elif w[0] == "emit":
            verdict = "-" if ok else errname(names, d["ret"])
            ml = "emit %s %s %s %s %s %s" % (w[2], w[3], "1" if w[4] == "1" else "-", verdict, w[1], " ".join(w[5:]))
        elif w[0] in ("bind", "align", "embed", "elabel", "edelta"):
            ml = " ".join(w)
        elif w[0] == "finalize":
            fin = oi
            break
        if ml is None:
            continue
        if pre is not None and w[0] != "emit":
            ml = _pre_model(pre) + " " + ml
        lines.append(ml)
        exp.append("%s nod=%s cur=%s" % (res, d["Akv"]["nod"], d["Akv"]["cur"]))
        idx.append(oi)
    if fin is not None:
        lines.append("serialize")
        exp.append(None)
        idx.append(fin)
    return lines, exp, idx, fin


def got_prefix(m):
    """`ok nod=3 cur=3 all=5 [os=..]` -> `ok nod=3 cur=3`"""
    w = m.split()
    keep = [x for x in w if not (x.startswith("all=") or x.startswith("os="))]
    return " ".join(keep)


def replay_session(sess, answers, serialize_line, opw, parse_answer):
    """the Assembler session that assembles what the Builder serializes: same labels and sections, then the serialized calls"""
    hdr = sess[0].split()
    # x86: what a validating Builder accepted a validating Assembler accepts (same validator; only a Compiler enables virtual registers)
    out = ["new %s asm rec %s" % (hdr[1], hdr[4] if hdr[1] != "a64" else "0")]
    for oi in range(1, len(sess)):
        w = opw(sess[oi])
        if w[0] in ("label", "nlabel", "newsec") and parse_answer(answers[oi])["ret"] == 0:
            out.append(" ".join(w))
    nsetup = len(out)
    calls = [c.strip() for c in serialize_line.split(" ; ") if c.strip()]
    # node 0 is the SectionNode of .text: `section 0` is the first call
    return out + calls, nsetup


def judge_builder(h, sessions, answers_by_session, names, opw, pre_of, parse_answer, errname):
    """-> (diffs [(session index, op index, got, expected)], stats)"""
    diffs, stats = [], {"builder_sessions": 0, "builder_lines": 0, "finalize_ok": 0, "finalize_failed": 0}
    all_lines, slices = [], []
    for si, sess in enumerate(sessions):
        if si not in answers_by_session or sess[0].split()[2] != "bld":
            continue
        lines, exp, idx, fin = model_lines(sess, answers_by_session[si], names, opw, pre_of, parse_answer, errname)
        slices.append((si, len(all_lines), lines, exp, idx, fin))
        all_lines += lines
    if not all_lines:
        return diffs, stats
    out, rc, err = vlib.run_model("C14B", all_lines, timeout=3000)
    if err == "timeout":
        stats["skipped_wall_clock_timeout"] = 1      # machine load, not a verdict
        return diffs, stats
    if rc != 0 or len(out) != len(all_lines):
        return [(-1, 0, "driver C14B protocol failure rc=%d lines %d/%d %s" % (rc, len(out), len(all_lines), err[-300:]), "")], stats
    replays = []
    for si, start, lines, exp, idx, fin in slices:
        stats["builder_sessions"] += 1
        bad = False
        for k in range(len(lines)):
            got = out[start + k]
            if exp[k] is None:
                continue
            stats["builder_lines"] += 1
            if got_prefix(got) != exp[k]:
                diffs.append((si, idx[k], got, exp[k]))
                bad = True
                break
        if not bad and fin is not None:
            replays.append((si, fin, out[start + len(lines) - 1]))
    # finalize tie
    flat, spans = [], []
    for si, fin, ser in replays:
        lines, nsetup = replay_session(sessions[si], answers_by_session[si], ser, opw, parse_answer)
        spans.append((si, fin, len(flat), len(lines), nsetup))
        flat += lines
    if flat:
        impl, rc, err = vlib.run_lines([str(h)], flat, timeout=3000)
        if err == "timeout":
            stats["skipped_wall_clock_timeout"] = 1
            return diffs, stats
        if rc != 0 or len(impl) != len(flat):
            # an abort while assembling directly what the Builder serialized without one: report it as a difference with the replay
            out2, rc2, err2 = vlib.run_lines([str(h)], flat, timeout=3000, env={"VH_FLUSH": "1"})
            at = min(len(out2), len(flat) - 1)
            for si, fin, start, n, nsetup in spans:
                if start <= at < start + n:
                    diffs.append((si, fin, "direct assembling of the serialized calls aborts at %r" % flat[at], "finalize did not"))
            return diffs, stats
        for si, fin, start, n, nsetup in spans:
            dfin = parse_answer(answers_by_session[si][fin])
            ans = [parse_answer(x) for x in impl[start + 1:start + n]]      # [0] is the `new` line
            calls = flat[start + 1:start + n]
            first_bad = next((k for k in range(nsetup - 1, len(ans)) if ans[k]["ret"] != 0), None)
            last = ans[first_bad] if first_bad is not None else (ans[-1] if ans else None)
            direct = "ret=%d sec=%s bh=%s" % (0 if first_bad is None else ans[first_bad]["ret"],
                                              last["Akv"]["sec"] if last else "0", last["Akv"]["bh"] if last else "-")
            final = "ret=%d sec=%s bh=%s" % (dfin["ret"], dfin["Akv"]["sec"], dfin["Akv"]["bh"])
            stats["finalize_ok" if dfin["ret"] == 0 else "finalize_failed"] += 1
            if direct != final:
                where = calls[first_bad] if first_bad is not None else "-"
                diffs.append((si, fin, "direct assembling of the serialized calls: %s (first refused call: %s)" % (direct, where),
                              "finalize: " + final))
    return diffs, stats
