"""C16 — reset, reinit and reuse of holders and emitters leave no residue (DESIGN.md section 6, C16)."""
import os
import re
import vlib

PID = "C16"
MODS = ["AsmjitVerif.Props.C16", "AsmjitVerif.Props.C16Fields", "AsmjitVerif.Props.C16RA"]
MANIFEST = {
    "technique": "Lean 4: non-interference (unwinding) theorems by induction over all operation histories on a hand model of CodeHolder "
                 "init/reset/reinit/attach/detach + the x86 and AArch64 Assembler/Builder/Compiler event handlers and code generation; "
                 "field-coverage theorems by kernel evaluation over the clang AST of the current sources; lifetime theorems for the register "
                 "allocator's per-function data; C++/Lean correspondence and fresh-vs-recycled differential runs judged by a Lean monitor",
    "text": "(a) From clang's JSON AST of the current sources a translator regenerates, for CodeHolder, Section, the emitter classes, BaseRAPass "
            "and Arena, every data member and every member written on each recycle path (reset+init, reinit, detach+attach, on_reinit, the "
            "allocator's per-function epilogue, Arena::reset); Lean proves by kernel evaluation that each member is re-initialised or is on a "
            "reviewed keep-list, and that the keep-lists are tight. (b) On a hand-written executable model of the holder and of the x86 and "
            "AArch64 emitters (all members, including the ones that are deliberately retained; labels, fixups, relocations, sections, Builder "
            "nodes and their serialisation) Lean proves for ALL states and histories: reset makes the world observationally equal to fresh "
            "objects, reinit forgets everything but environment and attachment, EVERY operation (lifecycle, configuration, code generation) "
            "preserves observational equality and gives the same answer, hence any program generates the same sections, labels, fixups and "
            "relocations after a reset/reinit as on fresh objects, and loggers/validation/retained capacity never reach the output. "
            "(c) For the register allocator's per-function data a lifetime model proves that after run_on_function nothing the Compiler keeps "
            "points into the pass arena, for any number of functions. (d) The models are tied to /repo by running harness and compiled model on "
            "the same operation lines; the property's monitor compares the implementation's own dumps of recycled vs. fresh runs and demands "
            "that no node or virtual register references the pass arena between API calls, including real x86-64 and AArch64 instruction "
            "streams and multi-function Compiler programs through both register allocators, static vs. dynamic arena memory, logger/validation "
            "on vs. off and perturbed heaps, under ASan/UBSan.",
    "note": "Proved on the model: holder containers, attachment list, one-shot emitter state, Builder node list and serialisation, labels, "
            "same-section fixups (x86 rel8/rel32, AArch64 imm26), embed_label relocations, both emitter families. Hypothesis of reset_sim_fresh "
            "(emitters not attached at reset time are clean) is not proved as an invariant of histories. Only tested (differential, not proved): "
            "instruction encoding beyond jmp/b, what the register allocator decides, constant pools, arena block reuse. Trusted: tools/ast_fields.py, "
            "the harness/driver diff, Spec/Reuse.lean (what counts as output), the reviewed keep-lists in Props/C16Fields.lean.",
}

EM_KIND = {0: "asm", 1: "asm", 2: "bld", 3: "cmp"}
AVOID = {"refinalize": False}      # set when the witness below already showed the dead-pass-data defect on this tree

# Finding C16-K1 / fixes/C16-2.patch: label nodes keep their RABlock* pass data after the allocator's pass arena is reset, so a
# second run_passes()/finalize() on the same Compiler follows dead pointers (SEGV, wild RAWorkReg*). With C16-2 the second
# finalize fails cleanly (LabelAlreadyBound) and no node carries pass data between API calls. The witness is replayed first.
REFINALIZE = ["world dynamic", "init x64", "attach 3", "prog 3 func 695425564 13", "finalize 3", "finalize 3", "dump"]


def generate():
    """(Re)write every Gen/ file this property's Lean modules import (also called by `check.py setup`)."""
    import ast_fields
    data = ast_fields.collect(vlib.REPO)
    vlib.gen_write("AsmjitVerif/Gen/ResetMap.lean", ast_fields.render(data))
    return data


# ----------------------------------------------------------------------------------------------
# generator-side bookkeeping (only to propose sensible programs; never used as an oracle)
# ----------------------------------------------------------------------------------------------

class Tracker:
    def __init__(self):
        self.world()

    def world(self, fam="x86"):
        self.fam = fam
        self.init = False
        self.arch = "x64"
        self.initbase = None        # base address passed to init() (hex string) - what reinit restores
        self.attached = []
        self.clear_code()
        self.cursec = {i: None for i in range(4)}
        self.pending = set()        # emitters with a pending one-shot form option
        self.cc_funcs = False       # the Compiler holds functions
        self.cc_done = False        # ... and its passes already ran over them (a second finalize is API misuse, see REFINALIZE)

    def clear_code(self):
        self.nlabels = 0
        self.nsecs = 0
        self.home = {}          # label id -> section it lives in
        self.bound = set()      # labels bound (or scheduled to be bound by a builder node)
        self.names = 0
        self.relocs = False         # an embed_label relocation exists (then `link` patches bytes: outside the model)
        self.cc_funcs = False
        self.cc_done = False

    def apply(self, op):
        w = op.split()
        k = w[0]
        if k == "opt":
            self.pending.add(int(w[1]))
        elif k in ("jmp", "err", "detach") and len(w) > 1:
            self.pending.discard(int(w[1]))
        elif k in ("reinit", "reset"):
            self.pending = set()
        if k == "world":
            self.world("a64" if "a64" in w[1:] else "x86")
        elif k == "init":
            if not self.init:
                self.init = True
                self.arch = w[1] if len(w) > 1 else "x64"
                self.initbase = w[2] if len(w) > 2 else None
                self.nsecs = 1
        elif k == "reset":
            if self.init:
                self.init = False
                self.initbase = None
                self.attached = []
                self.clear_code()
                self.cursec = {i: None for i in range(4)}
        elif k == "reinit":
            if self.init:
                self.clear_code()
                self.nsecs = 1
                for i in self.attached:
                    self.cursec[i] = 0
        elif k == "attach":
            i = int(w[1])
            if self.init and i not in self.attached and ((self.arch == "a64") == (self.fam == "a64")):
                self.attached.append(i)
                self.cursec[i] = 0
        elif k == "detach":
            i = int(w[1])
            if i in self.attached:
                self.attached.remove(i)
                self.cursec[i] = None
                if i == 3:
                    self.cc_funcs = self.cc_done = False
        elif k == "prog":
            if w[2] == "func" and int(w[1]) in self.attached:
                self.cc_funcs = True
        elif k == "finalize":
            if int(w[1]) == 3 and 3 in self.attached and self.cc_funcs:
                self.cc_done = True
        elif k in ("label", "nlabel"):
            if int(w[1]) in self.attached:
                self.nlabels += 1
        elif k == "elabel":
            if int(w[1]) in self.attached:
                self.relocs = True
        elif k == "section":
            if int(w[1]) in self.attached:
                self.cursec[int(w[1])] = self.nsecs
                self.nsecs += 1
        elif k == "switch":
            if int(w[1]) in self.attached and int(w[2]) < self.nsecs:
                self.cursec[int(w[1])] = int(w[2])


def gen_code_ops(rng, tr, n, modelled=True, allow_err=False):
    """n generation operations on attached emitters (labels stay inside their home section: cross-section label
    references are defect #18's territory and belong to C03)."""
    ops = []

    def emit(op):
        ops.append(op)
        tr.apply(op)

    for _ in range(n):
        if not tr.attached:
            break
        i = rng.choice(tr.attached)
        kind = EM_KIND[i]
        sec = tr.cursec[i]
        r = rng.random()
        usable = [l for l in range(tr.nlabels) if tr.home.get(l, sec) == sec]
        if r < 0.14:
            emit("label %d" % i)
        elif r < 0.20:
            tr.names += 1
            emit("nlabel %d %s%d" % (i, rng.choice(("f", "loop", "L_", "x")), rng.randrange(6) if rng.random() < 0.3 else 100 + tr.names))
        elif r < 0.36:
            emit("raw %d %s" % (i, bytes(rng.getrandbits(8) for _ in range(rng.choice((1, 1, 2, 3, 5, 8, 120)))).hex()))
        elif r < 0.52 and usable:
            l = rng.choice(usable)
            if kind == "cmp" and not modelled:
                continue
            if rng.random() < 0.35 and i not in tr.pending:
                # never both form options at once: a refused jmp then writes a stray REX byte past the cursor (C14's concern)
                emit("opt %d %s" % (i, rng.choice("sl")))
                if rng.random() < 0.15:
                    continue                      # leave the one-shot option pending on purpose
            tr.home[l] = sec
            # a short jump needs its target near by; keep a few that fail on purpose
            emit("jmp %d %d" % (i, l))
        elif r < 0.64 and usable:
            cand = [l for l in usable if l not in tr.bound]
            if cand:
                l = rng.choice(cand)
                tr.home[l] = sec
                tr.bound.add(l)
                emit("bind %d %d" % (i, l))
        elif r < 0.72 and tr.nlabels:
            emit("elabel %d %d %d" % (i, rng.randrange(tr.nlabels), rng.choice((0, 4, 8, 8, 2, 1))))
        elif r < 0.77 and tr.nsecs < 4:
            emit("section %d .%s%d" % (i, rng.choice(("data", "rodata", "x")), tr.nsecs))
        elif r < 0.84 and tr.nsecs > 1:
            emit("switch %d %d" % (i, rng.randrange(tr.nsecs)))
        elif r < 0.87:
            emit("cmt %d" % i)
        elif r < 0.91 and kind == "cmp":
            emit(rng.choice(("vreg %d", "jann %d")) % i)
        elif r < 0.94 and kind != "asm" and not (AVOID["refinalize"] and kind == "cmp" and tr.cc_done):
            emit("finalize %d" % i)
        elif allow_err and r < 0.97:
            emit("err %d %d" % (i, rng.choice((0, 2)) if modelled else rng.randrange(3)))
    return ops


def gen_history(rng, tr, n, modelled=True):
    """random init/attach/generate/error/reset/reinit/detach/logger history (well-formed: one-shot setters only on attached emitters)"""
    ops = []

    def emit(op):
        ops.append(op)
        tr.apply(op)

    for _ in range(n):
        r = rng.random()
        if not tr.init:
            if r < 0.75:
                emit("init %s%s" % ((rng.choice(("a64", "a64", "a64", "x64")) if tr.fam == "a64" else rng.choice(("x64", "x64", "x86", "x64", "a64"))),
                                   rng.choice(("", "", "", " 400000", " 7f0000100000"))))
            elif r < 0.85:
                emit("attach %d" % rng.randrange(4))          # fails: InvalidArch
            elif r < 0.92:
                emit("reset %s" % rng.choice(("soft", "hard")))
            else:
                emit("reinit")                                 # fails: NotInitialized
            continue
        if r < 0.20:
            emit("attach %d" % rng.randrange(4))
        elif r < 0.27:
            emit("detach %d" % rng.randrange(4))
        elif r < 0.32:
            emit("hlogger %s" % rng.choice(("on", "off")))
        elif r < 0.36:
            emit("elogger %d %s" % (rng.randrange(4), rng.choice(("on", "off"))))
        elif r < 0.40:
            emit("diag %d %s" % (rng.randrange(4), rng.choice(("on", "off"))))
        elif r < 0.45:
            emit("reinit")
        elif r < 0.50:
            emit("reset %s" % rng.choice(("soft", "hard")))
        elif r < 0.53:
            emit("init x64")                                   # fails: AlreadyInitialized
        elif r < 0.56:
            emit("heap %d" % rng.randrange(1 << 20))
        elif r < 0.60 and (not modelled or (tr.nsecs == 1 and not tr.relocs)):
            # relocate_to_base / JitRuntime::add: the end of "code generation as usual" (modelled only in the state where it
            # patches nothing: one section, no relocation)
            if not modelled and tr.fam == "x86" and tr.arch == "x64" and rng.random() < 0.5:
                emit("jitadd")
            else:
                emit("link %x" % rng.choice((0x10000, 0x7F0000000000, 0x400000)))
        elif not modelled and r < 0.72 and tr.attached:
            i = rng.choice(tr.attached)
            if AVOID["refinalize"] and EM_KIND[i] == "cmp" and tr.cc_done:
                continue
            if EM_KIND[i] == "cmp" and rng.random() < 0.7:
                emit("prog %d func %d %d" % (i, rng.randrange(1 << 30), rng.randrange(4, 40)))
                if rng.random() < 0.6:
                    emit("finalize %d" % i)
            else:
                emit("prog %d asmx %d %d" % (i, rng.randrange(1 << 30), rng.randrange(4, 60)))
        else:
            for op in gen_code_ops(rng, tr, rng.randrange(1, 8), modelled, allow_err=True):
                ops.append(op)
    return ops


def gen_case(rng, modelled, hist_len):
    """One comparison: (ops of the recycled run, ops of the fresh run); both end with `dump`."""
    tr = Tracker()
    fam = "a64" if rng.random() < 0.35 else "x86"
    fam_w = " a64" if fam == "a64" else ""
    good_arch = "a64" if fam == "a64" else "x64"
    world_r = "world %s%s" % (rng.choice(("dynamic", "static 4096", "static 64", "static 40000")), fam_w)
    tr.apply(world_r)
    hist = gen_history(rng, tr, hist_len, modelled)
    kind = rng.random()
    if tr.init and ((tr.arch == "a64") != (fam == "a64") or (not modelled and tr.arch == "x86")):
        kind = 0.5              # a holder of the other family (nothing can attach) or a 32-bit holder for `prog`: reset, do not reinit
    tail = []

    def emit(op):
        tail.append(op)
        tr.apply(op)

    if kind < 0.45 and tr.init and tr.attached:
        emit("reinit")
    elif kind < 0.85 or not tr.init:
        if tr.init:
            emit("reset %s" % rng.choice(("soft", "hard")))
        if rng.random() < 0.3:
            emit("heap %d" % rng.randrange(1 << 20))
        emit("init %s%s" % ((good_arch if (fam == "a64" or not modelled) else rng.choice(("x64", "x64", "x86"))),
                            rng.choice(("", "", "", " 400000"))))
        order = rng.sample(range(4), rng.randrange(1, 5))
        for i in order:
            emit("attach %d" % i)
    else:
        # detach / re-attach cycle of some emitters on a re-initialised holder
        emit("reinit")
        for i in rng.sample(range(4), rng.randrange(1, 4)):
            if i in tr.attached:
                emit("detach %d" % i)
            emit("attach %d" % i)
    if not tr.attached:
        emit("attach %d" % rng.randrange(4))
    arch, order = tr.arch + ((" " + tr.initbase) if tr.initbase else ""), list(tr.attached)
    # the program, generated against the configuration reached
    state = rng.getstate()
    tr_p = tr
    if modelled:
        prog = gen_code_ops(rng, tr_p, rng.randrange(6, 40), True)
        for i in order:
            if EM_KIND[i] != "asm" and rng.random() < 0.8:
                prog.append("finalize %d" % i)
    else:
        prog = []
        for _ in range(rng.randrange(1, 5)):
            i = rng.choice(order)
            if EM_KIND[i] == "cmp" and rng.random() < 0.75:
                prog.append("prog %d func %d %d" % (i, rng.randrange(1 << 30), rng.randrange(4, 50)))
            else:
                prog.append("prog %d asmx %d %d" % (i, rng.randrange(1 << 30), rng.randrange(4, 80)))
        for i in order:
            if EM_KIND[i] != "asm":
                prog.append("finalize %d" % i)
    del state
    fresh_cfg = ["world %s%s" % (rng.choice(("dynamic", "static 4096", "dynamic")), fam_w), "init %s" % arch]
    if rng.random() < 0.3:
        fresh_cfg.append("hlogger on")
    for i in order:
        if rng.random() < 0.15:
            fresh_cfg.append("elogger %d on" % i)
        if rng.random() < 0.15 and all(not p.startswith("prog") for p in prog):
            fresh_cfg.append("diag %d on" % i)
        fresh_cfg.append("attach %d" % i)
    rec = [world_r] + hist + tail + prog + ["dump"]
    fresh = fresh_cfg + prog + ["dump"]
    return {"recycled": rec, "fresh": fresh, "nhist": len(hist), "split": (1, 1 + len(hist)), "modelled": modelled}


def shape_cases(rng):
    """Reuse shapes that every run must exercise (coordinator's list): (a) x86-64 without base address, jmp/call to the same
    absolute address before and after reinit / reset+init - address-table entries must not survive; (c) two emitters attached
    at reset() time, the first re-attached alone, then reinit()."""
    cases = []
    # (a) address table
    for k in range(8):
        em = (0, 0, 2, 3)[k % 4]
        addr = rng.choice((0x123456789ABC, 0x7FFF00001000, 0x400000)) + 0x10 * rng.randrange(16)
        other = addr + 0x100000000
        fin = [] if em == 0 else ["finalize %d" % em]
        hist = ["init x64", "attach %d" % em, "jabs %d %x" % (em, addr), "jabs %d %x call" % (em, addr), "raw %d c3" % em,
                "jabs %d %x" % (em, other)] + fin + (["link 10000"] if k % 2 == 0 else [])
        recycle = (["reinit"], ["reset soft", "init x64", "attach %d" % em], ["reset hard", "init x64", "attach %d" % em])[k % 3]
        prog = ["jabs %d %x%s" % (em, addr, rng.choice(("", " call"))), "raw %d 90" % em, "jabs %d %x" % (em, addr)] + fin + \
               ["link %x" % rng.choice((0x10000, 0x7F0000000000))]
        cases.append({"recycled": ["world dynamic"] + hist + recycle + prog + ["dump"],
                      "fresh": ["world %s" % rng.choice(("dynamic", "static 4096")), "init x64", "attach %d" % em] + prog + ["dump"],
                      "nhist": len(hist), "split": (1, 1 + len(hist)), "modelled": False, "shape": "a"})
    # (d) the documented JIT loop: generate, relocate_to_base / JitRuntime::add, reinit, generate again - the base address of
    #     the first function must not survive reinit (a holder initialised without base emits the patchable call form again)
    for k in range(8):
        em = (0, 3, 0, 2)[k % 4]
        base0 = ("", "", " 500000")[k % 3]
        addr = 0x400100 + 0x40 * k
        fin = [] if em == 0 else ["finalize %d" % em]
        hist = ["init x64" + base0, "attach %d" % em, "jabs %d %x call" % (em, addr), "raw %d c3" % em] + fin + \
               [("jitadd", "link 10000", "link 7f0000200000")[k % 3]]
        prog = ["jabs %d %x call" % (em, addr), "raw %d 90" % em, "jabs %d %x" % (em, addr + 0x1000)] + fin + ["link 7f0000000000"]
        cases.append({"recycled": ["world dynamic"] + hist + ["reinit"] + prog + ["dump"],
                      "fresh": ["world dynamic", "init x64" + base0, "attach %d" % em] + prog + ["dump"],
                      "nhist": len(hist), "split": (1, 1 + len(hist)), "modelled": False, "shape": "d"})
    # (c) two emitters attached at reset() time, first re-attached alone, then reinit()
    for (i, j) in ((0, 1), (0, 2), (2, 3), (3, 0), (2, 0), (3, 2), (1, 3), (2, 1)):
        fam = "a64" if (i + j) % 3 == 0 else "x86"
        fam_w = " a64" if fam == "a64" else ""
        arch = "a64" if fam == "a64" else "x64"
        tr = Tracker()
        w0 = "world dynamic" + fam_w
        tr.apply(w0)
        hist = []
        for op in ("init %s" % arch, "attach %d" % i, "attach %d" % j):
            hist.append(op)
            tr.apply(op)
        hist += gen_code_ops(rng, tr, 14, True)
        tail = ["reset %s" % rng.choice(("soft", "hard")), "init %s" % arch, "attach %d" % i, "reinit"]
        for op in tail:
            tr.apply(op)
        prog = gen_code_ops(rng, tr, 16, True) + ([] if EM_KIND[i] == "asm" else ["finalize %d" % i])
        cases.append({"recycled": [w0] + hist + tail + prog + ["dump"],
                      "fresh": ["world static 4096" + fam_w, "init %s" % arch, "attach %d" % i] + prog + ["dump"],
                      "nhist": len(hist), "split": (1, 1 + len(hist)), "modelled": True, "shape": "c"})
    return cases


def fn_cases(rng, n):
    """(b) two or more functions in one Compiler and one finalize: earlier functions use (and save) every callee-saved
    register, the last one needs none - its bytes must equal the bytes it has when compiled alone."""
    out = []
    for k in range(n):
        fam = "a64" if k % 2 else "x86"
        fam_w = " a64" if fam == "a64" else ""
        arch = "a64" if fam == "a64" else "x64"
        heavy_nv = rng.randrange(26, 31) if fam == "a64" else rng.randrange(13, 17)
        light = "prog 3 funcp %d %d %d" % (rng.randrange(1 << 30), rng.randrange(2, 9), rng.randrange(2, 4))
        heavies = ["prog 3 funcp %d %d %d" % (rng.randrange(1 << 30), rng.randrange(10, 40), heavy_nv) for _ in range(rng.randrange(1, 4))]
        head = ["world dynamic" + fam_w, "init %s" % arch, "attach 3"]
        out.append((head + heavies + [light, "finalize 3", "fnbytes 3"], head + [light, "finalize 3", "fnbytes 3"]))
    return out


# ----------------------------------------------------------------------------------------------
# running
# ----------------------------------------------------------------------------------------------

def run_stream(cmd, lines, env=None):
    out, rc, err = vlib.run_lines(cmd, lines, env=env)
    return out, rc, err


def monitor(pairs):
    """pairs of (dump recycled, dump fresh) -> list of verdict strings from the Lean monitor"""
    if not pairs:
        return []
    lines = ["cmp %s %s" % (a if a else "missing", b if b else "missing") for a, b in pairs]
    out, rc, err = vlib.run_model(PID, lines)
    if len(out) != len(lines):
        raise vlib.BuildError("monitor protocol failure: %d verdicts for %d pairs (rc=%d) %s" % (len(out), len(lines), rc, err[-300:]))
    return out


def case_verdict(h, case):
    """run one case alone on the harness; returns (verdict string, crashed?)"""
    a, rc1, e1 = run_stream([str(h)], case["recycled"])
    b, rc2, e2 = run_stream([str(h)], case["fresh"])
    if rc1 != 0 or rc2 != 0:
        e = e1 if rc1 else e2
        key = [l.strip() for l in e.splitlines() if "runtime error" in l or "ERROR: AddressSanitizer" in l or l.startswith("SUMMARY")][:3]
        return "CRASH " + " | ".join(key)[:600] + "\n" + e[-1500:], True
    if not a or not b:
        return "BAD no dump", False
    return monitor([(a[-1], b[-1])])[0], False


def bad_component(v):
    m = re.search(r"component '([^']*)'", v)
    return m.group(1) if m else None


def shrink_case(h, case, want_crash):
    """ddmin over the history part; a candidate counts only if it fails in the same way (same differing component of the
    output, holder still initialised) - otherwise removing the `init` a `reinit` needs would look like a failure"""
    s0, s1 = case["split"]
    head, hist, rest = case["recycled"][:s0], case["recycled"][s0:s1], case["recycled"][s1:]
    v0, _ = case_verdict(h, case)
    comp0 = bad_component(v0)
    a0, _, _ = run_stream([str(h)], case["recycled"])
    rest0 = a0[s1:-1]             # answers of the recycle tail and of the program: a candidate must not change them

    def fails_hist(hh):
        c = dict(case, recycled=head + hh + rest)
        v, crashed = case_verdict(h, c)
        if want_crash:
            return crashed
        if not (v.startswith("BAD") and bad_component(v) == comp0 and not (comp0 or "").startswith("code|")):
            return False
        a, _, _ = run_stream([str(h)], c["recycled"])
        return a[s0 + len(hh):-1] == rest0

    if hist and fails_hist([]):
        hist = []
    elif len(hist) > 1:
        hist = vlib.ddmin(hist, fails_hist, max_tests=120)
    case = dict(case, recycled=head + hist + rest, split=(s0, s0 + len(hist)))
    return case


def summarise(ops, limit=400):
    s = " ; ".join(ops)
    return s if len(s) <= limit else s[:limit] + " ..."


def run(res):
    rng = vlib.rng_for(res.seed, PID)
    quick = res.tier == "quick"
    broken = []
    res.assumptions += [
        "one CodeHolder and four emitters (x86 family or AArch64 family) per world",
        "cross-section label references (defect #18, property C03) are kept out of generated programs",
        "instruction encoding beyond jmp/b, the register allocator's decisions and constant pools are outside the Lean models: covered by fresh-vs-recycled "
        "differential runs judged by the Lean monitor, not by a theorem",
        "Arena block reuse is abstract in the model (counters only); static vs dynamic arena memory and heap perturbation are differential",
        "ASan cannot see a stale pointer into arena memory that was soft-reset (the blocks stay allocated): such references are covered by the "
        "structural theorem (the container holding them must be reset) and by the dumped container sizes",
    ]

    # -- L2a translator -----------------------------------------------------------------------------
    data = None
    try:
        data = generate()
        res.coverage["records_in_reset_map"] = len(data.get("records", {})) if isinstance(data, dict) else None
    except vlib.BuildError:
        raise
    except Exception as e:
        broken.append("translator ast_fields: %s" % str(e)[:600])
        p = vlib.LEAN / "AsmjitVerif/Gen/ResetMap.lean"
        if not p.exists():
            vlib.gen_write("AsmjitVerif/Gen/ResetMap.lean", "-- translator failed\nimport AsmjitVerif.Model.ResetMap\n")

    # -- L1 proofs -----------------------------------------------------------------------------------
    ok, out = vlib.lean_stage(res, PID, MODS)
    if not ok and not res.violations:
        for ft in getattr(res, "build_failures", []) or [{"decl": "?", "msg": out[-800:]}]:
            broken.append("theorem %s (%s:%s) no longer checks: %s" % (ft.get("decl"), ft.get("file"), ft.get("line"), ft.get("msg")))
        vlib.lake_build(["vdriver"])
        # the audit did not run: count the obligations statically, the ones lake reported as failing are not discharged
        thms = []
        for m in MODS:
            thms += vlib.theorems_in(vlib.LEAN / (m.replace(".", "/") + ".lean"))
        failed = {ft.get("decl") for ft in getattr(res, "build_failures", []) or []}
        res.coverage["obligations"] = len(thms)
        res.coverage["discharged"] = len([t for t in thms if t.split(".")[-1] not in failed])
        res.coverage["undischarged"] = sorted(failed)
        try:   # name the members the structural theorems stumble over (diagnostic mirror of the Lean analysis)
            import ast_fields
            diag = ast_fields.diagnose(data, (vlib.LEAN / "AsmjitVerif/Props/C16Fields.lean").read_text())
            named = sorted({"%s::%s (%s)" % (c, f, how) for lst in diag.values() for (c, f, how) in lst})
            if named:
                broken.append("members not re-initialised on a recycle path: " + ", ".join(named)[:600])
        except Exception:
            pass
    if not vlib.driver_path().exists():
        res.violation("Lean driver does not build", {"log": out[-3000:]}, found_input=False, key="driver")
        return

    # -- L2b correspondence + L3 monitor ------------------------------------------------------------
    h = vlib.build_harness("c16")
    # -- dead references after run_passes (C16-K1 / C16-2): replay the witness ----------------------------
    o, krc, kerr = run_stream([str(h)], REFINALIZE)
    res.coverage["refinalize_witness"] = "aborts rc=%d" % krc if krc != 0 else "answers %s" % (o[-2:-1] or ["?"])[0]
    deadref_known = False
    if krc != 0:
        first = [l.strip() for l in kerr.splitlines() if "runtime error" in l or "ERROR: AddressSanitizer" in l or l.startswith("SUMMARY")][:2]
        res.violation("second finalize() on a Compiler that already ran its passes follows dead pass data instead of failing: %s" % " | ".join(first)[:500],
                      {"ops": REFINALIZE, "stderr": kerr[-2000:]}, True, key="abort:refinalize")
        deadref_known = True
    else:
        v = monitor([(o[-1], o[-1])])[0]
        if not v.startswith("good"):
            res.violation("after finalize() the Compiler's nodes still reference the reset pass arena: %s" % v,
                          {"ops": REFINALIZE, "monitor": v}, True, key="deadref")
            deadref_known = True
    AVOID["refinalize"] = deadref_known     # keep the rest of the run alive on such a tree: do not re-finalize, count the verdicts
    n_mod = 500 if quick else 6000
    n_diff = 260 if quick else 3500
    if broken:
        n_mod, n_diff = n_mod * 2, n_diff * 2          # a broken obligation: search harder for a witness
    shapes = shape_cases(rng)
    cases = [c for c in shapes if c["modelled"]] + [gen_case(rng, True, rng.randrange(0, 40)) for _ in range(n_mod)] + \
            [gen_case(rng, False, rng.randrange(0, 25)) for _ in range(n_diff)] + [c for c in shapes if not c["modelled"]]
    n_mod += len([c for c in shapes if c["modelled"]])
    # (b) later function vs. the same function alone
    fnc = fn_cases(rng, 12 if quick else 150)
    fn_lines = []
    for a, b in fnc:
        fn_lines += a + b
    fo, frc, ferr = run_stream([str(h)], fn_lines)
    fn_bad = []
    if frc != 0 or len(fo) != len(fn_lines):
        res.violation("real code aborts while compiling several functions in one Compiler: %s" % ferr[-400:], {"ops": fn_lines[:40]}, True, key="abort")
        return
    pos, fpairs = 0, []
    for a, b in fnc:
        fpairs.append((fo[pos + len(a) - 1], fo[pos + len(a) + len(b) - 1]))
        pos += len(a) + len(b)
    fv, _, _ = vlib.run_model(PID, ["cmpfn %s %s" % p for p in fpairs])
    for k, v in enumerate(fv):
        if not v.startswith("good"):
            fn_bad.append((k, v))
    res.coverage["later_function_pairs"] = len(fpairs)
    if fn_bad or len(fv) != len(fpairs):
        k, v = fn_bad[0] if fn_bad else (0, "monitor protocol failure")
        res.violation("a later function of the same Compiler inherits from earlier ones: %s (%d of %d pairs). with earlier functions: %s | alone: %s" % (
            v, len(fn_bad), len(fpairs), summarise(fnc[k][0]), summarise(fnc[k][1], 200)),
            {"ops": fnc[k][0], "ops_fresh": fnc[k][1], "monitor": v}, True, key="fn-inherit")
    stream, index = [], []
    for ci, c in enumerate(cases):
        for which in ("recycled", "fresh"):
            index.append((ci, which, len(stream), len(stream) + len(c[which])))
            stream += c[which]
    impl, rc, err = run_stream([str(h)], stream)
    if not stream or (rc == 0 and not impl):
        res.violation("empty run: %d lines generated, %d answers" % (len(stream), len(impl)), {}, False, key="empty-run")
        return
    crash_case = None
    if rc != 0 or len(impl) != len(stream):
        # locate the case in which the real code aborted
        impl2, _, _ = run_stream([str(h)], stream, env={"VH_FLUSH": "1"})
        pos = len(impl2)
        for ci, which, a, b in index:
            if a <= pos < b:
                crash_case = cases[ci]
                break
        if crash_case is None:
            crash_case = cases[-1]
        v, crashed = case_verdict(h, crash_case)
        if crashed:
            small = shrink_case(h, crash_case, True)
            v2, _ = case_verdict(h, small)
            res.coverage["evaluations"] = len(impl)
            res.coverage["rule"] = "run stopped at the first sanitizer abort; see the violation"
            res.coverage["cases"] = {"generated": len(cases)}
            res.violation("real code aborts under ASan/UBSan while recycling objects%s: %s | recycled run: %s" % (
                (" (also: " + " | ".join(broken)[:700] + ")") if broken else "",
                v2.splitlines()[0][:500], summarise(small["recycled"])),
                {"ops": small["recycled"], "ops_fresh": small["fresh"], "stderr": v2[-3000:]}, True,
                key="abort:" + ((re.search(r" in ([A-Za-z_0-9:~<>]+)", v2.splitlines()[0] if v2 else "") or re.search(r"()", "")).group(1) or "?")[:80])
            if broken:
                res.violation("proof obligation no longer checks: " + " | ".join(broken)[:1500], {"unchecked": broken}, False, key="obligation")
            return
        res.violation("harness protocol failure rc=%d (%d answers for %d lines) %s" % (rc, len(impl), len(stream), err[-500:]), {}, False, key="protocol")
        return

    # model on the modelled streams
    mod_lines, mod_pos = [], []
    for ci, which, a, b in index:
        if cases[ci]["modelled"]:
            mod_pos += list(range(a, b))
            mod_lines += stream[a:b]
    model, rc2, err2 = vlib.run_model(PID, mod_lines)
    if rc2 != 0 or len(model) != len(mod_lines):
        res.violation("driver protocol failure rc=%d lines %d/%d %s" % (rc2, len(model), len(mod_lines), err2[-500:]), {}, False, key="protocol")
        return
    diffs = [(p, m) for p, m in zip(mod_pos, model) if impl[p] != m]

    # the monitor on the implementation's own dumps: every case
    pairs = []
    for ci, c in enumerate(cases):
        ra = [x for x in index if x[0] == ci and x[1] == "recycled"][0]
        fa = [x for x in index if x[0] == ci and x[1] == "fresh"][0]
        pairs.append((impl[ra[3] - 1], impl[fa[3] - 1]))
    verdicts = monitor(pairs)
    bad = [ci for ci, v in enumerate(verdicts) if not v.startswith("good")]
    if deadref_known:
        dr = [ci for ci in bad if verdicts[ci].startswith("BAD dead reference")]
        res.coverage["dead_reference_pairs"] = len(dr)
        bad = [ci for ci in bad if ci not in set(dr)]

    # heap-content independence: the same fresh runs in an uninstrumented build under different malloc perturbation bytes
    perturb_bad = []
    n_pert = 60 if quick else 600
    try:
        hp = vlib.build_harness("c16", "plain")
        sub = [c for c in cases if True][:n_pert] + cases[n_mod:n_mod + n_pert]
        pl = []
        for c in sub:
            pl += c["recycled"]
        outs = []
        for pb in ("0", "85", "170"):
            o, prc, perr = run_stream([str(hp)], pl, env={"MALLOC_PERTURB_": pb})
            outs.append([l for l in o if l.startswith("code|")] if prc == 0 else None)
        if any(o is None for o in outs):
            perturb_bad.append(("crash", "uninstrumented harness aborted under MALLOC_PERTURB_", sub[0]))
        else:
            dumps = list(zip(*outs))
            vs = monitor([(d[1], d[0]) for d in dumps] + [(d[2], d[0]) for d in dumps])
            for k, v in enumerate(vs):
                if v.startswith("BAD dead reference") and deadref_known:
                    continue
                if not v.startswith("good"):
                    perturb_bad.append((v, "output differs under MALLOC_PERTURB_ (heap content reaches the output)", sub[k % len(dumps)]))
        res.coverage["heap_perturbation_runs"] = 3 * len(sub)
    except vlib.BuildError:
        raise

    # -- coverage ---------------------------------------------------------------------------------
    kinds = {}
    for o, r in zip(stream, impl):
        k = o.split()[0]
        if k == "dump":
            continue
        rr = "ok" if (r == "ok" or re.fullmatch(r"[LSvj]\d+", r)) else r
        key = "%s:%s" % (k, rr)
        kinds[key] = kinds.get(key, 0) + 1
    res.coverage["evaluations"] = len(stream)
    res.coverage["traces_validated_against_impl"] = len(mod_lines)
    nontriv = set()
    for ci, c in enumerate(cases):
        d = pairs[ci][0]
        m = re.search(r";secs=\[0:[0-9a-f]+:\d+:\d+:-?\d+:\w+:\d+:([0-9a-f-]+)\]", d)
        if c["nhist"] > 0 and m and m.group(1) != "-":
            nontriv.add(d.split("|aux|")[0])
    res.coverage["distinct_nontrivial"] = len(nontriv)
    res.coverage["rule"] = ("a case = random history (init/attach/generate/failing ops/reset soft|hard/reinit/detach/loggers/heap noise) + recycle "
                            "(reinit | reset+init+attach | detach/attach cycle) + program, compared with the same program on fresh objects (other "
                            "arena memory kind, logger/validation settings); non-trivial = distinct final output with non-empty .text after a non-empty history")
    res.coverage["input_distribution"] = dict(sorted(kinds.items(), key=lambda kv: -kv[1])[:60])
    res.coverage["cases"] = {"modelled": n_mod, "differential_only": n_diff, "shape_a_address_table": len([c for c in shapes if c["shape"] == "a"]),
                             "shape_b_later_function": len(fpairs), "shape_c_two_attached_at_reset": len([c for c in shapes if c["shape"] == "c"]),
                             "shape_d_relocate_then_reinit": len([c for c in shapes if c["shape"] == "d"]),
                             "recycle_reinit": sum(1 for c in cases if "reinit" in c["recycled"][c["split"][1]:c["split"][1] + 1]),
                             "monitored_pairs": len(pairs)}
    for ci in (0, n_mod // 2, n_mod, len(cases) - 1):
        c = cases[ci]
        res.add_samples([{"recycled": summarise(c["recycled"], 300), "fresh": summarise(c["fresh"], 200),
                          "monitor": verdicts[ci], "output": pairs[ci][0][:200]}])

    # -- classification -----------------------------------------------------------------------------
    if bad:
        c = shrink_case(h, cases[bad[0]], False)
        v, _ = case_verdict(h, c)
        comp = (re.search(r"component '([^']*)'", v) or re.search(r"()", v)).group(1)
        res.violation("earlier use reaches later output on the real code: %s (%d of %d cases). recycled run: %s | fresh run: %s%s" % (
            v, len(bad), len(cases), summarise(c["recycled"]), summarise(c["fresh"], 200), ("; also: " + " | ".join(broken)) if broken else ""),
            {"ops": c["recycled"], "ops_fresh": c["fresh"], "monitor": v,
             "how": "feed each list to .build/<tree>/asan/h_c16_*; `vdriver C16` line `cmp <last dump 1> <last dump 2>`"},
            True, key="residue:" + re.sub(r"\d+$", "", comp))
    if perturb_bad:
        v, what, c = perturb_bad[0]
        res.violation("%s: %s. run: %s" % (what, v, summarise(c["recycled"])),
                      {"ops": c["recycled"], "env": "MALLOC_PERTURB_=85 vs 0, uninstrumented harness", "monitor": v}, True, key="heap-content")
    # a correspondence difference is reported in its own right, whatever else was found (it must never be hidden by another
    # violation, least of all by one that matches a known finding)
    if diffs:
        p, m = diffs[0]
        # find the case for context
        ctx = None
        for ci, which, a, b in index:
            if a <= p < b:
                ctx = stream[a:p + 1]
        res.violation("correspondence model/implementation differs at %r: impl=%s model=%s (%d differing answers); the no-residue monitor is good "
                      "on all %d recycled-vs-fresh pairs" % (stream[p], impl[p][:300], m[:300], len(diffs), len(pairs)) if not (bad or perturb_bad) else
                      "correspondence model/implementation differs at %r: impl=%s model=%s (%d differing answers)" % (stream[p], impl[p][:300], m[:300], len(diffs)),
                      {"ops": ctx, "impl": impl[p], "model": m, "unchecked": "correspondence Model/Reuse.lean ~ codeholder.cpp/emitter.cpp/builder.cpp"
                       + ("; " + " | ".join(broken) if broken else "")},
                      False, key="corr")
    if broken:
        res.violation("proof obligation no longer checks: " + " | ".join(broken)[:1500] +
                      (" -- no residue was observed in %d recycled-vs-fresh pairs" % len(pairs) if not (bad or perturb_bad or res.violations) else ""),
                      {"unchecked": broken}, False, key="obligation")


def replay(data):
    h = vlib.build_harness("c16")
    r = data["replay"]
    outs = []
    for name in ("ops", "ops_fresh"):
        ops = r.get(name) or []
        if not ops:
            continue
        out, rc, err = vlib.run_lines([str(h)], ops)
        print("== %s (rc=%d)" % (name, rc))
        for o, a in zip(ops, out):
            print(o, "->", a[:400])
        if rc != 0:
            print(err[-2000:])
        outs.append(out[-1] if out else "")
    if len(outs) == 2:
        print("monitor:", monitor([(outs[0], outs[1])])[0])
    return 0
