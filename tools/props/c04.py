"""C04 — relocated code addresses its absolute targets correctly at any base address (DESIGN.md section 6, C04).
Shares model, driver, harness and monitor with C03 (tools/props/c03.py)."""
import vlib
from props import c03

PID = "C04"
MANIFEST = {
    "technique": "Lean 4 theorems (bv_decide over all 64-bit bases/targets) for the relocation arithmetic of a hand model of "
                 "CodeHolder::relocate_to_base + absolute reference sites, run-time-meaning monitor, C++/Lean correspondence",
    "text": "Lean proves over ALL programs (Props/C04E: relocs_own_their_regions[_final]) that every RelocEntry owns its region: inside the "
            "buffer, containing the value word, disjoint from every other entry's region and from the field of every fixup reference - in "
            "every assembling state and in the state relocate_to_base starts from. Lean also proves for every base address, section offset, site and target (all 2^64 values): an AbsToRel / X64AddressEntry rel32 "
            "that passes the range test reaches exactly the payload, a refused one is unreachable by any rel32, the 32-bit wrap-around "
            "designates the target modulo 2^32, the address-table rel32 reaches the slot, RelToAbs / embedded label addresses evaluate "
            "to base + section offset + label offset + addend, and assembling with the base known yields the same rel32 as relocating "
            "afterwards (x86 jmp/call and AArch64 branches). The relocation loop is part of the model whose invariants C03 proves over "
            "all programs. The model is tied to the real relocate_to_base / EmitJmpCall imm path / a64 EmitOp_Rel imm path / address "
            "table by running both on the same programs x bases (low, high, straddling 2^31/2^32/2^47/2^63) x base known at init or "
            "assigned at relocation x address table last or not; the Lean monitor decodes every absolute reference of the real "
            "relocated image (rel32, or FF /2|/4 + slot content).",
    "note": "reloc_correct / reloc_abs_correct / reloc_rel_correct / reloc_table_correct / reloc_label_address (Props/C04E) compose the "
            "relocate_to_base fold with the ownership, slot-table and payload-to-label invariants for every program and base (1/2/4/8-byte "
            "values, address-table rel32 and slot content, label addresses). Props/C04K: with the base known the direct encoding reaches "
            "the target and is the rel32 relocation would write. Props/C04J: the model of JitRuntime::add refines relocate_to_base(rx); "
            "the real JitRuntime::add / release run on every JIT program (bytes at the returned pointer judged by the monitor and "
            "compared with the model's image; the allocator is C10's subject, executing the code is not part of the check). "
            "Trusted: as C03. FS / GS overrides are in the menu (mov ecx,fs:[..], mov eax,gs:[..] incl. the moffs form, add dword fs:[..],imm8): the monitor "
            "requires the override byte and judges the effective address (the segment base is added by the CPU to either form). Model follows the repaired "
            "relocate_to_base tail (fixes/C04-1).",
}
MODS = ["AsmjitVerif.Props.C04", "AsmjitVerif.Props.C04E", "AsmjitVerif.Props.C04K", "AsmjitVerif.Props.C04J"]


def addrtab_programs(rng, tier):
    progs = []
    far = (0x123456789ABC, 0x7FFFFFFFF000, 1 << 63, (1 << 64) - 0x1000, 0x100000000)
    near = (0x2000, 0x7FFF0000, 0x80001000)
    for base in c03.BASES:
        for ib in (None, base):
            for last in (True, False):
                body = ["newlabel"]
                if not last:
                    # the first patchable call creates .addrtab (id 1, order INT_MAX); a user section of the same order
                    # created afterwards (id 2) sorts after it, so the table is not the last section
                    body += ["jmpabs call d %x" % far[1], "newsection 8 2147483647"]
                for t in rng.sample(far, 3) + rng.sample(near, 2):
                    body.append("jmpabs %s d %x" % (rng.choice(("jmp", "call")), t))
                    if rng.random() < 0.4:
                        body.append("zeros %d" % rng.randrange(1, 9))
                body.append("jmpabs call d %x" % far[0])        # repeated target: same slot
                body += ["bind 0", "elabel 0 8", "jmp jmp d 0"]
                if not last:
                    body += ["section 2", "embed 9090", "elabel 0 8"]
                progs.append(["init x64 %s" % ("-" if ib is None else "%x" % ib)] + body + c03.tail(base))
    # base known at init: absolute targets just ahead of / behind the instruction, around the rel8 limit (short/long choice)
    for arch, base in (("x64", 0x7FFFF000), ("x64", 1 << 47), ("x86", 0x400000)):
        for k in ("jmp", "jz", "jecxz"):
            for d in (-131, -130, -129, -128, -127, 125, 126, 127, 128, 129, 130, 131, 132):
                # instruction at offset 16: rel8 form ends at 18 (+1 with the 67h prefix of jecxz in 64-bit mode)
                end8 = 16 + 2 + (1 if (k == "jecxz" and arch == "x64") else 0)
                progs.append(["init %s %x" % (arch, base), "zeros 16", "jmpabs %s d %x" % (k, (base + end8 + d) & c03.M64)] + c03.tail(base))
    # absolute memory operands [A]: every menu instruction (with 0/1/2/4 trailing immediate bytes) x address type x
    # base known at init / assigned at relocation x targets on both sides of the rel32 reach and of the int32/uint32 limits
    for base in (0x10000, 0x7FFFF000, 1 << 32, (1 << 47) - 65536, 1 << 63):
        for ib in (None, base):
            near = [(base + 0x1000) & c03.M64, (base + 0x7FFFFF00) & c03.M64, (base - 0x7FFFFF00) & c03.M64, (base + 0x2000) & c03.M64]
            far = [(base + 0x80000100) & c03.M64, (base - 0x80000100) & c03.M64, 0x1000, 0x7FFFFFF0, 0x80000000, 0xFFFFFFF0,
                   0xFFFFFFFF80000000, 0x123456789A]
            init = "init x64 %s" % ("-" if ib is None else "%x" % ib)
            for at in "dar":
                # every target within rel32 reach: the relocation succeeds and every operand is judged
                body = ["zeros %d" % rng.randrange(0, 9)]
                for k in c03.MK:
                    for t in rng.sample(near, 2):
                        body.append("memabs %s %s %x" % (k, at, t))
                progs.append([init] + body + c03.tail(base))
                # targets that may be out of reach / need the absolute form: one program each so that one failing relocation
                # does not hide the others
                for t in rng.sample(far, 3):
                    progs.append([init, "memabs %s %s %x" % (rng.choice(c03.MK), at, t), "memabs addi8 %s %x" % (at, near[0])] + c03.tail(base))
    # mov with the accumulator: moffs (movabs) form vs ModRM form, 64-bit-only / uint32-only / int32 addresses
    for base in (0x10000, 1 << 32, 1 << 63):
        for ib in (None, base):
            init = "init x64 %s" % ("-" if ib is None else "%x" % ib)
            for at in "dar":
                for t in (0x123456789ABC, 0xFFFFFFFF, 0x100000000, 0x7FFFFFFF, 0xFFFFFFFF80000000, (base + 0x4000) & c03.M64, 1 << 63):
                    progs.append([init, "memabs %s %s %x" % (rng.choice(("ldeax", "steax", "ldrax")), at, t), "memabs ldeax %s %x" % (at, t)] + c03.tail(base))
    for base in (0x1000, 0x7FFFF000, 0xFFFF0000):
        for at in "dar":
            progs.append(["init x86 -"] + ["memabs %s %s %x" % (k, at, t) for k in c03.MK for t in (0x1000, 0x80000000, 0xFFFFFFF0)] + c03.tail(base))
    # 32-bit wrap-around, jcc / jecxz through relocations, AArch64 branches to absolute targets
    for base in (0x1000, 0x7FFFF000, 0x80000000, 0xFFFFF000):
        for ib in (None, base):
            for t in (0, 0x1000, 0x7FFFFFFF, 0x80000000, 0xFFFFFFF0):
                progs.append(["init x86 %s" % ("-" if ib is None else "%x" % ib), "newlabel", "jmpabs jmp d %x" % t, "jmpabs call d %x" % t,
                              "jmpabs jz d %x" % t, "bind 0", "mem mov 0 4", "elabel 0 4", "mem addi8 0 %x" % (t & 0xFFFF)] + c03.tail(base))
    for base in (0x10000, 0x7FFF0000, 1 << 32, (1 << 47) - 65536):
        for ib in (None, base):
            for d in (0x1000, 0x7FFF000, 0x8000000, 0x8001000, 0xFFFFF000, 0x100000000):
                for sign in (1, -1):
                    t = (base + sign * d) & c03.M64
                    progs.append(["init a64 %s" % ("-" if ib is None else "%x" % ib), "newlabel", "a64abs b %x" % t, "a64abs bl %x" % t,
                                  "a64abs bcond %x" % t, "a64abs adr %x" % t, "a64abs adrp %x" % (t & ~0xFFF), "a64abs tbz %x" % t,
                                  "bind 0", "elabel 0 8"] + c03.tail(base))
    return progs


JIT_TAIL = ["jitadd", "dump", "jitrelease", "dump"]


def jit_programs(rng, tier, rx0):
    """programs finished by the real JitRuntime::add() / release() instead of flatten + resolve + relocate_to_base"""
    progs = [["init x64 -"] + JIT_TAIL,                                           # nothing to add: NoCodeGenerated
             ["init x64 -", "newlabel", "bind 0"] + JIT_TAIL,
             ["init x64 -", "embed 90"] + JIT_TAIL,
             ["init x64 -", "newlabel", "elabel 0 8", "zeros 3", "bind 0", "embed c3"] + JIT_TAIL,
             ["init x64 -", "newlabel", "elabel 0 8", "embed c3"] + JIT_TAIL,                  # label never bound
             ["init x86 -", "newlabel", "bind 0", "elabel 0 4", "mem mov 0 4"] + JIT_TAIL,     # 32-bit absolute vs a 64-bit rx
             ["init a64 -", "newlabel", "a64 adrp 0 0", "a64 adr 0 0", "zeros 4096", "bind 0", "elabel 0 8"] + JIT_TAIL]
    near = [(rx0 + d) & c03.M64 for d in (0x40, 0x1000, 0x100000, 0x7FFF0000, -0x1000, -0x7FFF0000)]
    far = [0x1000, 0x123456789ABC, (rx0 + 0x80001000) & c03.M64, (rx0 - 0x80001000) & c03.M64, 1 << 63, c03.M64 - 0xFFF]
    for k in range(12 if tier == "quick" else 60):
        # address table: all slots needed / none needed (table shrinks to nothing) / mixed, table last or not
        ts = [rng.sample(far, 3), rng.sample(near, 3), rng.sample(far, 2) + rng.sample(near, 2)][k % 3]
        body = ["newlabel"]
        if k % 4 == 3:
            body += ["jmpabs call d %x" % ts[0], "newsection 8 2147483647"]
        for t in ts:
            body.append("jmpabs %s d %x" % (rng.choice(("jmp", "call")), t))
            if rng.random() < 0.5:
                body.append("zeros %d" % rng.randrange(1, 9))
        body += ["bind 0", "elabel 0 8", "memabs mov d %x" % rng.choice(near), "memabs ldrax d %x" % rng.choice(far)]
        if k % 4 == 3:
            body += ["section 2", "embed 9090", "elabel 0 8"]
        progs.append(["init x64 -"] + body + JIT_TAIL)
    for k in range(3):
        progs.append(["init x64 -", "jmpabs %s d %x" % (("jmp", "call", "jz")[k], near[k])] + JIT_TAIL)     # only content: a table that shrinks away
    for arch in ("a64",):
        for t in near[:4] + far[:2]:
            progs.append(["init a64 -", "newlabel", "a64abs b %x" % (t & ~3), "a64abs adr %x" % t, "a64abs adrp %x" % (t & ~0xFFF),
                          "bind 0", "elabel 0 8"] + JIT_TAIL)
    n = 150 if tier == "quick" else 3000
    for i in range(n):
        arch = ("x64", "a64", "x64", "x86", "x64")[i % 5]
        g = c03.Gen(rng, arch, c04=(i % 2 == 0))
        for _ in range(rng.choice((6, 15, 30))):
            g.step()
        ops = g.finish(0, bind_rest=1.0 if i % 7 else 0.7)[:-4]
        # the span address is a real pointer (far above 4 GiB, far from the constants of the generator): most programs get
        # pointer-sized embedded addresses and absolute targets near the span, so that the add succeeds and is judged
        if i % 6:
            for j, l in enumerate(ops):
                w = l.split()
                if w[0] == "elabel" and arch != "x86" and w[2] in ("1", "2", "4"):
                    ops[j] = "elabel %s 8" % w[1]
                elif w[0] == "a64abs":
                    t = (rx0 + rng.choice((0x40, 0x1000, 0xFF000, -0x1000, 0x7FF0000, -0x7FF0000, 0x8000000))) & c03.M64
                    ops[j] = "a64abs %s %x" % (w[1], t & (~0xFFF if w[1] == "adrp" else ~3 if w[1] != "adr" else c03.M64))
                elif w[0] in ("jmpabs", "memabs") and rng.random() < 0.6:
                    t = (rx0 + rng.choice((0x40, 0x1000, 0x100000, -0x1000, 0x7FFF0000, -0x7FFF0000, 0x80000000, -0x80001000))) & c03.M64
                    ops[j] = "%s %s %s %x" % (w[0], w[1], w[2], t)
        progs.append(ops + JIT_TAIL)
    # allocator variants: default (rx == rw), dual mapping (rx != rw: the code must be relocated to the executable view and
    # stored through the writable one), multiple pools, immediate release, no initial padding - and combinations
    masks = (0, 1, 1, 3, 9, 0x1B, 2, 1, 0x11, 8)
    for i, p in enumerate(progs):
        m = masks[i % len(masks)]
        if m:
            p[-4] = "jitadd %x" % m
    return progs


def jit_idx(p):
    return next(i for i, l in enumerate(p) if l.startswith("jitadd"))


def jit_pair(h, progs):
    """harness first (the span address is its choice), then the model with that address; returns normalized per-program answers"""
    flat = [l for p in progs for l in p]
    impl, rc, err = vlib.run_lines([str(h)], flat, timeout=14400)
    ia = c03.split(progs, impl)
    if rc != 0 or ia is None:
        return None, None, "harness rc=%d lines %d/%d %s" % (rc, len(impl), len(flat), err[-400:])
    mprogs = []
    for p, a in zip(progs, ia):
        q = list(p)
        for j, (op, ans) in enumerate(zip(p, a)):
            if op.startswith("jitadd"):
                w = ans.split()
                rx = w[3] if w[0] == "Ok" and len(w) >= 4 else next((x[6:] for x in w if x.startswith("probe=")), "0")
                rx = rx if int(rx, 16) else "1000"
                rw = next((x[3:] for x in w if x.startswith("rw=")), rx)
                q[j] = "jitadd %s %s" % (rx, rw)
                a[j] = " ".join(x for x in w if not x.startswith("probe="))
        mprogs.append(q)
    model, rc2, err2 = vlib.run_model("C03", [l for p in mprogs for l in p], timeout=14400)
    ma = c03.split(mprogs, model)
    if rc2 != 0 or ma is None:
        return ia, None, "driver rc=%d lines %d %s" % (rc2, len(model), err2[-400:])
    return ia, ma, None


def jit_verdicts(p, a, verdict):
    """everything that is wrong with the real run of a JitRuntime::add program: [(class, description)]"""
    out = []
    j = jit_idx(p)
    wa, wr = a[j].split(), a[p.index("jitrelease")].split()
    base = next((x[5:] for x in wa if x.startswith("base=")), None)
    if wa[0] == "Ok" and base is not None and len(wa) >= 4 and int(base, 16) != int(wa[3], 16):
        out.append(("base", "after JitRuntime::add the CodeHolder's base address is %s, but the code runs at the returned pointer %s "
                            "(relocated to the wrong view of a dual-mapped span?)" % (base, wa[3])))
    if verdict != "good":
        out.append(("image", "the bytes at the pointer JitRuntime::add returned do not address their targets: monitor says %s" % verdict))
    if wa[0] == "Ok" and (len(wa) < 6 or int(wa[4]) == 0 or (wa[5] != "-" and len(wa[5]) != 2 * int(wa[4]))):
        out.append(("size", "JitRuntime::add returned kOk with an empty / short image: %s" % a[j][:120]))
    if wa[0] == "Ok" and (wr[0] != "Ok" or wr[-1] != "live=0"):
        out.append(("release", "JitRuntime::release after a successful add: %s" % a[p.index("jitrelease")]))
    if wa[0] != "Ok" and wr[-1] != "live=0":
        out.append(("leak", "a failed JitRuntime::add left memory allocated: %s" % a[p.index("jitrelease")]))
    return out


def jit_verdict(p, a, verdict):
    v = jit_verdicts(p, a, verdict)
    return v[0][1] if v else None


def check_jit(res, h, rng):
    probe, _, _ = vlib.run_lines([str(h)], ["init x64 -", "embed 90", "jitadd"])
    w = probe[-1].split() if probe else []
    rx0 = int(w[3], 16) if len(w) >= 4 and w[0] == "Ok" else 0x7F0000000000
    progs = jit_programs(rng, res.tier, rx0)
    ia, ma, fail = jit_pair(h, progs)
    if ia is None:
        # locate a crashing program
        for p in progs:
            o, rc1, err1 = vlib.run_lines([str(h)], p)
            if rc1 != 0:
                first = [l for l in err1.splitlines() if "runtime error" in l or "ERROR: AddressSanitizer" in l or "Assertion" in l][:1]
                res.violation("real JitRuntime::add aborts on a %d-op program: %s" % (len(p), (first or [err1[-300:]])[0]),
                              {"ops": p, "stderr": err1[-2000:]}, True, key="jit-abort")
                return
        res.violation("JitRuntime::add run failed: " + fail, {}, False, key="jit-protocol")
        return
    if ma is None:
        res.violation("JitRuntime::add run failed: " + fail, {}, False, key="jit-protocol")
        return
    verdicts = c03.judge(progs, ia)
    if verdicts is None:
        res.violation("monitor protocol failure (JitRuntime::add programs)", {}, False, key="jit-protocol")
        return
    outcomes, views, first = {}, {}, {}
    badset = set()
    for i, (p, a) in enumerate(zip(progs, ia)):
        j = jit_idx(p)
        wa = a[j].split()
        outcomes[wa[0]] = outcomes.get(wa[0], 0) + 1
        if wa[0] == "Ok":
            rw = next((x[3:] for x in wa if x.startswith("rw=")), wa[3])
            views["rx!=rw" if int(rw, 16) != int(wa[3], 16) else "rx==rw"] = views.get("rx!=rw" if int(rw, 16) != int(wa[3], 16) else "rx==rw", 0) + 1
        for cls, why in jit_verdicts(p, a, verdicts[i]):
            badset.add(i)
            if cls not in first or len(p) < len(first[cls][0]):
                first[cls] = (p, a, why)
    for cls, (p, a, why) in sorted(first.items()):
        res.violation("%s (%d-op program)" % (why, len(p)), {"ops": p, "impl": a, "how": "python3 tools/check.py replay <this file>"}, True, key="jit:" + cls)
    diffs = [i for i in range(len(progs)) if ia[i] != ma[i] and i not in badset]
    if diffs:
        i = min(diffs, key=lambda j: len(progs[j]))
        p = progs[i]

        def differs(b):
            a, m, f = jit_pair(h, [p[:1] + b + p[-4:]])
            return a is not None and m is not None and a != m
        sp = p[:1] + vlib.ddmin(p[1:-4], differs, max_tests=150) + p[-4:] if differs(p[1:-4]) else p
        a, m, _ = jit_pair(h, [sp])
        a, m = (a or [[]])[0], (m or [[]])[0]
        k = vlib.first_diff(a, m)
        res.violation("correspondence model/implementation differs on JitRuntime::add (%d programs) at op %r: impl=%s model=%s"
                      % (len(diffs), sp[k] if k is not None and k < len(sp) else "?", (a[k] if k is not None and k < len(a) else "?")[:200],
                         (m[k] if k is not None and k < len(m) else "?")[:200]),
                      {"ops": sp, "impl": a, "model": m, "unchecked": "correspondence Model/JitAdd.lean ~ JitRuntime::_add"}, False, key="corr-jit")
    res.coverage["jit_add_programs"] = len(progs)
    res.coverage["jit_add_outcomes"] = outcomes
    res.coverage["jit_add_views"] = views
    if progs and not views.get("rx!=rw"):
        res.notes.append("no dual-mapped span was obtained (kUseDualMapping unavailable here?): the rx/rw distinction was not exercised")


def run(res):
    rng = vlib.rng_for(res.seed, PID)
    res.assumptions += c03.ASSUMPTIONS + [
        "JitRuntime::add is exercised for real (fresh runtime per program, fill pattern 0xCC; allocator variants: default, kUseDualMapping - rx != rw, the image is read through rx and CodeHolder::base_address() must be rx -, kUseMultiplePools, kImmediateRelease, kDisableInitialPadding): the bytes at the returned pointer are judged by the "
        "monitor and compared with the model's image for that address (Model/JitAdd.lean); the allocator itself is C10's subject, the span "
        "address is taken from the real run; executing the code is not part of the check",
        "model follows the repaired relocate_to_base tail: fixes/C04-1.patch (address table buffer size set even when the table is not last)"]
    h, broken = c03.prepare(res, PID, MODS)
    if h is None:
        return
    progs = addrtab_programs(rng, res.tier) + c03.gen_programs(rng, res.tier, c04=True)
    c03.check_programs(res, PID, h, progs, broken)
    check_jit(res, h, rng)


def replay(data):
    ops = data["replay"].get("ops", [])
    if not any(l.startswith("jitadd") for l in ops) or "jitrelease" not in ops:
        return c03.replay(data)
    h = vlib.build_harness("c03")
    impl, rc, err = vlib.run_lines([str(h)], ops)
    for o, r in zip(ops, impl):
        print(o, "->", r[:300])
    if rc != 0 or len(impl) != len(ops):
        print(err[-2000:])
        return 1
    v = c03.judge([ops], [impl])
    why = jit_verdict(ops, impl, v[0] if v else "?")
    print("monitor:", v[0] if v else "?", "| JitRuntime::add/release:", why or "ok")
    return 1 if why else 0
