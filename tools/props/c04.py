"""C04 — relocated code addresses its absolute targets correctly at any base address (DESIGN.md section 6, C04).
Shares model, driver, harness and monitor with C03 (tools/props/c03.py)."""
import vlib
from props import c03

PID = "C04"
MANIFEST = {
    "technique": "Lean 4 theorems (bv_decide over all 64-bit bases/targets) for the relocation arithmetic of a hand model of "
                 "CodeHolder::relocate_to_base + absolute reference sites, run-time-meaning monitor, C++/Lean correspondence",
    "text": "Lean proves over ALL programs (Props/C04E: relocs_own_their_regions[_final]) that every RelocEntry owns its region: inside the "
            "buffer, containing the value word, disjoint from every other entry's region and from the field of every fixup reference - in "
            "every assembling state and in the state relocate_to_base starts from. Lean also proves for every base address, section offset, site and target (all 2^64 values): an AbsToRel / X64AddressEntry rel32 "
            "that passes the range test reaches exactly the payload, a refused one is unreachable by any rel32, the 32-bit wrap-around "
            "designates the target modulo 2^32, the address-table rel32 reaches the slot, RelToAbs / embedded label addresses evaluate "
            "to base + section offset + label offset + addend, and assembling with the base known yields the same rel32 as relocating "
            "afterwards (x86 jmp/call and AArch64 branches). The relocation loop is part of the model whose invariants C03 proves over "
            "all programs. The model is tied to the real relocate_to_base / EmitJmpCall imm path / a64 EmitOp_Rel imm path / address "
            "table by running both on the same programs x bases (low, high, straddling 2^31/2^32/2^47/2^63) x base known at init or "
            "assigned at relocation x address table last or not; the Lean monitor decodes every absolute reference of the real "
            "relocated image (rel32, or FF /2|/4 + slot content).",
    "note": "reloc_correct / reloc_abs_correct / reloc_rel_correct (Props/C04E) compose the relocate_to_base fold with the ownership "
            "invariant for every program and base (1/2/4/8-byte values, address-table rel32). Not yet proved: persistence of the slot "
            "content to the end of the fold, the payload-to-label link of RelToAbs entries, end-to-end known_base_equiv (the monitor "
            "evaluates them on every explored program x base). Trusted: as C03. JitRuntime::_add (allocation + copy loop) is not modelled: the relocated section bytes and layout are "
            "compared instead; executing the code is not part of the check. x86 [ABSOLUTE] memory operands without a label and the "
            "movabs heuristic are not modelled. Model follows the repaired relocate_to_base tail (fixes/C04-1).",
}
MODS = ["AsmjitVerif.Props.C04", "AsmjitVerif.Props.C04E", "AsmjitVerif.Props.C04K"]


def addrtab_programs(rng, tier):
    progs = []
    far = (0x123456789ABC, 0x7FFFFFFFF000, 1 << 63, (1 << 64) - 0x1000, 0x100000000)
    near = (0x2000, 0x7FFF0000, 0x80001000)
    for base in c03.BASES:
        for ib in (None, base):
            for last in (True, False):
                body = ["newlabel"]
                if not last:
                    # the first patchable call creates .addrtab (id 1, order INT_MAX); a user section of the same order
                    # created afterwards (id 2) sorts after it, so the table is not the last section
                    body += ["jmpabs call d %x" % far[1], "newsection 8 2147483647"]
                for t in rng.sample(far, 3) + rng.sample(near, 2):
                    body.append("jmpabs %s d %x" % (rng.choice(("jmp", "call")), t))
                    if rng.random() < 0.4:
                        body.append("zeros %d" % rng.randrange(1, 9))
                body.append("jmpabs call d %x" % far[0])        # repeated target: same slot
                body += ["bind 0", "elabel 0 8", "jmp jmp d 0"]
                if not last:
                    body += ["section 2", "embed 9090", "elabel 0 8"]
                progs.append(["init x64 %s" % ("-" if ib is None else "%x" % ib)] + body + c03.tail(base))
    # base known at init: absolute targets just ahead of / behind the instruction, around the rel8 limit (short/long choice)
    for arch, base in (("x64", 0x7FFFF000), ("x64", 1 << 47), ("x86", 0x400000)):
        for k in ("jmp", "jz", "jecxz"):
            for d in (-131, -130, -129, -128, -127, 125, 126, 127, 128, 129, 130, 131, 132):
                # instruction at offset 16: rel8 form ends at 18 (+1 with the 67h prefix of jecxz in 64-bit mode)
                end8 = 16 + 2 + (1 if (k == "jecxz" and arch == "x64") else 0)
                progs.append(["init %s %x" % (arch, base), "zeros 16", "jmpabs %s d %x" % (k, (base + end8 + d) & c03.M64)] + c03.tail(base))
    # absolute memory operands [A]: every menu instruction (with 0/1/2/4 trailing immediate bytes) x address type x
    # base known at init / assigned at relocation x targets on both sides of the rel32 reach and of the int32/uint32 limits
    for base in (0x10000, 0x7FFFF000, 1 << 32, (1 << 47) - 65536, 1 << 63):
        for ib in (None, base):
            near = [(base + 0x1000) & c03.M64, (base + 0x7FFFFF00) & c03.M64, (base - 0x7FFFFF00) & c03.M64, (base + 0x2000) & c03.M64]
            far = [(base + 0x80000100) & c03.M64, (base - 0x80000100) & c03.M64, 0x1000, 0x7FFFFFF0, 0x80000000, 0xFFFFFFF0,
                   0xFFFFFFFF80000000, 0x123456789A]
            init = "init x64 %s" % ("-" if ib is None else "%x" % ib)
            for at in "dar":
                # every target within rel32 reach: the relocation succeeds and every operand is judged
                body = ["zeros %d" % rng.randrange(0, 9)]
                for k in c03.MK:
                    for t in rng.sample(near, 2):
                        body.append("memabs %s %s %x" % (k, at, t))
                progs.append([init] + body + c03.tail(base))
                # targets that may be out of reach / need the absolute form: one program each so that one failing relocation
                # does not hide the others
                for t in rng.sample(far, 3):
                    progs.append([init, "memabs %s %s %x" % (rng.choice(c03.MK), at, t), "memabs addi8 %s %x" % (at, near[0])] + c03.tail(base))
    # mov with the accumulator: moffs (movabs) form vs ModRM form, 64-bit-only / uint32-only / int32 addresses
    for base in (0x10000, 1 << 32, 1 << 63):
        for ib in (None, base):
            init = "init x64 %s" % ("-" if ib is None else "%x" % ib)
            for at in "dar":
                for t in (0x123456789ABC, 0xFFFFFFFF, 0x100000000, 0x7FFFFFFF, 0xFFFFFFFF80000000, (base + 0x4000) & c03.M64, 1 << 63):
                    progs.append([init, "memabs %s %s %x" % (rng.choice(("ldeax", "steax", "ldrax")), at, t), "memabs ldeax %s %x" % (at, t)] + c03.tail(base))
    for base in (0x1000, 0x7FFFF000, 0xFFFF0000):
        for at in "dar":
            progs.append(["init x86 -"] + ["memabs %s %s %x" % (k, at, t) for k in c03.MK for t in (0x1000, 0x80000000, 0xFFFFFFF0)] + c03.tail(base))
    # 32-bit wrap-around, jcc / jecxz through relocations, AArch64 branches to absolute targets
    for base in (0x1000, 0x7FFFF000, 0x80000000, 0xFFFFF000):
        for ib in (None, base):
            for t in (0, 0x1000, 0x7FFFFFFF, 0x80000000, 0xFFFFFFF0):
                progs.append(["init x86 %s" % ("-" if ib is None else "%x" % ib), "newlabel", "jmpabs jmp d %x" % t, "jmpabs call d %x" % t,
                              "jmpabs jz d %x" % t, "bind 0", "mem mov 0 4", "elabel 0 4", "mem addi8 0 %x" % (t & 0xFFFF)] + c03.tail(base))
    for base in (0x10000, 0x7FFF0000, 1 << 32, (1 << 47) - 65536):
        for ib in (None, base):
            for d in (0x1000, 0x7FFF000, 0x8000000, 0x8001000, 0xFFFFF000, 0x100000000):
                for sign in (1, -1):
                    t = (base + sign * d) & c03.M64
                    progs.append(["init a64 %s" % ("-" if ib is None else "%x" % ib), "newlabel", "a64abs b %x" % t, "a64abs bl %x" % t,
                                  "a64abs bcond %x" % t, "a64abs adr %x" % t, "a64abs adrp %x" % (t & ~0xFFF), "a64abs tbz %x" % t,
                                  "bind 0", "elabel 0 8"] + c03.tail(base))
    return progs


def run(res):
    rng = vlib.rng_for(res.seed, PID)
    res.assumptions += c03.ASSUMPTIONS + [
        "JitRuntime::_add is represented by flatten + resolve + relocate_to_base(base) and the comparison of every section's bytes and layout",
        "model follows the repaired relocate_to_base tail: fixes/C04-1.patch (address table buffer size set even when the table is not last)"]
    h, broken = c03.prepare(res, PID, MODS)
    if h is None:
        return
    progs = addrtab_programs(rng, res.tier) + c03.gen_programs(rng, res.tier, c04=True)
    c03.check_programs(res, PID, h, progs, broken)


replay = c03.replay
