"""C07 — prolog/epilog preserve callee-saved state and keep frame areas disjoint (DESIGN.md section 6, C07)."""
import re
from concurrent.futures import ThreadPoolExecutor

import vlib

PID = "C07"
UFF_SHAPES = {}
MANIFEST = {
    "technique": "Lean 4 theorems over a hand model of FuncFrame::init/setters/finalize, FuncArgsAssignment::update_func_frame (frame effect), "
                 "x86/AArch64 emit_prolog/emit_epilog executed on an abstract stack machine, and RAStackAllocator/update_stack_frame "
                 "(all frames reachable through the public API, all entry stacks, all confined bodies; induction over API-call sequences, "
                 "push/pop lists, save-slot lists, stack-slot lists) + C++/Lean correspondence + Lean monitors run on the real output",
    "text": "Lean proves (Props/C07.lean, C07Api.lean, C07RA.lean; no sorry; axioms propext/Classical.choice/Quot.sound): finalize_layout - for "
            "every frame handed to finalize the reported areas are ordered, disjoint, aligned; x86_prolog_body_epilog(_api) - for every x86-32/"
            "x86-64 frame reachable through the public API (any built-in convention, optionally with user-set preserved masks, init, then ANY "
            "sequence of set_/update_ size and alignment calls, attribute changes incl. a stale kAlignedVecSR, dirty-mask changes, SA register, "
            "update_func_frame; argument validity = power-of-two alignments <= 64, sizes <= 256 MiB, real GP register), every entry state and "
            "EVERY confined body: prolog;body;epilog returns to the caller's return address with the required sp and every callee-saved "
            "GP/vector/mask/mm register restored, promised alignment and stack-argument offsets inside the body; "
            "a64_prolog_body_epilog(_api) - the same on AArch64 at full strength (dynamic alignment with DA slot or frame pointer, any SA "
            "register; the former open finding is repaired by fixes/C07-8 and its witness now proved correct); ra_slots_layout + ra_handover - "
            "for every list of stack slots in every order the allocator's slots are aligned, pairwise disjoint, inside [0, stack_size), and after "
            "update_stack_frame inside the finalized frame's local area. Tie: the real CallConv/FuncFrame/update_func_frame/emit_prolog/"
            "emit_epilog/RAStackAllocator run on the same seeded lines as the model (frames, API-call sequences, a sweep over every CallConvId x "
            "architecture x platform, slot lists); the Lean monitors (same predicates as the theorems) execute the implementation's "
            "prolog/epilog around the most hostile admissible body at every entry-stack residue mod 128 and judge every frame and slot layout.",
    "note": "Trusted: Lean kernel; Spec/StackMachine.lean + Spec/FrameSpec.lean as the meaning of the instructions and of the property; the "
            "harness/driver diff. update_func_frame is modelled by its effect on the frame (dirty bits added, SA register selected); the real "
            "call is executed by the harness and its observed effect is checked against that shape and replayed by the model. The sort of "
            "calculate_stack_frame is not transcribed (theorems hold for every order; the model places in the implementation's order). "
            "BaseRAPass::update_stack_frame itself is not driven (composition of tied pieces; C05 validates compiled programs). Not covered: "
            "instruction encodability (C01/C02). No open finding. The model follows fixes/C07-1..8.patch; until C07-8 is applied the check reports the AArch64 dynamic-alignment / "
            "SA-register class on /repo with concrete replays.",
}
MODS = ["AsmjitVerif.Props.C07", "AsmjitVerif.Props.C07Api", "AsmjitVerif.Props.C07RA"]

ARCHN = {0: "x86", 1: "x64", 2: "a64"}
CCS = {0: [0, 1, 2, 3, 4, 5, 6, 7, 16, 17, 18], 1: [0, 1, 2, 3, 4, 5, 6, 7, 16, 17, 18, 32, 33], 2: [0, 1, 3, 7, 16, 17, 18, 32, 33]}
BAD_CCS = {0: [8, 30, 32, 33], 1: [8, 30, 31], 2: []}
ATTR_BITS = [0x10, 0x20, 0x80, 0x10000, 0x20000, 0x40000, 0x80000, 0x100000, 0x1]
# witnesses of the former open finding C07-a64-dynalign (DESIGN.md section 7, #12), repaired by fixes/C07-8
WITNESS_A64_DA = "frame 2 0 0 0 0 80000 100 0 0 - 0 100 64 0 0 255"
WITNESS_A64_SA = "frame 2 16 0 0 0 0 0 0 0 - 0 8 8 8 16 15"
CORPUS = [
    WITNESS_A64_DA,
    WITNESS_A64_SA,
    "frame 0 1 0 12 0 c8 0 0 0 - 0 40 8 0 0 255",          # x86-32 alignment 8 (fixes/C07-1)
    "frame 2 16 0 0 0 30 f0 0 0 - 0 100 16 0 0 255",       # a64 light-call 16-byte vector saves (fixes/C07-2)
    "frame 1 16 0 0 0 0 0 ff 0 0,0,ff,0,8,16,8,8,8,16,8,8 0 0 0 0 0 255",   # x86 mask saves (fixes/C07-3)
    "seq 1 0 0 0 f008 0 0 0 f008,0,0,0 aat:10,sls:40,sla:16",   # custom convention without rbp + preserved FP (fixes/C07-5)
    "seq 0 0 0 0 0 ff 0 0 e8,ff,0,0 aat:40,sls:8,sla:4",        # stale kAlignedVecSR on a 4-aligned stack (fixes/C07-6)
    "seq 2 0 0 0 180000 0 0 0 - aat:10,sls:40,ssa:29",          # a64: stack arguments through the preserved x29 (fixes/C07-7)
    # shapes of the independently seeded changes (seeded/C07-1..3): keep them in every run
    "seq 1 0 0 0 0 0 0 0 - uca:64,sla:16,sls:40",              # C07-1: local alignment set after a larger call-area alignment
    "seq 1 6 1 0 0 0 0 0 - sca:64,sla:4",
    "seq 0 16 0 0 0 0 0 0 - uca:32,sla:16,sls:24",
    "seq 2 0 0 0 0 0 0 0 - uca:16,sla:8,sls:24",
    "frame 1 0 1 0 0 0 8000 0 0 - 0 40 8 8 16 255",            # C07-2: Win64, dirty xmm15, local size not a multiple of 16
    "frame 1 3 0 0 0 0 40 0 0 - 0 24 8 0 0 255",               #        vectorcall, dirty xmm6
    "frame 1 16 0 0 0 0 100 0 0 - 0 100 4 8 8 255",            #        LightCall2, dirty xmm8
    "frame 0 16 0 0 0 0 20 0 0 - 0 40 0 8 16 255",             #        32-bit LightCall2, dirty xmm5
    "frame 2 0 0 0 0 0 100 0 0 - 0 40 16 0 0 255",             # C07-3: AArch64 leaf, no dirty callee-saved GP register, dirty d8
    "frame 2 33 0 0 0 0 80000000 0 0 - 0 8 8 0 16 255",        #        light-call convention, dirty v31
    "frame 2 0 0 0 0 0 ff00 0 0 - 0 0 0 0 0 255",
    "frame 1 0 0 0 0 f008 0 0 0 - 0 40 8 0 0 255",
    "frame 1 0 1 0 10 f0c8 ffc0 0 0 - 0 100 32 32 16 255",
    "frame 1 0 0 0 0 f008 0 0 0 - 0 40 64 0 0 255",
    "frame 2 0 0 0 10 3ff80000 300 0 0 - 0 5000 16 0 0 255",
]

PRESERVED_HINT = {0: [0xE8, 0xFF, 0, 0xFF], 1: [0xF0E8, 0xFFFFFFFF, 0xFF, 0xFF], 2: [0x7FFC0000, 0xFFFFFFF0, 0, 0]}


def pick_mask(rng, arch, g):
    r = rng.random()
    hint = PRESERVED_HINT[arch][g]
    if r < 0.15:
        return 0
    if r < 0.30:
        return 0xFFFFFFFF
    if r < 0.45:
        return hint
    if r < 0.60:
        return 1 << rng.randrange(32)
    if r < 0.80:
        return rng.getrandbits(32) & hint
    return rng.getrandbits(32)


def gen_op(rng, tier, wild=False):
    arch = rng.choice((0, 0, 1, 1, 1, 2, 2))
    cc = rng.choice(CCS[arch])
    if wild and BAD_CCS[arch] and rng.random() < 0.1:
        cc = rng.choice(BAD_CCS[arch])
    win = rng.randrange(2)
    arg_stack = rng.choice((0, 0, 4, 8, 12, 16, 40, rng.randrange(0, 257) * 4))
    attrs = 0
    for b in ATTR_BITS:
        if rng.random() < (0.35 if b in (0x10, 0x20) else 0.15):
            attrs |= b
    used = [pick_mask(rng, arch, g) for g in range(4)]
    if arch == 2:
        used[2] = used[3] = 0 if not wild else used[2]
    ovr = "-"
    if rng.random() < 0.25:
        if arch == 2:
            p = [rng.getrandbits(31) | (3 << 29), rng.getrandbits(32), 0, 0]
            big = rng.random() < 0.5
            sizes = [8, 16 if big else 8, 0, 0, 16, 16, 8, 1]
        else:
            gpbits = 8 if arch == 0 else 16
            nvec = 8 if arch == 0 else 32
            p = [(rng.getrandbits(gpbits) | 0x20) & ~0x10, rng.getrandbits(nvec), rng.getrandbits(8), rng.getrandbits(8)]
            w = 4 if arch == 0 else 8
            sizes = [w, 16, 8, 8, w, 16, 8, 8]
        ovr = ",".join(["%x" % x for x in p] + [str(x) for x in sizes])
    upd = 1 if rng.random() < 0.25 else 0
    lsz = rng.choice((0, 0, 1, 4, 8, 12, 16, 24, 40, 100, 4095, 4096, 4097, 65535, 65536, rng.randrange(65537), rng.randrange(1 << 20)))
    lal = rng.choice((0, 1, 2, 4, 8, 8, 16, 16, 32, 64))
    csz = rng.choice((0, 0, 0, 8, 16, 32, 40, 100, rng.randrange(4096)))
    cal = rng.choice((0, 0, 1, 4, 8, 16, 32, 64))
    sareg = 255
    if rng.random() < 0.2:
        sareg = rng.choice({0: [0, 1, 2, 3, 5, 6, 7], 1: [0, 1, 2, 3, 5, 6, 7, 8, 9, 12, 15], 2: list(range(0, 29))}[arch])
    if wild:
        r = rng.random()
        if r < 0.15:
            lal = rng.choice((3, 24, 128, 255, 256, 257))
        elif r < 0.3:
            cal = rng.choice((3, 48, 128, 255, 256))
        elif r < 0.45:
            lsz = rng.choice((0xFFFFFF, 0x1000000, 0x1000001, 0xFFF000, 0x7FFFFFF0, 0xFFFFFFF0, 0xFFFFFFFF))
        elif r < 0.55:
            csz = rng.choice((0x1000000, 0x7FFFFFF0, 0xFFFFFFF0))
        elif r < 0.65:
            arg_stack = rng.choice((65535, 65536, 65540, 1 << 20))
    return "frame %d %d %d %d %x %x %x %x %x %s %d %d %d %d %d %d" % (arch, cc, win, arg_stack, attrs, used[0], used[1], used[2], used[3],
                                                                    ovr, upd, lsz, lal, csz, cal, sareg)


GPREGS = {0: [0, 1, 2, 3, 5, 6, 7], 1: [0, 1, 2, 3, 5, 6, 7, 8, 9, 12, 15], 2: list(range(0, 29))}


def gen_seq(rng):
    """init (optionally on a convention with user-set preserved masks) followed by a random sequence of public-API calls."""
    arch = rng.choice((0, 0, 1, 1, 1, 2, 2))
    cc = rng.choice(CCS[arch])
    win = rng.randrange(2)
    arg_stack = rng.choice((0, 0, 4, 8, 16, 40))
    used = [pick_mask(rng, arch, g) for g in range(4)]
    pm = "-"
    if rng.random() < 0.35:
        if arch == 2:
            p = [rng.getrandbits(31) | (1 << 30), rng.getrandbits(32), 0, 0]
        else:
            gpbits = 8 if arch == 0 else 16
            p = [rng.getrandbits(gpbits), rng.getrandbits(8 if arch == 0 else 32), rng.getrandbits(8), rng.getrandbits(8)]
        pm = ",".join("%x" % x for x in p)
    ops = []
    for _ in range(rng.randrange(0, 10)):
        k = rng.choice(("sls", "sla", "scs", "sca", "uls", "ula", "ucs", "uca", "aat", "aat", "cat", "sd", "ad", "sad", "ssa", "rsa", "rrz",
                        "uff", "uff"))
        if k in ("sls", "uls"):
            ops.append("%s:%d" % (k, rng.choice((0, 1, 8, 40, 100, 4096, 65536, rng.randrange(1 << 16)))))
        elif k in ("scs", "ucs"):
            ops.append("%s:%d" % (k, rng.choice((0, 8, 32, 40, rng.randrange(4096)))))
        elif k in ("sla", "ula", "sca", "uca"):
            ops.append("%s:%d" % (k, rng.choice((0, 1, 4, 8, 16, 16, 32, 64))))
        elif k == "aat":
            ops.append("aat:%x" % rng.choice((0x10, 0x10, 0x20, 0x40, 0x80, 0x10000, 0x40000, 0x80000, 0x100000, 0x1, 0x50)))
        elif k == "cat":
            ops.append("cat:%x" % rng.choice((0x10, 0x20, 0x40, 0x10000)))
        elif k in ("sd", "ad"):
            g = rng.randrange(4)
            ops.append("%s:%d:%x" % (k, g, pick_mask(rng, arch, g)))
        elif k == "ssa":
            ops.append("ssa:%d" % rng.choice(GPREGS[arch]))
        elif k == "uff":
            ops.append("uff:%d:%x" % (rng.randrange(0, 11), rng.getrandbits(48)))
        else:
            ops.append(k)
    return "seq %d %d %d %d %x %x %x %x %s %s" % (arch, cc, win, arg_stack, used[0], used[1], used[2], used[3], pm, ",".join(ops) or "-")


def gen_ras(rng, wild=False):
    """slots for RAStackAllocator: size:alignment:flags:use_count"""
    n = rng.choice((0, 1, 2, 3, 5, 8, 14))
    out = []
    for _ in range(n):
        size = rng.choice((1, 2, 4, 4, 8, 8, 16, 32, 64, rng.randrange(1, 200), 4096))
        align = rng.choice((1, 2, 4, 8, 16, 32, 64)) if rng.random() < 0.4 else min(64, 1 << (size.bit_length() - 1))
        flags = (1 if rng.random() < 0.7 else 0) | (2 if rng.random() < 0.1 else 0)
        if wild and rng.random() < 0.2:
            # still inside the contract of the (private) class: BaseCompiler::_new_stack only passes powers of two up to 64 and sizes > 0
            size = rng.choice((1, 3, 63, 65, 1000, 65536, 1 << 20))
        out.append("%d:%d:%d:%d" % (size, align, flags, rng.choice((0, 1, 2, 5, 20, 1000))))
    return "ras " + (",".join(out) or "-")


def run_ras(res, h, rng, n):
    """RAStackAllocator: model placement in the implementation's sort order + the slot-layout monitor."""
    ops = ["ras 4:4:1:3,16:16:1:1,8:8:1:10,1:1:1:2,32:32:0:0,4:4:3:1,2:2:1:7,100:4:0:0"]
    ops += [gen_ras(rng) for _ in range(n)] + [gen_ras(rng, wild=True) for _ in range(n // 5)]
    impl, rc, err = vlib.run_lines([str(h)], ops, timeout=7200)   # generous: a wall-clock timeout would be reported as a violation
    if rc != 0 or len(impl) != len(ops):
        def crashes(c):
            o, r, _ = vlib.run_lines([str(h)], c)
            return r != 0 or len(o) != len(c)
        small = vlib.ddmin(ops, crashes, max_tests=60) if crashes(ops) else ops[:5]
        res.violation("harness aborted / timed out on RAStackAllocator ops rc=%s: %s" % (rc, err[-1200:]), {"ops": small, "stderr": err[-3000:]},
                      True, key="harness-abort")
        return
    m1, m2, idx = [], [], []
    for i, (o, a) in enumerate(zip(ops, impl)):
        if not a.startswith("ok "):
            continue
        w = a.split()
        m1.append("rasm %s | %s" % (o[4:], " ".join(t.split(":")[0] for t in w[3:]) or "-"))
        m2.append("rasmon %s | %s" % (o[4:], " ".join(w[1:])))
        idx.append(i)
    o1, r1, _ = vlib.run_model(PID, m1, timeout=7200)
    o2, r2, _ = vlib.run_model(PID, m2, timeout=7200)
    if len(o1) != len(idx) or len(o2) != len(idx):
        res.violation("driver protocol failure on RAStackAllocator ops", {}, False, key="protocol")
        return
    if len(idx) < len(ops) // 2:
        res.violation("empty / degenerate RAStackAllocator run: %d ops, %d accepted" % (len(ops), len(idx)), {"ops_head": ops[:10]}, False,
                      key="empty-run")
        return
    asc = 0
    seen_bad = seen_corr = False
    for k, i in enumerate(idx):
        ws = [int(t.split(":")[1]) for t in impl[i].split()[3:]]
        asc += ws == sorted(ws)
        judgeable = all(int(t.split(":")[1]) in (1, 2, 4, 8, 16, 32, 64) and int(t.split(":")[0]) > 0 for t in ops[i][4:].split(",")) if ops[i] != "ras -" else True
        is_bad = o2[k] != "good" and judgeable
        if is_bad and not seen_bad:
            seen_bad = True
            res.violation("RAStackAllocator slot layout violates C07 (hand-over) on %r: monitor says %s; implementation answered %s"
                          % (ops[i], o2[k], impl[i][:500]), {"ops": [ops[i]], "monitor": o2[k]}, True, key="rastack:" + o2[k].split()[1])
        if o1[k] != impl[i] and not is_bad and not seen_corr:
            seen_corr = True
            res.violation("correspondence RAStack model/implementation differs at %r: impl=%s model=%s" % (ops[i], impl[i][:400], o1[k][:400]),
                          {"ops": [ops[i]], "impl": impl[i], "model": o1[k], "unchecked": "Model/RAStack.lean ~ rastack.cpp"}, False, key="corr-rastack")
    res.coverage["rastack"] = {"ops": len(ops), "judged": len(idx), "sorted_ascending_by_weight": asc,
                               "note": "the comparator of step 2 sorts ascending although the comments say descending (layout quality only)"}
    res.coverage["evaluations"] += len(ops)


CIV_CORPUS = [
    "civ 1 0 33 0 64 16 79=v79,79=v79,40=i5,79=v79",                 # SysV caller -> Win64 callee, three by-reference temporaries
    "civ 1 0 33 0 64 16 79=v79,79=v79,79=v79,79=v79,40=i5,40=i6",    # four temporaries + two stack arguments
    "civ 1 1 0 2 100 8 89=v89,40=r40,89=v89,89=v89,40=i7",           # Win64 native, 256-bit vectors (dynamic alignment)
    "civ 1 0 33 6 40 64 99=v99,99=v99,99=v99,99=v99,40=i1",          # 512-bit vectors
    "civ 1 0 33 8 64 16 79=v79,79=v79,79=v79,79=v79",                # preserved frame pointer
    "civ 0 1 3 0 24 8 38=i1,38=r38,79=v79,79=v79,79=v79,79=v79,79=v79,79=v79,79=v79",   # 32-bit vectorcall, vectors on the stack
]


def gen_civ(rng):
    """a real x86::Compiler function with a live local buffer that invokes a callee taking vectors (by reference on Win64)"""
    arch = 1 if rng.random() < 0.8 else 0
    win = rng.randrange(2)
    cc = rng.choice((33, 33, 0, 3, 32) if arch == 1 else (0, 1, 2, 3))
    vt, fl = rng.choice(((79, 0), (79, 2), (89, 2), (99, 6), (79, 0)))
    if rng.random() < 0.25:
        fl |= 8
    nvec = rng.randrange(0, 5)
    args = []
    for k in range(rng.randrange(1, 9)):
        if len([a for a in args if "v" in a]) < nvec and (k < 4 or arch == 0 or cc != 33 and not win) and rng.random() < 0.7:
            args.append("%d=v%d" % (vt, vt))
        else:
            t = rng.choice((38, 40) if arch == 1 else (38,))
            args.append("%d=%s" % (t, rng.choice(("i%x" % rng.getrandbits(16), "r%d" % t))))
    lsize = rng.choice((0, 1, 16, 24, 40, 64, 100, 4096))
    lalign = rng.choice((1, 4, 8, 16, 16, 32, 64))
    return "civ %d %d %d %x %d %d %s" % (arch, win, cc, fl, lsize, lalign, ",".join(args))


def run_civ(res, h, rng, n):
    """frames as the Compiler really builds them around an invoke: every store before the call stays inside the call area"""
    ops = list(CIV_CORPUS) + [gen_civ(rng) for _ in range(n)]
    impl, rc, err = vlib.run_lines([str(h)], ops, timeout=7200)
    if rc != 0 or len(impl) != len(ops):
        def crashes(c):
            o, r, _ = vlib.run_lines([str(h)], c, timeout=7200)
            return r != 0 or len(o) != len(c)
        small = vlib.ddmin(ops, crashes, max_tests=60) if crashes(ops) else ops[:5]
        res.violation("harness aborted / timed out on Compiler invoke ops rc=%s: %s" % (rc, err[-1200:]), {"ops": small, "stderr": err[-3000:]},
                      True, key="harness-abort")
        return
    idx = [i for i, a in enumerate(impl) if a.startswith("ok ")]
    if len(idx) < len(ops) // 3:
        res.violation("empty / degenerate Compiler invoke run: %d ops, %d compiled" % (len(ops), len(idx)), {"ops_head": ops[:10], "impl_head": impl[:10]},
                      False, key="empty-run")
        return
    lines = []
    for i in idx:
        f, st = impl[i][3:].split(" |")
        f = f.split()
        lines.append("civmon %s %s %s | %s" % (f[0], f[2], f[3], st.strip() or "-"))
    mon, r2, _ = vlib.run_model(PID, lines, timeout=7200)
    if len(mon) != len(idx):
        res.violation("driver protocol failure on Compiler invoke ops", {}, False, key="protocol")
        return
    nst = 0
    seen = set()
    for k, i in enumerate(idx):
        nst += len(impl[i].split(" |")[1].split())
        f = impl[i][3:].split(" |")[0].split()
        # the invoke's own arg_stack_size (incl. temporaries) must be covered by the frame's call area
        verdict = mon[k]
        if verdict == "good" and int(f[7]) > int(f[0]):
            verdict = "BAD call-area-smaller-than-invoke-stack"
        if verdict != "good" and verdict.split()[1] not in seen:
            seen.add(verdict.split()[1])
            res.violation("Compiler-built frame violates C07 (call area / local area) on %r: monitor says %s; frame+stores: %s"
                          % (ops[i], verdict, impl[i][:400]), {"ops": [ops[i]], "monitor": verdict}, True, key="civ:" + verdict.split()[1])
    res.coverage["compiler_invoke"] = {"ops": len(ops), "compiled": len(idx), "stores_judged": nst,
                                       "with_temporaries": sum(1 for i in idx if "v" in ops[i].split()[7])}
    res.coverage["evaluations"] += len(ops)


def sweep_ops(tier):
    """Every CallConvId value (valid or not) x every architecture x both platforms x a fixed battery of frames."""
    out = []
    full = tier != "quick"
    masks = ("0", "ffffffff", "hint") if full else ("hint",)
    attrs = (0, 0x10, 0x20, 0x30) if full else (0, 0x30)
    sizes = ((0, 0), (8, 8), (40, 16), (100, 32), (4096, 64)) if full else ((40, 16), (100, 32))
    calls = ((0, 0), (32, 16)) if full else ((32, 16),)
    for arch in (0, 1, 2):
        for cc in list(range(0, 36)) + [255]:
            for win in (0, 1):
                for mk in masks:
                    u = [0xFFFFFFFF if mk == "ffffffff" else 0 if mk == "0" else PRESERVED_HINT[arch][g] for g in range(4)]
                    for at in attrs:
                        for lsz, lal in sizes:
                            for csz, cal in calls:
                                out.append("frame %d %d %d %d %x %x %x %x %x - 0 %d %d %d %d 255" % (arch, cc, win, 8, at, u[0], u[1], u[2], u[3],
                                                                                                 lsz, lal, csz, cal))
    return out


def is_pow2_or_zero(n):
    return n & (n - 1) == 0


def monitorable(op):
    """Frames inside the property's quantifier: power-of-two alignments <= 64, sizes that do not wrap 32-bit arithmetic."""
    w = op.split()
    if w[0] == "seq":
        arch = int(w[1])
        if w[9] != "-":
            p = [int(x, 16) for x in w[9].split(",")]
            if arch == 2 and not (p[0] >> 30) & 1:
                return False
        if w[10] != "-":
            for o in w[10].split(","):
                a = o.split(":")
                if a[0] in ("sla", "ula", "sca", "uca") and not (is_pow2_or_zero(int(a[1])) and int(a[1]) <= 64):
                    return False
                if a[0] in ("sls", "uls", "scs", "ucs") and int(a[1]) >= (1 << 24):
                    return False
        return int(w[4]) < 65536
    lsz, lal, csz, cal = int(w[12]), int(w[13]), int(w[14]), int(w[15])
    return is_pow2_or_zero(lal) and is_pow2_or_zero(cal) and lal <= 64 and cal <= 64 and lsz < (1 << 24) and csz < (1 << 24) and int(w[4]) < 65536


def known_key(op, impl_line, reason):
    """stable key of a violation class; C07 has no open finding any more (C07-a64-dynalign repaired by fixes/C07-8)"""
    w = op.split()
    return "frame:%s:%s" % (reason.split()[0] if reason else "?", ARCHN[int(w[1])])


def run_model_par(lines, workers=4, chunk=20000):
    """vlib.run_model over chunks in parallel (the driver is stateless per line); keeps wall time low on a loaded machine"""
    if len(lines) <= chunk:
        return vlib.run_model(PID, lines, timeout=7200)
    parts = [lines[i:i + chunk] for i in range(0, len(lines), chunk)]
    with ThreadPoolExecutor(workers) as ex:
        res = list(ex.map(lambda c: vlib.run_model(PID, c, timeout=7200), parts))
    out, rc, err = [], 0, ""
    for o, r, e in res:
        out += o
        if r != 0:
            rc, err = r, e
    return out, rc, err


def judge(h, ops):
    """Runs harness, model and monitor. Returns (impl, model, mon) lists (mon[i] is None when not judged)."""
    impl, rc, err = vlib.run_lines([str(h)], ops, timeout=7200)   # generous: a wall-clock timeout would be reported as a violation
    if rc != 0 or len(impl) != len(ops):
        return None, None, None, (rc, err)
    # the real update_func_frame calls report what they did to the frame; the model replays exactly that
    mops = list(ops)
    for i, (o, r) in enumerate(zip(ops, impl)):
        if " uff " in r:
            parts = r.split(" uff ")
            impl[i] = parts[0]
            obs = iter(parts[1:])
            UFF_SHAPES[i] = [x.split() for x in parts[1:]]

            def rep(m, obs=obs):
                t = next(obs).split()
                return "uffr:%s:%s:%s:%s:%s:%d" % (t[0], t[1], t[2], t[3], t[4], 1 if t[5] == "Ok" else 0)
            mops[i] = re.sub(r"uff:\d+:[0-9a-f]+", rep, o)
    model, rc2, err2 = run_model_par(mops)
    if rc2 != 0 or len(model) != len(ops):
        return impl, None, None, (rc2, err2)
    idx = [i for i, (o, r) in enumerate(zip(ops, impl)) if r.startswith("ok ") and monitorable(o)]
    mon_out, rc3, err3 = run_model_par(["mon " + impl[i][3:] for i in idx])
    if rc3 != 0 or len(mon_out) != len(idx):
        return impl, model, None, (rc3, err3)
    mon = [None] * len(ops)
    for k, i in enumerate(idx):
        mon[i] = mon_out[k]
    return impl, model, mon, None


def shrink(h, op, reason_head):
    """Greedy simplification of one failing frame while the monitor keeps giving the same reason."""
    def fails(cand):
        impl, rc, _ = vlib.run_lines([str(h)], [cand])
        if rc != 0 or not impl or not impl[0].startswith("ok ") or not monitorable(cand):
            return False
        m, _, _ = vlib.run_model(PID, ["mon " + impl[0][3:].split(" uff ")[0]])
        return bool(m) and m[0].startswith("BAD " + reason_head)

    w = op.split()
    if w[0] == "seq":
        if w[10] != "-":
            keep = vlib.ddmin(w[10].split(","), lambda c: fails(" ".join(w[:10] + [",".join(c)])), max_tests=60)
            if fails(" ".join(w[:10] + [",".join(keep)])):
                w[10] = ",".join(keep)
        for i, simple in ((9, "-"), (4, "0"), (5, "0"), (6, "0"), (7, "0"), (8, "0")):
            c = list(w)
            c[i] = simple
            if fails(" ".join(c)):
                w = c
        return " ".join(w)
    for _ in range(2):
        for i in (5, 6, 7, 8, 9):           # attrs and used masks: drop bits
            v = int(w[i], 16)
            b = 1
            while b <= v:
                if v & b:
                    c = list(w)
                    c[i] = "%x" % (v & ~b)
                    if fails(" ".join(c)):
                        w, v = c, v & ~b
                b <<= 1
        for i, simple in ((10, ["-"]), (11, ["0"]), (4, ["0"]), (16, ["255"]), (12, ["0", "8", "16", "40"]), (14, ["0", "8", "16"]),
                          (13, ["0", "8", "16"]), (15, ["0", "16"]), (3, ["0"])):
            for s in simple:
                if w[i] != s:
                    c = list(w)
                    c[i] = s
                    if fails(" ".join(c)):
                        w = c
                        break
    return " ".join(w)


def run(res):
    rng = vlib.rng_for(res.seed, PID)
    res.assumptions += [
        "instruction semantics = Spec/StackMachine.lean (push/pop/mov/and/sub/add/lea/load/store/stp/ldp/ret; vector registers are numbers)",
        "the body is any state transformer confined to call area, local area, everything below sp, the caller-provided spill zone and the dirty registers",
        "callee-saved set = the convention's preserved masks (their agreement with the ABI documents is C06's preserved_sets_match)",
        "rapass.cpp / rastack.cpp hand-over not modelled (C05)",
        "encodability of the emitted instructions is not part of this check (C01/C02)",
        "theorems assume power-of-two alignments <= 128 and sizes whose sums stay below 2^31 (no uint32 wrap)"]
    broken = []
    ok, out = vlib.lean_stage(res, PID, MODS)
    if not ok and not res.violations:
        for ft in getattr(res, "build_failures", []) or [{"decl": "?", "msg": out[-800:]}]:
            broken.append("theorem %s (%s:%s) no longer checks: %s" % (ft.get("decl"), ft.get("file"), ft.get("line"), ft.get("msg")))
        vlib.lake_build(["vdriver"])
    if not vlib.driver_path().exists():
        res.violation("Lean driver does not build", {"log": out[-3000:]}, found_input=False, key="driver")
        return

    h = vlib.build_harness("c07")
    n = 6000 if res.tier == "quick" else 120000
    ops = list(CORPUS)
    ops += [gen_op(rng, res.tier) for _ in range(n)]
    ops += [gen_op(rng, res.tier, wild=True) for _ in range(n // 4)]
    ops += [gen_seq(rng) for _ in range(n // 2)]
    sweep = sweep_ops(res.tier)
    ops += sweep
    UFF_SHAPES.clear()
    impl, model, mon, fail = judge(h, ops)
    if fail is not None:
        rc, err = fail
        if impl is None:
            # crash / sanitizer report: find the op
            def crashes(c):
                o, r, _ = vlib.run_lines([str(h)], c)
                return r != 0
            small = vlib.ddmin(ops, crashes, max_tests=60) if crashes(ops) else ops[:5]
            res.violation("harness aborted (sanitizer or crash), rc=%s: %s" % (rc, err[-1500:]), {"ops": small, "stderr": err[-3000:]},
                          found_input=True, key="harness-abort")
        else:
            res.violation("driver/harness protocol failure rc=%s %s" % (rc, err[-500:]), {}, found_input=False, key="protocol")
        return

    # update_func_frame may only add dirty registers and select a real GP register (never sp) as SA register
    for i, shapes in UFF_SHAPES.items():
        arch = int(ops[i].split()[1])
        for t in shapes:
            why = None
            if t[6] != "1":
                why = "changed a field other than dirty masks / SA register"
            elif len(t) > 7:
                why = t[7]
            elif t[4] != "-" and int(t[4]) >= (32 if arch == 2 else 16):
                why = "selected register %s as SA register" % t[4]
            if why and mon[i] is None:
                mon[i] = "BAD update_func_frame " + why.replace(" ", "-")
    bad = [(i, mon[i]) for i in range(len(ops)) if mon[i] is not None and mon[i].startswith("BAD")]
    diffs = [i for i in range(len(ops)) if impl[i] != model[i]]
    n_ok = sum(1 for r in impl if r.startswith("ok "))
    n_judged = sum(1 for m in mon if m is not None)
    if not ops or n_ok < len(ops) // 2 or n_judged < len(ops) // 4:
        res.violation("empty / degenerate run: %d ops, %d accepted by the real code, %d judged by the monitor" % (len(ops), n_ok, n_judged),
                      {"ops_head": ops[:10], "impl_head": impl[:10]}, False, key="empty-run")
    judged = sum(1 for m in mon if m is not None)
    kinds = {}
    for o, r, m in zip(ops, impl, mon):
        w = o.split()
        k = ARCHN[int(w[1])] + ":" + w[0] + ":" + (r.split()[0] if not r.startswith("ok") else ("ok" if " | !" not in r else "emit-refused"))
        if w[0] == "seq" and w[10] != "-":
            for o2 in w[10].split(","):
                k3 = "apiop:" + o2.split(":")[0]
                kinds[k3] = kinds.get(k3, 0) + 1
        kinds[k] = kinds.get(k, 0) + 1
        if r.startswith("ok "):
            f = r[3:].split(" | ")[0].split()
            attrs = int(f[1])
            tags = []
            if attrs & 0x10:
                tags.append("fp")
            if int(f[10]) >= int(f[7]):
                tags.append("da")
            if int(f[21]):
                tags.append("xsave")
            if int(f[11]):
                tags.append("calleepop")
            if int(f[3]) != int(f[2]) and not (attrs & 0x10 and int(f[3]) in (5, 29)):
                tags.append("sareg")
            k2 = "shape:" + ("+".join(tags) or "plain")
            kinds[k2] = kinds.get(k2, 0) + 1
    res.coverage["repo"] = "%s (tree %s)" % (vlib.REPO, vlib.repo_hash())
    res.coverage["evaluations"] = len(ops)
    res.coverage["distinct_nontrivial"] = len({o for o, r in zip(ops, impl) if r.startswith("ok ")})
    res.coverage["rule"] = ("seeded frames over arch x calling convention x windows x dirty masks (empty/all/preserved/single/random) x attributes x "
                            "optional custom preserved masks x set/update setters x local size (0..64KiB boundaries, up to 1MiB) x alignments 0..64 x "
                            "call size/alignment x SA register; plus a wild quarter (non-power-of-two alignments, >=16MiB sizes, invalid conventions) for "
                            "correspondence only; non-trivial = distinct op the real code accepts; every accepted frame inside the quantifier is "
                            "executed by the Lean monitor at every entry-stack residue mod 128")
    res.coverage["exhaustive"] = False
    res.coverage["sweep"] = "%d frames: every CallConvId 0..35 and 255 x {x86, x64, a64} x {linux, windows} x fixed battery" % len(sweep)
    res.coverage["update_func_frame_calls"] = sum(len(v) for v in UFF_SHAPES.values())
    res.coverage["input_distribution"] = kinds
    res.coverage["monitor_judged"] = judged
    res.coverage["traces_validated_against_impl"] = len(ops)
    res.add_samples([{"op": ops[i], "impl": impl[i][:600], "model_equal": impl[i] == model[i], "monitor": mon[i]}
                     for i in (0, 4, len(ops) // 3, len(ops) // 2, len(ops) - 1)])

    run_ras(res, h, rng, 1500 if res.tier == "quick" else 30000)
    run_civ(res, h, rng, 400 if res.tier == "quick" else 6000)

    reported = set()
    for i, m in bad:
        reason = m[4:]
        key = known_key(ops[i], impl[i], reason)
        if key in reported:
            continue
        reported.add(key)
        cnt = sum(1 for j, mm in bad if known_key(ops[j], impl[j], mm[4:]) == key)
        small = shrink(h, ops[i], reason.split()[0])
        si, _, _ = vlib.run_lines([str(h)], [small])
        res.violation("real prolog/epilog violates C07 on frame %r: monitor says %s (%d such frames in this run); implementation answered %s"
                      % (small, m, cnt, (si[0] if si else "?")[:700]),
                      {"ops": [small], "monitor": m, "original_op": ops[i]}, True, key=key)
    # A correspondence difference is reported unless a violation that is NOT the open finding already explains the same op;
    # a broken obligation is always reported.
    explained = {i for i, m in bad}
    unexplained = [i for i in diffs if i not in explained]
    if unexplained:
        i = unexplained[0]
        res.violation("correspondence model/implementation differs at %r: impl=%s model=%s (%d differing ops, %d of them not explained by a "
                      "reported violation); the property predicate holds on these frames"
                      % (ops[i], impl[i][:500], model[i][:500], len(diffs), len(unexplained)),
                      {"ops": [ops[i]], "impl": impl[i], "model": model[i], "unchecked": "correspondence Model/Frame.lean ~ func.cpp / *emithelper.cpp"},
                      False, key="corr")
    if broken:
        res.violation("proof obligation no longer checks: " + " | ".join(broken)[:1500], {"unchecked": broken}, False, key="obligation")


def replay(data):
    ops = data["replay"].get("ops", [])
    h = vlib.build_harness("c07")
    impl, rc, err = vlib.run_lines([str(h)], ops, timeout=7200)   # generous: a wall-clock timeout would be reported as a violation
    def monline(o, r):
        if not r.startswith("ok "):
            return "x"
        if o.startswith("ras "):
            return "rasmon %s | %s" % (o[4:], r[3:])
        if o.startswith("civ "):
            f, st = r[3:].split(" |")
            f = f.split()
            return "civmon %s %s %s | %s" % (f[0], f[2], f[3], st.strip() or "-")
        return "mon " + r[3:].split(" uff ")[0]
    mon, _, _ = vlib.run_model(PID, [monline(o, r) for o, r in zip(ops, impl)])
    for o, r, m in zip(ops, impl, mon):
        print(o, "->", r, "->", m)
    return 0
