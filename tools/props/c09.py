"""C09 — JitAllocator never hands out overlapping, misaligned or corrupted memory (DESIGN.md section 6, C09)."""
import itertools
import os
import re
import time
from concurrent.futures import ThreadPoolExecutor

import vlib

PID = "C09"
MANIFEST = {
    "technique": "Lean 4 invariant proofs (induction over all operation histories) on a hand model of jitallocator.cpp + C++/Lean "
                 "correspondence on the same operation lines (answers, statistics, private block state) + Lean monitor of the property "
                 "run on every answer of the real allocator",
    "text": "Model/JitAlloc.lean transcribes jitallocator.cpp (bit vectors, search window, incremental mode, pools, block sizing, "
            "release/shrink/query/reset/statistics, fill pattern, write with truncation). Props/C09.lean proves, for every history of "
            "operations and every configuration (induction over the history, no bound): the invariant that ties the used/stop bit vectors, "
            "area_used, kFlagEmpty/kFlagIncremental and the search window/cache to the table of spans the caller holds "
            "(inv_all_histories, bitvectors_exact, block_accounting_exact, window_all_histories); live spans are pairwise disjoint, granule "
            "aligned, inside their block, never in the padding granule (live_spans_disjoint, live_span_wellformed, alloc_span_fresh); "
            "allocation succeeds with size >= request (alloc_ok); release frees exactly the span (release_ok); query of any address of a "
            "live span returns exactly that span (query_exact); allocation_count = number of live spans (allocation_count_exact); free "
            "memory is reused: no new block while a block of the serving pool has room, wherever the gap is (free_memory_reused); per-pool "
            "block count / reserved / used totals are exact (pool_totals_exact); at most one empty block per pool, none with immediate "
            "release, and a block is flagged empty iff it holds no span (retention_policy, empty_flag_iff_no_spans); unknown "
            "blocks and stale spans are rejected without state change; reset leaves nothing accounted; is_initialized is true. "
            "Props/C09Refine.lean adds, again for all histories and all constructor configurations: memory contents of a live span are "
            "kept by every operation except the caller's own write to it, i.e. the fill/wipe of release, shrink, reset and alloc stay "
            "inside the freed range (contents_kept); with kFillUnusedMemory every unused granule, in particular what release/shrink gave "
            "back, carries the pattern (free_granules_filled, fill_after_release, fill_after_shrink); statistics() = block count, live "
            "spans, sum of block sizes, live bytes + padding (stats_exact); the monitor Spec.monitor accepts every run of the model "
            "(model_accepted_by_spec, a simulation proof Lemmas/JitAllocSim*.lean); with explicit rx/rw base addresses per block "
            "(Layout, OS behaviour = hypothesis LayoutOK) distinct live spans are disjoint in the rx view, in the rw view and across "
            "the views, and both addresses of a byte denote the same cell (rx_view_disjoint, rw_view_disjoint, views_never_cross, "
            "views_alias_same_cell); machine arithmetic: no block exceeds 2^31+2^29 bytes and the 64/32-bit expressions of the block-size, "
            "request and shrink computations are exact (block_sizes_bounded, block_size_arithmetic_exact, request_arithmetic_exact, "
            "shrink_arithmetic). The model is "
            "tied to the real code by running both on bounded-exhaustive and seeded random histories (all option sets, granularities, block "
            "sizes) comparing every answer, the statistics after every operation and the private block state; Spec/JitAlloc.lean "
            "(independent ghost-table monitor: disjointness, alignment, size, contents, fill pattern, query sweep, statistics, reusability, "
            "retention policy, foreign pointers, initialised flag) judges every answer of the real allocator.",
    "note": "Trusted: Lean kernel; Spec/JitAlloc.lean as the meaning of the property (padding granule = span reserved by the allocator); "
            "the harness/driver/diff. OS behaviour is only tested (mmap/dual mapping give fresh page-aligned disjoint ranges, rw aliases rx; the "
            "harness checks both on every block), large pages are never granted in the sandbox, thread safety is C11. The RB tree lookup is "
            "modelled as lookup by block id (C18). The model computes in unbounded naturals; the machine-width expressions of the code (size_t / uint32_t, "
            "wrap and truncation explicit: Lemmas/JitAllocWord.lean) are proved equal to it in every reachable state (block_sizes_bounded, "
            "block_size_arithmetic_exact, request_arithmetic_exact, shrink_arithmetic), except the two narrowing findings C09-9 / C09-10. "
            "Requests at the upper limit (2 GiB blocks) run on the real code and the monitor only. Memory is modelled per granule "
            "(whole-granule writes only). LayoutOK (mappings of block_size bytes, pairwise apart, rw = rx with single mapping) is an "
            "assumption about mmap, checked by the harness on every block.",
}
MODS = ["AsmjitVerif.Props.C09", "AsmjitVerif.Props.C09Refine"]
SHRINK_DEADLINE = [float("inf")]   # wall-clock limit for shrinking (set per run: the quick tier stays under ~3 min on failure paths too)

OPT_DUAL, OPT_MULTI, OPT_FILL, OPT_IMM, OPT_NOPAD, OPT_LARGE, OPT_ALIGNLP, OPT_CUSTOM = 1, 2, 4, 8, 16, 32, 64, 0x10000000
# the 8 most different option sets (quick); thorough uses all 2^6 x custom pattern
QUICK_OPTS = [0, OPT_NOPAD, OPT_FILL | OPT_IMM, OPT_MULTI | OPT_FILL, OPT_DUAL | OPT_FILL | OPT_CUSTOM, OPT_MULTI | OPT_IMM | OPT_NOPAD,
              OPT_LARGE | OPT_ALIGNLP | OPT_FILL | OPT_NOPAD | OPT_CUSTOM, OPT_DUAL | OPT_MULTI | OPT_FILL | OPT_IMM | OPT_NOPAD | OPT_LARGE | OPT_CUSTOM]
PATTERNS = [0xA1B2C3D4, 0x90909090, 0x00000000, 0xD4D4D4D4, 0x0badf00d]


def cfg_line(opts, gran, block, pat):
    return "cfg %x %d %d %x" % (opts, gran, block, pat)


# ----------------------------------------------------------------------------------------------
# generators: a *history* is a list of lines that starts with a cfg line
# ----------------------------------------------------------------------------------------------

def exhaustive_histories(depth, opts, gran, alphabet_kind):
    """all operation sequences of exactly `depth` symbols over a small alphabet on the smallest blocks (64 KiB base => first block 128 KiB)."""
    bs = 65536
    first = 2 * bs
    pad = 0 if opts & OPT_NOPAD else gran
    half = first // 2
    if alphabet_kind == 0:
        alpha = ["alloc 1", "alloc %d" % half, "alloc %d" % (half - pad), "alloc %d" % (first + 1), "alloc %d" % first,
                 "release 0", "release 1", "release 2", "shrink 0 1", "shrink 1 %d" % (gran + 1), "wtrunc 2 5a 0",
                 "reset soft", "reset hard", "wtrunc 1 3c %d" % (half // 2)]
    else:
        q = first // 4
        alpha = ["alloc %d" % q, "alloc %d" % (q - pad), "alloc %d" % (2 * q), "release 0", "release 1", "release 2", "release 3",
                 "shrink 2 %d" % gran, "shrink 3 %d" % (q // 2), "alloc %d" % (3 * gran)]
    tail = ["dump", "sweep", "mem", "blocks"]
    for seq in itertools.product(alpha, repeat=depth):
        yield [cfg_line(opts, gran, bs, 0xA1B2C3D4), "isinit"] + list(seq) + tail


def sizing_histories(opts, gran, bs):
    """Directed family for `calculate_ideal_block_size`: requests that are exact multiples of the base block size (1x 2x 3x 4x 8x), the
    same minus the padding granule (a block that is exactly full), one granule less and one byte more, each as the request that OPENS a
    block: in a fresh allocator, next to an existing block, next to two blocks (the last one already doubled), next to a retained empty
    block and after a hard reset.  The new block must hold the padding granule AND the span (monitor: span inside its block; ASan: bit
    vectors; correspondence: block size)."""
    pad = 0 if opts & OPT_NOPAD else gran
    sizes = []
    for k in (1, 2, 3, 4, 8):
        sizes.append(k * bs)
        if pad:
            sizes.append(k * bs - pad)
        # the larger pools of kUseMultiplePools pad with THEIR granule
        if pad and (opts & OPT_MULTI):
            sizes += [k * bs - 2 * gran, k * bs - 4 * gran]
    for k in (2, 4):
        sizes += [k * bs - gran, k * bs + 1]
    prefixes = [[], ["alloc 1"], ["alloc 1", "alloc %d" % (2 * bs)], ["alloc 1", "release 0"], ["alloc %d" % bs, "reset hard"]]
    for pre in prefixes:
        h = sum(1 for l in pre if l.startswith("alloc"))
        for sz in sizes:
            # per-granule observers (sweep / mem) only on the smaller blocks: they cost O(block) in the harness
            obs = ["sweep", "mem"] if sz <= 2 * bs else ["dump"]
            yield ([cfg_line(opts, gran, bs, 0x90909090), "isinit"] + pre +
                   ["alloc %d" % sz, "write %d 41" % h, "query %d %d" % (h, sz - 1), "dump", obs[0], "read %d" % h,
                    "alloc %d" % gran, "release %d" % h, "blocks", "alloc %d" % sz, "dump"] + obs + ["blocks"])


def reset_fill_histories(opts, gran, bs):
    """Directed family for `reset` (JitAllocatorImpl_wipeOutBlock) and the memory it makes reusable: written spans in EVERY pool
    (requests of 1, 2 and 4 granules and their multiples route to pools 0/1/2 under kUseMultiplePools), released in part, then a soft /
    hard reset, the colour of every granule of every kept block (`mem`: the fill pattern with kFillUnusedMemory), allocation and reading
    of the reused memory, and a second reset.  Added after seeded change C09-8 (wipe scaled with the base granularity instead of the
    pool's), which the seeded random histories of the quick tier missed (the only multi-pool + fill set ran the no-reset profile)."""
    sizes = [gran, 3 * gran, 2 * gran, 6 * gran, 4 * gran, 12 * gran, 8 * gran, 1, 5 * gran + 1]
    for policy in ("soft", "hard"):
        for rel in ([], [1, 4], [0, 2, 5, 8]):
            lines = [cfg_line(opts, gran, bs, 0xD4D4D4D4), "isinit"]
            for i, sz in enumerate(sizes):
                lines += ["alloc %d" % sz, "write %d %x" % (i, 0x41 + i)]
            lines += ["release %d" % h for h in rel]
            lines += ["mem", "blocks", "reset " + policy, "mem", "sweep", "dump"]
            n = len(sizes)
            for j, sz in enumerate([2 * gran, 4 * gran, gran, 8 * gran]):
                lines += ["alloc %d" % sz, "read %d" % (n + j)]
            lines += ["write %d 7f" % n, "mem", "reset soft", "mem", "blocks", "dump"]
            yield lines


def large_page_histories(opts, gran):
    """kUseLargePages (+ kAlignBlockSizeToLargePage): blocks of at least the large-page size (2 MiB) and, with the align option, every
    block take the large-page attempt of JitAllocator_new_block; the sandbox grants none, so the fallback to regular pages is what runs."""
    pad = 0 if opts & OPT_NOPAD else gran
    for pre in ([], ["alloc 1"]):
        h = len(pre)
        for sz in (2 ** 21, 2 ** 21 - pad, 2 ** 22 + 1):
            yield ([cfg_line(opts, gran, 65536, 0x90909090), "isinit"] + pre +
                   ["alloc %d" % sz, "query %d %d" % (h, sz - 1), "blocks", "dump", "alloc %d" % gran, "shrink %d %d" % (h, 2 ** 20), "dump",
                    "release %d" % h, "blocks", "alloc %d" % sz, "blocks", "dump", "reset soft", "blocks"])


HUGE = [2 ** 31, 2 ** 32, 2 ** 32 + 1, 2 ** 63, 2 ** 64 - 1, 2 ** 64 - 63, 2 ** 64 - 64]


def overflow_histories(opts, gran):
    """Directed family for the 32/64-bit narrowing points (decided on the model first, Lemmas/JitAllocWord.lean): `shrink` / truncating
    write to sizes of 2^32 granules and more (the uint32_t narrowing of `area_size_from_byte_size`), to sizes near 2^31 / 2^32 / 2^63 /
    2^64 and one granule around the span size; `alloc` of sizes near 2^31, 2^32, 2^63 and within one granule of 2^64 (the alignment
    wraps to 0).  Small blocks: run on the real code, the model and the monitor."""
    pg = [gran, 2 * gran, 4 * gran] if opts & OPT_MULTI else [gran]
    news = HUGE + [g * 2 ** 32 + d for g in pg for d in (0, 1, g, -g + 1)] + [257 * gran, 256 * gran + 1]
    for ns in news:
        for op in ("shrink 1 %d", "wtrunc 1 5a %d"):
            yield [cfg_line(opts, gran, 65536, 0xA1B2C3D4), "isinit", "alloc %d" % (2 * gran), "alloc %d" % (256 * gran), "alloc %d" % gran,
                   "write 0 41", "write 1 42", "write 2 43", op % ns, "sweep", "dump", "read 0", "read 1", "read 2", "mem",
                   "alloc %d" % gran, "sweep", "release 1", "sweep", "blocks"]
    sizes = HUGE + [2 ** 31 - 1, 2 ** 31 - gran + 1, 2 ** 31 + gran, 2 ** 64 - gran, 2 ** 64 - gran + 1, 2 ** 64 - 4 * gran, 2 ** 64 - 4 * gran + 1]
    yield ([cfg_line(opts, gran, 65536, 0xA1B2C3D4), "isinit", "alloc %d" % gran] + ["alloc %d" % z for z in sizes] +
           ["query 0 %d" % z for z in HUGE[:5]] + ["sweep", "dump", "blocks"])


def big_histories(quick):
    """Requests at the upper limit (2^31 - granularity bytes: blocks of 2 GiB and more, area sizes of 2^25 granules), on the real code
    and the monitor only (the list-based model cannot hold 2^25 granules; virtual memory is cheap: the allocator maps, it does not touch
    the pages - so no fill option, no write / read / sweep / mem here)."""
    out = []
    plan = [(0, 64), (OPT_NOPAD, 64), (OPT_MULTI, 256), (OPT_DUAL, 128), (OPT_LARGE | OPT_ALIGNLP | OPT_IMM, 64)]
    if not quick:
        plan += [(OPT_MULTI | OPT_NOPAD, 64), (OPT_DUAL | OPT_MULTI, 256), (OPT_LARGE, 256), (OPT_IMM | OPT_NOPAD, 128)]
    for opts, gran in plan:
        top = 2 ** 31 - gran             # the largest request `alloc` accepts
        pg = 4 * gran if opts & OPT_MULTI else gran
        top_pool = 2 ** 31 - pg          # the largest one served by the coarsest pool
        out.append([cfg_line(opts, gran, 65536, 0), "isinit", "alloc %d" % top, "blocks", "dump", "alloc %d" % (top + 1), "alloc %d" % 2 ** 31,
                    "query 0 %d" % (top - 1), "query 0 %d" % top, "shrink 0 %d" % (top + 1), "shrink 0 %d" % (top - gran + 1), "dump",
                    "shrink 0 %d" % (top - gran), "dump", "alloc %d" % gran, "alloc %d" % top_pool, "blocks", "dump",
                    "shrink 0 %d" % 2 ** 38, "shrink 0 %d" % (2 ** 64 - 1), "shrink 0 1", "dump", "release 0", "release 1", "release 2", "blocks", "dump"])
        out.append([cfg_line(opts, gran, 262144, 0), "isinit", "alloc %d" % gran, "alloc %d" % top_pool, "blocks", "alloc %d" % (2 ** 30), "blocks",
                    "dump", "release 1", "alloc %d" % (2 ** 30 + 2 ** 29), "blocks", "dump", "reset soft", "blocks", "alloc %d" % top, "blocks",
                    "reset hard", "blocks"])
    return out


def random_history(rng, opts, gran, block, pat, nops, profile):
    lines = [cfg_line(opts, gran, block, pat), "isinit"]
    eff_gran = gran if gran in (64, 128, 256) else 64
    eff_block = block if block in (65536, 131072, 262144) else 65536
    first = 2 * eff_block
    pad = 0 if opts & OPT_NOPAD else eff_gran
    handles = []        # [live?, approx size]
    live = []           # indices of (probably) live handles, in allocation order
    budget = 1 << 21    # bytes live at most (keeps blocks small enough for the model)
    total = 0

    def pick_size():
        r = rng.random()
        if r < 0.30:
            return rng.choice([1, 2, 63, 64, 65, eff_gran, eff_gran + 1, 2 * eff_gran, 4 * eff_gran - 1, 1000, 1031, 4096])
        if r < 0.55:
            return rng.randrange(1, 16 * eff_gran)
        if r < 0.70:   # multiples of the larger pool granularities (multi-pool routing)
            return rng.choice([2, 4, 8]) * eff_gran * rng.randrange(1, 40)
        if r < 0.85:   # fractions of the first block, with and without room for the padding: blocks become exactly full
            return rng.choice([first // 8, first // 4, first // 2, first // 4 - pad, first // 2 - pad, first - pad, first // 8 - pad, first])
        if r < 0.90:
            return rng.randrange(eff_block // 2, 3 * eff_block)
        if r < 0.95:
            return pick_opening_size()
        return rng.choice([0, 5 * eff_block + 1, 2 ** 31, 2 ** 31 - 1 + eff_gran, 2 ** 32 + 5, 2 ** 64 - 1, 2 ** 64 - eff_gran, 2 ** 63])

    def pick_opening_size():
        """a request for a moment when a new block is likely to be opened: exact multiples of the base block size, with / without room
        for the padding granule"""
        k = rng.choice([1, 2, 2, 3, 4, 4, 8])
        return k * eff_block - rng.choice([0, 0, pad, eff_gran, 2 * eff_gran, -1])

    def pick_live():
        if not live:
            return rng.randrange(0, max(1, len(handles)))
        if profile == "lifo" and rng.random() < 0.8:
            return live[-1]
        if profile == "fifo" and rng.random() < 0.8:
            return live[0]
        return rng.choice(live)

    for _ in range(nops):
        r = rng.random()
        grow = 0.5 if len(live) < 40 and total < budget else 0.15
        if profile == "lifo":
            grow = min(grow, 0.45)
        if r < grow or not handles:
            sz = pick_opening_size() if (not live and total < budget and rng.random() < 0.5) else pick_size()
            lines.append("alloc %d" % sz)
            ok = 1 <= sz < 2 ** 31 - 256
            handles.append([ok, sz])
            if ok:
                live.append(len(handles) - 1)
                total += sz
                if rng.random() < 0.6:
                    lines.append("write %d %x" % (len(handles) - 1, rng.choice([0x41, 0x42, 0x7f, 0x01, 0xe9, 0x33])))
        elif r < grow + 0.25:
            h = pick_live()
            lines.append("release %d" % h)
            if h in live:
                live.remove(h)
                total -= handles[h][1]
        elif r < grow + 0.33:
            h = pick_live()
            sz = handles[h][1] if h < len(handles) else 64
            ns = rng.choice([1, eff_gran, max(1, sz // 2), max(1, sz - 1), sz, sz + 1, max(1, sz - eff_gran), 0 if rng.random() < 0.3 else 1,
                             rng.randrange(1, max(2, sz))])
            if rng.random() < 0.04:    # beyond the span: must be refused whatever the width of the arithmetic
                ns = rng.choice(HUGE + [eff_gran * 2 ** 32, 4 * eff_gran * 2 ** 32 + eff_gran, sz + eff_gran, 2 ** 32 + sz])
            if rng.random() < 0.5:
                lines.append("shrink %d %d" % (h, ns))
            else:
                lines.append("wtrunc %d %x %d" % (h, rng.choice([0x55, 0x66, 0x77]), ns))
            if h in live:
                if ns == 0:
                    live.remove(h)
                    total -= sz
                elif ns < sz:
                    handles[h][1] = ns
                    total -= sz - ns
        elif r < grow + 0.40:
            h = pick_live() if rng.random() < 0.7 else rng.randrange(0, len(handles))
            h = min(h, len(handles) - 1)
            lines.append("query %d %d" % (h, rng.choice([0, 1, eff_gran - 1, eff_gran, handles[h][1] // 2, max(0, handles[h][1] - 1), handles[h][1],
                                                         handles[h][1] + eff_gran])))
        elif r < grow + 0.44:
            lines.append("read %d" % pick_live())
        elif r < grow + 0.46:
            lines.append("sstale %d %d" % (rng.randrange(0, len(handles)), rng.choice([1, eff_gran, 4 * eff_gran])))
        elif r < grow + 0.48:
            lines.append(rng.choice(["rforeign 0", "rforeign 1", "rforeign 2", "rforeign 3", "rforeign 4", "qforeign 0", "qforeign 1",
                                     "qforeign 2", "qforeign 3", "sforeign", "isinit"]))
        elif r < grow + 0.485 and profile != "noreset":
            lines.append("reset " + rng.choice(["soft", "soft", "hard"]))
            live.clear()
            total = 0
        elif r < grow + 0.50 and live and rng.random() < 0.5:
            # release everything (in a random order): "after everything is released ..."
            order = list(live)
            rng.shuffle(order)
            for h in order:
                lines.append("release %d" % h)
            live.clear()
            total = 0
            lines.append("blocks")
        else:
            lines.append(rng.choice(["dump", "sweep", "mem", "blocks", "dump"]))
    lines += ["dump", "sweep", "mem", "blocks"]
    return lines


# ----------------------------------------------------------------------------------------------
# running
# ----------------------------------------------------------------------------------------------

def mon_lines(ops, impl):
    return ["mon %s => %s" % (o, r) for o, r in zip(ops, impl)]


class Runner:
    def __init__(self, harness):
        self.h = str(harness)

    def impl(self, lines):
        """run the real code; returns (answers, crashed?, stderr)"""
        out, rc, err = vlib.run_lines([self.h], lines, timeout=900)
        return out, rc != 0, err

    def model(self, lines):
        out, rc, err = vlib.run_model("C09", lines, timeout=900)
        return out

    def monitor(self, lines, impl):
        out, rc, err = vlib.run_model("C09", mon_lines(lines, impl), timeout=900)
        return out

    def judge(self, hist):
        """-> list of findings for one history: ('crash', n, stderr) | ('bad', line index, message) | ('diff', line index, impl, model)"""
        impl, crashed, err = self.impl(hist)
        if crashed:
            return [("crash", len(impl), err)]
        mon = self.monitor(hist, impl)
        out = [("bad", i, m) for i, m in effective_bads(mon, hist)]
        if out:
            return out
        if any(l.startswith("alloc ") and a.startswith("ok") and 2 ** 27 <= int(l.split()[1]) < 2 ** 31 for l, a in zip(hist, impl)):
            return []      # 2 GiB blocks: the list-based model is not run (big_histories)
        model = self.model(hist)
        d = vlib.first_diff(impl, model)
        if d is not None:
            return [("diff", d, impl[d] if d < len(impl) else "<none>", model[d] if d < len(model) else "<none>")]
        return []


OBSERVERS = {"cfg", "isinit", "sweep", "mem", "read", "query", "blocks", "dump", "rforeign", "qforeign", "sforeign", "sstale"}


def effective_bads(mon, lines):
    """BAD verdicts of one history that are worth reporting: those on observation operations (they do not move the ghost state; first of
    each key) and the first one on a state-changing operation (after it the ghost state is no longer in step with the allocator, later
    verdicts could be consequences)."""
    out, seen = [], set()
    for i, m in enumerate(mon):
        if m == "good":
            continue
        k = bad_key(m)
        if lines[i].split()[0] in OBSERVERS:
            if k not in seen:
                seen.add(k)
                out.append((i, m))
            continue
        if k not in seen:
            out.append((i, m))
        break
    return out


_KEY_NOISE = re.compile(r"\[[^\]\)]*[\]\)]|\b0x[0-9a-fA-F]+\b|\b[hbp]?\d+\b|[,:=+()]")


def bad_key(msg):
    """stable key of a class of monitor verdicts: 'mon:' + the words of the message without numbers / handle and block names, so
    that two different failures of the same operation family ('span leaves its block' / 'span overlaps ...', the six shrink verdicts,
    each statistic) get different keys and neither swallows the other"""
    w = _KEY_NOISE.sub(" ", msg).split()
    if len(w) < 2:
        return "mon:?"
    return "mon:" + "-".join(w[1:8])


def shrink_history(runner, hist, kind, key):
    cfg, body = hist[0], hist[1:]

    def fails(cand):
        for j in runner.judge([cfg] + cand):
            if j[0] == kind and (kind != "bad" or bad_key(j[2]) == key):
                return True
        return False

    if len(body) <= 12 or time.time() > SHRINK_DEADLINE[0]:   # minimal already (corpus, bounded-exhaustive) / out of time budget
        return hist
    small = vlib.ddmin(body, lambda c: time.time() < SHRINK_DEADLINE[0] and fails(c), max_tests=60)
    return [cfg] + small


def run_batch(runner, hists, with_model=True):
    """Runs a batch of histories through harness, model and monitor. Returns list of findings (kind, history, detail...) and counters."""
    findings = []
    stats = {"lines": 0, "hist": 0, "answers": {}, "crashes": 0, "nontrivial": set()}
    pending = list(hists)
    impl_all, lines_all = [], []
    guard = 0
    while pending and guard < 3 and (guard == 0 or time.time() < SHRINK_DEADLINE[0]):   # the first run always happens; re-runs after a crash are capped
        guard += 1
        flat, owner = [], []
        for k, hst in enumerate(pending):
            flat += hst
            owner += [k] * len(hst)
        impl, crashed, err = runner.impl(flat)
        if not crashed:
            impl_all += impl
            lines_all += flat
            break
        # the history in progress when the harness died (its last answer line may be cut off: never judge it)
        impl = impl[:-1]
        k = owner[len(impl)] if len(impl) < len(owner) else len(pending) - 1
        done = sum(len(h) for h in pending[:k])
        impl_all += impl[:done]
        lines_all += flat[:done]
        findings.append(("crash", pending[k], err))
        stats["crashes"] += 1
        pending = pending[k + 1:]
    stats["lines"] = len(lines_all)
    stats["hist"] = len(hists)
    if len(impl_all) != len(lines_all):
        findings.append(("protocol", lines_all[:5], "harness answered %d of %d lines" % (len(impl_all), len(lines_all))))
        return findings, stats, [], [], []
    mon = runner.monitor(lines_all, impl_all)
    model = runner.model(lines_all) if with_model else list(impl_all)
    if len(mon) != len(lines_all) or len(model) != len(lines_all):
        findings.append(("protocol", lines_all[:5], "driver answered %d/%d of %d lines" % (len(model), len(mon), len(lines_all))))
        return findings, stats, lines_all, impl_all, model
    # per history: first BAD, else first diff
    start = 0
    i = 0
    n = len(lines_all)
    while i < n:
        j = i + 1
        while j < n and not lines_all[j].startswith("cfg "):
            j += 1
        bads = effective_bads(mon[i:j], lines_all[i:j])
        for bi, bm in bads:
            findings.append(("bad", lines_all[i:j], bi, bm))
        if not bads:
            di = next((k for k in range(i, j) if impl_all[k] != model[k]), None)
            if di is not None:
                findings.append(("diff", lines_all[i:j], di - i, impl_all[di], model[di]))
        i = j
    # distinct non-trivial histories: the real allocator accepted at least one allocation in it
    start = 0
    nt = set()
    for k in range(1, n + 1):
        if k == n or lines_all[k].startswith("cfg "):
            if any(lines_all[q].startswith("alloc ") and impl_all[q].startswith("ok b") for q in range(start, k)):
                nt.add(hash(tuple(lines_all[start:k])))
            start = k
    stats["nontrivial"] = nt
    for o, r in zip(lines_all, impl_all):
        kk = o.split()[0] + ":" + " ".join(r.split()[:2] if r.startswith("err") else r.split()[:1])
        stats["answers"][kk] = stats["answers"].get(kk, 0) + 1
    return findings, stats, lines_all, impl_all, model


def build_histories(res, rng):
    quick = res.tier == "quick"
    hists = []
    # bounded-exhaustive on the smallest blocks
    if quick:
        plan = [(3, 0, 256, 0), (3, OPT_NOPAD | OPT_FILL, 256, 0), (4, OPT_NOPAD, 256, 1), (3, OPT_IMM, 64, 0)]
    else:
        plan = [(4, 0, 256, 0), (4, OPT_NOPAD | OPT_FILL, 256, 0), (5, OPT_NOPAD, 256, 1), (5, 0, 256, 1), (4, OPT_IMM | OPT_FILL, 64, 0),
                (4, OPT_MULTI | OPT_NOPAD, 128, 0)]
    nex = 0
    for depth, opts, gran, kind in plan:
        for d in range(1, depth + 1):
            for hst in exhaustive_histories(d, opts, gran, kind):
                hists.append(hst)
                nex += 1
    # directed: requests that open a block and are exact multiples of the block size
    nsz = 0
    if quick:
        splan = [(o, g, 65536) for o in QUICK_OPTS for g in (64, 128, 256)] + [(0, 64, 131072), (OPT_MULTI | OPT_FILL, 256, 131072)]
    else:
        splan = [(o, g, 65536) for o in range(64) for g in (64, 128, 256)] + [(o, g, 131072) for o in QUICK_OPTS for g in (64, 256)] + \
                [(o | OPT_ALIGNLP, 64, 65536) for o in range(64) if o & OPT_LARGE]
    for o, g, b in splan:
        for hst in sizing_histories(o, g, b):
            hists.append(hst)
            nsz += 1
    # directed: written spans in every pool, then reset: the kept blocks carry the fill pattern, reused memory is clean
    for o in (QUICK_OPTS if quick else range(64)):
        for g in ((64, 128, 256) if (o & OPT_FILL) else (64,)):
            for hst in reset_fill_histories(o, g, 65536):
                hists.append(hst)
                nsz += 1
    # directed: the large-page attempt and its fallback
    for o in ([OPT_LARGE, OPT_LARGE | OPT_ALIGNLP | OPT_FILL, OPT_LARGE | OPT_ALIGNLP | OPT_MULTI | OPT_NOPAD, OPT_DUAL | OPT_LARGE | OPT_ALIGNLP] if quick else
              [x | a for x in range(64) if x & OPT_LARGE for a in (0, OPT_ALIGNLP)]):
        for hst in large_page_histories(o, 64 if quick else [64, 128, 256][o % 3]):
            hists.append(hst)
            nsz += 1
    # directed: narrowing points of the 32/64-bit arithmetic
    for o, g in ([(o, g) for o in QUICK_OPTS for g in (64, 256)] if quick else
                 [(o, g) for o in range(128) if not (o & OPT_ALIGNLP) or (o & OPT_LARGE) for g in (64, 128, 256)]):
        for hst in overflow_histories(o, g):
            hists.append(hst)
            nsz += 1
    # seeded random histories
    profiles = ["lifo", "fifo", "random", "noreset"]
    if quick:
        optsets = QUICK_OPTS
        nops, reps = 1500, 1
    else:
        optsets = [o | c for o in range(64) for c in (0, OPT_CUSTOM)] + [o | OPT_ALIGNLP for o in range(64) if o & OPT_LARGE]
        nops, reps = 800, 1
    nrand = 0
    for k, opts in enumerate(optsets):
        for rep in range(reps):
            gran = rng.choice([64, 128, 256]) if rng.random() < 0.9 else rng.choice([0, 32, 100, 512])
            block = rng.choice([65536, 65536, 131072]) if rng.random() < 0.9 else rng.choice([0, 4096, 100000])
            pat = rng.choice(PATTERNS)
            hists.append(random_history(rng, opts, gran, block, pat, nops, profiles[(k + rep) % 4]))
            nrand += 1
    if not quick:
        # long histories: 10^5 operations in total on the most different option sets
        for k, opts in enumerate(QUICK_OPTS):
            hists.append(random_history(rng, opts, [64, 128, 256][k % 3], 65536, PATTERNS[k % 5], 12500, profiles[k % 4]))
            nrand += 1
    return hists, nex, nrand, nsz


def run(res):
    rng = vlib.rng_for(res.seed, PID)
    res.assumptions += [
        "mmap / dual mapping return fresh, page-aligned, pairwise disjoint ranges and the rw view aliases the rx view (tested by the harness on every block, not proved)",
        "large pages are never granted (sandbox: THP size 2 MiB is reported, no huge pages are reserved): with kUseLargePages (+ kAlignBlockSizeToLargePage) "
        "the MAP_HUGETLB attempt of JitAllocator_new_block fails and the fallback to regular pages is what is exercised (blocks >= 2 MiB and the align option)",
        "RB tree lookup by address = lookup by block id (ArenaTree is C18's subject)",
        "release(p) is specified for p = start of a live span; stale in-block pointers are only exercised through query/shrink",
        "the model computes in unbounded naturals; Lemmas/JitAllocWord.lean proves the size_t / uint32_t expressions of the code equal to it in every "
        "reachable state (except the two findings C09-9 / C09-10); requests of 2^31 - granularity bytes are run on the real code and the monitor only",
        "memory is modelled per granule: the protocol writes whole spans only",
        "the padding granule is read as a span reserved by the allocator (counted in used_size, reported by query)",
    ]
    broken = []
    ok, out = vlib.lean_stage(res, PID, MODS)
    if not ok and not res.violations:
        for ft in getattr(res, "build_failures", []) or [{"decl": "?", "msg": out[-800:]}]:
            broken.append("theorem %s (%s:%s) no longer checks: %s" % (ft.get("decl"), ft.get("file"), ft.get("line"), ft.get("msg")))
        vlib.lake_build(["vdriver"])
    if not vlib.driver_path().exists():
        res.violation("Lean driver does not build", {"log": out[-3000:]}, found_input=False, key="driver")
        return
    h = vlib.build_harness("c09")
    runner = Runner(h)
    import time as _t
    t0 = _t.time()
    vlib.log("[c09] proofs + builds done at %.0fs" % (t0 - res.t0))
    # budget for crash re-runs and shrinking, counted from here (library / harness builds are cached in the steady state)
    SHRINK_DEADLINE[0] = t0 + (150 if res.tier == "quick" else 1200)

    hists, nex, nrand, nsz = build_histories(res, rng)
    # corpus of past failures first
    corpus = sorted((vlib.VERIF / "corpus" / PID).glob("*.ops")) if (vlib.VERIF / "corpus" / PID).exists() else []
    chists = [[l for l in f.read_text().splitlines() if l.strip() and not l.startswith("#")] for f in corpus]
    hists = chists + hists

    njobs = 4
    # balance by number of lines
    buckets = [[] for _ in range(njobs)]
    sizes = [0] * njobs
    for hst in sorted(hists, key=len, reverse=True):
        k = sizes.index(min(sizes))
        buckets[k].append(hst)
        sizes[k] += len(hst)
    big = big_histories(res.tier == "quick")
    with ThreadPoolExecutor(njobs + 1) as ex:
        fbig = ex.submit(run_batch, runner, big, False)     # 2 GiB requests: real code + monitor only
        results = list(ex.map(lambda b: run_batch(runner, b), buckets))
        results.append(fbig.result())
    hists = hists + big

    vlib.log("[c09] %d histories run in %.0fs" % (len(hists), _t.time() - t0))
    findings, answers = [], {}
    nlines = 0
    samples = []
    for f, st, lines, impl, model in results:
        findings += f
        nlines += st["lines"]
        for k, v in st["answers"].items():
            answers[k] = answers.get(k, 0) + v
        if lines and len(samples) < 6:
            for i in (2, len(lines) // 2):
                samples.append({"op": lines[i], "impl": impl[i][:200], "model": (model[i] if i < len(model) else "")[:200]})

    nontriv = set()
    for f, st, lines, impl, model in results:
        nontriv |= st["nontrivial"]
    state_ops = sum(v for k, v in answers.items() if k in ("alloc:ok", "release:ok", "shrink:ok", "wtrunc:ok", "reset:blocks"))
    if nlines == 0 and not findings:
        res.violation("no protocol line was executed (harness / driver produced nothing)", {}, found_input=False, key="empty-run")
    res.coverage["evaluations"] = nlines
    res.coverage["distinct_nontrivial"] = len(nontriv)
    res.coverage["state_changing_ops_accepted"] = state_ops
    res.coverage["rule"] = ("histories = bounded-exhaustive op sequences (all sequences up to the plan depth over 10-13 symbol alphabets on 128 KiB "
                            "blocks, incl. sizes that fill a block exactly) + directed block-sizing histories (requests of 1x/2x/3x/4x/8x the base block size, "
                            "with and without room for the padding granule, as the request that opens a block in a fresh allocator / next to existing "
                            "blocks / after reset, all option sets x granularities) + seeded random histories per option set (LIFO/FIFO/random/no-reset "
                            "profiles, sizes 0..2^32, foreign and stale pointers, write/truncate, soft/hard reset); every line is run on the real "
                            "allocator and the model and judged by the Lean monitor; evaluations = protocol lines executed; distinct_nontrivial = number of "
                            "distinct histories in which the real allocator handed out at least one span")
    res.coverage["exhaustive"] = False
    res.coverage["histories"] = {"bounded_exhaustive": nex, "block_sizing_and_overflow_directed": nsz, "upper_limit_2GiB_no_model": len(big),
                                 "random": nrand, "corpus": len(chists)}
    res.coverage["input_distribution"] = dict(sorted(answers.items()))
    res.add_samples(samples)
    res.coverage["traces_validated_against_impl"] = nlines

    # classify; shrink one representative per class
    seen = set()
    order = {"crash": 0, "bad": 1, "protocol": 2, "diff": 3}
    findings.sort(key=lambda f: (order[f[0]], len(f[1])))
    for f in findings:
        kind = f[0]
        if kind == "crash":
            key = "crash"
            if key in seen:
                continue
            seen.add(key)
            small = shrink_history(runner, f[1], "crash", key)
            err = f[2]
            what = [l for l in err.splitlines() if "ERROR" in l or "runtime error" in l][:1]
            res.violation("real allocator crashes / sanitizer report: %s" % (what[0] if what else err[-300:]),
                          {"ops": small, "stderr": err[-2500:]}, True, key=key)
        elif kind == "bad":
            key = bad_key(f[3])
            if key in seen:
                continue
            seen.add(key)
            small = shrink_history(runner, f[1], "bad", key)
            msg = next((j[2] for j in runner.judge(small) if j[0] == "bad" and bad_key(j[2]) == key), f[3])
            res.violation("property violated on the real allocator: %s (history of %d lines, shrunk from %d)" % (msg, len(small), len(f[1])),
                          {"ops": small, "monitor": msg, "how": "python3 tools/check.py replay <this file>"}, True, key=key)
        elif kind == "protocol":
            if "protocol" in seen:
                continue
            seen.add("protocol")
            res.violation("driver/harness protocol failure: %s" % f[2], {"ops_head": f[1]}, False, key="protocol")
        elif kind == "diff":
            # always reported (found_input=False, key "corr"): a diff is only recorded for a history in which the monitor raised nothing,
            # so no reported violation explains it; violations in OTHER histories (or open known findings) must not hide it
            if "corr" in seen:
                continue
            seen.add("corr")
            small = shrink_history(runner, f[1], "diff", "corr")
            j = [x for x in runner.judge(small) if x[0] == "diff"]
            d = j[0] if j else f
            at = d[1] if j else 0
            res.violation("correspondence Model/JitAlloc.lean ~ jitallocator.cpp differs at %r: impl=%s model=%s; the property monitor raised nothing in "
                          "this history" % (small[min(at, len(small) - 1)], str(d[-2])[:300], str(d[-1])[:300]),
                          {"ops": small, "impl": str(d[-2])[:2000], "model": str(d[-1])[:2000], "unchecked": "correspondence Model/JitAlloc.lean ~ jitallocator.cpp"},
                          False, key="corr")
    vlib.log("[c09] classification + shrinking done at %.0fs" % (_t.time() - res.t0))
    if broken:
        res.violation("proof obligation no longer checks: " + " | ".join(broken)[:1500], {"unchecked": broken}, False, key="obligation")
    res.notes.append("findings by class: %s" % {k: sum(1 for f in findings if (f[0] if f[0] != "bad" else bad_key(f[3])) == k) for k in
                                               {(f[0] if f[0] != "bad" else bad_key(f[3])) for f in findings}})


def replay(data):
    ops = data["replay"].get("ops", [])
    h = vlib.build_harness("c09")
    runner = Runner(h)
    impl, crashed, err = runner.impl(ops)
    mon = runner.monitor(ops[:len(impl)], impl)
    for i, o in enumerate(ops):
        print(o, "->", impl[i] if i < len(impl) else "<no answer>", "|", mon[i] if i < len(mon) else "")
    if crashed:
        print(err[-3000:])
    return 0
