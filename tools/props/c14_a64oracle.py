"""C14, AArch64: the executable encoder model of C02 (Model/A64Asm*.lean, `vdriver C02`, proved against the ISA database in Props/C02*.lean)
as the oracle of "either emits a correct instruction or reports an error": every label-free AArch64 Assembler call of a C14 session that
the model covers must be refused when the model refuses it and must append exactly the model's words when the model accepts it."""
import vlib

DEFINED = set(range(2, 18)) | set(range(25, 32))


def to_c02(w):
    """C14 emit words -> `emit 0 <inst> <cc> <ops>` of the C02 protocol, or None when the call is outside what can be handed over"""
    inst = int(w[1])
    if w[2] != "0" or w[3] != "-":                       # instruction options / extra register: not part of the C02 request
        return None
    cc, real = (inst >> 27) & 0xF, inst & 0xFFFF
    if inst & ~((0xF << 27) | 0xFFFF) or real == 0:
        return None
    ops = []
    for t in w[5:]:
        if t == "-":
            ops.append("-")
        elif t[0] == "r":
            ty, i = t[1:].split(".")
            if int(ty) not in DEFINED:
                return None
            ops.append("r%s.%s" % (ty, i))
        elif t[0] == "v":
            ty, i, et, idx = t[1:].split(".")
            if int(ty) not in DEFINED or int(idx) > 15:
                return None
            ops.append("r%s.%s.%d" % (ty, i, int(et) & 7) + ("" if int(idx) < 0 else ".%s" % idx))
        elif t[0] == "i":
            ops.append("i%x" % (int(t[1:]) & ((1 << 64) - 1)))
        elif t.startswith("Mr"):
            bt, bid, it, ii, sop, sh, off, mode = [int(x) for x in t[2:].split(",")]
            if bt not in DEFINED or (it != 0 and it not in DEFINED):
                return None
            if it != 0:
                off = 0                                   # the harness builds [base, index, shift]: no offset
            else:
                sop, sh = 0, 0
            ops.append("m%d.%d.%d.%d.%d.%d.%d.%x" % (bt, bid, it, ii, sop & 15, sh & 63, mode, off & 0xFFFFFFFF))
        else:
            return None                                   # labels and absolute addresses: position dependent, C03's business
    return "emit 0 %d %d %s" % (real, cc, " ".join(ops))


def words_le(hexbytes):
    if hexbytes in ("-", "?"):
        return []
    b = bytes.fromhex(hexbytes)
    return ["%x" % int.from_bytes(b[i:i + 4], "little") for i in range(0, len(b), 4)]


def judge(sessions, answers, names, opw, parse_answer, errname, pc_relative_ids=()):
    """-> (mismatches [(session, op index, kind, model answer, impl answer)], stats).  `pc_relative_ids`: instructions that have a Label
    form (b, bl, cbz, tbz, adr, adrp, ldr literal ...): with an immediate target their outcome depends on the base address - not compared."""
    lines, where = [], []
    for si, sess in enumerate(sessions):
        hdr = sess[0].split()
        if si not in answers or hdr[1] != "a64" or hdr[2] != "asm":
            continue
        for oi in range(1, len(sess)):
            w = opw(sess[oi])
            if w[0] != "emit" or (int(w[1]) & 0xFFFF) in pc_relative_ids:
                continue
            d = parse_answer(answers[si][oi])
            if int(d["Bkv"]["off"]) % 4:
                continue                                  # the model speaks about word aligned code
            rq = to_c02(w)
            if rq is not None:
                lines.append(rq)
                where.append((si, oi, d))
    stats = {"handed_to_encoder_model": len(lines), "model_covers": 0, "model_accepts": 0, "model_refuses": 0, "error_name_differs": 0}
    if not lines:
        return [], stats
    out, rc, err = vlib.run_model("C02", lines, timeout=3000)
    if err == "timeout":
        stats["skipped_wall_clock_timeout"] = 1
        return [], stats
    if rc != 0 or len(out) != len(lines):
        return [(-1, 0, "protocol", "driver C02 rc=%d lines %d/%d %s" % (rc, len(out), len(lines), err[-200:]), "")], stats
    bad = []
    for (si, oi, d), m in zip(where, out):
        if m in ("bad-op", "err NotModelled") or m.startswith("err NotModelled"):
            continue
        stats["model_covers"] += 1
        x = dict(kv.split("=", 1) for kv in d["X"].split() if "=" in kv)
        impl = ("ok " + " ".join(words_le(x.get("bytes", "-")))).strip() if d["ret"] == 0 else "err " + errname(names, d["ret"])
        if m.startswith("ok"):
            stats["model_accepts"] += 1
            if impl != m:
                bad.append((si, oi, "accepts" if d["ret"] != 0 else "words", m, impl))
        else:
            stats["model_refuses"] += 1
            if d["ret"] == 0:
                bad.append((si, oi, "refuses", m, impl))
            elif impl != m:
                stats["error_name_differs"] += 1
    return bad, stats
