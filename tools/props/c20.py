"""C20 — formatter and logger text faithfully denotes the instruction and operands (DESIGN.md section 6, C20)."""
import re
import vlib
import gen_formattabs

PID = "C20"
MANIFEST = {
    "technique": "Lean 4 model of the formatter/logger text (x86 + AArch64 operands, instruction line, machine-code column, number "
                 "formatting) + independent reader of that text (architectural register names from the manuals, Intel-syntax / "
                 "AArch64 operand grammar) + parse-back theorems for all inputs + regenerated name tables + C++/Lean correspondence",
    "text": "Lean proves for every value / operand / emit history of the model: decimal and hexadecimal numbers read back to the value "
            "(all 64-bit values, signed and unsigned); every architectural register's text is its architectural name and names are "
            "injective (x86 table regenerated from the compiled reg_format_info, AArch64 by the modelled code); x86 memory operands "
            "and immediates read back to the operand given for every flag combination; the machine-code column reads back to exactly "
            "the bytes appended (dots = the unresolved displacement field) and, by induction over emit histories, the log is a "
            "transcript of the code buffer; instruction names printed equal the names the enumerators document. The model is tied to "
            "Formatter::format_register/operand/instruction, EmitterUtils::finish_formatted_line, String::append_int/uint/hex and the "
            "Assembler+StringLogger path by running both on the same lines; the Lean reader (the theorems' predicate) judges every text "
            "the real code produced for well-formed inputs.",
    "note": "Trusted: Lean kernel; Spec/FormatText.lean (register names from the manuals, the reader); gen_formattabs.py; harness/driver/diff. "
            "The explanatory {a|b|c} immediate annotations of kExplainImms are modelled (Model/FormatExplain.lean, tables regenerated from "
            "x86formatter.cpp), compared in full on `inst`/`emit` lines and judged against the immediate by an independent reader "
            "(Spec/FormatExplain.lean: every word decoded into a claim `imm & mask = value`); annotation_truth_* prove the claims for every "
            "immediate byte for the families without an open finding; the line reader itself skips the annotation (the line theorems are "
            "about the text without it). Not modelled: func/ret/invoke/sentinel/const-pool nodes, format_feature/type_id/data. "
            "The encoder's bytes are inputs here (C01/C02).",
}
MODS = ["AsmjitVerif.Props.C20", "AsmjitVerif.Props.C20Names", "AsmjitVerif.Props.C20Mem", "AsmjitVerif.Props.C20Read", "AsmjitVerif.Props.C20Line", "AsmjitVerif.Props.C20A64Line", "AsmjitVerif.Props.C20Node", "AsmjitVerif.Props.C20Column", "AsmjitVerif.Props.C20Virt", "AsmjitVerif.Props.C20NodeNum", "AsmjitVerif.Props.C20Explain", "AsmjitVerif.Props.C20ExplainA", "AsmjitVerif.Props.C20ExplainB", "AsmjitVerif.Props.C20ExplainC", "AsmjitVerif.Props.C20ExplainD", "AsmjitVerif.Props.C20ExplainE", "AsmjitVerif.Props.C20ExplainF"]

M64 = (1 << 64) - 1
FF = {"mc": 0x1, "alias": 0x8, "explain": 0x10, "heximm": 0x20, "hexoff": 0x40, "casts": 0x100, "pos": 0x200, "regtype": 0x400}
ALL_FLAG_BITS = [0x1, 0x8, 0x10, 0x20, 0x40, 0x100, 0x400]

# ---- register domains used to *propose* inputs (the Lean reader judges) -------------------------------------------------------
X86_VALID = {2: 32, 3: 4, 4: 32, 5: 32, 6: 32, 11: 32, 12: 32, 13: 32, 16: 8, 17: 8, 25: 7, 26: 16, 27: 16, 28: 8, 29: 8, 30: 4, 31: 1}
A64_VALID = {5: 32, 6: 32, 7: 32, 8: 32, 9: 32, 10: 32, 11: 32}


def valid_reg(arch, t, i):
    if arch == "a64":
        return (t in (5, 6) and (i < 32 or i == 63)) or (t in A64_VALID and t > 6 and i < 32)
    if t == 25:
        return 1 <= i < 7
    return t in X86_VALID and i < X86_VALID[t]


def header_ids(arch):
    names, aliases = gen_formattabs.header_names(vlib.REPO / ("asmjit/arm/a64globals.h" if arch == "a64" else "asmjit/x86/x86globals.h"))
    ids = {}
    for i, n in enumerate(names):
        ids.setdefault(n, i)
    return names, ids


class Gen:
    """Builds the op lines of one run. `self.wf[i]` says whether line i is a query whose text the reader must accept."""

    def __init__(self, rng, tier):
        self.rng = rng
        self.tier = tier
        self.ops = []
        self.wf = []
        self.arch = None
        self.comp = False
        self.nlabels = 0
        self.named = []       # ids of labels that are fine as operands
        self.vregs = []       # (index, type, named)
        self.flags = 0
        self.targets = []     # (begin, end) op index ranges of the deterministic target blocks

    def add(self, line, wf=False):
        self.ops.append(line)
        self.wf.append(wf)

    # -- session -----------------------------------------------------------------------------------------------------------
    def init(self, arch, comp):
        self.arch, self.comp = arch, comp
        self.nlabels, self.named, self.vregs, self.flags = 0, [], [], 0
        self.add("init %s %s" % (arch, "comp" if comp else "asm"))
        # labels: anonymous, global, local under named and anonymous parents, anonymous-with-name, external
        self.add("lab a"); self.add("lab a")
        self.add("lab n 2 main -")
        self.add("lab n 1 loop 2")
        self.add("lab n 1 inner 0")
        self.add("lab n 0 tmp -")
        self.add("lab n 3 ext_fn -")
        self.add("lab n 2 Data_1 -")
        self.add("lab n 1 loop 7")
        self.add("lab a")
        self.nlabels = 10
        if comp:
            types = [2, 4, 5, 6, 11, 12, 13, 28] if arch != "a64" else [5, 6, 10, 11]
            k = 0
            for t in types:
                for name in ("-", "v%d_%s" % (t, "abc"[k % 3])):
                    self.add("vreg %d %s" % (t, name))
                    self.vregs.append((k, t, name != "-"))
                    k += 1

    def set_flags(self, f):
        self.flags = f
        self.add("flags %x" % f)

    # -- operand proposals ---------------------------------------------------------------------------------------------------
    def reg_ref(self, types, allow_virt=True):
        """returns (type, idtext, wf)"""
        rng = self.rng
        if self.comp and allow_virt and self.vregs and rng.random() < 0.5:
            k, t, _ = rng.choice(self.vregs)
            # mostly the register's own type, sometimes a cast to another type of the menu
            tt = t if rng.random() < 0.7 else rng.choice(types)
            return tt, "v%d" % k, tt in (A64_VALID if self.arch == "a64" else X86_VALID)
        t = rng.choice(types)
        dom = A64_VALID if self.arch == "a64" else X86_VALID
        n = dom.get(t, 32)
        r = rng.random()
        if r < 0.85:
            i = rng.randrange(n)
            if self.arch == "a64" and t in (5, 6) and rng.random() < 0.15:
                i = rng.choice((31, 63))
            if self.arch != "a64" and t == 25 and i == 0:
                i = 1
        elif r < 0.95:
            i = rng.choice((n, n + 1, 31, 32, 33, 40, 63, 64, 255))
        else:
            i = rng.choice((256 + 500, 0xFFFFFFFE, 0xFFFFFFFF, 1 << 20))
        return t, str(i), valid_reg(self.arch, t, i)

    def disp(self, has_base):
        rng = self.rng
        r = rng.random()
        if r < 0.25:
            return 0
        if r < 0.6:
            return rng.choice((1, -1, 8, 9, 10, -9, -10, 15, 16, 127, 128, -128, -129, 255, 256, 4095, 4096, 0x7FFFFFFF, -0x80000000,
                               0x7FFFFFFE, -0x7FFFFFFF, 65535, -65536, 99, 100, 0x12345678))
        if has_base:
            return rng.randrange(-(1 << 31), 1 << 31)
        return rng.choice((rng.getrandbits(64) - (1 << 63), 1 << 32, (1 << 63) - 1, -(1 << 63), 0xFFFFFFFF, -(1 << 32), rng.getrandbits(40)))

    def label_ref(self):
        rng = self.rng
        if rng.random() < 0.9:
            return rng.randrange(self.nlabels), True
        return rng.choice((self.nlabels, self.nlabels + 7, 0xFFFFFFFF)), False

    def x86_mem(self):
        rng = self.rng
        wf = True
        size = rng.choice((0, 1, 2, 4, 6, 8, 10, 16, 32, 64)) if rng.random() < 0.93 else rng.choice((3, 5, 12, 128, 255))
        wf &= size in (0, 1, 2, 4, 6, 8, 10, 16, 32, 64)
        seg = 0 if rng.random() < 0.6 else rng.randrange(8)
        wf &= seg < 7
        at = rng.choice((0, 0, 0, 1, 2)) if rng.random() < 0.97 else 3
        wf &= at < 3
        base, index = "-", "-"
        gp = [6, 5] if self.arch == "x64" else [5, 4]
        kind = rng.random()
        if kind < 0.65:
            t, i, w = self.reg_ref(gp if rng.random() < 0.9 else [6, 5, 31])
            base = "%d/%s" % (t, i); wf &= w
        elif kind < 0.8:
            l, w = self.label_ref()
            base = "L%d" % l; wf &= w
        if rng.random() < 0.45:
            t, i, w = self.reg_ref(gp if rng.random() < 0.7 else [11, 12, 13])
            index = "%d/%s" % (t, i); wf &= w
        shift = rng.randrange(4) if index != "-" else (0 if rng.random() < 0.9 else rng.randrange(4))
        off = self.disp(base != "-")
        bc = 0 if rng.random() < 0.7 else rng.randrange(8)
        wf &= bc < 7
        home = 1 if (self.comp and base != "-" and base[0] != "L" and rng.random() < 0.2) else 0
        return "m.%d.%d.%d.%s.%s.%d.%d.%d.%d" % (size, seg, at, base, index, shift, off, bc, home), wf

    def a64_mem(self):
        rng = self.rng
        wf = True
        base, index = "-", "-"
        kind = rng.random()
        if kind < 0.8:
            t, i, w = self.reg_ref([6]); base = "%d/%s" % (t, i); wf &= w
        elif kind < 0.92:
            l, w = self.label_ref(); base = "L%d" % l; wf &= w
        else:
            wf = False      # AArch64 has no base-less address: the text is `[<None>, ..]`, nothing to read back
        sop, shift, mode, off = 0, 0, 0, 0
        if base != "-" and rng.random() < 0.5:
            t, i, w = self.reg_ref([6, 5]); index = "%d/%s" % (t, i); wf &= w
            sop = rng.choice((0, 0, 8, 12, 13, 9)) if rng.random() < 0.95 else rng.randrange(16)
            wf &= sop < 14
            shift = rng.choice((0, 0, 1, 2, 3, 4)) if rng.random() < 0.95 else rng.randrange(32)
        else:
            off = self.disp(True) if rng.random() < 0.8 else 0
            mode = rng.choice((0, 0, 1, 2)) if rng.random() < 0.97 else 3
            wf &= mode < 3
            if off == 0 and mode == 2:
                pass
        home = 1 if (self.comp and base != "-" and base[0] != "L" and rng.random() < 0.2) else 0
        if rng.random() < 0.03:
            off = self.disp(True); wf = wf and index == "-"
        return "am.%s.%s.%d.%d.%d.%d.%d" % (base, index, sop, shift, off, mode, home), wf

    def imm(self):
        rng = self.rng
        r = rng.random()
        if r < 0.5:
            v = rng.choice((0, 1, 9, 10, 11, -1, -9, -10, 127, 128, 255, 256, -128, 65535, 0x7FFFFFFF, -0x80000000, 0xFFFFFFFF,
                            (1 << 63) - 1, -(1 << 63), 100, 4095, 4096))
        elif r < 0.8:
            v = rng.randrange(-(1 << 31), 1 << 32)
        else:
            v = rng.getrandbits(64) - (1 << 63)
        if self.arch == "a64" and rng.random() < 0.3:
            p = rng.randrange(16)
            return "i.%d.%d" % (v, p), p < 14
        return "i.%d" % v, True

    def operand(self):
        rng = self.rng
        r = rng.random()
        a64 = self.arch == "a64"
        if r < 0.4:
            if a64:
                t, i, w = self.reg_ref([5, 6, 7, 8, 9, 10, 11] if rng.random() < 0.95 else [2, 16, 12, 0])
                if t in (10, 11) and rng.random() < 0.5:
                    et = rng.choice((1, 2, 3, 4)) if rng.random() < 0.9 else rng.choice((5, 6, 7))
                    ei = "-" if rng.random() < 0.6 else str(rng.randrange(16))
                    w &= et <= 4 or (et in (5, 6) and t == 11)
                    return "r.%d.%s.%d.%s" % (t, i, et, ei), w
                if rng.random() < 0.05 and t != 0:
                    return "r.%d.%s.0.%d" % (t, i, rng.randrange(16)), w and t >= 7
                return "r.%d.%s" % (t, i), w
            t, i, w = self.reg_ref(list(X86_VALID) if rng.random() < 0.95 else [0, 1, 7, 8, 9, 10, 14, 15, 18, 24])
            return "r.%d.%s" % (t, i), w
        if r < 0.75:
            return self.a64_mem() if a64 else self.x86_mem()
        if r < 0.9:
            return self.imm()
        if r < 0.97 or not a64:
            l, w = self.label_ref()
            return "l.%d" % l, w
        return "rl.%d.%x" % (rng.choice((5, 6)), rng.getrandbits(31)), True

    # -- blocks ----------------------------------------------------------------------------------------------------------------
    def reg_sweep(self):
        a64 = self.arch == "a64"
        for t in range(32):
            for i in list(range(34)) + [63, 64, 255]:
                self.add("reg %d %d" % (t, i), valid_reg(self.arch, t, i))
        for k, t, _ in self.vregs:
            self.add("reg %d v%d" % (t, k), True)
            self.add("reg %d v%d" % (6 if t != 6 else 5, k), True)
        self.add("reg 5 v900", False)

    def op_block(self, n):
        for _ in range(n):
            o, w = self.operand()
            self.add("op " + o, w)

    def inst_block(self, n, names, ids):
        rng = self.rng
        a64 = self.arch == "a64"
        count = len(names)
        for _ in range(n):
            wf = True
            iid = rng.randrange(1, count) if rng.random() < 0.97 else rng.choice((0, count, count + 5, 65535))
            wf &= 0 < iid < count
            opts, extra = 0, "-"
            if a64:
                if rng.random() < 0.3:
                    iid |= rng.randrange(16) << 27
            else:
                if rng.random() < 0.5:
                    for bit in (0x800, 0x400, 0x1000, 0x200, 0x100, 0x10, 0x20, 0x10000, 0x20000, 0x2000, 0x4000, 0x8000, 0x40000000,
                                0x40000, 0x80000, 0x200000, 0x400000, 0x800000):
                        if rng.random() < 0.15:
                            opts |= bit
                    if rng.random() < 0.1:
                        opts |= rng.getrandbits(32) & ~0x80000001
                r = rng.random()
                if r < 0.25:
                    extra = "r.16.%d" % rng.randrange(8)
                elif r < 0.35:
                    t, i, w = self.reg_ref([6, 5], allow_virt=False)
                    extra = "r.%d.%s" % (t, i); wf &= w
                elif r < 0.4 and self.comp and self.vregs:
                    k, t, _ = rng.choice(self.vregs)
                    extra = "r.%d.v%d" % (t, k)
            nops = rng.choice((0, 1, 2, 2, 3, 3, 4, 5, 6))
            ops = []
            for k in range(nops):
                o, w = self.operand()
                if rng.random() < 0.02:
                    o, w = "-", w       # a `none` operand ends the list
                ops.append(o); wf &= w
            if "-" in ops:
                wf = False
            # architectural syntax reads `[base], x` as one post-index operand: a plain memory operand is the last operand
            if a64 and any(o.startswith("am.") and o.split(".")[6] == "0" for o in ops[:-1]):
                wf = False
            # AArch64 has no register-list instructions: the line reader does not regroup `{w0-w3, w8}`
            if a64 and any(o.startswith("rl.") for o in ops):
                wf = False
            # {k}/{z} need a first operand; an extra register that is no mask and no rep prefix is simply not shown
            if not a64:
                if nops == 0 and (extra.startswith("r.16") or opts & 0x8C0000):
                    wf = False      # {k}{z}{er} are attached to operands
                if extra != "-" and not extra.startswith("r.16") and not (opts & 0xC000):
                    wf = False
                if (opts & 0x300) == 0x300:
                    wf = False      # {modrm} hides {modmr}
                if (opts & 0xC000) == 0xC000:
                    wf = False      # rep hides repnz
                if opts & ~(0x40FFFF30 | 0xE00000):
                    pass
            self.add("inst %d %x %s %s" % (iid, opts, extra, " ".join(ops)), wf)

    def emit_block(self, names, ids, n_random):
        """instruction shapes the assembler is likely to accept; only accepted ones are judged"""
        rng = self.rng
        a64 = self.arch == "a64"
        L = ["l.%d" % i for i in (0, 1, 2, 9)]

        def vr(t, lim=None):
            n = lim or (A64_VALID if a64 else X86_VALID)[t]
            return "r.%d.%d" % (t, rng.randrange(n))
        shapes = []
        if not a64:
            w = 6 if self.arch == "x64" else 5
            lim = 16 if self.arch == "x64" else 8

            def mem(size, lbl=False, bc=0, vsib=None):
                base = ("L%d" % rng.choice((0, 1, 2, 9))) if lbl else "%d/%d" % (w, rng.randrange(lim))
                idx = "-"
                if vsib:
                    idx = "%d/%d" % (vsib, rng.randrange(lim))
                elif not lbl and rng.random() < 0.4:
                    idx = "%d/%d" % (w, rng.choice([i for i in range(lim) if i != 4]))
                seg = rng.choice((0, 0, 0, 5, 6))
                return "m.%d.%d.0.%s.%s.%d.%d.%d.0" % (size, seg, base, idx, rng.randrange(4) if idx != "-" else 0, self.disp(True) if not lbl else rng.choice((0, 8, -4)), bc)
            g = lambda t: "r.%d.%d" % (t, rng.randrange(lim if t != 3 else 4))
            v = lambda t: "r.%d.%d" % (t, rng.randrange(lim * 2 if self.arch == "x64" and rng.random() < 0.2 else lim))
            imm8 = lambda: "i.%d" % rng.randrange(0, 128)
            shapes = [
                lambda: [], lambda: [g(5), g(5)], lambda: [g(w), g(w)], lambda: [g(4), g(4)], lambda: [g(2), g(2)], lambda: [g(5)], lambda: [g(w)],
                lambda: [g(5), mem(4)], lambda: [mem(4), g(5)], lambda: [g(w), mem(w == 6 and 8 or 4)], lambda: [mem(4), imm8()], lambda: [mem(1), imm8()],
                lambda: [g(5), "i.%d" % rng.randrange(-(1 << 31), 1 << 31)], lambda: [g(w), imm8()], lambda: [mem(4)], lambda: [mem(0)], lambda: [mem(8)],
                lambda: [rng.choice(L)], lambda: [g(5), mem(4, lbl=True)], lambda: [mem(4, lbl=True), imm8()], lambda: [g(w), mem(0, lbl=True)],
                lambda: [v(11), v(11)], lambda: [v(11), mem(16)], lambda: [mem(16), v(11)], lambda: [v(11), v(11), imm8()], lambda: [v(11), mem(16), imm8()],
                lambda: [v(11), v(11), v(11)], lambda: [v(12), v(12), v(12)], lambda: [v(13), v(13), v(13)], lambda: [v(12), v(12), mem(32)],
                lambda: [v(13), v(13), mem(64)], lambda: [v(13), v(13), mem(4, bc=4)], lambda: [v(13), v(13), mem(8, bc=3)], lambda: [v(12), v(12), mem(4, bc=3)],
                lambda: [v(11), v(11), v(11), imm8()], lambda: [v(12), v(12), v(12), imm8()], lambda: [v(13), v(13), v(13), imm8()], lambda: [v(12), v(12), v(12), v(12)],
                lambda: [vr(16), v(13), v(13)], lambda: [vr(16), vr(16)], lambda: [vr(16), vr(16), vr(16)], lambda: [g(5), v(11)], lambda: [v(11), g(5)],
                lambda: [vr(28), vr(28)], lambda: [vr(28), mem(8)], lambda: [vr(29)], lambda: [mem(10)], lambda: [v(12), mem(4, vsib=12), v(12)],
                lambda: [v(13), mem(4, vsib=13)], lambda: [g(5), g(5), g(5)], lambda: [g(w), g(w), imm8()], lambda: [vr(17), vr(17), vr(17)],
                lambda: [g(w), vr(25).replace(".0", ".1")], lambda: [g(w), vr(26)], lambda: [vr(27), g(w)],
                lambda: [g(3), g(3)], lambda: [g(3), imm8()], lambda: [g(5), g(2)], lambda: [g(w), g(4)],
            ]
        else:
            x = lambda: "r.6.%d" % rng.randrange(31)
            wr = lambda: "r.5.%d" % rng.randrange(31)
            sp = lambda: "r.6.31"
            vv = lambda t, e: "r.%d.%d.%d.-" % (t, rng.randrange(32), e)
            sc = lambda t: "r.%d.%d" % (t, rng.randrange(32))

            def mem(kind):
                b = "6/%d" % rng.choice(list(range(31)) + [31])
                if kind == "off":
                    return "am.%s.-.0.0.%d.0.0" % (b, rng.choice((0, 8, 16, 255, -256, 4088, 32760, -8, 1)))
                if kind == "pre":
                    return "am.%s.-.0.0.%d.1.0" % (b, rng.choice((8, 16, -16, 255, -256)))
                if kind == "post":
                    return "am.%s.-.0.0.%d.2.0" % (b, rng.choice((8, 16, -16, 255, -256)))
                if kind == "idx":
                    sop = rng.choice((0, 13))
                    return "am.%s.6/%d.%d.%d.0.0.0" % (b, rng.randrange(31), sop, rng.choice((0, 2, 3)))
                if kind == "ext":
                    return "am.%s.5/%d.%d.%d.0.0.0" % (b, rng.randrange(31), rng.choice((8, 12)), rng.choice((0, 2, 3)))
                return "am.L%d.-.0.0.0.0.0" % rng.choice((0, 1, 2, 9))
            sh = lambda: "i.%d.%d" % (rng.randrange(0, 32), rng.choice((0, 1, 2)))
            sv = lambda e: "r.11.%d.%d.%d" % (rng.randrange(32), e, rng.randrange(2))
            S = {
                "none": lambda: [], "xx": lambda: [x(), x()], "ww": lambda: [wr(), wr()], "xxx": lambda: [x(), x(), x()], "www": lambda: [wr(), wr(), wr()],
                "xxxs": lambda: [x(), x(), x(), sh()], "xxi": lambda: [x(), x(), "i.%d" % rng.randrange(4096)], "xspi": lambda: [x(), sp(), "i.%d" % rng.randrange(4096)],
                "xxi12": lambda: [x(), x(), "i.1", "i.12"], "xxwe": lambda: [x(), x(), wr(), "i.%d.%d" % (rng.randrange(5), rng.choice((8, 12, 10, 6)))],
                "xi": lambda: [x(), "i.%d" % rng.choice((0, 1, 0xFFFF, 0x10000, -1, 0xFF00FF00, 0x1234))], "xmo": lambda: [x(), mem("off")], "wmo": lambda: [wr(), mem("off")],
                "xmpre": lambda: [x(), mem("pre")], "xmpost": lambda: [x(), mem("post")], "xmi": lambda: [x(), mem("idx")], "wmi": lambda: [wr(), mem("idx")],
                "xme": lambda: [x(), mem("ext")], "wme": lambda: [wr(), mem("ext")], "xxmo": lambda: [x(), x(), mem("off")], "xxmpre": lambda: [x(), x(), mem("pre")],
                "xxmpost": lambda: [x(), x(), mem("post")], "xml": lambda: [x(), mem("lbl")], "l": lambda: [rng.choice(L)], "xl": lambda: [x(), rng.choice(L)],
                "xil": lambda: [x(), "i.%d" % rng.randrange(64), rng.choice(L)], "x": lambda: [x()], "xxxx": lambda: [x(), x(), x(), x()],
                "xxii": lambda: [x(), x(), "i.%d" % rng.randrange(64), "i.%d" % rng.randrange(1, 8)], "wwi": lambda: [wr(), wr(), "i.%d" % rng.randrange(32)],
                "xxxc": lambda: [x(), x(), x(), "i.%d" % rng.randrange(2, 16)], "xc": lambda: [x(), "i.%d" % rng.randrange(2, 16)],
                "v4s3": lambda: [vv(11, 3), vv(11, 3), vv(11, 3)], "v16b3": lambda: [vv(11, 1), vv(11, 1), vv(11, 1)], "v4h3": lambda: [vv(10, 2), vv(10, 2), vv(10, 2)],
                "v2d2": lambda: [vv(11, 4), vv(11, 4)], "v8b2": lambda: [vv(10, 1), vv(10, 1)], "sss": lambda: [sc(9), sc(9), sc(9)], "ddd": lambda: [sc(10), sc(10), sc(10)],
                "dd": lambda: [sc(10), sc(10)], "qmo": lambda: [sc(11), mem("off")], "dmo": lambda: [sc(10), mem("off")], "smi": lambda: [sc(9), mem("idx")],
                "qqmo": lambda: [sc(11), sc(11), mem("off")], "wvb": lambda: [wr(), "r.11.%d.1.%d" % (rng.randrange(32), rng.randrange(16))],
                "vsw": lambda: ["r.11.%d.3.%d" % (rng.randrange(32), rng.randrange(4)), wr()],
                "v4s2e": lambda: [vv(11, 3), vv(11, 3), "r.11.%d.3.%d" % (rng.randrange(32), rng.randrange(4))],
                "v4s2": lambda: [vv(11, 3), vv(11, 3)], "v16b2": lambda: [vv(11, 1), vv(11, 1)],
            }
            A64_MENU = {
                "add": ["xxx", "www", "xxxs", "xxi", "xspi", "xxi12", "xxwe"], "sub": ["xxx", "xxxs", "xxi", "xxwe"], "adds": ["xxx", "xxi"], "mov": ["xx", "ww", "xi"],
                "ldr": ["xmo", "wmo", "xmpre", "xmpost", "xmi", "wmi", "xme", "wme", "xml"], "str": ["xmo", "wmo", "xmpre", "xmpost", "xmi", "xme"],
                "ldrb": ["wmo", "wmi", "wme"], "ldrsw": ["xmo", "xmi", "xme"], "ldur": ["xmo", "wmo"], "ldp": ["xxmo", "xxmpre", "xxmpost"], "stp": ["xxmo", "xxmpre", "xxmpost"],
                "b": ["l"], "bl": ["l"], "cbz": ["xl"], "cbnz": ["xl"], "tbz": ["xil"], "adr": ["xl"], "adrp": ["xl"], "and": ["xxx", "xxxs"], "orr": ["xxx", "xxxs"],
                "eor": ["xxx"], "cmp": ["xx", "ww"], "madd": ["xxxx"], "ubfx": ["xxii"], "lsl": ["xxx", "wwi"], "ret": ["x", "none"], "br": ["x"], "blr": ["x"],
                "csel": ["xxxc"], "cset": ["xc"], "mul": ["xxx", "www"], "udiv": ["xxx"], "sdiv": ["www"], "mvn": ["xx"], "neg": ["xx"], "sxtw": ["xx"], "nop": ["none"],
                "add_v": ["v4s3", "v16b3", "v4h3"], "fmla_v": ["v4s3", "v4s2e"], "fadd_v": ["v4s3", "sss", "ddd"], "mov_v": ["v16b2", "v8b2"], "umov_v": ["wvb"],
                "ins_v": ["vsw"], "fmov_v": ["dd"], "ldr_v": ["qmo", "dmo", "smi"], "str_v": ["qmo", "dmo", "smi"], "ldp_v": ["qqmo"], "stp_v": ["qqmo"],
                "fmul_v": ["v4s3", "sss", "v4s2e"], "sub_v": ["v4s3", "v16b3"], "and_v": ["v16b3"], "orr_v": ["v16b3"], "neg_v": ["v4s2"], "abs_v": ["v4s2"],
                "fsqrt_v": ["v4s2", "dd"], "fabs_v": ["v4s2", "dd"], "cmeq_v": ["v4s3"], "mul_v": ["v4s3", "v4h3"],
            }
            shapes = []
        count = len(names)
        simd_start = count
        if a64:
            simd_start = next(i for i in range(2, count) if names[i] < names[i - 1])   # ids are two alphabetical runs: GP, then `_v`
            is_vec_shape = lambda ops: any(o.startswith(("r.7.", "r.8.", "r.9.", "r.10.", "r.11.")) for o in ops)
        # (a) a fixed menu of everyday instructions on all shapes, (b) every instruction id on random shapes
        menu = (["add", "mov", "lea", "jmp", "jz", "call", "push", "pop", "cmp", "test", "inc", "shl", "imul", "movzx", "movaps", "movups", "addps", "pshufd",
                 "vaddps", "vaddpd", "vfmadd231ps", "vpternlogd", "vpaddd", "vmovups", "vblendpd", "kmovw", "kandw", "vgatherdps", "vpgatherdd", "movq",
                 "paddb", "fld", "fstp", "fadd", "ret", "nop", "movsb", "cmpxchg", "xchg", "vcmpps", "vpcmpeqd", "vcvtps2pd", "vbroadcastss", "tdpbssd",
                 "movs", "stos", "xadd", "bt", "vpermq", "shufps", "roundps", "vshufpd", "sete", "cmovb", "jb", "loop", "jecxz"]
                if not a64 else
                ["add", "sub", "mov", "ldr", "str", "ldp", "stp", "b", "bl", "cbz", "tbz", "adr", "adrp", "and", "orr", "cmp", "madd", "ubfx", "lsl", "ret",
                 "br", "ldrb", "ldrsw", "ldur", "add_v", "fmla_v", "fadd_v", "mov_v", "umov_v", "ins_v", "ld1_v", "movi_v", "fmov_v", "ldr_v", "str_v",
                 "ldp_v", "csel", "cset", "ccmp", "mul", "udiv", "ands", "eor", "mvn", "neg", "sxtw", "uxtb", "nop", "svc", "mrs", "fadd_v", "fcvtzs_v"])
        hdr_idents = {}
        for i, nme in enumerate(names):
            hdr_idents.setdefault(nme, []).append(i)
        picked = []
        for m_ in menu:
            base = m_[:-2] if m_.endswith("_v") else m_
            cands = hdr_idents.get(base, [])
            if not cands:
                continue
            picked.append(cands[-1] if m_.endswith("_v") else cands[0])
        lines = []
        for iid in picked:
            for sfn in shapes:
                lines.append((iid, sfn()))
        for _ in range(n_random if shapes else 0):
            lines.append((rng.randrange(1, count), rng.choice(shapes)()))
        if a64:
            # a64 has no validator and its encoder reads tables out of bounds on operand shapes an instruction does not have
            # (found while building this check: `add_v x15, x9, x25`): every menu instruction only sees the shapes it has
            lines = []
            for rep in range(3 + n_random // 100):
                for m_, kinds_ in A64_MENU.items():
                    base = m_[:-2] if m_.endswith("_v") else m_
                    cands = hdr_idents.get(base, [])
                    if not cands or (m_.endswith("_v") and cands[-1] < simd_start):
                        continue
                    iid = cands[-1] if m_.endswith("_v") else cands[0]
                    if iid >= simd_start and not m_.endswith("_v"):
                        continue
                    for k_ in kinds_:
                        lines.append((iid, S[k_]()))
        for iid, ops in lines:
            opts, extra, comment = 0, "-", "-"
            r = rng.random()
            if not a64:
                if r < 0.06:
                    opts = rng.choice((0x2000, 0x4000, 0x8000, 0x10, 0x20, 0x40000000, 0x200, 0x100, 0x800, 0x400, 0x1000, 0x12000, 0x22000))
                elif r < 0.16 and ops and ops[0].startswith(("r.11", "r.12", "r.13")):
                    extra = "r.16.%d" % rng.randrange(1, 8)
                    if rng.random() < 0.5:
                        opts |= 0x800000
                elif r < 0.2 and len(ops) == 3 and all(o.startswith("r.13") for o in ops):
                    opts |= rng.choice((0x80000, 0x40000, 0x240000, 0x440000, 0x640000))
                if opts & 0xC000 and rng.random() < 0.5:
                    extra = "r.%d.1" % (6 if self.arch == "x64" else 5)
            else:
                if r < 0.15:
                    iid |= rng.randrange(2, 16) << 27
            if rng.random() < 0.08:
                comment = ("note %d" % rng.randrange(100)).encode().hex()
            self.add("emit %d %x %s %s %s" % (iid, opts, extra, comment, " ".join(ops)), True)

    EXPLAINED = (
        "vblendpd blendpd vblendps blendps vcmppd vcmpps vcmpsd vcmpss cmppd cmpps cmpsd cmpss vdbpsadbw vdppd vdpps dppd dpps vmpsadbw "
        "mpsadbw vpblendw pblendw vpblendd vpclmulqdq pclmulqdq vroundpd vroundps vroundsd vroundss roundpd roundps roundsd roundss vshufpd "
        "shufpd vshufps shufps vcvtps2ph vperm2f128 vperm2i128 vpermilpd vpermilps vpshufd pshufd vpshufhw vpshuflw pshufhw pshuflw pshufw "
        "vfixupimmpd vfixupimmps vfixupimmsd vfixupimmss vfpclasspd vfpclassps vfpclasssd vfpclassss vgetmantpd vgetmantps vgetmantsd "
        "vgetmantss vpcmpb vpcmpd vpcmpq vpcmpw vpcmpub vpcmpud vpcmpuq vpcmpuw vpcomb vpcomd vpcomq vpcomw vpcomub vpcomud vpcomuq vpcomuw "
        "vpermq vpermpd vpternlogd vpternlogq vrangepd vrangeps vrangesd vrangess vreducepd vreduceps vreducesd vreducess vrndscalepd "
        "vrndscaleps vrndscalesd vrndscaless vshuff32x4 vshuff64x2 vshufi32x4 vshufi64x2 "
        # neighbours that must NOT get an annotation
        "vpalignr palignr vpermil2pd vextractf128 vinsertf128 vpsrldq shl add vpshufb insertps").split()

    def explain_block(self, ids, quick):
        """every instruction FormatterInternal_explain_const knows (and some it does not) with register operands of the three vector
        widths / memory only, over immediates that reach every field value; formatted (no encoder involved), then a few emitted"""
        rng = self.rng
        imms = sorted(set([0, 1, 2, 3, 4, 5, 7, 8, 9, 0xF, 0x10, 0x1B, 0x40, 0x55, 0x80, 0xAA, 0xB1, 0xE4, 0xFF, 0x100, 0x1FF, -1, -128] +
                          [rng.randrange(256) for _ in range(6 if quick else 60)]))
        for name in self.EXPLAINED:
            if name not in ids:
                continue
            for shape in ("r.11.1 r.11.2", "r.12.3 r.12.4 r.12.5", "r.13.6 r.13.7 m.64.0.0.6/3.-.0.0.0.0", "m.16.0.0.6/3.-.0.0.0.0",
                          "r.16.1 r.13.2 r.11.3", "r.11.1 r.12.2"):
                for v in (imms if shape == "r.13.6 r.13.7 m.64.0.0.6/3.-.0.0.0.0" or not quick else rng.sample(imms, 5)):
                    self.add("inst %d 0 - %s i.%d" % (ids[name], shape, v), True)
            # two immediates on one line, immediate first
            self.add("inst %d 0 - i.%d r.12.1 i.%d" % (ids[name], rng.randrange(256), rng.randrange(256)), True)

    def explain_emit_block(self, ids):
        rng = self.rng
        for name, shapes in (("shufps", ["r.11.1 r.11.2"]), ("vshufps", ["r.11.1 r.11.2 r.11.3", "r.12.1 r.12.2 r.12.3", "r.13.1 r.13.2 r.13.3"]),
                             ("vshufpd", ["r.12.1 r.12.2 r.12.3", "r.13.1 r.13.2 r.13.3"]), ("pshufd", ["r.11.1 r.11.2"]),
                             ("vcmpps", ["r.11.1 r.11.2 r.11.3", "r.16.1 r.13.2 r.13.3"]), ("cmppd", ["r.11.1 r.11.2"]),
                             ("vpternlogd", ["r.13.1 r.13.2 r.13.3"]), ("vblendpd", ["r.12.1 r.12.2 r.12.3"]),
                             ("roundps", ["r.11.1 r.11.2"]), ("vperm2f128", ["r.12.1 r.12.2 r.12.3"]), ("vpermq", ["r.12.1 r.12.2", "r.13.1 r.13.2"]),
                             ("vshuff32x4", ["r.12.1 r.12.2 r.12.3", "r.13.1 r.13.2 r.13.3"]), ("pclmulqdq", ["r.11.1 r.11.2"]),
                             ("vrndscaleps", ["r.13.1 r.13.2"]), ("vfpclassps", ["r.16.1 r.13.2"]), ("vgetmantpd", ["r.13.1 r.13.2"]),
                             ("mpsadbw", ["r.11.1 r.11.2"]), ("vpcmpud", ["r.16.1 r.13.2 r.13.3"]), ("vrangeps", ["r.13.1 r.13.2 r.13.3"]),
                             ("vfixupimmps", ["r.13.1 r.13.2 r.13.3"]), ("palignr", ["r.11.1 r.11.2"])):
            if name not in ids:
                continue
            for sh in shapes:
                for v in (0, 0x1B, 0xE4, 0xFF, rng.randrange(256)):
                    self.add("emit %d 0 - - %s i.%d" % (ids[name], sh, v), True)

    def target_block(self, names, ids):
        """deterministic cases every run must contain (classes a careless change is most likely to break unnoticed):
        (a) an unbound-label memory operand TOGETHER with an immediate under kMachineCode (dots vs immediate bytes of the column),
        (b) absolute addresses >= 0x80000000 incl. the 64-bit moffs forms (full displacement text),
        (c) every label form as operand, in particular a local label under an unnamed parent (`L0.inner`)."""
        a64 = self.arch == "a64"
        hdr = {}
        for i, n_ in enumerate(names):
            hdr.setdefault(n_, i)
        tag = len(self.ops)
        for l in range(self.nlabels):
            self.add("op l.%d" % l, True)
        if a64:
            for l in (3, 4, 8, 9):          # labels 0,1,2 get bound later; these stay unbound
                self.add("op am.L%d.-.0.0.0.0.0" % l, True)
                if not self.comp:
                    self.add("emit %d 0 - - l.%d" % (hdr["b"], l), True)
                    self.add("emit %d 0 - - r.6.3 l.%d" % (hdr["adr"], l), True)
                    self.add("emit %d 0 - - r.6.3 am.L%d.-.0.0.0.0.0" % (hdr["ldr"], l), True)
            self.targets.append((tag, len(self.ops)))
            return
        x64 = self.arch == "x64"
        big = [0x80000000, 0x80000001, 0xFFFFF000, 0xFFFFFFFF, 0x100000000, 0x1122334455667788, (1 << 63) - 1, 1 << 63, (1 << 64) - 16]
        for v in big:
            sv = v if v < (1 << 63) else v - (1 << 64)
            for at in (0, 1):
                self.add("op m.8.0.%d.-.-.0.%d.0.0" % (at, sv), True)
                self.add("op m.0.2.%d.-.-.0.%d.0.0" % (at, sv), True)
        for l in (3, 4, 8, 9):
            self.add("op m.4.0.0.L%d.-.0.0.0.0" % l, True)
            self.add("op m.4.0.2.L%d.-.0.-8.0.0" % l, True)
        if not self.comp:
            w = 6 if x64 else 5
            for l in (3, 4, 8, 9):
                for imm in (0x11223344, 0x7F, -1, 1):
                    for mn in ("mov", "add", "cmp", "test", "and"):
                        self.add("emit %d 0 - - m.4.0.0.L%d.-.0.%d.0.0 i.%d" % (hdr[mn], l, 0 if mn == "mov" else 4, imm), True)
                self.add("emit %d 0 - - r.5.1 m.4.0.0.L%d.-.0.0.0.0 i.1000" % (hdr["imul"], l), True)
                self.add("emit %d 0 - - m.4.0.0.L%d.-.0.0.0.0 i.3" % (hdr["shl"], l), True)
                self.add("emit %d 0 - - r.11.1 m.16.0.0.L%d.-.0.0.0.0 i.27" % (hdr["pshufd"], l), True)
                self.add("emit %d 0 - - m.2.0.0.L%d.-.0.0.0.0 i.4660" % (hdr["mov"], l), True)
                self.add("emit %d 0 - - l.%d" % (hdr["jmp"], l), True)
                self.add("emit %d 0 - - r.%d.0 m.0.0.0.L%d.-.0.0.0.0" % (hdr["lea"], w, l), True)
            # instructions whose memory operand is implicit but may be spelled (segment override / 32-bit base = 67h prefix)
            for mn_, regs_ in (("monitor", ["r.5.1", "r.5.2"]), ("monitorx", ["r.5.1", "r.5.2"]), ("maskmovq", None), ("maskmovdqu", None), ("vmaskmovdqu", None)):
                if mn_ not in hdr:
                    continue
                for bt, bi in ((w, 0), (w, 7), (5, 0), (5, 7)):
                    for seg in (0, 5, 2):
                        m_ = "m.0.%d.0.%d/%d.-.0.0.0.0" % (seg, bt, bi)
                        if regs_ is not None:
                            self.add("emit %d 0 - - %s" % (hdr[mn_], m_), True)
                            self.add("emit %d 0 - - %s %s" % (hdr[mn_], m_, " ".join(regs_)), True)
                        else:
                            rt = 28 if mn_ == "maskmovq" else 11
                            self.add("emit %d 0 - - r.%d.1 r.%d.2 %s" % (hdr[mn_], rt, rt, m_), True)
                            self.add("emit %d 0 - - %s r.%d.1 r.%d.2" % (hdr[mn_], m_, rt, rt), True)
            if x64:
                for v in big:
                    sv = v if v < (1 << 63) else v - (1 << 64)
                    for t_, sz in ((2, 1), (4, 2), (5, 4), (6, 8)):
                        self.add("emit %d 0 - - r.%d.0 m.%d.0.1.-.-.0.%d.0.0" % (hdr["mov"], t_, sz, sv), True)
                        self.add("emit %d 0 - - m.%d.0.1.-.-.0.%d.0.0 r.%d.0" % (hdr["mov"], sz, sv, t_), True)
            else:
                for v in (0x80000000, 0xFFFFF000, 0xFFFFFFFF):
                    self.add("emit %d 0 - - r.5.0 m.4.0.0.-.-.0.%d.0.0" % (hdr["mov"], v), True)
        self.targets.append((tag, len(self.ops)))

    def node_block(self, names, n, bind_labels):
        """Builder nodes formatted by Formatter::format_node: instruction nodes (with and without inline comment), label, align,
        embedded data, comment nodes; finally the whole list through format_node_list"""
        rng = self.rng
        a64 = self.arch == "a64"
        count = len(names)
        if bind_labels:
            for l in range(self.nlabels):
                self.add("node label %d" % l, True)
        for k in range(n):
            if rng.random() < 0.3:
                self.add("pos %d" % rng.choice((1, 7, 42, 99999, 100000, 1234567, 4294967295)))
            r = rng.random()
            if r < 0.6:
                iid = rng.randrange(1, count)
                if a64 and rng.random() < 0.3:
                    iid |= rng.randrange(16) << 27
                opts = 0 if a64 or rng.random() < 0.6 else rng.choice((0x2000, 0x10, 0x20, 0x800, 0x1000, 0x40000000, 0x12000))
                nops = rng.choice((0, 1, 2, 2, 3, 3, 4))
                ops, wf = [], True
                for _ in range(nops):
                    o, w = self.operand()
                    ops.append(o); wf &= w
                if "-" in ops:
                    wf = False
                if a64 and (any(o.startswith("am.") and o.split(".")[6] == "0" for o in ops[:-1]) or any(o.startswith("rl.") for o in ops)):
                    wf = False
                comment = "-" if rng.random() < 0.6 else ("c%d x" % rng.randrange(100)).encode().hex()
                self.add("node inst %d %x - %s %s" % (iid, opts, comment, " ".join(ops)), wf)
            elif r < 0.72:
                self.add("node align %d %d" % (rng.choice((0, 1, 2)), rng.choice((1, 2, 4, 8, 16, 32, 64, 4096))), True)
            elif r < 0.86:
                self.add("node embed %d %d %d" % (rng.choice((1, 2, 4, 8)), rng.randrange(0, 40), rng.randrange(1, 9)), True)
            elif r < 0.93:
                self.add("node comment %s" % rng.choice(("hello world", "x", "a; b", "pad  ded")).encode().hex(), True)
            elif r < 0.97:
                self.add("node elabel %d" % rng.randrange(self.nlabels), True)
            else:
                self.add("node edelta %d %d" % (rng.randrange(self.nlabels), rng.randrange(self.nlabels)), True)
        self.add("nodelist")

    def misc_block(self, n):
        rng = self.rng
        for _ in range(n):
            k = rng.random()
            if k < 0.45:
                v = rng.choice((0, 1, 9, 10, 15, 16, 255, 256, M64, 1 << 63, (1 << 63) - 1, (1 << 63) + 1, rng.getrandbits(64), rng.getrandbits(rng.randrange(1, 65))))
                base = rng.choice((10, 16, 10, 16, 2, 8, 0, 7))
                width = rng.choice((0, 0, 1, 4, 8, 16, 20, 70, 256, 300))
                fl = rng.choice((0, 0, 1, 2, 4, 5, 6, 3))
                self.add("num %s %x %d %d %d" % (rng.choice("ui"), v, base, width, fl))
            elif k < 0.6:
                nbytes = rng.randrange(0, 20)
                self.add("hexs %s %d" % (bytes(rng.getrandbits(8) for _ in range(nbytes)).hex() or "-", rng.choice((0, 0, 32, 58))))
            else:
                text = ("  " * rng.randrange(3) + rng.choice(("mov eax, ecx", "vaddps zmm0 {k1}{z}, zmm1, zmm2", "x" * rng.randrange(0, 90), "L1:", ""))).encode().hex() or "-"
                nb = rng.randrange(0, 16)
                binb = bytes(rng.getrandbits(8) for _ in range(nb))
                mode = rng.random()
                if mode < 0.15:
                    bins, rel, imm = "none", 0, 0
                else:
                    bins = binb.hex() or "-"
                    rel = rng.choice((0, 0, 1, 4)) if nb else 0
                    rel = min(rel, nb)
                    imm = rng.choice((0, 0, 1, 2, 4)) if nb else 0
                    imm = min(imm, nb - rel)
                comment = "-" if rng.random() < 0.5 else (rng.choice(("c", "a comment", "x" * 40)).encode().hex())
                self.add("fin %s %s %d %d %s %d %d" % (text, bins, rel, imm, comment, rng.choice((0, 0, 10, 44, 60)), rng.choice((0, 0, 5, 26))))


def gen_ops(rng, tier):
    g = Gen(rng, tier)
    quick = tier == "quick"
    hdr = {a: header_ids(a) for a in ("x64", "a64")}
    hdr["x86"] = hdr["x64"]
    all_flags = []
    for m in range(1 << len(ALL_FLAG_BITS)):
        f = 0
        for k, b in enumerate(ALL_FLAG_BITS):
            if m >> k & 1:
                f |= b
        all_flags.append(f)
    for arch, comp in (("x64", False), ("x86", False), ("a64", False), ("x64", True), ("a64", True)):
        g.init(arch, comp)
        names, ids = hdr[arch]
        g.misc_block(600 if quick else 6000)
        # every flag combination on operand and instruction text
        per = (40, 25) if quick else (300, 200)
        for f in all_flags:
            g.set_flags(f)
            g.op_block(per[0])
            g.inst_block(per[1], names, ids)
        for f in (0, 0x400, 0x100, 0x500):
            g.set_flags(f)
            g.reg_sweep()
        if comp:
            for f in (0x0, 0x60, 0x500):
                g.set_flags(f)
                g.target_block(names, ids)
        if not comp and arch != "a64":
            for f in (0x10, 0x30, 0x18):
                g.set_flags(f)
                g.explain_block(ids, quick)
                g.explain_emit_block(ids)
        if not comp:
            first = True
            for f in ((0x1, 0x0, 0x61, 0x9, 0x11, 0x79) if quick else [x for x in all_flags if x & 0x500 == 0]):
                g.set_flags(f)
                if rng.random() < 0.5:
                    g.add("logopts %d %d %d" % (rng.choice((0, 2, 4)), rng.choice((0, 30, 50)), rng.choice((0, 10, 30))))
                g.target_block(names, ids)
                g.emit_block(names, ids, (3000 if first else 500) if quick else 6000)
                if first:
                    # the same references once the labels are bound: no dots any more
                    for l in (0, 1, 2):
                        g.add("bind %d" % l)
                    g.emit_block(names, ids, 300 if quick else 2000)
                first = False
    # Builder sessions: node formatting
    for arch in ("x64", "a64"):
        names, ids = hdr[arch]
        g.arch, g.comp = arch, False
        g.nlabels, g.vregs = 0, []
        g.add("init %s bld" % arch)
        for l in ("lab a", "lab a", "lab n 2 main -", "lab n 1 loop 2", "lab n 1 inner 0", "lab n 0 tmp -", "lab n 3 ext_fn -",
                  "lab n 2 Data_1 -", "lab n 1 loop 7", "lab a"):
            g.add(l)
        g.nlabels = 10
        first = True
        for f in (0x0, 0x260, 0x208, 0x68):
            g.set_flags(f)
            if f == 0x260:
                g.add("logopts 0 30 0")
            g.node_block(names, 150 if quick else 3000, first)
            first = False
    return g


STATE_OPS = ("init", "flags", "logopts", "lab", "vreg", "bind", "pos")
ANNOT = re.compile(r"(?<=[0-9A-F])\{[^}]*\}")


def canon_impl(line, explain):
    """immediate annotations are not modelled: they are removed from the implementation's text before the comparison"""
    if explain and (line.startswith("=") or line.startswith("T ")):
        return ANNOT.sub("", line)
    return line


def split_emit_answer(ans):
    m = re.fullmatch(r"T (.*) B ([0-9a-f]*)", ans, flags=re.S)
    return (m.group(1), m.group(2)) if m else (None, None)


def logline_for(op, ans, names=None):
    """model-side line for an accepted emit: the bytes and the position of the dotted field are inputs of the model"""
    w = op.split()
    text, hexb = split_emit_answer(ans)
    rel = imm = 0
    m = re.search(r"; ([0-9A-F]*)(\.+)([0-9A-F]*)", text or "")
    if m:
        rel, imm = len(m.group(2)) // 2, len(m.group(3)) // 2
    # the assembler records the form it chose in the options it hands to the logger (short/long jump form, rex prefix)
    opts = int(w[2], 16)
    head = (text or "").split(";")[0].split()
    for word, bit in (("short", 0x10), ("long", 0x20), ("rex", 0x40000000)):
        if word in head[:8]:
            opts |= bit
    iid = int(w[1])
    if names is not None and head:
        # AArch64: `ldr` with an offset that only the unscaled form can hold is emitted and logged as `ldur` (encoder's decision)
        mn = head[0].split(".")[0]
        real = iid & 0xFFFF
        if real < len(names) and names[real] != mn and mn in ("ldu" + names[real][2:], "stu" + names[real][2:]):
            simd_start = next(i for i in range(2, len(names)) if names[i] < names[i - 1])
            cands = [i for i, n_ in enumerate(names) if n_ == mn and (i >= simd_start) == (real >= simd_start)]
            if cands:
                iid = (iid & ~0xFFFF) | cands[0]
    return "logline %d %x %s %s %s %d %d %s" % (iid, opts, w[3], w[4], hexb or "-", rel, imm, " ".join(w[5:]))


def flags_at(ops):
    out, f = [], 0
    for o in ops:
        if o.startswith("init"):
            f = 0
        elif o.startswith("flags "):
            f = int(o.split()[1], 16)
        out.append(f)
    return out


def state_prefix(ops, i):
    """the state lines an op at index i depends on (from the last init)"""
    start = max(k for k in range(i + 1) if ops[k].startswith("init "))
    return [o for o in ops[start:i] if o.split()[0] in STATE_OPS]


def monitor_line(op, ans, pos=0):
    w = op.split()
    if w[0] == "reg" and ans.startswith("="):
        return "mon_reg %s %s %s" % (w[1], w[2], ans)
    if w[0] == "op" and ans.startswith("="):
        return "mon_op %s %s" % (w[1], ans)
    if w[0] == "inst" and ans.startswith("="):
        return "mon_inst %s %s" % (" ".join(w[1:]), ans)
    if w[0] == "node" and ans.startswith("="):
        return "mon_node %d %s %s" % (pos or 0, " ".join(w[1:]), ans)
    if w[0] == "emit" and ans.startswith("T "):
        text, hexb = split_emit_answer(ans)
        return "mon_emit %s %s %s %s %s %s =%s" % (w[1], w[2], w[3], w[4], hexb or "-", " ".join(w[5:]), text)
    return None


def explain_monitor_line(op, ans, arch, flags):
    """the annotation glued to the only immediate of an x86 line says true things about it (Spec/FormatExplain.lean)"""
    if arch.startswith("a64") or not flags & 0x10:
        return None
    w = op.split()
    if w[0] == "inst" and ans.startswith("="):
        toks, text = w[4:], ans
    elif w[0] == "emit" and ans.startswith("T "):
        toks, text = w[5:], "=" + (split_emit_answer(ans)[0] or "").split(" ; ")[0].split("; ")[0]
    else:
        return None
    imms = [t for t in toks if t.startswith("i.")]
    if len(imms) != 1 or "-" in toks or imms[0].count(".") != 1:
        return None
    vec = 16
    for t in toks:
        if t.startswith("r."):
            vec = max(vec, {12: 32, 13: 64}.get(int(t.split(".")[1]), 16))
    return "mon_expl %d %d %d %s" % (int(w[1]) & 0xFFFF, vec, int(imms[0][2:]) & 0xFF, text)


_X86_NAMES = []


def explain_family(op):
    if not _X86_NAMES:
        _X86_NAMES.extend(header_ids("x64")[0])
    iid = int(op.split()[1]) & 0xFFFF
    name = _X86_NAMES[iid] if iid < len(_X86_NAMES) else "?"
    for k, fam in (("fpclass", "vfpclass"), ("fixupimm", "vfixupimm"), ("mpsadbw", "mpsadbw"), ("rndscale", "vrndscale-vreduce"), ("vreduce", "vrndscale-vreduce")):
        if k in name:
            return fam
    return name


def op_class(op, archs, i):
    w = op.split()
    kind = w[0]
    if kind == "op":
        kind = "op-" + w[1].split(".")[0]
    return "%s:%s" % (archs[i], kind)


def op_in_theorem(arch, tok, nlabels=10):
    """is this operand inside the `OpOK`/`OpOKA` kinds of x86_line_parse_back / a64_line_parse_back? (mirrors the theorems' WF predicates)"""
    p = tok.split(".")
    a64 = arch.startswith("a64")
    if p[0] == "r":
        t = int(p[1])
        virt = p[2].startswith("v")
        if len(p) == 3:
            return virt or valid_reg("a64" if a64 else "x64", t, int(p[2]))
        et, ei = int(p[3]), p[4]
        if et == 0:
            return False
        return a64 and not virt and int(p[2]) < 32 and ((t == 10 and 1 <= et <= 4) or (t == 11 and 1 <= et <= 6))
    if p[0] == "i":
        return len(p) == 2 or (a64 and int(p[2]) < 14) or (not a64 and int(p[2]) == 0)
    if p[0] == "l":
        return int(p[1]) < nlabels
    def regok(s_):
        if s_ == "-":
            return True
        if s_[0] == "L":
            return int(s_[1:]) < nlabels
        t, i = s_.split("/")
        return i.startswith("v") or valid_reg("a64" if a64 else "x64", int(t), int(i))
    if p[0] == "m" and not a64:
        size, seg, at, base, index, shift, off, bc, home = p[1:]
        return int(size) in (0, 1, 2, 4, 6, 8, 10, 16, 32, 64) and int(seg) < 7 and int(at) < 3 and int(bc) < 7 and regok(base) and regok(index)
    if p[0] == "am" and a64:
        base, index, sop, shift, off, mode, home = p[1:]
        if base == "-" or not regok(base) or not regok(index):
            return False
        sop, shift, mode, off = int(sop), int(shift), int(mode), int(off)
        if index == "-":
            return shift == 0 and sop == 0 and mode <= 2
        return off == 0 and ((mode == 0 and sop < 14) or (mode == 2 and sop == 0 and shift == 0))
    return False


def line_in_theorem(arch, flags, ops_tokens, impl_text):
    a64 = arch.startswith("a64")
    if flags & 0x10 and ANNOT.search(impl_text or ""):
        return False            # kExplainImms annotation: not part of the modelled text
    if not all(op_in_theorem(arch, t) for t in ops_tokens):
        return False
    if a64:
        for t in ops_tokens[:-1]:
            if t.startswith("am."):
                q = t.split(".")
                if q[2] == "-" and int(q[5]) == 0 and int(q[6]) == 0:
                    return False        # a plain `[b]` that is not the last operand
    return True


def generate():
    return gen_formattabs.generate()


def run(res):
    rng = vlib.rng_for(res.seed, PID)
    res.assumptions += [
        "kExplainImms annotations `{a|b|c}`: modelled and compared in full on inst/emit lines, judged against the immediate by monExplain on "
        "well-formed lines with exactly one immediate; the line reader (monInstruction) skips them; on node texts they are removed before comparing",
        "the reader judges texts of well-formed inputs only (architecturally valid register ids, valid labels/virtual registers, sizes/segments "
        "the syntax can express, label and virtual-register names that are identifiers and do not collide with register names); "
        "ill-formed inputs are compared model vs implementation only",
        "the bytes appended by the encoder and the size/position of the unresolved displacement are inputs of the log-line model (C01/C02/C03 own them)",
        "Builder nodes: inst/label/align/embed-data/embed-label/embed-label-delta/comment/section and the kPositions prefix through "
        "Formatter::format_node and format_node_list are modelled, monitored and tied (parse-back proved for all of them except "
        "`.label (a - b)`, inline comments and the position prefix); func/ret/invoke/sentinel/const-pool nodes are not modelled",
    ]
    broken = []

    # -- L2a translator -----------------------------------------------------------------------------------------------------
    try:
        generate()
    except gen_formattabs.TranslateError as e:
        broken.append("translator gen_formattabs: " + str(e))
        if not (vlib.LEAN / "AsmjitVerif/Gen/FormatTabs.lean").exists():
            res.violation("translator gen_formattabs failed and no generated table exists: %s" % e, {"unchecked": broken}, False, key="obligation")
            return

    # -- L1 proofs ------------------------------------------------------------------------------------------------------------
    ok, out = vlib.lean_stage(res, PID, MODS)
    if not ok and not res.violations:
        for ft in getattr(res, "build_failures", []) or [{"decl": "?", "msg": out[-800:]}]:
            broken.append("theorem %s (%s:%s) no longer checks: %s" % (ft.get("decl"), ft.get("file"), ft.get("line"), ft.get("msg")))
        vlib.lake_build(["vdriver"])
    if not vlib.driver_path().exists():
        res.violation("Lean driver does not build", {"log": out[-3000:]}, found_input=False, key="driver")
        return
    if ok and res.tier == "thorough":
        # independent re-check of the compiled proofs (kernel replay of the .olean files)
        for mod in MODS:
            p = vlib.sh(["lake", "env", "leanchecker", mod], cwd=vlib.LEAN, timeout=3600)
            if p.returncode != 0:
                broken.append("leanchecker rejects %s: %s" % (mod, (p.stdout + p.stderr)[-400:]))
        res.coverage["leanchecker"] = "replayed %s" % ", ".join(MODS) if not any("leanchecker" in b for b in broken) else "FAILED"
        res.coverage["checker_cmd"] += " && lake env leanchecker " + " ".join(MODS)

    # -- L2b correspondence + L3 monitor ---------------------------------------------------------------------------------------
    h = vlib.build_harness("c20")
    g = gen_ops(rng, res.tier)
    ops, wf = g.ops, g.wf
    impl, rc, err = vlib.run_lines([str(h)], ops)
    if rc != 0:
        i, tail = vlib.locate_abort([str(h)], ops)
        first = [l for l in tail.splitlines() if "runtime error" in l or "ERROR: AddressSanitizer" in l][:1]
        rp = state_prefix(ops, i) and ([o for o in ops[:i + 1] if o.startswith("init ")][-1:] + state_prefix(ops, i)[1:] + [ops[i]])
        res.violation("real code aborts under ASan/UBSan on %r: %s" % (ops[i], (first or [tail[-300:]])[0]),
                      {"ops": rp or [ops[i]], "stderr": tail}, found_input=True, key="abort:" + ops[i].split()[0])
        return
    if len(impl) != len(ops):
        res.violation("harness protocol failure: %d answers for %d lines %s" % (len(impl), len(ops), err[-300:]), {}, False, key="protocol")
        return
    fl = flags_at(ops)
    archs, a = [], "?"
    for o in ops:
        if o.startswith("init "):
            a = o.split()[1] + {"comp": "c", "bld": "b"}.get(o.split()[2], "")
        archs.append(a)
    # model side: emit lines become logline lines carrying the implementation's bytes
    a64names = header_ids("a64")[0]
    mops = []
    for o, r in zip(ops, impl):
        if o.startswith("emit "):
            mops.append(logline_for(o, r, a64names if archs[len(mops)].startswith("a64") else None) if r.startswith("T ") else "# refused")
        else:
            mops.append(o)
    model, rc2, err2 = vlib.run_model("C20", mops)
    it = iter(model)
    model_full = [None if m.startswith("#") else next(it, None) for m in mops]
    if rc2 != 0 or any(m is None and not mo.startswith("#") for m, mo in zip(model_full, mops)):
        res.violation("driver protocol failure rc=%d lines %d/%d %s" % (rc2, len(model), len(ops), err2[-500:]), {}, False, key="protocol")
        return
    diffs = []
    skipped_annot = 0
    for i, (o, r, m) in enumerate(zip(ops, impl, model_full)):
        if m is None:
            continue
        if o.startswith("bind "):
            continue        # may legitimately fail (a short jump bound too far away); the model keeps no offsets
        # the kExplainImms annotations are modelled for `inst` and `emit` (compared in full); node texts: still removed before comparing
        r2 = r if o.startswith(("inst ", "emit ")) else canon_impl(r, fl[i] & 0x10)
        if o.startswith(("inst ", "emit ")) and canon_impl(r, fl[i] & 0x10) != r:
            skipped_annot += 1          # now: number of compared lines that carry an annotation
        if o.startswith("emit "):
            r2 = "T " + (split_emit_answer(r2)[0] or "")
        if r2 != m:
            diffs.append(i)
    # monitor: the reader judges the implementation's text of every well-formed query
    mon_ops, idx = [], []
    n_expl = 0
    pending_pos = 0
    for i, (o, r) in enumerate(zip(ops, impl)):
        if o.startswith("pos "):
            pending_pos = int(o.split()[1])
        if o.split()[0] in STATE_OPS:
            mon_ops.append(o); idx.append(None)
            continue
        this_pos = pending_pos if o.startswith("node ") else 0
        if o.startswith("node "):
            pending_pos = 0
        if wf[i]:
            ml = monitor_line(o, r, this_pos)
            if ml:
                mon_ops.append(ml); idx.append(i)
        ml = explain_monitor_line(o, r, archs[i], fl[i]) if wf[i] else None     # ill-formed operands may end the line early
        if ml:
            mon_ops.append(ml); idx.append(i)
            n_expl += 1
    mon, rc3, err3 = vlib.run_model("C20", mon_ops)
    if len(mon) != len(mon_ops):
        res.violation("monitor protocol failure (%d answers for %d lines) %s" % (len(mon), len(mon_ops), err3[-300:]), {}, False, key="protocol")
        return
    bad = [(idx[k], m) for k, m in enumerate(mon) if idx[k] is not None and m != "good"]
    judged = sum(1 for k in idx if k is not None)

    # -- coverage ----------------------------------------------------------------------------------------------------------------
    kinds = {}
    accepted = 0
    for i, (o, r) in enumerate(zip(ops, impl)):
        w0 = o.split()[0]
        if w0 in STATE_OPS:
            continue
        k = op_class(o, archs, i) + (":" + r.split()[0] if w0 == "emit" else "")
        kinds[k] = kinds.get(k, 0) + 1
        accepted += w0 == "emit" and r.startswith("T ")
    res.coverage["evaluations"] = sum(1 for o in ops if o.split()[0] not in STATE_OPS)
    res.coverage["distinct_nontrivial"] = len({(archs[i], r) for i, (o, r) in enumerate(zip(ops, impl)) if r.startswith("=") or r.startswith("T ")})
    res.coverage["rule"] = ("5 sessions (x64/x86/a64 Assembler, x64/a64 Compiler with virtual registers; anonymous, global, local, external and "
                            "anonymous-named labels): all 128 combinations of the 7 text-affecting FormatFlags on generated operands "
                            "(boundary displacements/immediates around 9/10, 127/128, 2^31, 2^63; every RegType x id 0..33,63,64,255; "
                            "segments, broadcasts, scales, label bases, virtual registers and casts) and on random instruction ids/options/"
                            "extra registers; a menu of ~55 everyday instructions x ~55 operand shapes plus random ids emitted through the real "
                            "Assembler with a StringLogger (unbound and bound labels); finish_formatted_line / append_int / append_hex on "
                            "random arguments. non-trivial = distinct (session, text) produced by the real code")
    res.coverage["exhaustive"] = False
    res.coverage["input_distribution"] = kinds
    res.coverage["monitored_answers"] = judged
    res.coverage["imm_annotations_judged_against_the_immediate"] = n_expl
    res.coverage["emit_accepted_by_assembler"] = accepted
    implicit_mem = sum(1 for o, r in zip(ops, impl) if o.startswith("emit ") and r.startswith("T ") and
                       r.split(";")[0].split()[1:2] and r.split(";")[0].split()[1].split(".")[0] in ("monitor", "monitorx", "maskmovq", "maskmovdqu", "vmaskmovdqu")
                       and "[" in r.split(";")[0])
    res.coverage["implicit_memory_operand_lines_emitted_and_judged"] = implicit_mem
    tgt = {"label_mem_plus_imm_with_dots": 0, "abs_ge_2G_texts": 0, "moffs64_emitted": 0, "local_label_under_unnamed_parent_texts": 0}
    for b_, e_ in g.targets:
        for i in range(b_, e_):
            o, r = ops[i], impl[i]
            if o.startswith("emit ") and r.startswith("T ") and ".L" in o and " i." in o and "...." in r:
                tgt["label_mem_plus_imm_with_dots"] += 1
            if o.startswith("op m.") and ".-.-.0." in o and r.startswith("="):
                tgt["abs_ge_2G_texts"] += 1
            if o.startswith("emit ") and ".-.-.0." in o and r.startswith("T ") and len(split_emit_answer(r)[1] or "") >= 18:
                tgt["moffs64_emitted"] += 1
            if "L0.inner" in r or "L7.loop" in r or "Data_1.loop" in r:
                tgt["local_label_under_unnamed_parent_texts"] += "L0.inner" in r
    res.coverage["targeted_cases"] = tgt
    # fraction of the lines the real Assembler emitted (the sweep) that lie inside the WF predicate of the line theorems
    frac = {}
    for i, (o, r) in enumerate(zip(ops, impl)):
        if o.startswith("emit ") and r.startswith("T "):
            fam = "a64" if archs[i].startswith("a64") else "x86"
            w = o.split()
            inside = line_in_theorem(archs[i], fl[i], w[5:], r)
            a_, b_ = frac.get(fam, (0, 0))
            frac[fam] = (a_ + (1 if inside else 0), b_ + 1)
    res.coverage["line_theorem_wf_fraction_of_emitted_lines"] = {
        k: {"inside": a_, "emitted": b_, "fraction": round(a_ / b_, 4) if b_ else None} for k, (a_, b_) in frac.items()}
    res.coverage["line_theorem_wf_note"] = ("x86_line_parse_back / a64_line_parse_back quantify over all lines satisfying WFLine / "
        "(OpOKA, A64OpsOK); a line is outside only if it carries a kExplainImms annotation or an operand outside the proved kinds; "
        "annotated lines (many since round 9: a dedicated block emits them) are covered differently: text compared in full with the model, "
        "annotation judged by monExplain (theorems annotation_truth_* for every immediate byte), rest of the line judged by the reader after "
        "skipping the annotation; `dropImmAnnotations (annotated text) = plain text` is NOT proved, so they are not counted inside")
    if not all(tgt.values()):
        broken.append("generator no longer reaches a targeted class: %s" % tgt)
    res.coverage["machine_code_column_on_real_byte_stream"] = (
        "theorems machine_code_column_exact/_covers and log_is_transcript are about (bytes, rel, imm) of an emit history; the tie "
        "instantiates them with the REAL stream: each of the %d accepted `emit` lines runs x86::/a64::Assembler::_emit with a "
        "StringLogger(kMachineCode) on instruction forms of the C01/C02 kind (menu x operand shapes + random ids under strict "
        "validation), the harness returns the bytes the CodeHolder section buffer grew by, the model's log line is computed from "
        "exactly those bytes and compared with the logger text, and monLogLine reads the column back and compares it byte for byte "
        "with them (dots only over a zero placeholder of an instruction that refers to a label)" % accepted)
    res.coverage["lines_with_imm_annotation_compared_in_full"] = skipped_annot
    res.coverage["traces_validated_against_impl"] = len(ops)
    ex = [i for i, o in enumerate(ops) if o.startswith(("op m.", "op am.", "inst ", "emit ")) and impl[i][:1] in ("=", "T")]
    res.add_samples([{"op": ops[i], "impl": impl[i], "model": model_full[i]} for i in (ex[0], ex[len(ex) // 3], ex[len(ex) // 2], ex[-1])] if ex else [])

    # -- classification -------------------------------------------------------------------------------------------------------
    if bad:
        seen = set()
        for i, m in bad:
            key = "text:" + op_class(ops[i], archs, i)
            if "immediate-annotation" in m:
                key = "explain:" + explain_family(ops[i])
                if key in seen:
                    continue
                seen.add(key)
                n = sum(1 for j, m2 in bad if "immediate-annotation" in m2 and explain_family(ops[j]) == explain_family(ops[i]))
                rp = [o for o in ops[:i + 1] if o.startswith("init ")][-1:] + state_prefix(ops, i)[1:] + [ops[i]]
                res.violation("the kExplainImms annotation says something false about the immediate: %s -> %r ; reader says %s "
                              "(%d inputs of this instruction family)" % (ops[i], impl[i], m, n),
                              {"ops": rp, "impl": impl[i], "model": model_full[i], "monitor": m,
                               "how": "feed the ops to .build/<tree>/asan/h_c20_* ; vdriver C20 judges `mon_expl` lines"}, True, key=key)
                continue
            if ops[i].startswith("op am.") and re.match(r"op am\.[^.]+\.[^-][^.]*\.(\d+)\.0\.", ops[i]) and int(re.match(r"op am\.[^.]+\.[^.]+\.(\d+)\.", ops[i]).group(1)) != 0:
                key = "text:a64:mem-extend-shift0"
            if key in seen:
                continue
            seen.add(key)
            n = sum(1 for j, _ in bad if op_class(ops[j], archs, j) == op_class(ops[i], archs, i))
            rp = [o for o in ops[:i + 1] if o.startswith("init ")][-1:] + state_prefix(ops, i)[1:] + [ops[i]]
            res.violation("text does not denote what was given: %s -> %r ; reader says %s (%d inputs of this class)" % (ops[i], impl[i], m, n),
                          {"ops": rp, "impl": impl[i], "model": model_full[i], "monitor": m,
                           "how": "feed the ops to .build/<tree>/asan/h_c20_* ; vdriver C20 judges `mon_*` lines"}, True, key=key)
    # a correspondence difference is reported unless the SAME op is already explained by a reader violation above
    # (an implementation change makes the text wrong and different from the model at once); differences on other ops,
    # or on classes of ops without a reader violation, are never hidden
    bad_idx = {i for i, _ in bad}
    bad_classes = {op_class(ops[i], archs, i) for i in bad_idx}
    unexplained = [i for i in diffs if i not in bad_idx and not (wf[i] is False and op_class(ops[i], archs, i) in bad_classes)]
    if unexplained:
        i = unexplained[0]
        rp = [o for o in ops[:i + 1] if o.startswith("init ")][-1:] + state_prefix(ops, i)[1:] + [ops[i]]
        res.violation("correspondence model/implementation differs at %r: impl=%r model=%r (%d differing ops not explained by a reader "
                      "violation); the reader accepts the well-formed texts of these ops" % (ops[i], impl[i], model_full[i], len(unexplained)),
                      {"ops": rp, "impl": impl[i], "model": model_full[i], "unchecked": "correspondence Model/Format.lean ~ formatter/logger"},
                      False, key="corr")
    if broken:
        res.violation("proof obligation no longer checks: " + " | ".join(broken)[:1500], {"unchecked": broken}, False, key="obligation")
    # an empty run is never a pass
    n_query = sum(1 for o in ops if o.split()[0] not in STATE_OPS)
    if n_query == 0 or judged == 0 or accepted == 0:
        res.violation("empty run: %d query lines, %d texts judged, %d instructions emitted" % (n_query, judged, accepted),
                      {"ops": ops[:5]}, False, key="empty")


def replay(data):
    ops = data["replay"].get("ops", [])
    h = vlib.build_harness("c20")
    impl, rc, err = vlib.run_lines([str(h)], ops)
    for o, r in zip(ops, impl):
        print(o, "->", r)
    mon = []
    arch, flags = "x64", 0
    for o, r in zip(ops, impl):
        if o.startswith("init "):
            arch = o.split()[1]
        if o.startswith("flags "):
            flags = int(o.split()[1], 16)
        mon.append(o if o.split()[0] in STATE_OPS else monitor_line(o, r))
        mon.append(None if o.split()[0] in STATE_OPS else explain_monitor_line(o, r, arch, flags))
    mon = [m for m in mon if m]
    out, _, _ = vlib.run_model("C20", mon)
    for m, r in zip(mon, out):
        if m.startswith("mon_"):
            print("reader:", r)
    return 0
