"""C05 - register allocation preserves the meaning of Compiler programs (verified translation validator)."""
import collections
import re
import random

import vlib
import c05_gen

PID = "C05"
MANIFEST = {
    "technique": "Lean 4 proof of a translation validator (simulation over a product-program certificate, all inputs, all "
                 "interpretations of the instructions) run on the node lists the real Compiler produces before/after run_passes(); "
                 "host execution against a reference interpreter as search support",
    "text": "Model/RAIR.lean defines an IR of uninterpreted instructions (reads/writes/clobbers from InstAPI::query_rw_info, memory token, calls as "
            "events), its small-step semantics and the executable checker `validate`. Props/C05.lean proves validate_sound / validate_sound_conv: "
            "an accepted pair (virtual-register program, allocated program) has exactly the same finite observations (calls with arguments and "
            "memory, return values, final memory, divergence) for every interpretation of the instruction keys, every argument list and every "
            "initial memory - loops, irreducible flow and jump tables included. The harness builds generated functions (straight line, diamonds, "
            "nested and irreducible loops, annotated jump tables, calls, 1..200 live values, shift-by-CL, mul/div, cmpxchg, partial writes, "
            "same-register idioms, reg/mem operands, user stack areas; x86-64, x86-32, AArch64) with the real Compiler, dumps both node lists, the "
            "Lean driver translates them and runs the proved checker on every one. x86-64 functions are also executed on the host on several "
            "inputs against an interpreter over unbounded virtual registers.",
    "note": "Partial by construction: the theorem covers all inputs of each *checked* program; programs are sampled. Trusted: Lean kernel; the "
            "dump -> IR translation in Driver/C05.lean (operand RW classification from query_rw_info = C12's subject, instruction keys, "
            "prolog/epilog treated as frame instructions = C07's subject, ABI locations from FuncDetail = C06's subject, move whitelist, "
            "width-aware same-register idiom rules); the certificate generator is untrusted. A program the validator cannot follow is counted "
            "`unvalidated` (cap 5 %), a program it refuses is a violation (with a concrete input when host execution exhibits one). AArch64 and "
            "x86-32 code cannot be executed here: refusals there are reported without a failing input.",
}
MODS = ["AsmjitVerif.Props.C05", "AsmjitVerif.Props.C05Idioms"]


def generate():
    """Gen/VexEvex.lean: VEX/EVEX siblings from db/isa_x86.json + the rows of transform_vex_to_evex from x86rapass.cpp"""
    import gen_vexevex
    return gen_vexevex.generate()


# ----------------------------------------------------------------------------------------------------------------------
# program families
# ----------------------------------------------------------------------------------------------------------------------

def idiom_programs():
    """systematic: every same-register / identity idiom x operand width x virtual register width, under pressure,
    with the register spilled at the idiom (the shape that distinguishes read-only / write-only / read-write)"""
    out = []

    def prog(idiom, vtype, init, force_reg, n=16):
        regs = [("p", "ptr"), ("a", "u64"), ("v", vtype), ("res", "u64")] + [("r%d" % i, "u64") for i in range(n)]
        R, I, M = c05_gen.R, c05_gen.Imm, c05_gen.Mem
        body = [("i", "mov", [R("v"), R("a") if vtype == "u64" else R("a", "r32")])]
        for i in range(n):
            body.append(("i", "lea", [R("r%d" % i), M(0, "a", i + 1)]))
        for _ in range(2):
            for i in range(n):
                body.append(("i", "add", [R("r%d" % i), R("r%d" % ((i + 1) % n))]))
        if force_reg:     # bring v into a register (clean w.r.t. its home slot) right before the idiom
            body.append(("i", "lea", [R("r0"), M(0, "v", 1)]) if vtype == "u64" else ("i", "mov", [R("r0", "r32"), R("v")]))
        body.append(idiom)
        for _ in range(2):
            for i in range(n):
                body.append(("i", "add", [R("r%d" % i), R("r%d" % ((i + 1) % n))]))
        body.append(("i", "mov", [R("res"), R("v")] if vtype == "u64" else [R("res", "r32"), R("v")]))
        for i in range(n):
            body.append(("i", "xor", [R("res"), R("r%d" % i)]))
        body.append(("ret", "res"))
        return {"arch": ["x64"], "regs": regs, "stacks": [], "ret": "u64", "argtypes": ["ptr", "u64"], "args": ["p", "a"], "body": body,
                "inputs": [[0, init], [0, 0xFFFFFFFF00000001], [0, 0x8000000080000000]], "family": "idiom"}

    R, I = c05_gen.R, c05_gen.Imm
    for vtype, views in (("u32", ["r8", "r16", "r32"]), ("u64", ["r8", "r16", "r32", "r64"])):
        for view in views:
            for force in (False, True):
                for op in ("xor", "sub", "or", "and", "cmp", "test"):
                    out.append(prog(("i", op, [R("v", view), R("v", view)]), vtype, 0x12345678, force))
                for op, imm in (("or", -1), ("and", 0), ("add", 0), ("or", 0), ("xor", 0), ("sub", 0), ("shl", 0), ("and", -1), ("add", 1), ("xor", 1)):
                    out.append(prog(("i", op, [R("v", view), I(imm)]), vtype, 0x12345678, force))
                out.append(prog(("i", "mov", [R("v", view), R("v", view)]), vtype, 0x12345678, force))
                out.append(prog(("i", "not", [R("v", view)]), vtype, 0x12345678, force))
    return out


def random_programs(rng, n, tier):
    progs = []
    pressures = [1, 2, 3, 4, 6, 8, 10, 12, 14, 16, 20, 24, 32, 48, 64, 100, 150, 200]
    for i in range(n):
        nlive = rng.choice(pressures if i % 3 else pressures[:12])
        nops = rng.randrange(4, 60 if tier == "quick" else 160)
        g = c05_gen.GenX64(rng, nlive, nops)
        p = g.build(ninputs=4 if tier == "quick" else 8)
        p["family"] = "x64-random"
        progs.append(p)
    return progs


def port_program(p, arch):
    """the same program for x86-32 (validation only): 64-bit registers become 32-bit ones; programs that need 64-bit
    forms are skipped"""
    return None


def a64_programs(rng, n):
    """AArch64 (validation only): pressure, loops, diamonds, calls, vector register lists"""
    R, I, M, L = c05_gen.R, c05_gen.Imm, c05_gen.Mem, c05_gen.Lbl
    progs = []
    for k in range(n):
        heavy = k % 4 == 3          # > 30 live GP and > 32 live vector values, kept live across calls
        nlive = rng.choice([34, 40, 48, 64]) if heavy else rng.choice([2, 4, 8, 16, 24, 28, 32, 40, 64, 120])
        regs = [("p", "ptr"), ("a", "u64"), ("b", "u64")]
        body = []
        gp = ["a", "b"]
        for i in range(nlive):
            r = "r%d" % i
            regs.append((r, "u64"))
            if rng.random() < 0.5:
                body.append(("i", "mov", [R(r), I(rng.randrange(0, 65536))]))
            else:
                body.append(("i", "add", [R(r), R(rng.choice(gp)), I(rng.randrange(0, 4096))]))
            gp.append(r)
        vec = []
        for i in range(rng.choice([34, 36, 40, 48]) if heavy else rng.choice([0, 0, 2, 4, 8, 34])):
            v = "q%d" % i
            regs.append((v, "v128"))
            body.append(("i", "ldr", [R(v, "q"), M(0, "p", 16 * (i % 16))]))
            vec.append(v)
        label = [1]

        def newl():
            label[0] += 1
            return label[0]

        def block(depth, cnt):
            for _ in range(cnt):
                c = rng.random()
                d, s, t = rng.choice(gp[2:] or gp), rng.choice(gp), rng.choice(gp)
                if c < 0.4:
                    body.append(("i", rng.choice(["add", "sub", "and", "orr", "eor", "mul", "lsl", "lsr", "udiv"]), [R(d), R(s), R(t)]))
                elif c < 0.5:
                    body.append(("i", "madd", [R(d), R(s), R(t), R(rng.choice(gp))]))
                elif c < 0.6:
                    body.append(("i", rng.choice(["ldr", "str"]), [R(d), M(0, "p", 8 * rng.randrange(0, 32))]))
                elif c < 0.7 and len(vec) >= 2:
                    a, b2, c2 = rng.choice(vec), rng.choice(vec), rng.choice(vec)
                    cc = rng.random()
                    if cc < 0.5:
                        body.append(("i", rng.choice(["add", "sub", "mul"]), [R(a, "s4"), R(b2, "s4"), R(c2, "s4")]))
                    elif cc < 0.7:
                        body.append(("i", rng.choice(["eor", "and", "orr"]), [R(a, "b16"), R(b2, "b16"), R(c2, "b16")]))
                    elif cc < 0.85:
                        body.append(("i", "str", [R(a, "q"), M(0, "p", 16 * rng.randrange(0, 16))]))
                    else:
                        body.append(("i", "mov", [R(a, "b16"), R(b2, "b16")]))
                elif c < 0.76:
                    n2 = rng.randrange(0, 9)
                    body.append(("call", d if rng.random() < 0.8 else None, [R(rng.choice(gp)) if rng.random() < 0.85 else I(rng.randrange(100)) for _ in range(n2)]))
                elif c < 0.9 and depth < 2:
                    kind = rng.random()
                    if kind < 0.4:
                        l = newl()
                        body.append(("i", "cmp", [R(s), R(t)]))
                        body.append(("i", "b." + rng.choice(["eq", "ne", "lo", "hs", "lt", "ge", "gt", "le"]), [L(l)]))
                        block(depth + 1, rng.randrange(1, 6))
                        body.append(("lab", l))
                    elif kind < 0.7:
                        le, lx = newl(), newl()
                        body.append(("i", rng.choice(["cbz", "cbnz"]), [R(s), L(le)]))
                        block(depth + 1, rng.randrange(1, 5))
                        body.append(("i", "b", [L(lx)]))
                        body.append(("lab", le))
                        block(depth + 1, rng.randrange(1, 5))
                        body.append(("lab", lx))
                    else:
                        cnt_r = "c%d" % len(regs)
                        regs.append((cnt_r, "u64"))
                        lt = newl()
                        body.append(("i", "mov", [R(cnt_r), I(rng.randrange(1, 4))]))
                        body.append(("lab", lt))
                        block(depth + 1, rng.randrange(1, 6))
                        body.append(("i", "sub", [R(cnt_r), R(cnt_r), I(1)]))
                        body.append(("i", "cbnz", [R(cnt_r), L(lt)]))
                else:
                    body.append(("i", "mov", [R(d), R(s)]))

        block(0, rng.randrange(4, 50))
        if heavy:       # at least three calls with everything live across them
            for _ in range(3):
                body.append(("call", rng.choice(gp[2:]), [R(rng.choice(gp)) for _ in range(rng.randrange(0, 9))]))
                block(0, rng.randrange(2, 10))
        regs.append(("res", "u64"))
        body.append(("i", "mov", [R("res"), I(0)]))
        for g in gp:
            body.append(("i", "add", [R("res"), R("res"), R(g)]))
        for i, v in enumerate(vec[:16]):
            body.append(("i", "str", [R(v, "q"), M(0, "p", 16 * i)]))
        body.append(("ret", "res"))
        progs.append({"arch": ["a64"], "regs": regs, "stacks": [], "ret": "u64", "argtypes": ["ptr", "u64", "u64"], "args": ["p", "a", "b"], "body": body,
                      "inputs": [], "family": "a64-random"})
    return progs


def a64_list_programs(rng, n, tbl=False):
    """AArch64 register-list instructions that need consecutive physical registers, with overlapping / conflicting lists"""
    R, I, M = c05_gen.R, c05_gen.Imm, c05_gen.Mem
    progs = []
    for k in range(n):
        nv = rng.choice([3, 4, 5, 6, 8, 12, 30])
        regs = [("p", "ptr")] + [("q%d" % i, "v128") for i in range(nv)]
        vec = ["q%d" % i for i in range(nv)]
        body = [("i", "ldr", [R(v, "q"), M(0, "p", 16 * (i % 16))]) for i, v in enumerate(vec)]
        for _ in range(rng.randrange(3, 14)):
            c = rng.random()
            cnt = rng.randrange(1, 5)
            lst = rng.sample(vec, min(cnt, len(vec)))
            if tbl and c < 0.6:
                others = [v for v in vec if v not in lst] or vec
                # destination / index inside the table are architecturally fine but the allocator refuses them (error, not wrong code): keep them rare
                d = rng.choice(vec if rng.random() < 0.15 else others)
                idx = rng.choice(vec if rng.random() < 0.04 else others)
                body.append(("i", rng.choice(["tbl", "tbx"]), [R(d, "b16")] + [R(v, "b16") for v in lst] + [R(idx, "b16")]))
            elif c < 0.45:
                body.append(("i", "ld%d" % len(lst), [R(v, "s4") for v in lst] + [M(0, "p", 0)]))
            elif c < 0.8:
                body.append(("i", "st%d" % len(lst), [R(v, "s4") for v in lst] + [M(0, "p", 0)]))
            else:
                body.append(("i", rng.choice(["add", "eor"]), [R(rng.choice(vec), "b16"), R(rng.choice(vec), "b16"), R(rng.choice(vec), "b16")]))
        for i, v in enumerate(vec[:16]):
            body.append(("i", "str", [R(v, "q"), M(0, "p", 16 * i)]))
        body.append(("ret", None))
        progs.append({"arch": ["a64"], "regs": regs, "stacks": [], "ret": "void", "argtypes": ["ptr"], "args": ["p"], "body": body, "inputs": [],
                      "family": "a64-tbl" if tbl else "a64-lists"})
    return progs


def byref_programs(rng, n):
    """Win64 / vectorcall calls with vector arguments passed by reference, immediates and many arguments (validation only)"""
    R, I, M = c05_gen.R, c05_gen.Imm, c05_gen.Mem
    progs = []
    for k in range(n):
        nx = rng.randrange(1, 6)
        regs = [("p", "ptr"), ("a", "u64"), ("b", "u64"), ("r", "u64")] + [("x%d" % i, "v128") for i in range(nx)]
        body = [("i", "movdqu", [R("x%d" % i), M(16, "p", 16 * i)]) for i in range(nx)]
        body.append(("i", "lea", [R("b"), M(0, "a", 5)]))
        for _ in range(rng.randrange(1, 4)):
            args = []
            for j in range(rng.randrange(1, 5)):
                c = rng.random()
                if c < 0.45:
                    args.append("v128=x%d" % rng.randrange(nx))
                elif c < 0.8:
                    args.append("u64=%s" % rng.choice(["a", "b"]))
                else:
                    args.append("u64=#%d" % rng.randrange(0, 100000))
            body.append(("raw", "callx %s %s %s" % (rng.choice(["win64", "vectorcall"]), rng.choice(["-", "u64=r"]), " ".join(args))))
            body.append(("i", "paddd", [R("x%d" % rng.randrange(nx)), R("x%d" % rng.randrange(nx))]))
        body.append(("i", "mov", [R("r"), R("a")]))
        for i in range(nx):
            body.append(("i", "movdqu", [M(16, "p", 16 * i), R("x%d" % i)]))
        body.append(("ret", "r"))
        progs.append({"arch": ["x64"], "regs": regs, "stacks": [], "ret": "u64", "argtypes": ["ptr", "u64"], "args": ["p", "a"], "body": body, "inputs": [],
                      "family": "x64-byref"})
    return progs


def avx512_programs(rng, n, tier):
    progs = []
    for i in range(n):
        g = c05_gen.GenX64(rng, rng.choice([2, 4, 8, 16, 30]), rng.randrange(5, 80), features=["avx512"])
        p = g.build(ninputs=4)
        p["family"] = "x64-avx512"
        progs.append(p)
    return progs


VEX_ROWS = ["vpand", "vpandn", "vpor", "vpxor", "vmovdqa", "vmovdqu", "vextractf128", "vextracti128", "vinsertf128", "vinserti128",
            "vbroadcastf128", "vbroadcasti128", "vroundps", "vroundpd", "vroundss", "vroundsd"]


def vex_row_programs(rng):
    """systematic: every VEX instruction that X86RAPass::rewrite renames to an EVEX sibling (transform_vex_to_evex), in a frame with
    AVX-512 enabled and 24 simultaneously live vector values, applied across all of them - so registers 16..31 are certainly used"""
    R, I, M = c05_gen.R, c05_gen.Imm, c05_gen.Mem
    progs = []
    for name in VEX_ROWS:
        for ty in (("v128", "v256") if name in ("vpand", "vpandn", "vpor", "vpxor", "vmovdqa", "vmovdqu", "vroundps", "vroundpd") else ("v256",) if "128" in name else ("v128",)):
            n = 24
            size = c05_gen.TYPE_BITS[ty] // 8
            regs = [("p", "ptr"), ("a", "u64"), ("res", "u64")] + [("y%d" % i, ty) for i in range(n)] + [("x%d" % i, "v128") for i in range(4)]
            body = [("i", "vmovdqu", [R("y%d" % i), M(size, "p", (i * 8) % (256 - size + 1))]) for i in range(n)]
            body += [("i", "vmovdqu", [R("x%d" % i), M(16, "p", 16 * i + 4)]) for i in range(4)]
            for i in range(n):
                d, s1, s2 = "y%d" % i, "y%d" % ((i * 7 + 3) % n), "y%d" % ((i * 5 + 11) % n)
                if name in ("vpand", "vpandn", "vpor", "vpxor"):
                    body.append(("i", name, [R(d), R(s1), R(s2)]))
                elif name in ("vmovdqa", "vmovdqu"):
                    body.append(("i", name, [R(d), R(s1)]))
                    body.append(("i", "vpxor", [R(s1), R(s1), R(s2)]))
                elif name.startswith("vextract"):
                    body.append(("i", name, [R("x%d" % (i % 4)), R(s1), I(i & 1)]))
                    body.append(("i", "vinserti128", [R(d), R(d), R("x%d" % (i % 4)), I(1 - (i & 1))]))
                elif name.startswith("vinsert"):
                    body.append(("i", name, [R(d), R(s1), R("x%d" % (i % 4)), I(i & 1)]))
                elif name.startswith("vbroadcast"):
                    body.append(("i", name, [R(d), M(16, "p", (i * 4) % 241)]))
                    body.append(("i", "vpxor", [R(d), R(d), R(s1)]))
                elif name in ("vroundps", "vroundpd"):
                    body.append(("i", name, [R(d), R(s1), I(i & 3)]))
                else:
                    body.append(("i", name, [R(d), R(s1), R(s2), I(i & 3)]))
            for i in range(1, n):      # everything stays live to the end
                body.append(("i", "vpxor", [R("y0"), R("y0"), R("y%d" % i)]))
            body.append(("i", "vmovdqu", [M(size, "p", 0), R("y0")]))
            body.append(("i", "mov", [R("res"), R("a")]))
            body.append(("ret", "res"))
            progs.append({"arch": ["x64", "avx512"], "regs": regs, "stacks": [], "ret": "u64", "argtypes": ["ptr", "u64"], "args": ["p", "a"], "body": body,
                          "inputs": [[0, 1], [0, 0x1234567]], "family": "x64-vex-rows"})
    return progs


def jt_shared_programs(rng=None, extra=0):
    """two annotated jump-table sites that share their targets but list them in a different order; a multi-block register that is
    clean (reloaded after a call) on the path to one site and modified on the path to the other; both targets spill it (a call) and
    read it again. Both block layouts x all annotation orders (+ random variants with `rng`)."""
    R, I, M, L = c05_gen.R, c05_gen.Imm, c05_gen.Mem, c05_gen.Lbl
    progs = []
    combos = [(lay, o1, o2, 8) for lay in (0, 1) for o1 in ((10, 11), (11, 10)) for o2 in ((10, 11), (11, 10))]
    for _ in range(extra):
        combos.append((rng.randrange(2), rng.choice(((10, 11), (11, 10))), rng.choice(((10, 11), (11, 10))), rng.choice([8, 10, 13, 16, 24])))
    for lay, o1, o2, nl in combos:
        regs = [("p", "ptr"), ("a1", "u64"), ("a2", "u64"), ("m", "u64"), ("t", "u64"), ("u", "u64"), ("res", "u64")] + [("r%d" % i, "u64") for i in range(nl)]
        b = [("i", "lea", [R("r%d" % i), M(0, "a1", i + 1)]) for i in range(nl)]
        b += [("i", "mov", [R("m"), R("a2")]), ("i", "add", [R("m"), I(7)]), ("call", "r0", [R("a1")])]

        def site(order):
            return [("i", "lea", [R("t"), M(0, "@10")]), ("i", "lea", [R("u"), M(0, "@11")]), ("i", "test", [R("a2"), I(1)]),
                    ("i", "cmovnz", [R("t"), R("u")]), ("jt", "jmp", R("t"), list(order))]
        p1 = [("lab", 1), ("call", "r1", [R("r2")]), ("i", "add", [R("r1"), R("m")])] + site(o1)       # m reloaded after the call: clean
        p2 = [("lab", 2), ("i", "add", [R("m"), R("r2")]), ("i", "rol", [R("m"), I(3)])] + site(o2)    # m modified: dirty
        b += [("i", "test", [R("a1"), I(1)])]
        if lay == 0:
            b += [("i", "jnz", [L(2)])] + p1 + p2
        else:
            b += [("i", "jz", [L(1)])] + p2 + p1
        b += [("lab", 10), ("call", "r3", [R("r4"), R("r5")]), ("i", "add", [R("r3"), R("m")]), ("i", "jmp", [L(12)]),
              ("lab", 11), ("call", "r5", [R("r6")]), ("i", "xor", [R("r5"), R("m")]), ("i", "add", [R("m"), R("r5")]),
              ("lab", 12), ("i", "mov", [R("res"), R("m")])]
        for i in range(nl):
            b += [("i", "add", [R("res"), R("r%d" % i)]), ("i", "rol", [R("res"), I(5)])]
        b.append(("ret", "res"))
        progs.append({"arch": ["x64"], "regs": regs, "stacks": [], "ret": "u64", "argtypes": ["ptr", "u64", "u64"], "args": ["p", "a1", "a2"], "body": b,
                      "inputs": [[0, x, y] for x in (0, 5) for y in (2, 3)], "family": "x64-jt-shared"})
    return progs


BOUNDARY_IMMS = [0x7FFFFFFF, 0x80000000, 0xFFFFFFFF, 0x100000000, -1, -0x80000000, 0x7FFFFFFFFFFFFFFF, 0x123456789]


def imm_boundary_programs(rng=None, extra=0):
    """calls whose integer arguments are IMMEDIATES at boundary values, in register positions and in stack positions
    (7th+ argument SysV, 5th+ Win64); executed on the host: the callee logs what it received"""
    R, I, M = c05_gen.R, c05_gen.Imm, c05_gen.Mem
    progs = []
    sets = [[v] for v in BOUNDARY_IMMS] + [[rng.choice(BOUNDARY_IMMS + [rng.getrandbits(rng.choice([31, 32, 33, 63]))]) for _ in range(3)] for _ in range(extra)]
    for vals in sets:
        regs = [("p", "ptr"), ("a", "u64"), ("b", "u64"), ("r", "u64"), ("res", "u64"), ("x", "v128"), ("y", "v128")]
        body = [("i", "lea", [R("b"), M(0, "a", 3)]), ("i", "mov", [R("res"), R("a")]), ("i", "movdqu", [R("x"), M(16, "p", 0)]), ("i", "movdqu", [R("y"), M(16, "p", 16)])]
        for v in vals:
            for pos in ((0, 5), (6, 9), (1, 7), (8,)):                # register positions 0..5, stack positions 6..9 (SysV)
                args = [I(v) if i in pos else R("a" if i % 2 else "b") for i in range(10)]
                body += [("call", "r", args), ("i", "add", [R("res"), R("r")])]
            # Win64 callee vuuvuu: arguments 4, 5 on the stack, 1, 2 in registers
            body += [("callw", 3, "r", [R("x"), I(v), R("a"), R("y"), I(v), R("b")]), ("i", "xor", [R("res"), R("r")]),
                     ("callw", 3, "r", [R("y"), R("b"), I(v), R("x"), R("a"), I(v)]), ("i", "add", [R("res"), R("r")])]
        body.append(("ret", "res"))
        progs.append({"arch": ["x64"], "regs": regs, "stacks": [], "ret": "u64", "argtypes": ["ptr", "u64"], "args": ["p", "a"], "body": body,
                      "inputs": [[0, 1], [0, 0xFFFFFFFF00000005]], "family": "x64-imm-args"})
    return progs


def win64_byref_exec_programs(rng=None, extra=0):
    """a SysV function calls Win64 (ms_abi) callees with 128-bit vector arguments (passed by reference through stack temporaries)
    while a local buffer and spilled values are live across the call; executed on the host"""
    R, I, M = c05_gen.R, c05_gen.Imm, c05_gen.Mem
    progs = []
    cfgs = [(k, ng, nv, st) for k in (0, 1, 2, 3) for (ng, nv, st) in ((2, 2, 32), (14, 18, 64))]
    for _ in range(extra):
        cfgs.append((rng.randrange(4), rng.choice([2, 6, 14, 20]), rng.choice([2, 6, 18, 24]), rng.choice([16, 32, 64, 128])))
    for k, ng, nv, st in cfgs:
        regs = [("p", "ptr"), ("a", "u64"), ("r", "u64"), ("res", "u64")] + [("g%d" % i, "u64") for i in range(ng)] + [("x%d" % i, "v128") for i in range(nv)]
        body = [("i", "lea", [R("g%d" % i), M(0, "a", 2 * i + 1)]) for i in range(ng)]
        body += [("i", "movdqu", [R("x%d" % i), M(16, "p", (i * 12) % 241)]) for i in range(nv)]
        body += [("i", "mov", [M(8, "&s0", o), R("g%d" % ((o // 8) % ng))]) for o in range(0, st, 8)]          # local buffer, live across the calls
        body.append(("i", "mov", [R("res"), R("a")]))
        sig = c05_gen.MS_SIGS[k]
        for rep in range(3):
            args = [R("x%d" % ((rep * 5 + j) % nv)) if c == "v" else (R("g%d" % ((rep + j) % ng)) if (rep + j) % 3 else I(1000 + rep)) for j, c in enumerate(sig)]
            body += [("callw", k, "r", args), ("i", "add", [R("res"), R("r")]), ("i", "add", [R("res"), M(8, "&s0", (8 * rep) % st)]),
                     ("i", "paddd", [R("x%d" % (rep % nv)), R("x%d" % ((rep + 1) % nv))])]
        for o in range(0, st, 8):
            body += [("i", "add", [R("res"), M(8, "&s0", o)]), ("i", "rol", [R("res"), I(3)])]
        for i in range(ng):
            body.append(("i", "add", [R("res"), R("g%d" % i)]))
        for i in range(nv):
            body += [("i", "movq", [R("r"), R("x%d" % i)]), ("i", "xor", [R("res"), R("r")])]
        body.append(("ret", "res"))
        progs.append({"arch": ["x64"], "regs": regs, "stacks": [("s0", st, 16)], "ret": "u64", "argtypes": ["ptr", "u64"], "args": ["p", "a"], "body": body,
                      "inputs": [[0, 3], [0, 0x8000000000000001]], "family": "x64-win64-byref"})
    return progs


def width_swap_programs(rng=None, extra=0):
    """GP virtual registers of different width pinned opposite ways (mul -> rax, shift by cl -> rcx) on the two paths into a
    loop back-edge / join; the 64-bit one holds non-zero upper bits and is used afterwards"""
    R, I, M, L = c05_gen.R, c05_gen.Imm, c05_gen.Mem, c05_gen.Lbl
    progs = []
    cfgs = [(f, n) for f in (0, 1) for n in (0, 10)] + [(rng.randrange(2), rng.choice([0, 4, 10, 14])) for _ in range(extra)]
    for flip, nl in cfgs:
        regs = [("p", "ptr"), ("a1", "u64"), ("a", "u64"), ("b", "u32"), ("c", "u32"), ("x", "u64"), ("y", "u32"), ("h", "u64"), ("h2", "u32"), ("res", "u64")] +                [("r%d" % i, "u64") for i in range(nl)]
        body = [("i", "mov", [R("a"), R("a1")]), ("i", "mov", [R("b"), R("a1", "r32")]), ("i", "or", [R("b"), I(1)]), ("i", "lea", [R("x"), M(0, "a1", 77)]),
                ("i", "mov", [R("y"), I(3)]), ("i", "xor", [R("res", "r32"), R("res", "r32")]), ("i", "mov", [R("c"), I(4)])]
        body += [("i", "lea", [R("r%d" % i), M(0, "a1", i + 9)]) for i in range(nl)]
        pathA = [("i", "mul", [R("h"), R("a"), R("x")]), ("i", "shl", [R("x"), R("b", "r8")]), ("i", "or", [R("x"), I(1)])]         # a -> rax, b -> rcx
        pathB = [("i", "mul", [R("h2"), R("b"), R("y")]), ("i", "or", [R("b"), I(1)]), ("i", "shl", [R("x"), R("a", "r8")]), ("i", "or", [R("x"), I(1)])]   # b -> eax, a -> rcx
        first, second = (pathA, pathB) if flip == 0 else (pathB, pathA)
        body += [("lab", 1), ("i", "test", [R("c"), I(1)]), ("i", "jz", [L(2)])] + first + [("i", "jmp", [L(3)]), ("lab", 2)] + second +                 [("lab", 3), ("i", "add", [R("res"), R("a")]), ("i", "rol", [R("res"), I(9)]), ("i", "mov", [R("h2"), R("b")]), ("i", "add", [R("res"), R("h2", "r64") if False else R("x")]),
                 ("i", "dec", [R("c")]), ("i", "jnz", [L(1)])]
        body += [("i", "add", [R("res"), R("a")]), ("i", "mov", [R("h", "r32"), R("b")]), ("i", "add", [R("res"), R("h")])]
        for i in range(nl):
            body.append(("i", "add", [R("res"), R("r%d" % i)]))
        body.append(("ret", "res"))
        progs.append({"arch": ["x64"], "regs": regs, "stacks": [], "ret": "u64", "argtypes": ["ptr", "u64"], "args": ["p", "a1"], "body": body,
                      "inputs": [[0, 0xFFFFFFFF00000003], [0, 0x8000000180000001], [0, 5]], "family": "x64-width-swap"})
    return progs


def x86_32_programs(rng, n):
    R, I, M, L = c05_gen.R, c05_gen.Imm, c05_gen.Mem, c05_gen.Lbl
    progs = []
    for k in range(n):
        nlive = rng.choice([1, 2, 3, 4, 5, 6, 8, 12, 20, 40])
        regs = [("p", "u32"), ("a", "u32")]
        gp = ["a"]
        body = []
        for i in range(nlive):
            r = "r%d" % i
            regs.append((r, "u32"))
            body.append(("i", "lea", [R(r), M(0, "a", i + 1)]) if rng.random() < 0.6 else ("i", "mov", [R(r), I(rng.randrange(-1000, 1000))]))
            gp.append(r)
        xv = []
        for i in range(rng.choice([0, 0, 4, 9, 12, 16])):      # 64-bit values: only 8 xmm registers on x86-32
            x = "x%d" % i
            regs.append((x, "v128"))
            body.append(("i", "movq", [R(x), M(8, "p", 8 * (i % 28))]))
            xv.append(x)
        label = [1]
        for _ in range(rng.randrange(4, 50)):
            c = rng.random()
            d, s = rng.choice(gp), rng.choice(gp)
            if xv and c < 0.2:
                a, b2 = rng.choice(xv), rng.choice(xv)
                cc = rng.random()
                if cc < 0.5:
                    body.append(("i", rng.choice(["paddq", "psubq", "pxor", "pand", "por"]), [R(a), R(b2)]))
                elif cc < 0.7:
                    body.append(("i", "movq", [M(8, "p", 8 * rng.randrange(0, 28)), R(a)]))
                elif cc < 0.85:
                    body.append(("i", "movd", [R(d), R(a)]))
                else:
                    body.append(("i", "movd", [R(a), R(d)]))
            elif c < 0.4:
                body.append(("i", rng.choice(["add", "sub", "and", "or", "xor", "imul", "mov"]), [R(d), R(s)]))
            elif c < 0.5:
                body.append(("i", rng.choice(["shl", "shr", "sar"]), [R(d), R(s, "r8")]))
            elif c < 0.6:
                body.append(("i", rng.choice(["add", "mov", "xor"]), [R(d), M(4, "p", 4 * rng.randrange(0, 60))]))
            elif c < 0.68:
                body.append(("i", "mov", [M(4, "p", 4 * rng.randrange(0, 60)), R(d)]))
            elif c < 0.75:
                cands = [g for g in gp if g != d]
                if len(cands) >= 2:
                    hi, src = rng.sample(cands, 2)
                    body.append(("i", "mul", [R(hi), R(d), R(src)]))
            elif c < 0.82:
                body.append(("call", d if rng.random() < 0.8 else None, [R(rng.choice(gp)) if rng.random() < 0.85 else I(rng.randrange(100)) for _ in range(rng.randrange(0, 6))]))
            elif c < 0.92:
                label[0] += 1
                l = label[0]
                body.append(("i", "cmp", [R(d), R(s)]))
                body.append(("i", "j" + rng.choice(c05_gen.CONDS_AFTER_CMP), [L(l)]))
                for _ in range(rng.randrange(1, 5)):
                    body.append(("i", rng.choice(["add", "xor", "sub"]), [R(rng.choice(gp)), R(rng.choice(gp))]))
                body.append(("lab", l))
            else:
                body.append(("i", "movzx", [R(d), R(s, rng.choice(["r8", "r16"]))]) if False else ("i", "neg", [R(d)]))
        regs.append(("res", "u32"))
        body.append(("i", "xor", [R("res"), R("res")]))
        for g in gp:
            body.append(("i", "add", [R("res"), R(g)]))
        for i, x in enumerate(xv):
            body.append(("i", "movq", [M(8, "p", 8 * (i % 28)), R(x)]))
        body.append(("ret", "res"))
        progs.append({"arch": ["x86"], "regs": regs, "stacks": [], "ret": "u32", "argtypes": ["u32", "u32"], "args": ["p", "a"], "body": body, "inputs": [],
                      "family": "x86-32-random"})
    return progs


# ----------------------------------------------------------------------------------------------------------------------

def expected_exec(p, inp):
    rv, mem, calls = c05_gen.InterpX64(p, inp).run()
    return "r=%x,m=%s,c=%s" % (rv, mem.hex(), "".join("(" + ".".join("%x" % a for a in c) + ")" for c in calls))


def judge_exec(p, dump):
    """compare host execution with the interpreter; returns (n runs compared, first mismatch or None, n undefined)"""
    if " EXEC" not in dump:
        return 0, None, 0
    ex = dump.split(" EXEC", 1)[1].split()
    n = und = 0
    for inp, e in zip(p["inputs"], ex):
        try:
            exp = expected_exec(p, inp)
        except c05_gen.Unknown:
            und += 1
            continue
        n += 1
        if exp != e:
            return n, {"input": ["%x" % v for v in inp], "expected": exp.split(",m=")[0] + " calls=" + exp.split(",c=")[1][:200],
                       "got": e.split(",m=")[0] + " calls=" + e.split(",c=")[1][:200],
                       "memory_differs": exp.split(",m=")[1].split(",c=")[0] != e.split(",m=")[1].split(",c=")[0]}, und
    return n, None, und


def shrink(p, h, still_bad):
    """drop statements of the random part while the program stays well formed and keeps failing"""
    body = p["body"]

    def fails(keep_idx):
        q = dict(p)
        q["body"] = [body[i] for i in keep_idx]
        return still_bad(q)

    idx = list(range(len(body)))
    removable = [i for i in idx if body[i][0] in ("i", "call") and not (body[i][0] == "i" and (body[i][1][0] == "j" or body[i][1] in ("dec",)))]
    fixed = [i for i in idx if i not in removable]
    kept = vlib.ddmin(removable, lambda sub: fails(sorted(fixed + sub)), max_tests=120)
    q = dict(p)
    q["body"] = [body[i] for i in sorted(fixed + kept)]
    return q


def run(res):
    rng = vlib.rng_for(res.seed, PID)
    res.assumptions += [
        "instructions are functions of the locations InstAPI::query_rw_info says they read (RW tables = C12); an exec mismatch on a validated program exposes a wrong RW entry",
        "prolog/epilog instructions are frame instructions: they only destroy the registers they write (C07)",
        "ABI locations of arguments / return values come from FuncDetail (C06)",
        "an inserted move of w bytes copies every virtual register of at most w bytes exactly",
        "AArch64 and x86-32 functions are validated, not executed"]
    broken = []
    try:
        pairs, rows = generate()
        res.coverage["vex_evex_pairs"] = len(pairs)
        res.coverage["rewriter_rows"] = ["%s->%s" % r for r in rows]
    except Exception as e:      # a translator that no longer understands the sources = broken obligation
        broken.append("translator gen_vexevex: %s" % e)
    ok, out = vlib.lean_stage(res, PID, MODS)
    if not ok and not res.violations:
        for ft in getattr(res, "build_failures", []) or [{"decl": "?", "msg": out[-800:]}]:
            broken.append("theorem %s (%s:%s) no longer checks: %s" % (ft.get("decl"), ft.get("file"), ft.get("line"), ft.get("msg")))
        vlib.lake_build(["vdriver"])
    if not vlib.driver_path().exists():
        res.violation("Lean driver does not build", {"log": out[-3000:]}, found_input=False, key="driver")
        return
    h = vlib.build_harness("c05")

    quick = res.tier == "quick"
    progs = idiom_programs()
    progs += vex_row_programs(rng)
    progs += jt_shared_programs(rng, 0 if quick else 150)
    progs += imm_boundary_programs(rng, 0 if quick else 60)
    progs += win64_byref_exec_programs(rng, 0 if quick else 120)
    progs += width_swap_programs(rng, 0 if quick else 60)
    progs += random_programs(rng, 260 if quick else 4000, res.tier)
    progs += a64_programs(rng, 90 if quick else 1500)
    progs += x86_32_programs(rng, 50 if quick else 800)
    progs += byref_programs(rng, 30 if quick else 400)
    progs += avx512_programs(rng, 40 if quick else 500, res.tier)
    lines = [c05_gen.render(p) for p in progs]
    # register-list families run one process per program: the allocator itself crashes on some of them (open findings)
    list_progs = a64_list_programs(rng, 30 if quick else 300) + a64_list_programs(rng, 12 if quick else 100, tbl=True)

    def run_batch(ls):
        impl, rc, err = vlib.run_lines([str(h)], ls, timeout=3000)
        return impl, rc, err

    impl, rc, err = run_batch(lines)
    if rc != 0 or len(impl) != len(lines):
        i, tail = vlib.locate_abort([str(h)], lines, timeout=3000)
        first = [l for l in tail.splitlines() if "runtime error" in l or "ERROR: AddressSanitizer" in l or "Assertion" in l][:1]
        res.violation("the Compiler crashes / aborts under ASan+UBSan on program %d: %s" % (i, (first or [tail[-300:]])[0]),
                      {"ops": [lines[i]], "stderr": tail}, found_input=True, key="abort")
        return
    verdicts, rc2, err2 = vlib.run_model("C05", impl, timeout=3000)
    if rc2 != 0 or len(verdicts) != len(impl):
        res.violation("driver protocol failure rc=%d lines %d/%d %s" % (rc2, len(verdicts), len(impl), err2[-500:]), {}, found_input=False, key="protocol")
        return

    # ---- AArch64 register lists (consecutive registers): one harness process per program -------------------------
    list_stats = collections.Counter()
    list_first = {}
    for p in list_progs:
        l = c05_gen.render(p)
        o, rc3, err3 = vlib.run_lines([str(h)], [l], timeout=900)
        if rc3 != 0 or not o:
            k = "abort"
            info = ([x for x in err3.splitlines() if "ERROR: AddressSanitizer" in x or "runtime error" in x] + [x for x in err3.splitlines() if " #0 " in x or " #1 " in x])[:3]
        else:
            v, _, _ = vlib.run_model("C05", o)
            k = v[0].split()[0] if o[0].startswith("ok") else o[0].split()[0]
            info = v[0][:500] if o[0].startswith("ok") else o[0][:200]
            if k == "reject":
                d, _, _ = vlib.run_model("C05", ["diff " + o[0]])
                info = {"validator": v[0][:600], "abstract_machine": d[0][:600] if d else ""}
        list_stats[p["family"] + ":" + k] += 1
        # exact keys: a different failure of the same family must not be swallowed by an open finding of that family
        if k == "abort":
            frames = [re.sub(r".* in (\S+).*", r"\1", x) for x in err3.splitlines() if " in asmjit::" in x][:1]
            detail = (frames or ["timeout" if rc3 == -9 else "rc%d" % rc3])[0][:80]
        elif k == "sererr":
            detail = v[0].split()[-1]
        elif k == "reject":
            m = re.search(r'Inst\.\w+\s+"(\w+)', v[0])
            detail = (m.group(1) if m else " ".join(v[0].split()[1:4])).replace("tbx", "tbl")
        else:
            detail = ""
        list_first.setdefault((p["family"], k, detail), (l, info))
    res.coverage["register_list_families"] = dict(list_stats)
    if not list_progs or sum(list_stats.values()) != len(list_progs):
        res.violation("register-list families did not run (%d of %d programs)" % (sum(list_stats.values()), len(list_progs)), {}, found_input=False, key="empty")
    for (famname, k, detail), (l, info) in sorted(list_first.items()):
        if k in ("valid", "raerr", "unsupported"):
            continue
        what = {"abort": "the register allocator crashes / hangs (sanitizer report) on a function with register lists",
                "sererr": "the allocated function cannot be serialized (register list not consecutive / invalid form)",
                "reject": "the proved validator refuses the allocation of a function with register lists"}.get(k, k)
        found = k == "abort" or (k == "reject" and isinstance(info, dict) and info["abstract_machine"].startswith("differ"))
        res.violation("%s [%s %s]: %s" % (what, famname, detail, str(info)[:700]), {"ops": [l], "detail": info}, found_input=found,
                      key="%s:%s:%s" % (k, famname, detail))

    stats = collections.Counter()
    fam = collections.Counter()
    unsupported = collections.Counter()
    rejects, mism, exec_missing = [], [], []
    actions = collections.defaultdict(collections.Counter)
    nexec = 0
    inserted = deleted = pairs = 0
    for i, (p, o, v) in enumerate(zip(progs, impl, verdicts)):
        k = v.split()[0]
        if not o.startswith("ok"):
            k = "harness-" + o.split()[0]
            unsupported[" ".join(o.split()[:5])] += 1
        stats[k] += 1
        fam[p["family"] + ":" + k] += 1
        if k == "valid":
            f = dict(x.split("=") for x in v.split()[1:])
            inserted += int(f["ins"])
            for kk in ("spill", "reload", "move", "swap", "jump", "r2m"):
                actions[p["family"]][kk] += int(f.get(kk, 0))
                if int(f.get(kk, 0)):
                    actions[p["family"]]["programs_with_" + kk] += 1
            deleted += int(f["del"])
            pairs += int(f["pairs"])
        elif k == "unsupported":
            unsupported[" ".join(v.split()[:4])] += 1
        elif k == "reject":
            rejects.append(i)
        elif k == "sererr":
            rejects.append(i)
        n, bad, und = judge_exec(p, o)
        nexec += n
        if k == "valid" and p["arch"][0] == "x64" and p.get("inputs") and p["family"] != "x64-byref" and n + und == 0:
            stats["exec_missing"] += 1
            exec_missing.append(i)
        stats["exec_undefined_by_interpreter"] += und
        if bad:
            mism.append((i, bad))

    res.coverage["evaluations"] = len(progs)
    res.coverage["distinct_nontrivial"] = len({l for l, v in zip(lines, verdicts) if v.startswith("valid") and " ins=0 " not in v + " "})
    res.coverage["rule"] = ("generated functions built by the real Compiler; non-trivial = distinct program accepted by the proved validator in which the "
                            "allocator inserted at least one move/load/save/swap/jump or frame instruction")
    res.coverage["traces_validated_against_impl"] = stats["valid"]
    res.coverage["host_executions_compared"] = nexec
    res.coverage["input_distribution"] = dict(fam)
    res.coverage["verdicts"] = dict(stats)
    res.coverage["unvalidated_reasons"] = dict(unsupported.most_common(12))
    res.coverage["certificate_pairs"] = pairs
    res.coverage["allocator_inserted_instructions"] = inserted
    res.coverage["allocator_deleted_instructions"] = deleted
    res.coverage["allocator_actions_by_family"] = {k: dict(v) for k, v in sorted(actions.items())}
    res.coverage["exhaustive"] = False
    res.coverage["trusted_translation"] = [
        "RW classification of every operand from InstAPI::query_rw_info (a write not covering the virtual register = read-modify-write)",
        "instruction key = mnemonic + options + operand shapes/sizes/immediates/labels/displacements; twin instructions with equal keys compute the same function",
        "move whitelist: which mnemonics are plain copies and how many bytes they move (Model/RAIdioms.lean moveBytes) - PROVED: a move of b bytes "
        "(zero-extending or merging) copies every virtual register of at most b bytes exactly (Props/C05Idioms.lean zx_move_copies, merge_move_copies); "
        "trusted: that the listed mnemonics are such moves (Spec/X86Regs.lean, from the manuals); xchg = swap with width",
        "width-aware idiom rules (Model/RAIdioms.lean classify) - PROVED against the BitVec semantics of Spec/X86Regs.lean for GP widths 1/2/4/8: "
        "zero_rule_sound, keep_same_rule_sound, imm_zero_rule_sound, ones_rule_sound, and_zero_is_not_keep (+ witnesses that each side condition is needed); "
        "vector forms: vec_zero_idioms, vec_keep_idioms",
        "register-to-memory substitution - PROVED: when not refused the memory form gives the same observable value (reg_to_mem_rule_sound, reg_to_mem_read; "
        "reg_to_mem_refused_case shows the refused case differs); trusted: that the memory form exists is checked with InstAPI::validate",
        "immediate call arguments: `K := const v` in the virtual program, the allocator's `mov loc, imm` is the same const function",
        "by-reference arguments: the callee reads the temporary whose address (`lea reg, [sp+X]`) is passed",
        "prolog/epilog = frame instructions that only destroy what they write (C07); ABI locations from FuncDetail (C06)",
        "CHECKED, not assumed: stack slots pairwise disjoint and disjoint from user stack areas (from the dumped operands), allocated instructions valid and the function serializable"]
    for i in (0, len(idiom_programs()) + 1, len(progs) - 60, len(progs) - 1):
        res.add_samples([{"program": lines[i][:600], "verdict": verdicts[i][:200]}])

    mism_idx = {i for i, _ in mism}

    def classify_key(p, v):
        body = " ".join(st[1] for st in p["body"] if st[0] == "i")
        return p["family"]

    reported = 0
    # 1. concrete failing inputs (with or without a validator refusal)
    for i, bad in mism[:3]:
        p = progs[i]

        def still_bad(q):
            try:        # only well-defined, terminating candidates are ever compiled and run
                for inp in q["inputs"]:
                    c05_gen.InterpX64(q, inp).run(max_steps=50000)
            except (c05_gen.Unknown, KeyError, IndexError):
                return False
            o2, rc3, _ = run_batch([c05_gen.render(q)])
            if rc3 != 0 or not o2 or not o2[0].startswith("ok"):
                return False
            return judge_exec(q, o2[0])[1] is not None
        q = shrink(p, h, still_bad)
        o2, _, _ = run_batch([c05_gen.render(q)])
        v2, _, _ = vlib.run_model("C05", o2)
        _, bad2, _ = judge_exec(q, o2[0])
        res.violation("the allocated function computes something else than the program over virtual registers: input %s expected %s got %s; "
                      "validator says: %s" % ((bad2 or bad)["input"], (bad2 or bad)["expected"][:120], (bad2 or bad)["got"][:120], v2[0][:300]),
                      {"ops": [c05_gen.render(q)], "mismatch": bad2 or bad, "validator": v2[0][:1000]}, found_input=True,
                      key="miscompile:" + ("validated" if v2 and v2[0].startswith("valid") else "refused"))
        reported += 1
    # 2. refusals without a failing input (after trying more inputs on x86-64)
    for i in [i for i in rejects if i not in mism_idx][:3]:
        p = progs[i]
        found = None
        if p["arch"][0] == "x64":
            q = dict(p)
            r2 = random.Random(i)
            q["inputs"] = [[0] + [r2.choice([0, 1, M, r2.getrandbits(64), r2.getrandbits(31)]) for _ in p["args"][1:]] for M in [c05_gen.M64] * 24]
            o2, _, _ = run_batch([c05_gen.render(q)])
            if o2 and o2[0].startswith("ok"):
                _, found, _ = judge_exec(q, o2[0])
        if not found and p["arch"][0] != "x64":
            # AArch64 / x86-32: both IR programs on the Lean abstract machine (concrete mov/add/sub/and/or/xor/shift/mul keys, the rest hashed)
            d, _, _ = vlib.run_model("C05", ["diff " + impl[i]])
            if d and d[0].startswith("differ"):
                res.violation("validator refuses and the two programs differ on the Lean abstract machine (%s): %s; %s" % (p["family"], d[0][:500], verdicts[i][:300]),
                              {"ops": [lines[i]], "abstract_machine": d[0][:1500], "validator": verdicts[i][:1000]}, found_input=True, key="miscompile:refused:" + p["family"])
                reported += 1
                continue
        if found:
            res.violation("validator refuses and execution differs: input %s expected %s got %s; %s" % (found["input"], found["expected"][:120], found["got"][:120], verdicts[i][:300]),
                          {"ops": [c05_gen.render(q)], "mismatch": found, "validator": verdicts[i][:1000]}, found_input=True, key="miscompile:refused")
        else:
            res.violation("the proved validator refuses the allocator's output for a %s program (no differing input found%s): %s" % (
                p["family"], "" if p["arch"][0] == "x64" else "; this architecture cannot be executed here", verdicts[i][:400]),
                {"ops": [lines[i]], "validator": verdicts[i][:1500]}, found_input=False, key="refused:" + p["family"])
        reported += 1
    res.coverage["refused_programs"] = len(rejects)
    res.coverage["exec_mismatch_programs"] = len(mism)
    # 3. too many programs the validator cannot follow
    unval = stats["unsupported"] + sum(v for k, v in stats.items() if k.startswith("harness-"))
    res.coverage["unvalidated"] = unval
    # these are reported whatever else was found (a found-input violation or an open finding must not hide them)
    if unval > 0.05 * len(progs):
        res.violation("%d of %d programs could not be validated (cap 5%%): %s" % (unval, len(progs), dict(unsupported.most_common(5))),
                      {"unvalidated": dict(unsupported)}, found_input=False, key="unvalidated")
    if broken:
        res.violation("proof obligation / translator no longer checks: " + " | ".join(broken)[:1500], {"unchecked": broken}, False, key="obligation")
    if exec_missing:
        i = exec_missing[0]
        res.violation("%d validated x86-64 programs were not executed on the host (no EXEC results): %s" % (len(exec_missing), impl[i].split(" SER", 1)[-1][:200]),
                      {"ops": [lines[i]]}, found_input=False, key="exec-missing")
    if stats["valid"] == 0 or (nexec == 0 and any(p["arch"][0] == "x64" and p.get("inputs") for p in progs)):
        res.violation("empty run: %d programs validated, %d host executions compared" % (stats["valid"], nexec), {}, found_input=False, key="empty")


def replay(data):
    ops = data["replay"].get("ops", [])
    h = vlib.build_harness("c05")
    impl, rc, err = vlib.run_lines([str(h)], ops)
    ver, _, _ = vlib.run_model("C05", impl)
    for o, r, v in zip(ops, impl, ver):
        print(o[:2000])
        print(" validator:", v[:600])
        if " EXEC" in r:
            print(" host execution:", " ".join(x.split(",m=")[0] + " c=" + x.split(",c=")[1] for x in r.split(" EXEC", 1)[1].split()))
    return 0
