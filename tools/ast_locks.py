"""Translator for C11: clang-14 JSON AST of jitallocator.cpp / jitruntime.cpp -> lean/AsmjitVerif/Gen/LockMap.lean.

For every function defined in the two files it emits the body as a tree of events in source order
  lock                       a `LockGuard` variable is constructed here (held until the end of the enclosing block)
  acc "<Record>.<field>" w   a member of one of the allocator's records is read (w = false) or assigned/incremented (w = true)
  call "<function>"          a function or method whose body is in the map is called
  block [ ... ]              a nested statement (scope)
The analysis itself (what is held where, what a callee needs) is done in Lean (Props/C11.lean), not here.
"""
import json
import re
import subprocess
from pathlib import Path

RECORDS = {"Impl", "JitAllocatorPrivateImpl", "JitAllocatorPool", "JitAllocatorBlock", "JitAllocator", "JitRuntime", "Target"}
FILES = ["asmjit/core/jitallocator.cpp", "asmjit/core/jitruntime.cpp"]


class TranslateError(Exception):
    pass


def ast_objects(repo, rel, filt):
    p = subprocess.run(["clang++-14", "-std=gnu++17", "-DASMJIT_STATIC", "-DNDEBUG", "-I", str(repo), "-fsyntax-only",
                        "-Xclang", "-ast-dump=json", "-Xclang", "-ast-dump-filter=" + filt, str(Path(repo) / rel)],
                       capture_output=True, text=True)
    if p.returncode != 0:
        raise TranslateError("clang failed on %s: %s" % (rel, p.stderr[-500:]))
    s, dec, i, objs = p.stdout, json.JSONDecoder(), 0, []
    while i < len(s):
        if s[i] != "{":
            j = s.find("\n", i)
            if j < 0:
                break
            i = j + 1
            continue
        o, i = dec.raw_decode(s, i)
        objs.append(o)
    return objs


def collect(repo):
    objs = []
    for rel, filt in ((FILES[0], "JitAllocator"), (FILES[1], "JitRuntime")):
        objs += ast_objects(repo, rel, filt)
    fields = {}       # FieldDecl id -> "Record.field"
    rec_of = {}       # record id -> name
    funcs = {}        # name -> body node
    order = []

    def scan_record(rec):
        name = rec.get("name", "?")
        rec_of[rec["id"]] = name
        for c in rec.get("inner", []):
            k = c.get("kind")
            if k == "FieldDecl":
                fields[c["id"]] = "%s.%s" % (name, c["name"])
            elif k == "CXXRecordDecl" and c.get("inner"):
                scan_record(c)
            elif k in ("CXXMethodDecl", "CXXConstructorDecl", "CXXDestructorDecl"):
                add_func(c, name)

    def add_func(node, cls=None):
        body = [c for c in node.get("inner", []) if c.get("kind") == "CompoundStmt"]
        if not body:
            return
        nm = node.get("name", "?")
        if cls is None and node.get("parentDeclContextId") in rec_of:
            cls = rec_of[node["parentDeclContextId"]]
        q = "%s::%s" % (cls, nm) if cls else nm
        if q in funcs:      # overloads: keep both, distinguished by source line (or a counter for implicit ones)
            ln = node.get("loc", {}).get("line")
            q = "%s@%s" % (q, ln if ln else "i%d" % len(order))
        funcs[q] = (node, body[0])
        order.append(q)

    for o in objs:
        if o.get("kind") == "CXXRecordDecl" and o.get("inner"):
            scan_record(o)
    for o in objs:
        if o.get("kind") in ("FunctionDecl", "CXXMethodDecl", "CXXConstructorDecl", "CXXDestructorDecl"):
            add_func(o)
    by_id = {}
    for q, (node, _) in funcs.items():
        by_id[node["id"]] = q
        if node.get("previousDecl"):
            by_id[node["previousDecl"]] = q
    # in-class declarations of out-of-line methods: map their ids too
    for o in objs:
        if o.get("kind") == "CXXRecordDecl":
            for c in o.get("inner", []) or []:
                if c.get("kind") in ("CXXMethodDecl", "CXXConstructorDecl") and c["id"] not in by_id:
                    for q, (node, _) in funcs.items():
                        if node.get("previousDecl") == c["id"]:
                            by_id[c["id"]] = q

    def walk(n, write=False):
        """returns list of events for node n"""
        k = n.get("kind")
        inner = n.get("inner", []) or []
        if k == "DeclStmt":
            ev = []
            for c in inner:
                if c.get("kind") == "VarDecl" and "LockGuard" in c.get("type", {}).get("qualType", ""):
                    for cc in c.get("inner", []) or []:
                        ev += walk(cc)
                    ev.append(("lock",))
                else:
                    ev += walk(c)
            return ev
        if k in ("CompoundStmt", "IfStmt", "ForStmt", "WhileStmt", "DoStmt", "CXXForRangeStmt", "SwitchStmt", "LambdaExpr"):
            ev = []
            for c in inner:
                ev += walk(c)
            return [("block", ev)]
        if k == "MemberExpr":
            ev = []
            for c in inner:
                ev += walk(c)          # the base expression is only read
            fid = n.get("referencedMemberDecl")
            if fid in fields:
                ev.append(("acc", fields[fid], write))
            elif fid in by_id:
                pass                   # method reference: handled at the call
            return ev
        if k in ("BinaryOperator", "CompoundAssignOperator") and (k == "CompoundAssignOperator" or n.get("opcode") == "="):
            return walk(inner[0], True) + walk(inner[1]) if len(inner) == 2 else sum((walk(c) for c in inner), [])
        if k == "UnaryOperator" and n.get("opcode") in ("++", "--"):
            return sum((walk(c, True) for c in inner), [])
        if k in ("ImplicitCastExpr", "ParenExpr", "CXXStaticCastExpr", "CStyleCastExpr", "ArraySubscriptExpr") and write:
            return (walk(inner[0], True) + sum((walk(c) for c in inner[1:]), [])) if inner else []
        if k in ("CallExpr", "CXXMemberCallExpr", "CXXOperatorCallExpr"):
            ev = []
            callee = None
            if inner:
                c0 = inner[0]
                # find the referenced function through casts
                stack = [c0]
                while stack:
                    x = stack.pop()
                    ref = x.get("referencedDecl", {}).get("id") or x.get("referencedMemberDecl")
                    if ref in by_id:
                        callee = by_id[ref]
                        break
                    if x.get("kind") in ("ImplicitCastExpr", "ParenExpr", "MemberExpr", "DeclRefExpr"):
                        stack += x.get("inner", []) or []
            callees = [callee] if callee else []
            if not callee and inner:
                # a method of a class dumped from the *other* translation unit: resolve by qualified name; all overloads
                x = inner[0]
                while x.get("kind") in ("ImplicitCastExpr", "ParenExpr") and x.get("inner"):
                    x = x["inner"][0]
                if x.get("kind") == "MemberExpr" and x.get("inner"):
                    bt = x["inner"][0].get("type", {}).get("qualType", "")
                    cls = re.sub(r"\b(const|struct|class)\b|[*&]", "", bt).strip().split("::")[-1]
                    q = "%s::%s" % (cls, x.get("name", "?"))
                    callees = [k for k in funcs if k == q or k.startswith(q + "@")]
            for c in inner:
                ev += walk(c)
            for cl in callees:
                ev.append(("call", cl))
            return ev
        ev = []
        for c in inner:
            ev += walk(c)
        return ev

    out = {}
    for q in order:
        node, body = funcs[q]
        evs = []
        # constructor member initialisers count as writes of the constructed object (not shared yet)
        for c in body.get("inner", []) or []:
            evs += walk(c)
        out[q] = evs
    return out, sorted(set(fields.values()))


def lean_events(evs, ind=4):
    parts = []
    for e in evs:
        if e[0] == "lock":
            parts.append(".lock")
        elif e[0] == "acc":
            parts.append('.acc "%s" "%s" %s' % (*e[1].split(".", 1), "true" if e[2] else "false"))
        elif e[0] == "call":
            parts.append('.call "%s"' % e[1])
        else:
            parts.append(".block " + lean_events(e[1], ind + 2))
    return "[" + (",\n" + " " * ind).join(parts) + "]"


def render(funcs, fields):
    s = ("-- GENERATED by tools/ast_locks.py from the clang AST of the current /repo sources. Do not edit.\n"
         "import AsmjitVerif.Model.LockMap\nnamespace AsmjitVerif.LockMap\n\n"
         "def allFields : List (String × String) := [" + ", ".join('("%s", "%s")' % tuple(f.split(".", 1)) for f in fields) + "]\n\n")
    names = []
    for i, (q, evs) in enumerate(funcs.items()):
        s += "def body%d : List Ev :=\n    %s\n\n" % (i, lean_events(evs))
        names.append('("%s", body%d)' % (q, i))
    s += "def lockMap : List (String × List Ev) := [\n  " + ",\n  ".join(names) + "]\n\nend AsmjitVerif.LockMap\n"
    return s


if __name__ == "__main__":
    import sys
    f, fl = collect(sys.argv[1] if len(sys.argv) > 1 else "/repo")
    print(render(f, fl))
