"""C01 sweep generator: instantiates database forms with operands aimed at the mechanism boundaries the property names
(every extension bit on and off, AH..BH / SPL..DIL, rSP/rBP/r12/r13 bases, index 4/12, all scales, disp8 / disp32 / disp8*N
limits, segments, RIP / absolute / label / 16-bit / VSIB memory forms, boundary immediates, {k}{z}{er}{sae}{1toN}, options).
Only PROPOSES inputs: the verdict on every accepted encoding is the Lean monitor's (Spec/X86Decode.lean)."""
from gen_c01 import FIXED, CLASS

M64 = (1 << 64) - 1
# instructions whose database entry lists BOTH directions with a register r/m (the only ones `modmr` / `modrm` may pick between)
MODMR_OK = {"adc", "add", "and", "cmp", "mov", "or", "sbb", "sub", "xor", "xchg", "movaps", "movapd", "movups", "movupd", "movdqa", "movdqu",
            "vmovaps", "vmovapd", "vmovups", "vmovupd", "vmovdqa", "vmovdqu", "vmovdqa32", "vmovdqa64", "vmovdqu8", "vmovdqu16",
            "vmovdqu32", "vmovdqu64"}
VEC_SIZE = {"xmm": 16, "ymm": 32, "zmm": 64}
GP_KIND_BY_MODE = {64: "gpq", 32: "gpd"}
BASE_ADDR = 0x0000000000400000


def hx(v):
    return "%x" % (v & M64)


def reg_ids(kind, mode, evex, rng, boundary):
    """candidate ids for a register of `kind`"""
    if kind in ("xmm", "ymm", "zmm"):
        if mode == 32:
            ids = [0, 1, 3, 4, 7]
        elif evex:
            ids = [0, 1, 3, 7, 8, 12, 15, 16, 17, 24, 31]
        else:
            ids = [0, 1, 3, 7, 8, 12, 13, 15]
    elif kind in ("gpw", "gpd", "gpq"):
        ids = [0, 1, 3, 4, 5, 6, 7] if mode == 32 else [0, 1, 3, 4, 5, 7, 8, 12, 13, 15]
    elif kind == "gpb":
        ids = [0, 1, 2, 3] if mode == 32 else [0, 1, 3, 4, 5, 6, 7, 8, 12, 15]
    elif kind == "gpbhi":
        ids = [0, 1, 2, 3]
    elif kind == "k":
        ids = [0, 1, 2, 5, 7]
    elif kind in ("mm", "st", "tmm", "dreg"):
        ids = [0, 1, 3, 7]
    elif kind == "sreg":
        ids = [1, 3, 4, 5, 6]
    elif kind == "creg":
        ids = [0, 2, 3, 4] + ([8] if mode == 64 else [])
    elif kind == "bnd":
        ids = [0, 1, 3]
    else:
        ids = [0]
    return ids


def pick(rng, xs):
    return xs[rng.randrange(len(xs))]


DISPS = [0, 1, -1, 0x7F, 0x80, -0x80, -0x81, 0x100, 0x7FFFFFFF, -0x80000000, 0x40, 0x3F8, 0x1000, 0x7F0, 0x800, 0x1FC0, 0x2000, -0x2000,
         -0x2040, 0x1FC, 0x200, 8, 16, 32, 64, 0x7E, 0xFE, 0x1FC, 0x3F8]


def mem_operand(rng, mode, size, vsib, evex, bcst_n, shape=None, n_hint=1):
    """one memory operand string; shape chooses the addressing form"""
    shapes = ["base", "base", "base+index", "base+index", "base+disp", "index", "abs", "sp", "bp", "r12r13", "seg"]
    if mode == 64:
        shapes += ["rip", "label", "base32", "abs64"]
    else:
        shapes += ["a16", "a16", "abs"]
    if vsib != "none":
        shapes = ["base+index", "base+index", "index", "sp", "bp", "seg"] + (["base32"] if mode == 64 else [])
    shape = shape or pick(rng, shapes)
    gk = GP_KIND_BY_MODE[mode]
    bt, bid, it, iid, shift, seg, at = "none", 0, "none", 0, 0, 0, 0
    # displacement: boundary values, and multiples / non-multiples of N around the disp8*N limits
    r = rng.random()
    if r < 0.25:
        disp = 0
    elif r < 0.6:
        disp = pick(rng, DISPS)
    elif r < 0.85:
        n = max(1, n_hint)
        disp = pick(rng, [127 * n, 128 * n, -128 * n, -129 * n, 127 * n + 1, n, -n, 2 * n, n // 2 if n > 1 else 3, 126 * n])
    else:
        disp = rng.randrange(-0x80000000, 0x80000000)
    ids = reg_ids(gk, mode, False, rng, True)
    if shape in ("base", "base+disp", "seg"):
        bt, bid = gk, pick(rng, ids)
    elif shape == "base+index":
        bt, bid = gk, pick(rng, ids)
        it, iid = gk, pick(rng, [i for i in ids if i != 4])
        shift = rng.randrange(4)
    elif shape == "index":
        it, iid = gk, pick(rng, [i for i in ids if i != 4])
        shift = rng.randrange(4)
    elif shape == "sp":
        bt, bid = gk, 4
        if rng.random() < 0.5:
            it, iid, shift = gk, pick(rng, [i for i in ids if i != 4]), rng.randrange(4)
    elif shape == "bp":
        bt, bid = gk, 5
        if rng.random() < 0.5:
            disp = 0
    elif shape == "r12r13":
        bt, bid = gk, (pick(rng, [12, 13]) if mode == 64 else pick(rng, [4, 5]))
        if rng.random() < 0.5:
            disp = 0
        if rng.random() < 0.4:
            it, iid, shift = gk, pick(rng, [i for i in ids if i != 4]), rng.randrange(4)
    elif shape == "base32":
        bt, bid = "gpd", pick(rng, [0, 3, 4, 5, 8, 12, 13, 15])
        if rng.random() < 0.5:
            it, iid, shift = "gpd", pick(rng, [0, 1, 5, 8, 12, 15]), rng.randrange(4)
    elif shape == "abs":
        disp = pick(rng, [0, 0x1000, 0x7FFFFFFF, 0x12345678, 0xFFFFFFFF, 0x80000000, (-0x80000000) & M64, M64]) if mode == 64 else \
            pick(rng, [0, 0x1000, 0x7FFFFFFF, 0x12345678, 0xFFFFFFFF, 0x80000000])
        at = pick(rng, [0, 0, 1])
    elif shape == "abs64":
        disp = pick(rng, [BASE_ADDR + 0x1000, BASE_ADDR + 0x7FFFFF00, BASE_ADDR - 0x1000, 0x10])
        at = pick(rng, [0, 2])
    elif shape == "rip":
        bt, bid = "rip", 0
    elif shape == "label":
        bt, bid = "label", 0
        if rng.random() < 0.5:
            disp = pick(rng, [0, 4, -4, 0x100])
    elif shape == "a16":
        form = pick(rng, [(3, 6), (3, 7), (5, 6), (5, 7), (6, None), (7, None), (5, None), (3, None), (None, None)])
        if form[0] is not None:
            bt, bid = "gpw", form[0]
        if form[1] is not None:
            it, iid = "gpw", form[1]
        disp = pick(rng, [0, 1, -1, 0x7F, 0x80, -0x80, -0x81, 0x1234, 0x7FFF, -0x8000])
        if form == (None, None):
            disp &= 0xFFFF
    if shape == "seg" or rng.random() < 0.08:
        seg = pick(rng, [1, 2, 3, 4, 5, 6])
    if vsib != "none":
        it = vsib
        iid = pick(rng, reg_ids(vsib, mode, evex, rng, True))
        shift = rng.randrange(4)
    if bt in ("none",) and it == "none" and shape not in ("abs", "abs64", "a16"):
        bt, bid = gk, 3
    if bt != "none" and bt not in ("rip", "label") or it != "none":
        if not -0x80000000 <= disp <= 0x7FFFFFFF:
            disp = 0
    return "M:%d:%s:%d:%s:%d:%d:%s:%d:%d:%d" % (size, bt, bid, it, iid, shift, hx(disp), seg, bcst_n, at), shape


def imm_values(o, rng):
    bits, sign = o["imm"], o["immSign"]
    if o["immValue"] is not None:
        return [int(o["immValue"])]
    if bits == 4:
        return [0, 5, 15]
    if bits == 8:
        return [0, 1, 0x7F, -1, -0x80] + ([0x80, 0xFF] if sign != "signed" else []) + [rng.randrange(-128, 128)]
    if bits == 16:
        return [0, 1, 0x7FFF, 0x1234] + ([0x8000, 0xFFFF] if sign != "signed" else [-1, -0x8000])
    if bits == 32:
        return [0, 1, 0x7F, 0x80, -0x81, 0x7FFFFFFF, 0x12345678] + ([0x80000000, 0xFFFFFFFF] if sign != "signed" else [-1, -0x80000000])
    return [0, 1, 0x7FFFFFFF, 0x80000000, 0xFFFFFFFF, 0x100000000, 0x123456789ABCDEF0, 1 << 63, M64, rng.getrandbits(64)]


def instantiate(f, roles, mode, rng, want_mem, tier_rich=False, force_opt=None):
    """-> emit-line tail `<name> <opts> <k> <operands...>` or None. want_mem: prefer the memory alternative of r/m operands."""
    if f["arch"] == "X86" and mode == 64 or f["arch"] == "X64" and mode == 32:
        return None
    evex = f["prefix"] == "EVEX"
    ops = []
    used_hi = False
    has_mem = False
    off = 16
    vl = max([VEC_SIZE.get(o["reg"], 0) for o in f["operands"]] + [o["memSize"] // 8 if o["mem"] and o["memSize"] and o["memSize"] > 0 and not o["reg"] else 0 for o in f["operands"]] + [16])
    bcst_mem = False
    prev_ids = {}
    for o, role in zip(f["operands"], roles):
        if o["imm"]:
            if o["implicit"]:
                continue
            vals = imm_values(o, rng)
            if f["name"] in ("ret", "retf"):
                vals = [v for v in vals if v != 0]      # `ret 0` is emitted as `ret` (same meaning, other form)
            ops.append("I:" + hx(pick(rng, vals)))
            continue
        if o["rel"]:
            k = rng.random()
            if o["rel"] == 8:
                tgt = pick(rng, [0, 3, 15, 16])           # within the filler: always a short backward / zero jump
                ops.append("L:%d" % tgt if k < 0.6 else "I:" + hx(BASE_ADDR + off + pick(rng, [2, 20, 100, -100 + 2])))
            else:
                ops.append("L:%d" % pick(rng, [0, 3, 16]) if k < 0.4 else "I:" + hx(BASE_ADDR + off + pick(rng, [5, 6, 0x1000, -0x1000, 0x7FFFF000, 129, 200, -200])))
            continue
        if o["implicit"] and rng.random() < 0.7:
            continue                                        # implicit operands are usually left out
        r, m = o["reg"], o["mem"]
        use_mem = bool(m) and (not r or want_mem)
        if o.get("regIndexRel"):
            ops.append("R:k:%d" % (prev_ids.get("k", 0) + o["regIndexRel"]))
            continue
        if not use_mem:
            if r in FIXED:
                ops.append("R:%s:%d" % FIXED[r])
                continue
            kinds = CLASS.get(r)
            if not kinds:
                return None
            kind = kinds[0]
            if kind == "gpb" and mode == 32 and rng.random() < 0.4 or kind == "gpb" and rng.random() < 0.12 and not used_hi:
                kind = "gpbhi"
            ids = reg_ids(kind, mode, evex, rng, True)
            if kind == "gpb" and used_hi:
                ids = [0, 1, 2, 3]
            if kind == "gpbhi":
                used_hi = True
            if o.get("consecutive_lead_count") or (r == "k" and any(x.get("regIndexRel") for x in f["operands"])):
                ids = [0, 2, 4, 6]
            rid = pick(rng, ids)
            prev_ids[kind] = rid
            ops.append("R:%s:%d" % (kind, rid))
        else:
            has_mem = True
            size = o["memSize"] // 8 if o["memSize"] and o["memSize"] > 0 else 0
            bc = 0
            if o["bcstSize"] and o["bcstSize"] > 0 and rng.random() < 0.4:
                es = o["bcstSize"] // 8
                n = max(2, (size or vl) // es)
                bc = {2: 1, 4: 2, 8: 3, 16: 4, 32: 5, 64: 6}.get(n, 0)
                if bc:
                    size = es
                    bcst_mem = True
            n_hint = size if size else 1
            if o.get("memRegOnly"):
                # string-instruction style operand: [zdi] / [zsi] / [zax] ... without displacement
                base = {"zdi": 7, "zsi": 6, "zax": 0, "zbx": 3, "zcx": 1, "zdx": 2}.get(o["memRegOnly"], 7)
                gk = GP_KIND_BY_MODE[mode]
                if rng.random() < 0.2:
                    gk = "gpd" if mode == 64 else "gpw"
                seg = 0
                if o["memSegment"] == "ds" and rng.random() < 0.3:
                    seg = pick(rng, [1, 2, 3, 5, 6])
                ops.append("M:%d:%s:%d:none:0:0:0:%d:0:0" % (size, gk, base, seg))
                continue
            if o["memOff"]:
                addr = pick(rng, [0, 0x1000, 0x7FFFFFFF, 0xFFFFFFFF] + ([0x123456789ABCDEF0, 1 << 63, M64] if mode == 64 else []))
                ops.append("M:%d:none:0:none:0:0:%s:%d:0:%d" % (size, hx(addr), pick(rng, [0, 0, 5, 6]), pick(rng, [0, 1])))
                continue
            vs = o["vsibReg"] or "none"
            mtxt, shape = mem_operand(rng, mode, size, vs, evex, bc, n_hint=n_hint)
            ops.append(mtxt)
    # decorations / options
    opts = []
    k = "-"
    if evex and f["kmask"] and rng.random() < 0.6:
        k = str(pick(rng, [1, 2, 3, 7]))
        if f["zmask"] and rng.random() < 0.5:
            opts.append("z")
    if evex and not has_mem and (f["er"] or f["sae"]) and rng.random() < 0.35:
        lig = f["op"].get("l") in ("LIG", "")
        if vl == 64 or lig or not any(o["reg"] in VEC_SIZE for o in f["operands"]) or f["op"].get("l") == "LIG":
            if f["er"] and rng.random() < 0.7:
                opts += ["er", pick(rng, ["rn", "rd", "ru", "rz"])]
            else:
                opts.append("sae")
    pf = f["prefixes"]
    if has_mem and pf.get("lock") and rng.random() < 0.3:
        opts.append("lock")
        if pf.get("xacquire") and rng.random() < 0.3:
            opts.append(pick(rng, ["xacquire", "xrelease"]))
    if pf.get("rep") and rng.random() < 0.4:
        opts.append(pick(rng, ["rep", "repne"]) if pf.get("repne") else "rep")
    r = rng.random()
    if force_opt:
        opts.append(force_opt)      # deterministic option pass of the sweep (encoding-choice options)
    elif r < 0.04 and mode == 64 and not used_hi and f["prefix"] == "":
        opts.append("rex")
    elif r < 0.10 and f["prefix"] == "VEX":
        opts.append("vex3")
    elif r < 0.14 and f["prefix"] in ("VEX", "EVEX"):
        opts.append("evex" if f["prefix"] == "EVEX" else "vex")
    elif r < 0.18 and f["name"] in MODMR_OK:
        opts.append(pick(rng, ["modmr", "modrm"]))
    elif r < 0.22 and any(o["rel"] for o in f["operands"]):
        opts.append(pick(rng, ["short", "long"]))
    opts = [o for i, o in enumerate(opts) if o not in opts[:i] and o != "rn"] + (["rn"] if "rn" in opts else [])
    return "%s %s %s %s" % (f["name"], ",".join(opts) or "-", k, " ".join(ops)), off
