#!/usr/bin/env python3
"""Update seeded/<id>/meta.json from confirm.log and from a selftest run.  usage: seed_status.py <PID>
Runs tools/selftest.py on the seeded patches of that property and records the verdict lines."""
import json
import re
import subprocess
import sys
from pathlib import Path

VERIF = Path(__file__).resolve().parent.parent
pid = sys.argv[1]
dirs = sorted((VERIF / "seeded").glob(pid + "-*"))
if len(sys.argv) > 2:      # only the given indices: seed_status.py C09 4 5
    dirs = [d for d in dirs if d.name.split("-")[-1] in sys.argv[2:]]
patches = [str(d / "patch.ported.diff") if (d / "patch.ported.diff").exists() else str(d / "patch.diff") for d in dirs]
out = subprocess.run([sys.executable, str(VERIF / "tools/selftest.py"), pid, *patches], capture_output=True, text=True, cwd=VERIF).stdout
print(out)
# selftest prints one line per patch starting with the file name "patch.diff": map by order
verdicts = [l for l in out.splitlines() if l.startswith("patch.diff") or l.startswith("patch.ported.diff")]
details = re.split(r"^patch\.(?:ported\.)?diff.*$", out, flags=re.M)[1:]
for d, v, det in zip(dirs, verdicts, details + [""] * len(dirs)):
    m = json.loads((d / "meta.json").read_text())
    log = (d / "confirm.log").read_text() if (d / "confirm.log").exists() else ""
    if log:
        ok = ("pristine_demo_exit=0" in log and re.search(r"mutated_demo_exit=[1-9]", log) is not None and
              "100% tests passed, 0 tests failed out of 10" in log and "patch_applies=yes" in log)
        m["confirmed"] = ("yes: patch applies, all 10 ctest tests pass with it, demo exits 0 on the pristine tree and non-zero with the change "
                          "(tools/seed_confirm.sh, log in confirm.log)") if ok else "NO - see confirm.log"
    if m.get("check_result", "pending") not in ("pending",) and "first_measurement" not in m:
        m["first_measurement"] = m["check_result"]
    m["check_result"] = ("caught" if " caught " in v else "MISSED") + ": " + " ".join(v.split()[2:])[:300] + " | " + " ".join(det.split())[:400]
    m["what_was_run"] = "python3 tools/selftest.py %s seeded/%s/patch.diff (quick tier, VERIF_REPO = scratch worktree with the patch)" % (pid, d.name)
    (d / "meta.json").write_text(json.dumps(m, indent=1))
