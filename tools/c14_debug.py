"""debug aid: list model/implementation differences of one seeded C14 run (not part of the check)"""
import sys, os
sys.path.insert(0, os.path.dirname(__file__))
import vlib, gen_c14
from props import c14
seed = int(sys.argv[1]) if len(sys.argv) > 1 else 1
rng = vlib.rng_for(seed, "C14")
names = gen_c14.error_enum(vlib.REPO)
fb = {a: gen_c14.forms(vlib.REPO, a) for a in ("x86", "a64")}
h = vlib.build_harness("c14")
corpus = c14.probe_corpus(h, rng, "quick", fb)
print({a: len(c) for a, c in corpus.items()})
sessions = c14.gen_sessions(rng, "quick", fb, corpus)
r = c14.judge(h, sessions, names)
print("abort", r["abort"] and r["abort"][0], "protocol", r["protocol"], "bad", len(r["bad"]), "diffs", len(r["diffs"]))
seen = {}
for i, got, exp in r["diffs"]:
    k = r["flat"][i].split()[0]
    if seen.get(k, 0) < 3:
        seen[k] = seen.get(k, 0) + 1
        si, oi = r["owner"][i]
        print("----", sessions[si][0], "|", r["flat"][i][:150], "\n  model", got, "\n  impl ", exp)
for i, v in r["bad"][:10]:
    print("BAD", v, r["flat"][i][:120], r["impl"][i][:80])
