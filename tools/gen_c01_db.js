// C01 translator, step 1: dumps the x86 ISA database through the repository's own reader (db/index.js) as JSON.
// The reader's parsed fields (opcode{byte,ri,mm,pp,w,l,mod,modr,modrm}, imm, rel, moff, tupleType, group index ...) are
// the definition of the database's syntax (DESIGN.md section 2); nothing is re-parsed here.
// usage: node gen_c01_db.js <repo>
"use strict";
const path = require("path");
const repo = process.argv[2] || "/repo";
const db = require(path.join(repo, "db", "index.js"));
const isa = new db.x86.ISA(require(path.join(repo, "db", "isa_x86.json")));
const forms = [];
for (const name of isa.instructionNames) {
  for (const i of isa.query(name)) {
    forms.push({
      name: i.name, arch: i.arch, encoding: i.encoding, opcodeString: i.opcodeString, prefix: i.prefix,
      op: Object.assign({}, i.opcode), imm: i.imm || 0, rel: i.rel || 0, moff: !!i.moff, tsib: !!i.tsib,
      tupleType: i.tupleType || "", elementSize: i.elementSize, groupPattern: i.groupPattern || "", groupIndex: i.groupIndex,
      kmask: !!i.kmask, zmask: !!i.zmask, er: !!i.er, sae: !!i.sae, broadcast: !!i.broadcast,
      vsibReg: i.vsibReg || "", vsibSize: i.vsibSize, aliasOf: i.aliasOf || "", encodingPreference: i.encodingPreference || "",
      ext: Object.keys(i.ext || {}), prefixes: i.prefixes || {}, privilege: i.privilege,
      operands: i.operands.map(o => ({
        data: o.data, reg: o.reg || "", mem: o.mem || "", imm: o.imm || 0, rel: o.rel || 0, regType: o.regType || "",
        memSize: o.memSize, implicit: !!o.implicit, optional: !!o.optional, memSegment: o.memSegment || "",
        memRegOnly: o.memRegOnly || "", memOff: !!o.memOff, memFar: !!o.memFar, vsibReg: o.vsibReg || "", vsibSize: o.vsibSize,
        bcstSize: o.bcstSize, immValue: (o.immValue === undefined ? null : o.immValue), immSign: o.immSign || "",
        read: !!o.read, write: !!o.write, rwxIndex: o.rwxIndex, rwxWidth: o.rwxWidth, regIndexRel: o.regIndexRel || 0
      }))
    });
  }
}
process.stdout.write(JSON.stringify({names: isa.instructionNames, forms: forms}));
