"""Common machinery of the /verif checks (see DESIGN.md section 3).

Everything a check needs that is not property specific lives here:
  * building /repo's *current working tree* into a sanitizer-instrumented static library (cached by tree hash),
  * building C++ harnesses against it,
  * regenerating Lean `Gen/` files, running `lake build`, mapping build errors to theorem names,
  * the axiom / sorry audit,
  * running the Lean driver and a harness on the same operation lines and diffing,
  * ddmin shrinking, replay files, evidence files, known findings.
"""
import fcntl
import hashlib
import json
import os
import random
import re
import shutil
import subprocess
import sys
import time
from concurrent.futures import ThreadPoolExecutor
from pathlib import Path

VERIF = Path(__file__).resolve().parent.parent
REPO = Path(os.environ.get("VERIF_REPO", "/repo"))
BUILD = VERIF / ".build"
LEAN = VERIF / "lean"
EVID = Path(os.environ.get("VERIF_EVIDENCE_DIR", str(VERIF / "evidence")))   # selftest redirects it
REPLAYS = EVID / "replays"
JOBS = os.cpu_count() or 8

ALLOWED_AXIOMS = {"propext", "Classical.choice", "Quot.sound"}
FORBIDDEN = re.compile(r"\b(sorry|admit|native_decide|implemented_by|unsafe)\b|^\s*axiom\s|maxHeartbeats\s+0\b", re.M)


class BuildError(Exception):
    pass


def log(*a):
    print(*a, file=sys.stderr, flush=True)


def sh(cmd, cwd=None, input=None, timeout=None, env=None, check=False):
    e = dict(os.environ)
    if env:
        e.update(env)
    p = subprocess.run(cmd, cwd=cwd, input=input, capture_output=True, text=True, timeout=timeout, env=e)
    if check and p.returncode != 0:
        raise BuildError("command failed: %s\n%s\n%s" % (" ".join(map(str, cmd)), p.stdout[-4000:], p.stderr[-4000:]))
    return p


class Lock:
    """Inter-process lock so that concurrent checks do not build the same thing twice."""

    def __init__(self, name):
        BUILD.mkdir(parents=True, exist_ok=True)
        self.path = BUILD / (name + ".lock")

    def __enter__(self):
        self.f = open(self.path, "w")
        fcntl.flock(self.f, fcntl.LOCK_EX)
        return self

    def __exit__(self, *a):
        fcntl.flock(self.f, fcntl.LOCK_UN)
        self.f.close()


# ----------------------------------------------------------------------------------------------
# /repo -> instrumented static library
# ----------------------------------------------------------------------------------------------

def repo_sources():
    return sorted((REPO / "asmjit").rglob("*.cpp"))


def repo_hash():
    h = hashlib.sha1()
    files = []
    for sub, pats in (("asmjit", ("*.cpp", "*.h")), ("db", ("*.json", "*.js")), ("tools", ("*.js",))):
        for pat in pats:
            files += list((REPO / sub).rglob(pat))
    for f in sorted(files):
        h.update(str(f.relative_to(REPO)).encode())
        h.update(f.read_bytes())
    return h.hexdigest()[:16]


FLAVORS = {
    # name: (compile flags, link flags)
    "asan": (["-O1", "-g", "-fsanitize=address,undefined", "-fno-sanitize-recover=all",
              "-fno-sanitize=nonnull-attribute", "-fno-omit-frame-pointer"],
             ["-fsanitize=address,undefined"]),
    "plain": (["-O1", "-g"], []),
    "tsan": (["-O1", "-g", "-fsanitize=thread"], ["-fsanitize=thread"]),
}
COMMON_DEFS = ["-std=c++17", "-DASMJIT_STATIC", "-DASMJIT_VERIF", "-DNDEBUG", "-w"]


def tree_dir(flavor="asan"):
    d = BUILD / repo_hash() / flavor
    d.mkdir(parents=True, exist_ok=True)
    return d


def prune_builds(keep=5):
    if not BUILD.exists():
        return
    dirs = [d for d in BUILD.iterdir() if d.is_dir() and re.fullmatch(r"[0-9a-f]{16}", d.name)]
    dirs.sort(key=lambda d: d.stat().st_mtime, reverse=True)
    cur = repo_hash()
    kept = 0
    for d in dirs:
        if d.name == cur or kept < keep - 1:
            if d.name != cur:
                kept += 1
            continue
        shutil.rmtree(d, ignore_errors=True)


def ensure_lib(flavor="asan"):
    """Compile every asmjit translation unit of the current working tree; returns (dir, libpath)."""
    with Lock("lib"):
        d = tree_dir(flavor)
        lib = d / "libasmjit.a"
        if lib.exists():
            os.utime(d.parent)
            return d, lib
        prune_builds()
        t0 = time.time()
        cflags, _ = FLAVORS[flavor]
        objdir = d / "obj"
        objdir.mkdir(exist_ok=True)
        srcs = repo_sources()

        def cc(src):
            obj = objdir / (str(src.relative_to(REPO)).replace("/", "_") + ".o")
            p = sh(["g++", *COMMON_DEFS, *cflags, "-I", str(REPO), "-c", str(src), "-o", str(obj)])
            return src, obj, p

        with ThreadPoolExecutor(JOBS) as ex:
            res = list(ex.map(cc, srcs))
        bad = [(s, p) for s, o, p in res if p.returncode != 0]
        if bad:
            raise BuildError("asmjit does not compile: %s\n%s" % (bad[0][0], bad[0][1].stderr[-3000:]))
        tmp = d / "libasmjit.tmp.a"
        if tmp.exists():
            tmp.unlink()
        sh(["ar", "rcs", str(tmp), *[str(o) for _, o, _ in res]], check=True)
        tmp.rename(lib)
        log("[build] libasmjit (%s) %d TUs in %.1fs" % (flavor, len(srcs), time.time() - t0))
        return d, lib


def build_harness(name, flavor="asan", extra_flags=(), link_flags=()):
    """Compile harness/<name>.cpp against the current tree. A harness that `#include`s a library .cpp
    defines all of that file's symbols, so the archive member is simply not pulled in."""
    d, lib = ensure_lib(flavor)
    src = VERIF / "harness" / (name + ".cpp")
    hh = hashlib.sha1()
    for f in sorted((VERIF / "harness").glob("*.h")) + [src]:
        hh.update(f.read_bytes())
    hh.update(" ".join(list(extra_flags) + list(link_flags)).encode())
    out = d / ("h_%s_%s" % (name, hh.hexdigest()[:10]))
    with Lock("harness_" + name):
        if out.exists():
            return out
        cflags, lflags = FLAVORS[flavor]
        t0 = time.time()
        p = sh(["g++", *COMMON_DEFS, *cflags, *extra_flags, "-I", str(REPO), "-I", str(VERIF / "harness"),
                str(src), str(lib), "-o", str(out) + ".tmp", *lflags, *link_flags, "-lpthread", "-lrt"])
        if p.returncode != 0:
            raise BuildError("harness %s does not compile against the current tree:\n%s" % (name, p.stderr[-4000:]))
        Path(str(out) + ".tmp").rename(out)
        log("[build] harness %s in %.1fs" % (name, time.time() - t0))
        return out


# ----------------------------------------------------------------------------------------------
# Lean side
# ----------------------------------------------------------------------------------------------

def gen_write(rel, content):
    """Write a generated Lean file only when its content changed (keeps lake incremental)."""
    p = LEAN / rel
    p.parent.mkdir(parents=True, exist_ok=True)
    if p.exists() and p.read_text() == content:
        return False
    p.write_text(content)
    return True


def regen_roots():
    """Driver/Main.lean and AsmjitVerif.lean are derived from the directory listing so that adding a
    property means adding files only (Driver/Cxx.lean with `def main : IO Unit`, Props/Cxx.lean)."""
    comps = sorted(f.stem for f in (LEAN / "Driver").glob("C[0-9][0-9]*.lean"))
    main = "".join("import Driver.%s\n" % c for c in comps)
    main += "\ndef main (args : List String) : IO UInt32 := do\n  match args with\n"
    main += "".join('  | ["%s"] => Driver.%s.main; return 0\n' % (c, c) for c in comps)
    main += '  | _ => IO.eprintln "usage: vdriver <component>"; return 2\n'
    gen_write("Driver/Main.lean", main)
    mods = []
    for sub in ("Model", "Spec", "Lemmas", "Props"):
        mods += sorted("AsmjitVerif.%s.%s" % (sub, f.stem) for f in (LEAN / "AsmjitVerif" / sub).glob("*.lean"))
    gen_write("AsmjitVerif.lean", "".join("import %s\n" % m for m in mods))


def regen_all_gen():
    import importlib
    for f in sorted((VERIF / "tools" / "props").glob("c[0-9][0-9].py")):
        try:
            mod = importlib.import_module("props." + f.stem)
            if hasattr(mod, "generate"):
                mod.generate()
        except Exception as e:
            log("[gen] %s.generate failed: %s" % (f.stem, e))


def lake_build(targets, timeout=3600):
    """Returns (ok, output). Serialised: lake is not safe to run twice in one workspace."""
    regen_roots()
    with Lock("lake"):
        t0 = time.time()
        p = sh(["lake", "build", *targets], cwd=LEAN, timeout=timeout)
        out = p.stdout + p.stderr
        if p.returncode != 0 and re.search(r"error: \S*AsmjitVerif/Gen/\w+\.lean|AsmjitVerif[./]Gen[./]\w+\S* (does not exist|not found)|unknown module prefix 'AsmjitVerif.Gen|bad import 'AsmjitVerif.Gen", out):
            # a git-ignored Gen/ file of some property is missing or stale (its generator changed in a merge): regenerate all once
            regen_all_gen()
            p = sh(["lake", "build", *targets], cwd=LEAN, timeout=timeout)
            out = p.stdout + p.stderr
        log("[lake] build %s: %s in %.1fs" % (" ".join(targets), "ok" if p.returncode == 0 else "FAILED", time.time() - t0))
        if p.returncode == 0 and "vdriver" in targets:
            _snapshot_driver()
        return p.returncode == 0, out


_DRIVER_SNAP = [None]


def _snapshot_driver():
    """Called with the lake lock held: copy the linked driver to a content-named file, so that a concurrent `lake build`
    (which unlinks and relinks .lake/build/bin/vdriver) cannot pull the binary away from under a running check."""
    src = LEAN / ".lake" / "build" / "bin" / "vdriver"
    if not src.exists():
        return None
    st = src.stat()
    d = BUILD / "driver"
    d.mkdir(parents=True, exist_ok=True)
    dst = d / ("vdriver-%d-%d" % (st.st_size, st.st_mtime_ns))
    if not dst.exists():
        tmp = d / (dst.name + ".tmp%d" % os.getpid())
        shutil.copy2(src, tmp)
        os.replace(tmp, dst)
        for old in sorted(d.glob("vdriver-*"), key=lambda f: f.stat().st_mtime)[:-6]:
            try:
                old.unlink()
            except OSError:
                pass
    _DRIVER_SNAP[0] = dst
    return dst


def driver_path():
    if _DRIVER_SNAP[0] is not None and _DRIVER_SNAP[0].exists():
        return _DRIVER_SNAP[0]
    with Lock("lake"):
        snap = _snapshot_driver()
    return snap if snap is not None else LEAN / ".lake" / "build" / "bin" / "vdriver"


_ERR_RE = re.compile(r"error: (\S+\.lean):(\d+):(\d+): (.*)")


def failed_theorems(build_output):
    """Map `lake build` errors to the names of the enclosing theorem/def (best effort)."""
    out = []
    for m in _ERR_RE.finditer(build_output):
        f, line, msg = m.group(1), int(m.group(2)), m.group(4)
        path = LEAN / f if not os.path.isabs(f) else Path(f)
        name = "?"
        try:
            lines = path.read_text().splitlines()
            for i in range(min(line, len(lines)) - 1, -1, -1):
                mm = re.match(r"\s*(?:private\s+|protected\s+)?(theorem|lemma|def|example|instance)\s+(\S+)?", lines[i])
                if mm:
                    name = mm.group(2) or "example"
                    break
        except OSError:
            pass
        out.append({"file": f, "line": line, "decl": name, "msg": msg[:300]})
    return out


def strip_comments(src):
    src = re.sub(r"/-.*?-/", "", src, flags=re.S)
    src = re.sub(r"--.*", "", src)
    return src


def theorems_in(path):
    """[(qualified name, kind)] of the theorems declared in a Lean file (namespace aware)."""
    ns = []
    out = []
    for line in strip_comments(Path(path).read_text()).splitlines():
        m = re.match(r"\s*namespace\s+(\S+)", line)
        if m:
            ns.append(m.group(1))
            continue
        m = re.match(r"\s*end\s+(\S+)\s*$", line)
        if m and ns and ns[-1] == m.group(1):
            ns.pop()
            continue
        m = re.match(r"\s*(?:private\s+|protected\s+)?theorem\s+([^\s:({\[]+)", line)
        if m:
            out.append(".".join(ns + [m.group(1)]))
    return out


def audit(prop_modules):
    """Re-audit on every run: forbidden tokens in the Lean sources; axioms of every property theorem.
    prop_modules: list of module names like 'AsmjitVerif.Props.C17'.
    Returns dict(theorems=[...], axioms={thm: [...]}, problems=[...])."""
    problems = []
    for f in sorted((LEAN / "AsmjitVerif").rglob("*.lean")) + sorted((LEAN / "Driver").rglob("*.lean")):
        m = FORBIDDEN.search(strip_comments(f.read_text()))
        if m:
            problems.append("forbidden token %r in %s" % (m.group(0).strip(), f.relative_to(LEAN)))
    thms = []
    for mod in prop_modules:
        thms += theorems_in(LEAN / (mod.replace(".", "/") + ".lean"))
    (LEAN / ".audit").mkdir(exist_ok=True)
    tag = hashlib.sha1(" ".join(prop_modules).encode()).hexdigest()[:8]
    af = LEAN / ".audit" / ("audit_%s_%d.lean" % (tag, os.getpid()))
    af.write_text("".join("import %s\n" % m for m in prop_modules) + "".join("#print axioms %s\n" % t for t in thms))
    try:
        with Lock("lake"):     # never while another check's `lake build` rewrites .olean files
            p = sh(["lake", "env", "lean", str(af)], cwd=LEAN, timeout=1200)
            text = p.stdout + p.stderr
            if "does not exist" in text or "unknown module" in text:    # a module was being rebuilt: build ours, retry once
                sh(["lake", "build", *prop_modules], cwd=LEAN, timeout=3600)
                p = sh(["lake", "env", "lean", str(af)], cwd=LEAN, timeout=1200)
    finally:
        af.unlink(missing_ok=True)
    text = p.stdout + p.stderr
    axioms = {}
    for m in re.finditer(r"'([^']+)' depends on axioms: \[([^\]]*)\]", text, flags=re.S):
        axioms[m.group(1)] = [a.strip() for a in m.group(2).replace("\n", " ").split(",") if a.strip()]
    for m in re.finditer(r"'([^']+)' does not depend on any axioms", text):
        axioms[m.group(1)] = []
    for t in thms:
        if t not in axioms:
            problems.append("theorem %s: no axiom report (does it still check?)" % t)
            continue
        for a in axioms[t]:
            if a in ALLOWED_AXIOMS:
                continue
            if re.fullmatch(r".*\._native\.bv_decide\.ax_[0-9_]+", a):
                continue  # accepted: per-theorem bv_decide certificate axiom (DESIGN.md section 2)
            problems.append("theorem %s depends on non-allowed axiom %s" % (t, a))
    if "sorryAx" in text:
        problems.append("sorryAx in axiom report")
    return {"theorems": thms, "axioms": axioms, "problems": problems}


# ----------------------------------------------------------------------------------------------
# running both sides
# ----------------------------------------------------------------------------------------------

def run_lines(cmd, lines, timeout=1800, env=None):
    """Feed `lines` to cmd's stdin, return (list of output lines, returncode, stderr)."""
    text = "\n".join(lines) + "\n"
    e = {"ASAN_OPTIONS": "detect_leaks=1:abort_on_error=0:exitcode=99", "UBSAN_OPTIONS": "print_stacktrace=1:halt_on_error=1"}
    if env:
        e.update(env)
    try:
        p = sh(cmd, input=text, timeout=timeout, env=e)
    except subprocess.TimeoutExpired:
        return [], -9, "timeout"
    return p.stdout.splitlines(), p.returncode, p.stderr


def locate_abort(cmd, lines, timeout=1800):
    """After a harness abort: re-run with per-line flushing; returns (index of the op that did not answer, stderr tail).
    Valid for harnesses that print exactly one line per op."""
    out, rc, err = run_lines(cmd, lines, timeout, env={"VH_FLUSH": "1"})
    return min(len(out), len(lines) - 1), err[-3000:]


def run_model(component, lines, timeout=1800):
    return run_lines([str(driver_path()), component], lines, timeout)


def first_diff(a, b):
    n = min(len(a), len(b))
    for i in range(n):
        if a[i] != b[i]:
            return i
    return None if len(a) == len(b) else n


def ddmin(items, fails, max_tests=400):
    """Delta-debugging minimisation of a list while `fails(list)` stays true."""
    tests = [0]

    def test(c):
        tests[0] += 1
        return fails(c)

    n = 2
    cur = list(items)
    while len(cur) >= 2 and tests[0] < max_tests:
        chunk = max(1, len(cur) // n)
        reduced = False
        for i in range(0, len(cur), chunk):
            cand = cur[:i] + cur[i + chunk:]
            if cand and test(cand):
                cur = cand
                n = max(n - 1, 2)
                reduced = True
                break
        if not reduced:
            if n >= len(cur):
                break
            n = min(len(cur), n * 2)
    return cur


# ----------------------------------------------------------------------------------------------
# results
# ----------------------------------------------------------------------------------------------

class Result:
    def __init__(self, pid, tier, seed):
        self.pid, self.tier, self.seed = pid, tier, seed
        self.t0 = time.time()
        self.violations = []      # dicts: {what, replay(dict), found_input(bool), key}
        self.known = []           # messages of matched known findings
        self.coverage = {"obligations": 0, "discharged": 0, "checker_cmd": "", "trusted_base": [],
                         "evaluations": 0, "distinct_nontrivial": 0, "rule": "", "samples": []}
        self.assumptions = []
        self.notes = []

    def violation(self, what, replay, found_input=True, key=None):
        self.violations.append({"what": what, "replay": replay, "found_input": found_input, "key": key or what})

    def add_samples(self, samples, limit=6):
        for s in samples:
            if len(self.coverage["samples"]) < limit:
                self.coverage["samples"].append(s)


def load_known_findings(pid):
    p = VERIF / "known_findings.json"
    if not p.exists():
        return []
    data = json.loads(p.read_text())
    return [e for e in data.get("findings", []) if e.get("property") == pid]


def finish(res):
    """Write replays + evidence, print VIOLATION / KNOWN-FINDING lines, return exit code."""
    EVID.mkdir(exist_ok=True)
    REPLAYS.mkdir(exist_ok=True)
    known = [e for e in load_known_findings(res.pid) if e.get("status") == "open"]
    # safety net: a proof obligation that no longer builds is ALWAYS reported, whatever else the module found
    # (known findings or other violations must not hide it)
    bf = getattr(res, "build_failures", None)
    if bf and not any(v["key"] in ("obligation", "driver") or "no longer checks" in v["what"] for v in res.violations):
        res.violation("proof obligation no longer checks: " + " | ".join(
            "theorem %s (%s:%s): %s" % (f.get("decl"), f.get("file"), f.get("line"), f.get("msg")) for f in bf)[:1500],
            {"unchecked": bf}, found_input=False, key="obligation")
    code = 0
    reported_known = set()
    n_viol = 0
    for i, v in enumerate(res.violations):
        match = None
        for e in known:
            if e.get("key") == v["key"]:
                match = e
                break
        if match is not None:
            if match["id"] not in reported_known:
                reported_known.add(match["id"])
                print("KNOWN-FINDING: property=%s %s" % (res.pid, match["what"]))
            continue
        n_viol += 1
        rp = REPLAYS / ("%s-%s-%d-%d.json" % (res.pid, res.tier, res.seed, i))
        rp.write_text(json.dumps({"property": res.pid, "tier": res.tier, "seed": res.seed, "what": v["what"],
                                  "found_failing_input": v["found_input"], "replay": v["replay"]}, indent=1))
        tail = "" if v["found_input"] else " no-failing-input-found"
        print("VIOLATION property=%s replay=%s%s" % (res.pid, rp, tail))
        log("  -> " + v["what"][:500])
        code = 1
    cov = res.coverage
    cov["known_findings_matched"] = sorted(reported_known)
    if res.notes:
        cov["notes"] = res.notes
    ev = {"property_id": res.pid, "tier": res.tier, "seed": res.seed, "level": "proof", "coverage": cov,
          "assumptions": res.assumptions, "wall_s": round(time.time() - res.t0, 2), "violations": n_viol}
    (EVID / (res.pid + ".json")).write_text(json.dumps(ev, indent=1, default=str))
    sys.stdout.flush()
    return code


def lean_stage(res, pid, prop_modules, targets=None, extra_checker=""):
    """Common proof stage: lake build of the property's modules + driver, then the audit.
    Returns (ok, build_output). On failure a violation WITHOUT input is *not* yet recorded: the caller
    searches for a concrete failing input first and then calls `obligation_failed`."""
    targets = targets or (prop_modules + ["vdriver"])
    ok, out = lake_build(targets)
    res.coverage["checker_cmd"] = "cd lean && lake build %s && lake env lean <#print axioms of every theorem in %s>%s" % (
        " ".join(targets), ", ".join(prop_modules), extra_checker)
    res.coverage["trusted_base"] = [
        "Lean 4.33.0 kernel", "axioms propext, Classical.choice, Quot.sound",
        "per-theorem bv_decide certificate axioms (<thm>._native.bv_decide.ax_*)",
        "translators tools/gen_*.py and the correspondence harness/driver/diff of this check",
        "Spec/*.lean: our reading of the ISA / ABI manuals"]
    if not ok:
        res.build_failures = failed_theorems(out)
        return False, out
    a = audit(prop_modules)
    res.audit = a
    if res.tier == "thorough":
        # independent re-check of the compiled property modules (one module per call)
        rej = []
        with Lock("lake"):
            for mod in prop_modules:
                p = sh(["lake", "env", "leanchecker", mod], cwd=LEAN, timeout=3600)
                if p.returncode != 0:
                    rej.append("leanchecker rejects %s: %s" % (mod, (p.stdout + p.stderr)[-400:]))
        res.coverage["leanchecker"] = "replayed %s" % ", ".join(prop_modules) if not rej else "FAILED"
        res.coverage["checker_cmd"] += " && lake env leanchecker <each of %s>" % ", ".join(prop_modules)
        a["problems"] += rej
    res.coverage["obligations"] = len(a["theorems"])
    res.coverage["discharged"] = len([t for t in a["theorems"] if t in a["axioms"]])
    res.coverage["axioms"] = sorted({x for v in a["axioms"].values() for x in v if x in ALLOWED_AXIOMS}) + \
        ["%d bv_decide certificate axioms" % len({x for v in a["axioms"].values() for x in v if x not in ALLOWED_AXIOMS})]
    if a["problems"]:
        res.violation("audit: " + "; ".join(a["problems"]), {"audit_problems": a["problems"]}, found_input=False,
                      key="audit")
        return False, out
    return True, out


def rng_for(seed, salt=""):
    return random.Random("%s/%s" % (seed, salt))
