"""Translator: ISA database forms (db/isa_x86.json through db/index.js, tools/gen_db.js) instantiated with representative
operands (tools/x86forms.py) -> lean/AsmjitVerif/Gen/X86Forms.lean, and the vendored list lean/implemented_forms.txt of
the instances the pinned release accepts (validator and encoder)."""
import json
import re
import zlib
import vlib
import x86forms

IMPL = vlib.LEAN / "implemented_forms.txt"


class TranslateError(Exception):
    pass


def load_db():
    p = vlib.sh(["node", str(vlib.VERIF / "tools" / "gen_db.js"), str(vlib.REPO)], timeout=120)
    if p.returncode != 0:
        raise TranslateError("db/index.js could not read the database: " + p.stderr[-500:])
    db = json.loads(p.stdout)
    if len(db["forms"]) < 1000:
        raise TranslateError("implausibly small database")
    return db


def form_key(f):
    return "%s\t%s\t%s" % (f["name"], f["arch"], ",".join(("<%s>" % o["data"]) if o["implicit"] else o["data"] for o in f["operands"]))


def token(i):
    """identity of an instance inside its form: mode, instantiation kind and a checksum of the operands (two database forms
    can share name/arch/operand text, e.g. a VEX and an EVEX form)"""
    return "%d:%s:%06x" % (i["mode"], i["kind"], zlib.crc32(i["line"].encode()) & 0xFFFFFF)


def norm(t):
    return re.sub(r"i:[0-9a-f]+", "i", t)


def instantiate(db, name2id):
    """-> list of dicts {line, mode, form (key), kind, allowed (bool: the database allows the mode)}"""
    allowed = {32: {}, 64: {}}
    excl = {32: {}, 64: {}}
    for f in db["forms"]:
        if f["name"] not in name2id:
            continue
        key = form_key(f)
        for mode in (32, 64):
            ok = mode in x86forms.arch_modes(f["arch"])
            for tail, kind in x86forms.instances_of_form(f, name2id[f["name"]], mode):
                (allowed if ok else excl)[mode].setdefault(tail, (key, kind))
    out = []
    for mode in (32, 64):
        nallowed = {norm(t) for t in allowed[mode]}
        for t, (key, kind) in allowed[mode].items():
            out.append({"line": "inst %d %s" % (mode, t), "mode": mode, "form": key, "kind": kind, "allowed": True})
        for t, (key, kind) in excl[mode].items():
            if norm(t) not in nallowed:
                out.append({"line": "inst %d %s" % (mode, t), "mode": mode, "form": key, "kind": kind, "allowed": False})
    return out


def load_implemented():
    impl = set()
    if not IMPL.exists():
        raise TranslateError("lean/implemented_forms.txt is missing")
    for line in IMPL.read_text().splitlines():
        if not line or line.startswith("#"):
            continue
        key, toks = line.rsplit("\t", 1)
        for t in toks.split():
            impl.add((key, t))
    return impl


def write_implemented(insts, answers):
    by = {}
    for i, a in zip(insts, answers):
        if i["allowed"] and a.startswith("v=Ok e0=Ok:"):
            by.setdefault(i["form"], []).append(token(i))
    s = "# instances of ISA-database forms (tools/x86forms.py) the pinned release accepts (validate = Ok and emit = Ok);\n"
    s += "# <name>\\t<arch>\\t<operands>\\t<mode>:<instantiation kind>:<crc24 of the instance line> ...   regenerate: python3 tools/gen_x86forms.py --vendor\n"
    for k in sorted(by):
        s += "%s\t%s\n" % (k, " ".join(sorted(set(by[k]))))
    IMPL.write_text(s)
    return sum(len(set(v)) for v in by.values())


# ---- Lean rendering: an instance is a list of naturals (decoded by Spec/X86Forms.lean `decodeInstance`) ----------------
def encode_line(line):
    w = line.split()
    mode, iid, opts, extra, ops = int(w[1]), int(w[2]), int(w[3], 16), w[4], w[5:]
    out = [1 if mode == 32 else 2, iid, opts]
    if extra == "-":
        out += [0, 0, 0]
    else:
        f = extra.split(":")
        out += [1, int(f[1]), int(f[2])]
    for o in ops:
        f = o.split(":")
        if f[0] == "n":
            out += [0]
        elif f[0] == "r":
            out += [1, int(f[1]), int(f[2])]
        elif f[0] == "m":
            out += [2, int(f[1]), int(f[2]), int(f[3]), int(f[4]), int(f[5]), int(f[6]), int(f[7]) % (1 << 64), int(f[8]), int(f[9])]
        elif f[0] == "i":
            out += [3, int(f[1], 16)]
        elif f[0] == "l":
            out += [4]
        else:
            raise TranslateError("bad operand " + o)
    return out


CHUNK = 64       # rows per packed numeral (a numeral of ~17k hex digits elaborates fast, much larger ones do not)


MARK = 1 << 64      # row terminator; every field is < 2^64


def pack(lines):
    """rows -> (one natural number whose base-2^65 digits are the fields, each row followed by MARK; number of digits).
    A list literal of 30 000 rows takes Lean minutes to elaborate, one numeral per chunk takes milliseconds."""
    digits = []
    for l in lines:
        digits += encode_line(l) + [MARK]
    n = 0
    for d in reversed(digits):
        n = (n << 65) | d
    return n, len(digits)


def render(allow_lines, exclude_lines):
    s = "/- GENERATED by tools/gen_x86forms.py from db/isa_x86.json (through db/index.js) and lean/implemented_forms.txt - do not edit.\n"
    s += "   One chunk = (packed rows, digit count), decoded by Spec/X86Forms.lean `unpack`. -/\n"
    s += "namespace AsmjitVerif.Gen.X86Forms\n\n"

    def chunks(name, lines):
        t = ""
        n = 0
        for c in range(0, len(lines), CHUNK):
            v, k = pack(lines[c:c + CHUNK])
            t += "def %s%d : Nat × Nat := (0x%x, %d)\n" % (name, n, v, k)
            n += 1
        return t, n

    a, na = chunks("allow", allow_lines)
    e, ne = chunks("exclude", exclude_lines)
    s += a + e
    s += "\ndef allowChunks : List (Nat × Nat) := [%s]\n" % ", ".join("allow%d" % i for i in range(na))
    s += "def excludeChunks : List (Nat × Nat) := [%s]\n" % ", ".join("exclude%d" % i for i in range(ne))
    s += "def allowCount : Nat := %d\ndef excludeCount : Nat := %d\n" % (len(allow_lines), len(exclude_lines))
    s += "\nend AsmjitVerif.Gen.X86Forms\n"
    return s, na, ne


NPARTS = 4


def render_props(na, ne):
    """-> {relative path: content}: the chunk lemmas spread over NPARTS modules (built in parallel by lake) + the summary."""
    items = [("allow", i) for i in range(na)] + [("exclude", i) for i in range(ne)]
    files = {}
    for p in range(NPARTS):
        s = "/- GENERATED by tools/gen_x86forms.py: one `decide +kernel` lemma per chunk of Gen/X86Forms.lean, so that a changed row names its chunk. -/\n"
        s += "import AsmjitVerif.Spec.X86Forms\nimport AsmjitVerif.Gen.X86Forms\nimport AsmjitVerif.Gen.X86Sig\nset_option maxRecDepth 1000000\n"
        s += "namespace AsmjitVerif.Gen.X86FormsChecked\nopen AsmjitVerif.X86Forms AsmjitVerif.Gen.X86Forms\n\n"
        for kind, i in items[p::NPARTS]:
            s += "theorem %s%d_ok : %s AsmjitVerif.Gen.X86Sig.tables %s%d = true := by decide +kernel\n" % (
                kind, i, "allAccepted" if kind == "allow" else "allRefused", kind, i)
        s += "\nend AsmjitVerif.Gen.X86FormsChecked\n"
        files["AsmjitVerif/Gen/X86FormsChecked%d.lean" % p] = s
    s = "/- GENERATED by tools/gen_x86forms.py -/\n" + "".join("import AsmjitVerif.Gen.X86FormsChecked%d\n" % p for p in range(NPARTS))
    s += "namespace AsmjitVerif.Gen.X86FormsChecked\nopen AsmjitVerif.X86Forms AsmjitVerif.Gen.X86Forms\n"
    for kind, n, pred in (("allow", na, "allAccepted"), ("exclude", ne, "allRefused")):
        s += "\ntheorem %s_all : ∀ c ∈ %sChunks, %s AsmjitVerif.Gen.X86Sig.tables c = true := by\n  intro c hc\n" % (kind, kind, pred)
        s += "  simp only [%sChunks, List.mem_cons, List.not_mem_nil, or_false] at hc\n" % kind
        if n > 1:
            s += "  rcases hc with " + " | ".join("h" for _ in range(n)) + "\n"
            s += "".join("  · subst h; exact %s%d_ok\n" % (kind, i) for i in range(n))
        else:
            s += "  subst hc; exact %s0_ok\n" % kind
    s += "\nend AsmjitVerif.Gen.X86FormsChecked\n"
    files["AsmjitVerif/Gen/X86FormsCheckedAll.lean"] = s
    return files


if __name__ == "__main__":
    import sys
    import gen_names
    if "--vendor" in sys.argv:
        h = vlib.build_harness("c13")
        archs = gen_names.parse_dump(vlib.sh([str(h), "dump-names"]).stdout)
        name2id = {bytes(n).decode(): i for i, n in enumerate(archs["x86"]["names"]) if i}
        insts = instantiate(load_db(), name2id)
        out, rc, err = vlib.run_lines([str(h)], [i["line"] for i in insts])
        assert rc == 0 and len(out) == len(insts), err[-500:]
        print("vendored %d instances of %d" % (write_implemented(insts, out), len(insts)))
