"""Translator: ISA database forms (db/isa_x86.json through db/index.js, tools/gen_db.js) instantiated with representative
operands (tools/x86forms.py) -> lean/AsmjitVerif/Gen/X86Forms.lean, and the vendored list lean/implemented_forms.txt of
the instances the pinned release accepts (validator and encoder)."""
import json
import re
import zlib
import vlib
import x86forms

IMPL = vlib.LEAN / "implemented_forms.txt"


class TranslateError(Exception):
    pass


def load_db():
    p = vlib.sh(["node", str(vlib.VERIF / "tools" / "gen_db.js"), str(vlib.REPO)], timeout=120)
    if p.returncode != 0:
        raise TranslateError("db/index.js could not read the database: " + p.stderr[-500:])
    db = json.loads(p.stdout)
    if len(db["forms"]) < 1000:
        raise TranslateError("implausibly small database")
    return db


def form_key(f):
    return "%s\t%s\t%s" % (f["name"], f["arch"], ",".join(("<%s>" % o["data"]) if o["implicit"] else o["data"] for o in f["operands"]))


def token(i):
    """identity of an instance inside its form: mode, instantiation kind and a checksum of the operands (two database forms
    can share name/arch/operand text, e.g. a VEX and an EVEX form)"""
    return "%d:%s:%06x" % (i["mode"], i["kind"], zlib.crc32(i["line"].encode()) & 0xFFFFFF)


def norm(t):
    return re.sub(r"i:[0-9a-f]+", "i", t)


def instantiate(db, name2id):
    """-> list of dicts {line, mode, form (key), kind, allowed (bool: the database allows the mode)}"""
    allowed = {32: {}, 64: {}}
    excl = {32: {}, 64: {}}
    for f in db["forms"]:
        if f["name"] not in name2id:
            continue
        key = form_key(f)
        for mode in (32, 64):
            ok = mode in x86forms.arch_modes(f["arch"])
            for tail, kind in x86forms.instances_of_form(f, name2id[f["name"]], mode):
                (allowed if ok else excl)[mode].setdefault(tail, (key, kind))
    out = []
    for mode in (32, 64):
        nallowed = {norm(t) for t in allowed[mode]}
        for t, (key, kind) in allowed[mode].items():
            out.append({"line": "inst %d %s" % (mode, t), "mode": mode, "form": key, "kind": kind, "allowed": True})
        for t, (key, kind) in excl[mode].items():
            if norm(t) not in nallowed:
                out.append({"line": "inst %d %s" % (mode, t), "mode": mode, "form": key, "kind": kind, "allowed": False})
    return out


def load_implemented():
    impl = set()
    if not IMPL.exists():
        raise TranslateError("lean/implemented_forms.txt is missing")
    for line in IMPL.read_text().splitlines():
        if not line or line.startswith("#"):
            continue
        key, toks = line.rsplit("\t", 1)
        for t in toks.split():
            impl.add((key, t))
    return impl


def write_implemented(insts, answers):
    by = {}
    for i, a in zip(insts, answers):
        if i["allowed"] and a.startswith("v=Ok e0=Ok:"):
            by.setdefault(i["form"], []).append(token(i))
    s = "# instances of ISA-database forms (tools/x86forms.py) the pinned release accepts (validate = Ok and emit = Ok);\n"
    s += "# <name>\\t<arch>\\t<operands>\\t<mode>:<instantiation kind>:<crc24 of the instance line> ...   regenerate: python3 tools/gen_x86forms.py --vendor\n"
    for k in sorted(by):
        s += "%s\t%s\n" % (k, " ".join(sorted(set(by[k]))))
    IMPL.write_text(s)
    return sum(len(set(v)) for v in by.values())


# ---- Lean rendering: an instance is a list of naturals (decoded by Spec/X86Forms.lean `decodeInstance`) ----------------
def encode_line(line):
    w = line.split()
    mode, iid, opts, extra, ops = int(w[1]), int(w[2]), int(w[3], 16), w[4], w[5:]
    out = [1 if mode == 32 else 2, iid, opts]
    if extra == "-":
        out += [0, 0, 0]
    else:
        f = extra.split(":")
        out += [1, int(f[1]), int(f[2])]
    for o in ops:
        f = o.split(":")
        if f[0] == "n":
            out += [0]
        elif f[0] == "r":
            out += [1, int(f[1]), int(f[2])]
        elif f[0] == "m":
            out += [2, int(f[1]), int(f[2]), int(f[3]), int(f[4]), int(f[5]), int(f[6]), int(f[7]) % (1 << 64), int(f[8]), int(f[9])]
        elif f[0] == "i":
            out += [3, int(f[1], 16)]
        elif f[0] == "l":
            out += [4]
        else:
            raise TranslateError("bad operand " + o)
    return out


NBUCKETS = 64     # rows are bucketed by the instruction *name* so that a change touches only its bucket's module


def pack(rows):
    """rows (lists of naturals < 2^64) -> (one natural whose base-2^65 digits are the fields, each row followed by MARK;
    number of digits). A list literal of thousands of rows takes Lean minutes to elaborate, a numeral milliseconds."""
    digits = []
    for r in rows:
        digits += r + [MARK]
    n = 0
    for d in reversed(digits):
        n = (n << 65) | d
    return n, len(digits)


MARK = 1 << 64      # row terminator; every field is < 2^64


def resolved(sig, iid):
    """the data of one instruction as Model/X86Validate.lean `resolve` computes it"""
    iflags, avx, si, sc = sig["insts"][iid]
    rows = []
    for oc, mode, ic, idx in sig["isigs"][si:si + sc]:
        rows.append((oc, mode, ic, tuple(sig["osigs"][k] for k in idx[:oc])))
    return (iflags, avx, tuple(rows), dict(sig["enc"]).get(iid, 0))


def render_buckets(sig, id2name, allow_lines, exclude_lines):
    """-> {relative path: content}, number of buckets. One module per bucket: the packed rows, the instruction data the
    rows need (copied from the signature tables; Gen/X86FormsLink.lean proves the copy faithful) and the `decide +kernel`
    lemma. A bucket module does not import the big tables, so it is re-proved only when its own content changes."""
    buckets = [[] for _ in range(NBUCKETS)]
    for exp, lines in ((1, allow_lines), (0, exclude_lines)):
        for l in lines:
            iid = int(l.split()[2])
            buckets[zlib.crc32(id2name.get(iid, "?").encode()) % NBUCKETS].append([exp] + encode_line(l))
    files = {}
    for k, rows in enumerate(buckets):
        ids = sorted({r[2] for r in rows})
        rowsets = {}
        s = "/- GENERATED by tools/gen_x86forms.py - do not edit. Bucket %d of the instantiated ISA-database forms. -/\n" % k
        s += "import AsmjitVerif.Spec.X86Forms\nset_option maxRecDepth 1000000\nnamespace AsmjitVerif.Gen.X86Bucket%d\n" % k
        s += "open AsmjitVerif.X86Validate AsmjitVerif.X86Forms\n\n"
        body = ""
        for iid in ids:
            iflags, avx, rws, pk = resolved(sig, iid)
            if rws not in rowsets:
                rowsets[rws] = "rows%d" % len(rowsets)
                s += "def %s : List (Nat × Nat × Nat × List (Nat × Nat)) := [%s]\n" % (rowsets[rws], ", ".join(
                    "(%d, %d, %d, [%s])" % (oc, m, ic, ", ".join("(0x%x, 0x%x)" % o for o in refs)) for oc, m, ic, refs in rws))
            body += "  (%d, { iflags := 0x%x, avx := 0x%x, rows := %s, enc := %d }),\n" % (iid, iflags, avx, rowsets[rws], pk)
        s += "\ndef insts : List (Nat × ResolvedInst) := [\n%s]\n\n" % body.rstrip(",\n")
        v, n = pack(rows)
        s += "def rows : Nat × Nat := (0x%x, %d)\ndef rowCount : Nat := %d\n\n" % (v, n, len(rows))
        s += "theorem bucket_ok : bucketOk insts rows = true := by decide +kernel\n\nend AsmjitVerif.Gen.X86Bucket%d\n" % k
        files["AsmjitVerif/Gen/X86Bucket%d.lean" % k] = s
    NLINK = 8
    for p in range(NLINK):
        ks = list(range(NBUCKETS))[p::NLINK]
        s = "/- GENERATED by tools/gen_x86forms.py: the buckets' copies of the instruction data are what the signature tables say. -/\n"
        s += "".join("import AsmjitVerif.Gen.X86Bucket%d\n" % k for k in ks) + "import AsmjitVerif.Gen.X86Sig\n"
        s += "set_option maxRecDepth 1000000\nnamespace AsmjitVerif.Gen.X86FormsLink\nopen AsmjitVerif.X86Validate AsmjitVerif.X86Forms\n\n"
        for k in ks:
            s += "theorem resolved%d : resolvedOk AsmjitVerif.Gen.X86Sig.tables X86Bucket%d.insts = true := by decide +kernel\n" % (k, k)
        s += "\nend AsmjitVerif.Gen.X86FormsLink\n"
        files["AsmjitVerif/Gen/X86FormsLink%d.lean" % p] = s
    s = "/- GENERATED by tools/gen_x86forms.py -/\n" + "".join("import AsmjitVerif.Gen.X86FormsLink%d\n" % p for p in range(NLINK))
    s += "set_option maxRecDepth 1000000\nnamespace AsmjitVerif.Gen.X86FormsLink\nopen AsmjitVerif.X86Validate AsmjitVerif.X86Forms\n\n"
    s += "def buckets : List (List (Nat × ResolvedInst) × (Nat × Nat)) := [\n  %s]\n\n" % ",\n  ".join(
        "(X86Bucket%d.insts, X86Bucket%d.rows)" % (k, k) for k in range(NBUCKETS))
    s += "def allowCount : Nat := %d\ndef excludeCount : Nat := %d\n\n" % (len(allow_lines), len(exclude_lines))
    s += "theorem all_ok : ∀ b ∈ buckets, resolvedOk AsmjitVerif.Gen.X86Sig.tables b.1 = true ∧ bucketOk b.1 b.2 = true := by\n  intro b hb\n"
    s += "  simp only [buckets, List.mem_cons, List.not_mem_nil, or_false] at hb\n"
    s += "  rcases hb with " + " | ".join("h" for _ in range(NBUCKETS)) + "\n"
    s += "".join("  · subst h; exact ⟨resolved%d, X86Bucket%d.bucket_ok⟩\n" % (k, k) for k in range(NBUCKETS))
    s += "\nend AsmjitVerif.Gen.X86FormsLink\n"
    files["AsmjitVerif/Gen/X86FormsLink.lean"] = s
    return files


NJUST = 8


def render_sound(db, name2id, count):
    """-> {relative path: content}: the database forms of every instruction as kind sets (tools/x86just.py) and one
    `decide +kernel` lemma per part: every kind tuple a signature row admits is an instance of a database form."""
    import x86just
    forms = {}
    for f in db["forms"]:
        if f["name"] in name2id:
            forms.setdefault(name2id[f["name"]], []).append(({"ANY": 3, "X86": 1, "X64": 2}[f["arch"]], x86just.form_kinds(f)))
    ids = list(range(1, count))
    files = {}
    for p in range(NJUST):
        s = "/- GENERATED by tools/gen_x86forms.py from db/isa_x86.json (through db/index.js, read by tools/x86just.py) - do not edit. -/\n"
        s += "import AsmjitVerif.Spec.X86Sound\nimport AsmjitVerif.Gen.X86Sig\nset_option maxRecDepth 1000000\n"
        s += "namespace AsmjitVerif.Gen.X86Just\nopen AsmjitVerif.X86Sound\n\n"
        rows = []
        for i in ids[p::NJUST]:
            fs = sorted(set((m, tuple(k)) for m, k in forms.get(i, [])))
            rows.append("  (%d, [%s])" % (i, ", ".join("(%d, [%s])" % (m, ", ".join("0x%x" % x for x in k)) for m, k in fs)))
        s += "def forms%d : List (Nat × List DbForm) := [\n%s]\n\n" % (p, ",\n".join(rows))
        s += "theorem sound%d : forms%d.all (instSound AsmjitVerif.Gen.X86Sig.tables) = true := by decide +kernel\n\n" % (p, p)
        s += "end AsmjitVerif.Gen.X86Just\n"
        files["AsmjitVerif/Gen/X86Just%d.lean" % p] = s
    s = "/- GENERATED by tools/gen_x86forms.py -/\n" + "".join("import AsmjitVerif.Gen.X86Just%d\n" % p for p in range(NJUST))
    s += "set_option maxRecDepth 1000000\nnamespace AsmjitVerif.Gen.X86Just\nopen AsmjitVerif.X86Sound\n\n"
    s += "def parts : List (List (Nat × List DbForm)) := [%s]\n\n" % ", ".join("forms%d" % p for p in range(NJUST))
    s += "theorem all_sound : ∀ part ∈ parts, part.all (instSound AsmjitVerif.Gen.X86Sig.tables) = true := by\n  intro part hp\n"
    s += "  simp only [parts, List.mem_cons, List.not_mem_nil, or_false] at hp\n  rcases hp with " + " | ".join("h" for _ in range(NJUST)) + "\n"
    s += "".join("  · subst h; exact sound%d\n" % p for p in range(NJUST))
    s += "\n/-- every instruction id has an entry -/\ntheorem all_ids : ((List.range %d).all fun i => i == 0 || (parts.flatMap id).any (·.1 == i)) = true := by decide +kernel\n" % count
    s += "\nend AsmjitVerif.Gen.X86Just\n"
    files["AsmjitVerif/Gen/X86JustAll.lean"] = s
    return files


if __name__ == "__main__":
    import sys
    import gen_names
    if "--vendor" in sys.argv:
        h = vlib.build_harness("c13")
        archs = gen_names.parse_dump(vlib.sh([str(h), "dump-names"]).stdout)
        name2id = {bytes(n).decode(): i for i, n in enumerate(archs["x86"]["names"]) if i}
        insts = instantiate(load_db(), name2id)
        out, rc, err = vlib.run_lines([str(h)], [i["line"] for i in insts])
        assert rc == 0 and len(out) == len(insts), err[-500:]
        print("vendored %d instances of %d" % (write_implemented(insts, out), len(insts)))
