#!/usr/bin/env python3
"""Entry point of every registered check:  check.py <Cxx> [--tier quick|thorough] | setup | replay <file>."""
import argparse
import importlib
import json
import os
import sys
import traceback
from pathlib import Path

sys.path.insert(0, str(Path(__file__).resolve().parent))
import vlib


def main():
    ap = argparse.ArgumentParser()
    ap.add_argument("what")
    ap.add_argument("arg", nargs="?")
    ap.add_argument("--tier", default=os.environ.get("VERIF_TIER", "quick"), choices=["quick", "thorough"])
    a = ap.parse_args()
    seed = int(os.environ.get("VERIF_SEED", "1") or 1)

    if a.what == "setup":
        vlib.ensure_lib("asan")
        # regenerate every Gen/ file from /repo before building Lean (Gen/ is not committed)
        for f in sorted((Path(__file__).resolve().parent / "props").glob("c[0-9][0-9].py")):
            mod = importlib.import_module("props." + f.stem)
            if hasattr(mod, "generate"):
                try:
                    mod.generate()
                except Exception as e:   # the check itself will report it as a broken obligation
                    vlib.log("[setup] %s.generate failed: %s" % (f.stem, e))
        ok, out = vlib.lake_build(["AsmjitVerif", "vdriver"])
        if not ok:
            print(out[-6000:])
            return 1
        return 0

    if a.what == "replay":
        data = json.loads(Path(a.arg).read_text())
        mod = importlib.import_module("props." + data["property"].lower())
        return mod.replay(data)

    pid = a.what.upper()
    mod = importlib.import_module("props." + pid.lower())
    res = vlib.Result(pid, a.tier, seed)
    try:
        mod.run(res)
    except vlib.BuildError as e:
        res.violation("build of the current tree / harness failed: %s" % str(e)[:1500], {"build_error": str(e)[:4000]},
                      found_input=False, key="build")
    except Exception:
        tb = traceback.format_exc()
        vlib.log(tb)
        res.violation("check crashed: " + tb[-1500:], {"traceback": tb}, found_input=False, key="crash")
    return vlib.finish(res)


if __name__ == "__main__":
    sys.exit(main())
