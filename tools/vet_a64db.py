"""Offline vetting of db/isa_aarch64.json against llvm-mc-14 (not part of the registered check).

Runs the C02 sweep against VERIF_REPO, takes every accepted line the Lean monitor rejects, assembles the same
instruction with llvm-mc-14 and, where the independent assembler produces exactly the word AsmJit produced, records a
database erratum for the form the line was generated from:
  * "new_value": the fixed bits of the template are wrong (value recomputed from the agreeing words, same mask)
  * "relax":     the operand pattern of the row is wrong / not expressible: the row is judged on its template only
Entries already present in tools/a64db_errata.json (hand-written ones included) are kept.
usage: VERIF_REPO=<fixed tree> python3 tools/vet_a64db.py [seed]
"""
import json
import sys
import collections
from pathlib import Path
sys.path.insert(0, str(Path(__file__).resolve().parent))
import vlib, gen_a64, a64_gnu
from props import c02


def main():
    seed = int(sys.argv[1]) if len(sys.argv) > 1 else 1
    forms, applied, insts, rows, enc, h = c02.generate()
    vlib.lake_build(["vdriver"])
    name2ids = {}
    for r in insts[1:]:
        name2ids.setdefault(r["name"], []).append(r["id"])
    rng = vlib.rng_for(seed, "C02")
    ops, meta = c02.gen_ops(forms, name2ids, rng, sys.argv[2] if len(sys.argv) > 2 else "quick")
    impl, rc, err = vlib.run_lines([str(h)], ops)
    assert rc == 0 and len(impl) == len(ops), err[-500:]
    mon, _, _ = vlib.run_model("C02", ["mon " + o[5:] + " => " + r for o, r in zip(ops, impl)])
    bad = [i for i, m in enumerate(mon) if m.startswith("BAD") and impl[i].startswith("ok") and len(impl[i].split()) == 2]
    texts = [a64_gnu.text_of(ops[i], insts) for i in bad]
    idx = [k for k, t in enumerate(texts) if t]
    res = a64_gnu.llvm_assemble([texts[k] for k in idx])
    assert res is not None
    agree = collections.defaultdict(list)     # form index -> [(word, monitor)]
    disagree = collections.Counter()
    for k, r in zip(idx, res):
        i = bad[k]
        if any(t in meta[i][1] for t in ("regtype", "elemtype", "elemidx", "kind", "combo", "opcount")):
            continue      # the line no longer has the operand kinds of the row it was derived from: do not attribute it to the row
        w = int(impl[i].split()[1], 16)
        if r == w:
            agree[meta[i][0]].append((w, mon[i], ops[i], texts[k]))
        else:
            disagree[meta[i][0]] += 1
    er = json.loads(gen_a64.ERRATA.read_text()) if gen_a64.ERRATA.exists() else []
    have = {(e["name"], tuple(e["ops"]), e["op"]) for e in er}
    added = 0
    for fi, lst in sorted(agree.items()):
        f = forms[fi]
        key = (f["key"][0], tuple(f["key"][1]), f["key"][2])
        if key in have:
            # already corrected once and still rejected: relax it
            for e in er:
                if (e["name"], tuple(e["ops"]), e["op"]) == key and not e.get("relax") and not e.get("hand"):
                    e["relax"] = True
                    e["source"] += "; still rejected after the template correction -> template only"
            continue
        kinds = {m for _, m, _, _ in lst}
        vals = {w & f["mask"] for w, _, _, _ in lst}
        e = {"name": key[0], "ops": list(key[1]), "op": key[2], "example": lst[0][3], "example_word": "%08x" % lst[0][0]}
        if kinds == {"BAD no-template-of-this-mnemonic-matches"} and len(vals) == 1:
            e["new_value"] = "%08x" % vals.pop()
            e["source"] = "llvm-mc-14 assembles %d swept instructions of this row to the same words as the assembler; fixed bits of the row differ" % len(lst)
        else:
            e["relax"] = True
            e["source"] = "llvm-mc-14 assembles %d swept instructions of this row to the same words as the assembler; operand pattern of the row does not describe them" % len(lst)
        er.append(e)
        have.add(key)
        added += 1
    gen_a64.ERRATA.write_text(json.dumps(er, indent=1) + "\n")
    print("errata: %d entries (+%d); forms where llvm disagrees with the assembler: %d" % (len(er), added, len(disagree)))


if __name__ == "__main__":
    main()
