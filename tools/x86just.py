"""Independent reading of the ISA database operands as OpFlags sets (NOT through tools/tablegen-x86.js): which operand
kinds does each database form admit at each position. Used for the per-position soundness of the signature rows."""
F = dict(GpbLo=0x1, GpbHi=0x2, Gpw=0x4, Gpd=0x8, Gpq=0x10, Xmm=0x20, Ymm=0x40, Zmm=0x80, Mm=0x100, KReg=0x200, SReg=0x400, CReg=0x800,
         DReg=0x1000, St=0x2000, Bnd=0x4000, Tmm=0x8000,
         MemU=0x40000, M8=0x80000, M16=0x100000, M32=0x200000, M48=0x400000, M64=0x800000, M80=0x1000000, M128=0x2000000,
         M256=0x4000000, M512=0x8000000, M1024=0x10000000,
         Vm32x=0x40000000, Vm32y=0x80000000, Vm32z=0x100000000, Vm64x=0x200000000, Vm64y=0x400000000, Vm64z=0x800000000,
         I4=0x1000000000, U4=0x2000000000, I8=0x4000000000, U8=0x8000000000, I16=0x10000000000, U16=0x20000000000,
         I32=0x40000000000, U32=0x80000000000, I64=0x100000000000, U64=0x200000000000, Rel8=0x400000000000, Rel32=0x800000000000)
OPMASK = 0xFFFF | 0x1FFC0000 | 0xFC0000000 | 0x3FF000000000 | 0xC00000000000
NAMES = {v: k for k, v in F.items()}
REG = {"r8": F["GpbLo"] | F["GpbHi"], "r16": F["Gpw"], "r32": F["Gpd"], "r64": F["Gpq"], "xmm": F["Xmm"], "ymm": F["Ymm"], "zmm": F["Zmm"],
       "mm": F["Mm"], "k": F["KReg"], "k+1": F["KReg"], "sreg": F["SReg"], "creg": F["CReg"], "dreg": F["DReg"], "st(i)": F["St"],
       "st(0)": F["St"], "bnd": F["Bnd"], "tmm": F["Tmm"], "xmm0": F["Xmm"],
       "al": F["GpbLo"], "cl": F["GpbLo"], "dl": F["GpbLo"], "bl": F["GpbLo"], "ah": F["GpbHi"],
       "ax": F["Gpw"], "cx": F["Gpw"], "dx": F["Gpw"], "bx": F["Gpw"], "eax": F["Gpd"], "ecx": F["Gpd"], "edx": F["Gpd"], "ebx": F["Gpd"],
       "rax": F["Gpq"], "rcx": F["Gpq"], "rdx": F["Gpq"], "rbx": F["Gpq"],
       "es": F["SReg"], "cs": F["SReg"], "ss": F["SReg"], "ds": F["SReg"], "fs": F["SReg"], "gs": F["SReg"]}
MEMBITS = {8: "M8", 16: "M16", 32: "M32", 48: "M48", 64: "M64", 80: "M80", 128: "M128", 256: "M256", 512: "M512", 1024: "M1024"}


def kinds(o):
    """OpFlags kind bits one database operand admits (0 = cannot read it)"""
    fl = 0
    if o["imm"]:
        if o.get("immValue") is not None:
            return F["I8"] | F["U8"]          # a literal `1`: any class that can hold it is a spelling of the same operand
        sign = o.get("immSign", "")
        b = o["imm"]
        if b == 4:
            return F["I4"] | F["U4"]
        names = {"signed": ["I%d"], "unsigned": ["U%d"]}.get(sign, ["I%d", "U%d"])
        for n in names:
            fl |= F.get(n % b, 0)
        return fl
    if o["rel"]:
        return {8: F["Rel8"], 16: F["Rel32"], 32: F["Rel32"]}.get(o["rel"], 0)
    if o["reg"]:
        fl |= REG.get(o["reg"], 0)
        if not REG.get(o["reg"]):
            return 0
    if o["mem"]:
        if o.get("vsibReg"):
            fl |= F["Vm%d%s" % (o["vsibSize"], o["vsibReg"][0])]
        else:
            ms = o["memSize"]
            if o["mem"] in ("m16_16", "m16_32", "m16_64"):
                ms = {"m16_16": 32, "m16_32": 48, "m16_64": 80}[o["mem"]]
            fl |= F[MEMBITS[ms]] if ms in MEMBITS else F["MemU"]
    return fl


def names_of(fl):
    return "|".join(NAMES[1 << i] for i in range(64) if fl >> i & 1 and (1 << i) in NAMES)


MEM_ANY = sum(F[n] for n in ("MemU", "M8", "M16", "M32", "M48", "M64", "M80", "M128", "M256", "M512", "M1024"))
MEM_OR_VM = 0x1FFC0000 | 0xFC0000000


def form_kinds(f):
    """per-position kind sets of one database form, with the three readings AsmJit documents on top of the database:
    (a) a memory operand may be given without size (`mem`), (b) the target of a relative branch may be given as an
    absolute address (an immediate), (c) the memory operand of `lea` is an address expression - its size is ignored."""
    out = []
    for o in f["operands"]:
        k = kinds(o)
        if k & MEM_OR_VM:
            k |= F["MemU"]
        if k & (F["Rel8"] | F["Rel32"]):
            k |= F["I32"] | F["I64"]
        if f["name"] == "lea" and k & MEM_OR_VM:
            k |= MEM_ANY
        out.append(k)
    return out
