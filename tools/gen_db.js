// Dumps the x86 ISA database through the repository's own reader (db/index.js) as JSON on stdout.
// usage: node gen_db.js <repo>
"use strict";
const path = require("path");
const repo = process.argv[2] || "/repo";
const db = require(path.join(repo, "db", "index.js"));
const isa = new db.x86.ISA(require(path.join(repo, "db", "isa_x86.json")));
const forms = [];
for (const name of isa.instructionNames) {
  for (const i of isa.query(name)) {
    forms.push({
      name: i.name, arch: i.arch, encoding: i.encoding, opcode: i.opcodeString, prefix: i.prefix,
      k: i.k, kmask: i.kmask, zmask: i.zmask, er: i.er, sae: i.sae, broadcast: i.broadcast, bcstSize: i.bcstSize,
      aliasOf: i.aliasOf, ext: Object.keys(i.ext || {}), privilege: i.privilege, vsibReg: i.vsibReg, vsibSize: i.vsibSize,
      prefixes: i.prefixes || {},
      operands: i.operands.map(o => ({
        data: o.data, reg: o.reg, mem: o.mem, imm: o.imm, rel: o.rel, regType: o.regType, memSize: o.memSize,
        implicit: !!o.implicit, optional: !!o.optional, restrict: o.restrict, memSegment: o.memSegment, memRegOnly: o.memRegOnly || "", memOff: !!o.memOff,
        memFar: !!o.memFar, vsibReg: o.vsibReg, vsibSize: o.vsibSize, bcstSize: o.bcstSize, immValue: o.immValue,
        immSign: o.immSign, read: !!o.read, write: !!o.write
      }))
    });
  }
}
process.stdout.write(JSON.stringify({names: isa.instructionNames, aliases: isa.aliases, forms: forms}));
