"""Translator for C11 (process-wide caches, the lock itself): clang-14 JSON AST -> lean/AsmjitVerif/Gen/StaticDecls.lean.

  staticDecls  : (translation unit, symbol, declared type)   for every object tools/gen_statics.py found in a writable data section
                 (the symbol comes from objdump, the type from the VarDecl of that name inside the function the symbol names) -
                 the theorem wants `std::atomic<...>` unless the object is published by an atomic flag or is a hook variable;
  publishEvents: per init-once accessor (CpuInfo::host, VirtMem::info) the accesses to the atomic flag and to the object it
                 publishes, in source order with their block depth: load / store (flag), write / read (object);
  lockCalls    : functions called by Lock::lock / Lock::unlock / LockGuard's constructor and destructor (osutils_p.h as compiled here).
The judgement is in Props/C11.lean."""
import re
import ast_locks

INIT_ONCE = [  # file, ast filter, function, flag, published object
    ("asmjit/core/cpuinfo.cpp", "CpuInfo::host", "host", "cpu_info_initialized_flag", "cpu_info_global"),
    ("asmjit/core/virtmem.cpp", "VirtMem::info", "info", "vm_info_initialized", "vm_info"),
]


class TranslateError(Exception):
    pass


def walk_vars(n, ctx, out):
    if not isinstance(n, dict):
        return
    k, name = n.get("kind"), n.get("name")
    if k in ("FunctionDecl", "CXXMethodDecl", "CXXConstructorDecl", "CXXRecordDecl", "NamespaceDecl") and name:
        ctx = ctx + [name]
    if k == "VarDecl" and name:
        out.append(("::".join(ctx), name, n.get("type", {}).get("qualType", "?"), n.get("storageClass"), n.get("id")))
    for c in n.get("inner", []) or []:
        walk_vars(c, ctx, out)


def decl_types(repo, writable):
    """writable: [(tu, symbol)] from gen_statics -> [(tu, symbol, type)]"""
    cache, out = {}, []
    for tu, sym in writable:
        if sym.startswith("guard variable for ") or sym.startswith("<unnamed"):
            out.append((tu, sym, "<compiler>" if sym.startswith("guard") else "?"))
            continue
        m = re.match(r"^(.*?)\(.*\)::(\w+)$", sym)
        if m:
            func, var = re.sub(r"^asmjit::", "", m.group(1)), m.group(2)
            filt, fname = func, func.split("::")[-1]
        else:
            var = sym.split("::")[-1]
            filt, fname = var, None
        key = (tu, filt)
        if key not in cache:
            try:
                objs = ast_locks.ast_objects(repo, tu, filt)
            except ast_locks.TranslateError as e:
                raise TranslateError(str(e))
            vs = []
            for o in objs:
                walk_vars(o, [], vs)
            cache[key] = vs
        cands = [v for v in cache[key] if v[1] == var and (fname is None or v[0].split("::")[-1] == fname) and (fname is None or v[3] == "static")]
        types = sorted({v[2] for v in cands})
        out.append((tu, sym, types[0] if len(types) == 1 else "?"))
    return out


def strip(n):
    while n.get("kind") in ("ImplicitCastExpr", "ParenExpr", "CXXStaticCastExpr", "MaterializeTemporaryExpr", "CXXBindTemporaryExpr", "ExprWithCleanups") and n.get("inner"):
        n = n["inner"][0]
    return n


def publish_events(repo):
    out = []
    for rel, filt, fname, flag, obj in INIT_ONCE:
        objs = ast_locks.ast_objects(repo, rel, filt)
        fns = []

        def find(n):
            if isinstance(n, dict):
                if n.get("kind") in ("FunctionDecl", "CXXMethodDecl") and n.get("name") == fname and any(c.get("kind") == "CompoundStmt" for c in n.get("inner", []) or []):
                    fns.append(n)
                for c in n.get("inner", []) or []:
                    find(c)
        for o in objs:
            find(o)
        if len(fns) != 1:
            raise TranslateError("%s: %d definitions of %s" % (rel, len(fns), fname))
        vs = []
        walk_vars(fns[0], [], vs)
        ids = {v[1]: v[4] for v in vs if v[1] in (flag, obj)}
        if set(ids) != {flag, obj}:
            raise TranslateError("%s: %s no longer declares %s and %s" % (rel, fname, flag, obj))
        evs = []

        def refers(n, vid):
            n = strip(n)
            return n.get("kind") == "DeclRefExpr" and n.get("referencedDecl", {}).get("id") == vid

        def walk(n, depth):
            k = n.get("kind")
            inner = n.get("inner", []) or []
            if k == "CXXMemberCallExpr" and inner and inner[0].get("kind") == "MemberExpr" and inner[0].get("inner") and refers(inner[0]["inner"][0], ids[flag]):
                nm = inner[0].get("name")
                evs.append(("load" if nm == "load" else "store" if nm == "store" else "flag-" + str(nm), depth))
                for c in inner[1:]:
                    walk(c, depth)
                return
            if k == "CXXOperatorCallExpr" and len(inner) >= 3 and strip(inner[0]).get("referencedDecl", {}).get("name") == "operator=" and refers(inner[1], ids[obj]):
                for c in inner[2:]:
                    walk(c, depth)
                evs.append(("write", depth))
                return
            if k in ("BinaryOperator", "CompoundAssignOperator") and (k == "CompoundAssignOperator" or n.get("opcode") == "=") and len(inner) == 2 and refers(inner[0], ids[obj]):
                walk(inner[1], depth)
                evs.append(("write", depth))
                return
            if k == "DeclRefExpr":
                rid = n.get("referencedDecl", {}).get("id")
                if rid == ids[obj]:
                    evs.append(("read", depth))
                elif rid == ids[flag]:
                    evs.append(("flag-other", depth))
                return
            d = depth + 1 if k == "CompoundStmt" else depth
            for c in inner:
                walk(c, d)
        walk(fns[0], 0)
        out.append((rel, fname, evs))
    return out


def lock_calls(repo):
    objs = ast_locks.ast_objects(repo, "asmjit/core/jitallocator.cpp", "Lock")
    want = {"Lock::lock", "Lock::unlock", "LockGuard::LockGuard", "LockGuard::~LockGuard"}
    out = {}

    def callees(n, acc):
        if isinstance(n, dict):
            if n.get("kind") in ("CallExpr", "CXXMemberCallExpr") and n.get("inner"):
                c = strip(n["inner"][0])
                nm = c.get("referencedDecl", {}).get("name") or c.get("name")
                if nm:
                    acc.append(nm)
            for c in n.get("inner", []) or []:
                callees(c, acc)

    def visit(n, cls):
        if not isinstance(n, dict):
            return
        k = n.get("kind")
        if k == "CXXRecordDecl" and n.get("name") in ("Lock", "LockGuard"):
            cls = n["name"]
        if k in ("CXXMethodDecl", "CXXConstructorDecl", "CXXDestructorDecl") and any(c.get("kind") == "CompoundStmt" for c in n.get("inner", []) or []):
            owner = cls
            if owner is None:
                # out-of-line definition: the qualified owner is not in the JSON; resolve through the name of the method
                owner = "LockGuard" if "LockGuard" in n.get("name", "") else "Lock"
            q = "%s::%s" % (owner, n.get("name"))
            if q in want:
                acc = []
                for c in n.get("inner", []) or []:
                    if c.get("kind") == "CompoundStmt":
                        callees(c, acc)
                out[q] = acc
        for c in n.get("inner", []) or []:
            visit(c, cls)
    for o in objs:
        visit(o, None)
    missing = want - set(out)
    if missing:
        raise TranslateError("lock wrappers not found in the AST: %s" % sorted(missing))
    return sorted(out.items())


def q(s):
    return '"' + s.replace("\\", "\\\\").replace('"', '\\"') + '"'


def render(decls, pubs, locks):
    s = ("-- GENERATED by tools/ast_statics.py (clang AST of the current /repo sources + the objdump listing). Do not edit.\n"
         "namespace AsmjitVerif.LockMap\n\n")
    s += "def staticDecls : List (String × String × String) := [\n  " + ",\n  ".join("(%s, %s, %s)" % (q(a), q(b), q(c)) for a, b, c in decls) + "]\n\n"
    s += "def publishEvents : List (String × List (String × Nat)) := [\n  " + ",\n  ".join(
        "(%s, [%s])" % (q(rel + ":" + fn), ", ".join("(%s, %d)" % (q(k), d) for k, d in evs)) for rel, fn, evs in pubs) + "]\n\n"
    s += "def lockCalls : List (String × List String) := [\n  " + ",\n  ".join(
        "(%s, [%s])" % (q(k), ", ".join(q(x) for x in v)) for k, v in locks) + "]\n\n"
    return s + "end AsmjitVerif.LockMap\n"


if __name__ == "__main__":
    import sys
    import glob
    import gen_statics
    w, _, _ = gen_statics.collect(sys.argv[2])
    repo = sys.argv[1]
    print(render(decl_types(repo, w), publish_events(repo), lock_calls(repo)))
