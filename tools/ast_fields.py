"""Translator for C16 T(a): clang-14 JSON AST of the holder / emitter / RA / arena sources -> lean/AsmjitVerif/Gen/ResetMap.lean.

Two things are extracted from the *current* sources (path of the tree is a parameter):

  records   for every mapped record (CodeHolder, Section, ..., Arena): its base class and its non-static data members in
            declaration order; a member whose type is itself a mapped record carries that record's name (Lean expands it
            into leaf paths), a member of constant array type carries its length.
  functions for every function that takes part in a recycle path (ROOTS) and every helper / inline method of a mapped
            record reachable from them: the body as a tree of events in source order
              w obj path full     member `path` of object `obj` is written.  full = true : the whole member is overwritten
                                  (`x = e`, `x = T{}`, constructor initialiser, `x.reset(..)` / `.clear()` / `.fill(..)` /
                                  `.for_each(<lambda that resets its argument>)`, memset/memcpy with a `sizeof` length).
                                  full = false: read-modify-write or partial (`|=`, `++`, `x.append(..)`, passed by non-const
                                  reference / pointer to a function outside the map, memcpy with a run-time length).
                                  An array element `a[i]` is the path [.., "a", "[i]"] (i = value of a literal / enumerator, or "?").
                                  Overwriting a whole member of the union FixedString (`_name.str`, both members span the union)
                                  is recorded as overwriting the union (`_name`).
              call fn binds       call of a function whose body is in the map; binds = [(callee object, caller object,
                                  path prefix)] for `this` and for every pointer / reference parameter of mapped record type
                                  (`Section_init_data(&self->_text_section, ..)` binds section -> (self, [_text_section])).
                                  Virtual calls are resolved by static type, `Base::f()` is exact.
              block [..]          statement executed exactly when its parent is (compound statement, do-while body)
              ite [..] [..]       the two arms of an `if` / `?:` / `&&` `||` right operand (exactly one executes)
              loop [..]           body of for / while / range-for / switch / lambda: may execute zero times
            `obj` is "this", the name of a pointer/reference parameter or local variable of mapped record type; local
            aliases (`Section* s = &self->_text_section;`) are resolved.  A pointer loaded from a field is a different object.
            A local alias that is assigned again is a TranslateError; a pointer variable that is not an alias (`emitter = next`)
            denotes whatever object it points to when the statement runs.
            Early `return`s / `break`s inside conditionals are not events: the Lean theorems speak about runs in which every entry
            function of a recycle path runs to its end (error exits leave the object as it was or detach it again).
            GUARDS lists the `if (<guard>())` statements that are treated as always taken (reviewed, printed into the Lean
            file as `assumedGuards`).

The analysis (inlining, which leaf is definitely re-initialised, keep-lists) is Lean (Model/ResetMap.lean, Props/C16Fields.lean).
`analyse` / `theorem_paths` / `diagnose` at the end of this file repeat that analysis in Python for diagnostics only: they let a
check name the offending member when a Lean theorem stops building (`python3 ast_fields.py <repo> --diagnose`).
A record or ROOT function that cannot be found raises TranslateError: a broken obligation, never a silently empty map.
"""
import json
import re
import subprocess
from concurrent.futures import ThreadPoolExecutor
from pathlib import Path


class TranslateError(Exception):
    pass


# records whose fields are listed (bases that carry fields must be listed as well)
RECORDS = ["CodeHolder", "Section", "SectionOrLabelEntryExtraHeader", "CodeBuffer",
           "BaseEmitter", "BaseAssembler", "BaseBuilder", "BaseCompiler",
           "x86::Assembler", "x86::Builder", "x86::Compiler", "a64::Assembler", "a64::Builder", "a64::Compiler",
           "Pass", "FuncPass", "BaseRAPass", "Arena"]

# bases without data members that are not mapped (checked: a base that is neither mapped nor matched here is an error)
EMPTY_BASES = re.compile(r"^(x86|a64)::Emitter(Explicit|Implicit)T<.*>$")

# (translation unit, -ast-dump-filter) pairs: every class definition and function body we need is inside one of them
DUMPS = [
    ("asmjit/core/codeholder.cpp", "CodeHolder"), ("asmjit/core/codeholder.cpp", "Section"), ("asmjit/core/codeholder.cpp", "CodeBuffer"),
    ("asmjit/core/emitter.cpp", "BaseEmitter"),
    ("asmjit/core/assembler.cpp", "BaseAssembler"),
    ("asmjit/core/builder.cpp", "BaseBuilder"), ("asmjit/core/builder.cpp", "Pass"),
    ("asmjit/core/compiler.cpp", "BaseCompiler"), ("asmjit/core/compiler.cpp", "FuncPass"),
    ("asmjit/core/rapass.cpp", "RAPass"),
    ("asmjit/support/arena.cpp", "Arena"),
    ("asmjit/x86/x86assembler.cpp", "Assembler::on_"), ("asmjit/x86/x86builder.cpp", "x86::Assembler"),
    ("asmjit/x86/x86builder.cpp", "x86::Builder"), ("asmjit/x86/x86compiler.cpp", "x86::Compiler"),
    ("asmjit/arm/a64assembler.cpp", "Assembler::on_"), ("asmjit/arm/a64builder.cpp", "a64::Assembler"),
    ("asmjit/arm/a64builder.cpp", "a64::Builder"), ("asmjit/arm/a64compiler.cpp", "a64::Compiler"),
]

# entry functions and helpers of the recycle paths; all of them must be found ("/n" = overload with n parameters)
ROOTS = [
    "CodeHolder::CodeHolder", "CodeHolder::init/3", "CodeHolder::reinit", "CodeHolder::reset",
    "CodeHolder_detach_emitters", "CodeHolder_reset_env_and_attached_logger_and_eh", "CodeHolder_reset_sections",
    "CodeHolder_reset_containers", "CodeHolder_reset_sections_and_containers", "CodeHolder_init_section_storage",
    "CodeHolder_add_text_section", "Section_init_data", "Section_init_name", "Section_init_buffer",
    "CodeHolder::new_section", "CodeHolder::attach", "CodeHolder::detach",
    "BaseEmitter::on_attach", "BaseEmitter::on_detach", "BaseEmitter::on_reinit", "BaseEmitter::on_settings_updated",
    "BaseEmitter_updateForcedOptions",
    "BaseAssembler::on_attach", "BaseAssembler::on_detach", "BaseAssembler::on_reinit", "BaseAssembler_initSection",
    "BaseBuilder::on_attach", "BaseBuilder::on_detach", "BaseBuilder::on_reinit", "BaseBuilder_clear_all",
    "BaseBuilder_init_section", "BaseBuilder_delete_passes",
    "BaseCompiler::on_attach", "BaseCompiler::on_detach", "BaseCompiler::on_reinit", "BaseCompiler_clear",
    "BaseCompiler_initDefaultPasses",
    "x86::Assembler::on_attach", "x86::Assembler::on_detach", "x86::Builder::on_attach", "x86::Builder::on_detach",
    "x86::Compiler::on_attach", "x86::Compiler::on_detach", "x86::Compiler::on_reinit",
    "a64::Assembler::on_attach", "a64::Assembler::on_detach", "a64::Builder::on_attach", "a64::Builder::on_detach",
    "a64::Compiler::on_attach", "a64::Compiler::on_detach", "a64::Compiler::on_reinit",
    "BaseRAPass::run", "BaseRAPass::run_on_function", "RAPass_prepare_for_function", "RAPass_cleanup_after_function",
    "RAPass_reset_virt_reg_data", "RAPass_prepare_logging", "RAPass_cleanup_logging",
    "Arena::reset", "Arena::_init", "Arena_assign_block",
]

# free functions that may enter the map: file-static helpers named <Record>_xxx
HELPER = re.compile(r"^(CodeHolder|Section|BaseEmitter|BaseAssembler|BaseBuilder|BaseCompiler|RAPass|Arena)_\w+$")

# calls that are not followed (the whole register allocator / code generation proper: they do not take part in recycling)
OPAQUE = {"BaseRAPass::on_perform_all_steps", "BaseRAPass::on_init", "BaseRAPass::on_done"}

# unions all of whose members span the whole union (FixedString<N>: char str[4k] / uint32_t u32[k]): a whole-member write of
# one member is a write of the union
UNIONS = re.compile(r"^FixedString<")

# member functions that overwrite the whole object they are called on
RESET_METHODS = {"reset", "clear", "fill"}

# `if (<guard>()) { ... }` without else, treated as always taken: function -> guard method. Reviewed:
#   CodeHolder::reset: a holder that is not initialised was never used since construction / the last reset, nothing to recycle.
GUARDS = {"CodeHolder::reset": "is_initialized"}

CLOSURE_DEPTH = 4           # helpers are followed this many calls deep below a ROOT
CLANG = ["clang++-14", "-std=gnu++17", "-DASMJIT_STATIC", "-DNDEBUG", "-fsyntax-only", "-Xclang", "-ast-dump=json"]
FUNC_KINDS = ("FunctionDecl", "CXXMethodDecl", "CXXConstructorDecl", "CXXDestructorDecl")
TRANSPARENT_CASTS = {"NoOp", "DerivedToBase", "UncheckedDerivedToBase", "BaseToDerived"}


def ast_objects(repo, rel, filt):
    src = Path(repo) / rel
    if not src.exists():
        raise TranslateError("source file %s is missing" % rel)
    p = subprocess.run(CLANG + ["-I", str(repo), "-Xclang", "-ast-dump-filter=" + filt, str(src)], capture_output=True, text=True)
    if p.returncode != 0:
        raise TranslateError("clang failed on %s: %s" % (rel, p.stderr[-500:]))
    s, dec, i, objs = p.stdout, json.JSONDecoder(), 0, []
    while i < len(s):
        if s[i] != "{":
            j = s.find("\n", i)
            if j < 0:
                break
            i = j + 1
            continue
        o, i = dec.raw_decode(s, i)
        objs.append(o)
    return objs


def mangled_components(m):
    """['asmjit', 'v1_21', 'x86', 'Assembler', 'on_attach'] from _ZN6asmjit5v1_213x869Assembler9on_attachE..."""
    if not m or not m.startswith("_ZN"):
        mm = re.match(r"^_ZL?(\d+)", m or "")
        if mm:
            n = int(mm.group(1))
            return [m[mm.end():mm.end() + n]]
        return []
    i, out = 3, []
    while i < len(m) and m[i] in "rVK":
        i += 1
    while i < len(m):
        if m[i] == "L":
            i += 1
        mm = re.match(r"\d+", m[i:])
        if not mm:
            break
        n = int(mm.group(0))
        i += len(mm.group(0))
        out.append(m[i:i + n])
        i += n
    return out


def strip_ns(parts):
    return [p for p in parts if p != "asmjit" and not re.match(r"^v\d+_\d+$", p) and not p.startswith("_abi_")]


def clean_type(t):
    """'const asmjit::x86::Assembler *' -> 'x86::Assembler'"""
    t = re.sub(r"\b(const|volatile|struct|class)\b", "", t or "")
    t = re.sub(r"[*&]+\s*(const)?\s*$", "", t.strip()).strip()
    t = re.sub(r"\basmjit::(v\d+_\d+::|_abi_\w+::)?", "", t)
    return t.strip()


def type_of(n):
    t = n.get("type", {})
    return t.get("desugaredQualType") or t.get("qualType") or ""


def is_ptr_or_ref(t):
    return bool(re.search(r"[*&]\s*(const)?\s*$", t.strip()))


def is_const_target(t):
    return bool(re.match(r"^\s*const\b", t)) or bool(re.search(r"\bconst\s*[*&]\s*$", t))


class Fn:
    def __init__(self, q, node, body, run, cls):
        self.q, self.node, self.body, self.run, self.cls = q, node, body, run, cls
        self.params = [c for c in node.get("inner", []) or [] if c.get("kind") == "ParmVarDecl"]
        self.events = None


def collect(repo):
    repo = Path(repo)
    with ThreadPoolExecutor(max_workers=3) as ex:
        runs = list(ex.map(lambda d: ast_objects(repo, d[0], d[1]), DUMPS))

    # ------------------------------------------------------------------ pass 1: records and function declarations
    records = {}                      # name -> {"base": str, "fields": [(name, record or "", array length)]}
    fns = {}                          # qualified name -> [Fn]
    by_id = [dict() for _ in runs]    # per clang process: decl id -> qualified name
    const_ids = [set() for _ in runs]  # per clang process: ids of const member functions
    type_alias = {}                   # "BaseAssembler::Base" -> "BaseEmitter" (class-scope typedefs, used for `Base::f()` calls)

    def rec_type(t):
        ct = clean_type(t)
        for _ in range(4):
            if ct in type_alias:
                ct = type_alias[ct]
        return ct

    def qname(node, cls_hint=None):
        comp = strip_ns(mangled_components(node.get("mangledName", "")))
        nm = node.get("name", "?")
        kind = node.get("kind")
        if kind == "FunctionDecl":
            return (None, "::".join(comp) if comp else nm)
        if comp and comp[-1] == nm and kind == "CXXMethodDecl":
            comp = comp[:-1]
        cls = "::".join(comp) if comp else cls_hint
        if kind == "CXXDestructorDecl" and cls:
            nm = "~" + cls.split("::")[-1]
        return (cls, "%s::%s" % (cls, nm) if cls else nm)

    def add_decl(node, ri, cls_hint=None):
        if node.get("kind") not in FUNC_KINDS or node.get("isImplicit"):
            return
        cls, q = qname(node, cls_hint)
        by_id[ri][node["id"]] = q
        if re.search(r"\)\s*const\b", node.get("type", {}).get("qualType", "")):
            const_ids[ri].add(node["id"])
        body = [c for c in node.get("inner", []) or [] if c.get("kind") == "CompoundStmt"]
        if not body:
            return
        eligible = (cls in RECORDS) if cls else bool(HELPER.match(q))
        if not eligible:
            return
        f = Fn(q, node, body[0], ri, cls)
        lst = fns.setdefault(q, [])
        if all(len(g.params) != len(f.params) or g.node.get("mangledName") != node.get("mangledName") for g in lst):
            lst.append(f)

    def record_name(rec):
        for c in rec.get("inner", []) or []:
            if c.get("kind") in ("CXXMethodDecl", "CXXConstructorDecl", "CXXDestructorDecl") and c.get("mangledName") and not c.get("isImplicit"):
                cls, _ = qname(c)
                if cls:
                    return cls
        return rec.get("name", "?")

    def scan_record(rec, ri):
        name = record_name(rec)
        for c in rec.get("inner", []) or []:
            add_decl(c, ri, name)
            if c.get("kind") in ("TypeAliasDecl", "TypedefDecl") and c.get("name"):
                type_alias["%s::%s" % (name, c["name"])] = clean_type(type_of(c))
        if name not in RECORDS or name in records:
            return
        fields = []
        for c in rec.get("inner", []) or []:
            if c.get("kind") == "FieldDecl":
                if not c.get("name"):
                    raise TranslateError("record %s has an anonymous member: the field list would be incomplete" % name)
                t = type_of(c)
                ct = clean_type(t)
                arr = re.search(r"\[(\d+)\]\s*$", t)
                fields.append((c["name"], ct if (ct in RECORDS and not is_ptr_or_ref(t) and not arr) else "", int(arr.group(1)) if arr else 0))
            elif c.get("kind") == "IndirectFieldDecl":
                raise TranslateError("record %s has an anonymous union/struct member" % name)
        base = ""
        for b in rec.get("bases", []) or []:
            bt = clean_type(b.get("type", {}).get("desugaredQualType") or b.get("type", {}).get("qualType", ""))
            if bt in RECORDS:
                if base:
                    raise TranslateError("record %s has two mapped bases" % name)
                base = bt
            elif not (EMPTY_BASES.match(bt) or EMPTY_BASES.match(name.split("::")[0] + "::" + bt)):
                raise TranslateError("record %s has the unmapped base %s (its fields would be missed)" % (name, bt))
        records[name] = {"base": base, "fields": fields}

    for ri, objs in enumerate(runs):
        for o in objs:
            if o.get("kind") == "CXXRecordDecl" and o.get("completeDefinition") and o.get("inner"):
                scan_record(o, ri)
        for o in objs:
            add_decl(o, ri)
    for r in RECORDS:
        if r not in records:
            raise TranslateError("record %s not found in the AST" % r)
        if records[r]["base"] and records[r]["base"] not in RECORDS:
            raise TranslateError("base of %s is not mapped" % r)

    def find_fn(q, nargs=None):
        """q may carry an explicit '/n'"""
        m = re.match(r"^(.*)/(\d+)$", q)
        if m:
            q, nargs = m.group(1), int(m.group(2))
        lst = fns.get(q, [])
        if len(lst) > 1 and nargs is not None:
            lst = [f for f in lst if len(f.params) == nargs]
        return lst[0] if len(lst) == 1 else None

    def key_of(f):
        return f.q + ("/%d" % len(f.params) if len(fns[f.q]) > 1 else "")

    # ------------------------------------------------------------------ pass 2: bodies -> events
    def translate(f):
        ids = by_id[f.run]
        aliases, roots, names_used = {}, {}, {}

        def root_name(decl):
            nm = decl.get("name", "?")
            k = names_used.get(nm, 0)
            names_used[nm] = k + 1
            return nm if k == 0 else "%s#%d" % (nm, k + 1)

        def mapped_var(decl):
            t = type_of(decl)
            return clean_type(t) in RECORDS

        for p in f.params:
            if mapped_var(p) and is_ptr_or_ref(type_of(p)):
                roots[p["id"]] = root_name(p)

        def var_ref(e):
            rd = e.get("referencedDecl", {})
            if rd.get("kind") not in ("VarDecl", "ParmVarDecl"):
                return None
            i = rd.get("id")
            if i in aliases:
                return aliases[i]
            if i in roots:
                return (roots[i], [])
            return None

        def index_name(e):
            while e.get("kind") in ("ImplicitCastExpr", "ParenExpr", "CXXFunctionalCastExpr", "CStyleCastExpr", "CXXStaticCastExpr", "ConstantExpr") and e.get("inner"):
                e = e["inner"][0]
            if e.get("kind") == "IntegerLiteral":
                return str(e.get("value"))
            if e.get("kind") == "DeclRefExpr" and e.get("referencedDecl", {}).get("kind") == "EnumConstantDecl":
                et = clean_type(type_of(e))
                enum_uses.add((DUMPS[f.run][0], et))
                return "E:%s:%s" % (et, e["referencedDecl"].get("name", "?"))      # resolved to its value below
            return "?"

        union_members = set()      # (obj, path) of direct members of a union (UNIONS): all members span the whole union

        def lval(e):
            k, inner = e.get("kind"), e.get("inner", []) or []
            if k in ("ParenExpr", "ExprWithCleanups", "MaterializeTemporaryExpr") and inner:
                return lval(inner[0])
            if k in ("ImplicitCastExpr", "CXXStaticCastExpr", "CStyleCastExpr") and inner:
                return lval(inner[0]) if e.get("castKind") in TRANSPARENT_CASTS else None
            if k == "MemberExpr" and inner:
                if "bound member function" in e.get("type", {}).get("qualType", ""):
                    return None
                r = ptr(inner[0]) if e.get("isArrow") else lval(inner[0])
                if r and UNIONS.match(rec_type(type_of(inner[0]))):
                    union_members.add((r[0], tuple(r[1] + [e.get("name", "?")])))
                return (r[0], r[1] + [e.get("name", "?")]) if r else None
            if k == "DeclRefExpr":
                return var_ref(e)
            if k == "UnaryOperator" and e.get("opcode") == "*" and inner:
                return ptr(inner[0])
            if k == "ArraySubscriptExpr" and len(inner) == 2:
                r = ptr(inner[0])
                return (r[0], r[1] + ["[%s]" % index_name(inner[1])]) if r and r[1] else None
            return None

        def ptr(e):
            k, inner = e.get("kind"), e.get("inner", []) or []
            if k == "CXXThisExpr":
                return ("this", [])
            if k in ("ParenExpr", "ExprWithCleanups") and inner:
                return ptr(inner[0])
            if k in ("ImplicitCastExpr", "CXXStaticCastExpr", "CStyleCastExpr") and inner:
                ck = e.get("castKind")
                if ck in TRANSPARENT_CASTS:
                    return ptr(inner[0])
                if ck == "ArrayToPointerDecay":
                    return lval(inner[0])
                if ck == "LValueToRValue":
                    x = inner[0]
                    while x.get("kind") == "ParenExpr" and x.get("inner"):
                        x = x["inner"][0]
                    return var_ref(x) if x.get("kind") == "DeclRefExpr" else None      # a pointer loaded from a field: other object
                return None
            if k == "UnaryOperator" and e.get("opcode") == "&" and inner:
                return lval(inner[0])
            return None

        def wr(r, full):
            if r and full and (r[0], tuple(r[1])) in union_members:
                r = (r[0], r[1][:-1])          # overwriting one member of the union overwrites the union
            return [("w", r[0], r[1], full)] if r and r[1] else []

        def callee_decl(e):
            """(qualified name, object expression or None, is arrow) of a call's callee expression"""
            x = e
            while x.get("kind") in ("ImplicitCastExpr", "ParenExpr") and x.get("inner"):
                x = x["inner"][0]
            if x.get("kind") == "MemberExpr":
                obj = (x.get("inner") or [None])[0]
                q = ids.get(x.get("referencedMemberDecl"))
                if q is None and obj is not None:
                    q = "%s::%s" % (rec_type(type_of(obj)), x.get("name", "?"))
                return q, obj, bool(x.get("isArrow"))
            if x.get("kind") == "DeclRefExpr":
                rd = x.get("referencedDecl", {})
                return ids.get(rd.get("id")) or rd.get("name"), None, False
            return None, None, False

        def callee_id(e):
            x = e
            while x.get("kind") in ("ImplicitCastExpr", "ParenExpr") and x.get("inner"):
                x = x["inner"][0]
            return x.get("referencedMemberDecl")

        def lambda_resets_param(e):
            """a lambda whose body calls a RESET_METHOD on its own parameter"""
            found = []

            def visit(n):
                if n.get("kind") == "CXXMemberCallExpr" and n.get("inner"):
                    c = n["inner"][0]
                    if c.get("kind") == "MemberExpr" and c.get("name") in RESET_METHODS and c.get("inner"):
                        o = c["inner"][0]
                        while o.get("kind") in ("ImplicitCastExpr", "ParenExpr") and o.get("inner"):
                            o = o["inner"][0]
                        if o.get("kind") == "DeclRefExpr" and o.get("referencedDecl", {}).get("kind") == "ParmVarDecl":
                            found.append(1)
                for c in n.get("inner", []) or []:
                    visit(c)
            visit(e)
            return bool(found)

        def find_lambda(e):
            if e.get("kind") == "LambdaExpr":
                return e
            for c in e.get("inner", []) or []:
                x = find_lambda(c)
                if x:
                    return x
            return None

        def passed_by_mutable_ref(a):
            """argument handed to an unknown callee in a way that lets it modify a member: `&x.f`, or the lvalue `x.f` itself"""
            x = a
            while x.get("kind") in ("ParenExpr", "ExprWithCleanups", "MaterializeTemporaryExpr", "CXXBindTemporaryExpr") and x.get("inner"):
                x = x["inner"][0]
            if x.get("kind") == "ImplicitCastExpr":
                if x.get("castKind") == "NoOp" and is_const_target(type_of(x)):
                    return None
                if x.get("castKind") in ("LValueToRValue",):
                    return None
                if x.get("castKind") == "ArrayToPointerDecay":
                    return lval(x["inner"][0])
                if x.get("castKind") in TRANSPARENT_CASTS and x.get("inner"):
                    return passed_by_mutable_ref(x["inner"][0])
                return None
            if x.get("kind") == "UnaryOperator" and x.get("opcode") == "&":
                return lval(x["inner"][0])
            if x.get("kind") in ("MemberExpr", "ArraySubscriptExpr") and x.get("valueCategory") == "lvalue" and not is_const_target(type_of(x)):
                return lval(x)
            return None

        def do_call(e):
            inner = e.get("inner", []) or []
            if not inner:
                return []
            kind = e.get("kind")
            q, obj, arrow = callee_decl(inner[0])
            args = inner[1:]
            ev = []
            if kind == "CXXOperatorCallExpr":
                op = (q or "").split("::")[-1]
                if op == "operator=" and args:
                    ev += walk_list(args[1:])
                    return ev + wr(lval(args[0]), True)
                if (re.match(r"^operator(\+|-|\*|/|%|\^|&|\||<<|>>)=$", op) or op in ("operator++", "operator--")) and args:
                    ev += walk_list(args[1:])
                    return ev + wr(lval(args[0]), False)
                return walk_list(args)
            target = None
            if q and q not in OPAQUE:
                target = find_fn(q, len(args))
            this_r = None
            if obj is not None:
                ev += walk(obj)
                this_r = ptr(obj) if arrow else lval(obj)
            if target is not None:
                binds = []
                if this_r is not None:
                    binds.append(("this", this_r[0], this_r[1]))
                for p, a in zip(target.params, args):
                    t = type_of(p)
                    if clean_type(t) in RECORDS and is_ptr_or_ref(t):
                        r = ptr(a) if t.strip().endswith("*") or re.search(r"\*\s*const\s*$", t) else lval(a)
                        if r is not None:
                            binds.append((p.get("name", "?"), r[0], r[1]))
                ev += walk_list(args)
                if binds:
                    ev.append(("call", key_of(target), binds))
                return ev
            # a function outside the map
            name = (q or "").split("::")[-1]
            if obj is not None and this_r is not None and this_r[1]:
                lam = find_lambda(e) if name == "for_each" else None
                if name in RESET_METHODS or (lam is not None and lambda_resets_param(lam)):
                    ev += walk_list([a for a in args if find_lambda(a) is None])
                    return ev + wr(this_r, True)
                x = obj
                while x.get("kind") == "ParenExpr" and x.get("inner"):
                    x = x["inner"][0]
                const_call = is_const_target(type_of(x)) or callee_id(inner[0]) in const_ids[f.run]
                ev += walk_list(args)
                return ev + ([] if const_call else wr(this_r, False))
            if name in ("memset", "memcpy", "memmove", "__builtin_memset", "__builtin_memcpy") and args:
                ev += walk_list(args[1:])
                d = args[0]
                while d.get("kind") in ("ImplicitCastExpr", "ParenExpr", "CStyleCastExpr", "CXXStaticCastExpr") and d.get("castKind") in ("BitCast", None, "NoOp") and d.get("inner"):
                    d = d["inner"][0]
                sz = args[-1]
                while sz.get("kind") in ("ImplicitCastExpr", "ParenExpr") and sz.get("inner"):
                    sz = sz["inner"][0]
                return ev + wr(ptr(d), sz.get("kind") == "UnaryExprOrTypeTraitExpr" and sz.get("name") == "sizeof")
            for a in args:
                ev += walk(a)
                ev += wr(passed_by_mutable_ref(a), False)
            return ev

        def walk_list(ns):
            ev = []
            for c in ns:
                ev += walk(c)
            return ev

        def nonempty(tag, *bodies):
            return [(tag,) + bodies] if any(bodies) else []

        def walk(n):
            k = n.get("kind")
            inner = n.get("inner", []) or []
            if k is None:
                return []
            if k == "DeclStmt":
                ev = []
                for c in inner:
                    if c.get("kind") == "VarDecl":
                        ci = [x for x in c.get("inner", []) or [] if x.get("kind") and not x.get("kind", "").endswith("Attr")]
                        ev += walk_list(ci)
                        t = type_of(c)
                        if ci and is_ptr_or_ref(t):
                            r = lval(ci[-1]) if t.strip().endswith("&") else ptr(ci[-1])
                            if r is not None:
                                aliases[c["id"]] = r
                                continue
                        if mapped_var(c) and is_ptr_or_ref(t):
                            roots[c["id"]] = root_name(c)
                    else:
                        ev += walk(c)
                return ev
            if k == "CompoundStmt":
                return nonempty("block", walk_list(inner))
            if k == "DoStmt":
                return nonempty("block", walk_list(inner))
            if k == "IfStmt":
                parts = list(inner)
                extra = []
                if n.get("hasInit"):
                    extra += walk(parts.pop(0))
                if n.get("hasVar"):
                    extra += walk(parts.pop(0))
                cond = parts[0] if parts else {}
                then = parts[1] if len(parts) > 1 else {}
                els = parts[2] if len(parts) > 2 else None
                g = GUARDS.get(f.q)
                if g and els is None:
                    x = cond
                    while x.get("kind") in ("ImplicitCastExpr", "ParenExpr", "ExprWithCleanups") and x.get("inner"):
                        x = x["inner"][0]
                    if x.get("kind") == "CXXMemberCallExpr" and (x["inner"][0].get("name") == g) and ptr((x["inner"][0].get("inner") or [{}])[0]) == ("this", []):
                        guards_seen.append((f.q, g))
                        return extra + walk(then)
                return extra + walk(cond) + nonempty("ite", walk(then), walk(els) if els else [])
            if k == "ConditionalOperator" and len(inner) == 3:
                return walk(inner[0]) + nonempty("ite", walk(inner[1]), walk(inner[2]))
            if k == "BinaryOperator" and n.get("opcode") in ("&&", "||") and len(inner) == 2:
                return walk(inner[0]) + nonempty("ite", walk(inner[1]), [])
            if k in ("ForStmt", "WhileStmt", "CXXForRangeStmt", "SwitchStmt", "LambdaExpr"):
                if k == "LambdaExpr":
                    inner = [c for c in inner if c.get("kind") == "CompoundStmt"][-1:]
                return nonempty("loop", walk_list(inner))
            if k == "BinaryOperator" and n.get("opcode") == "=" and len(inner) == 2:
                x = inner[0]
                while x.get("kind") == "ParenExpr" and x.get("inner"):
                    x = x["inner"][0]
                if x.get("kind") == "DeclRefExpr" and x.get("referencedDecl", {}).get("id") in aliases:
                    raise TranslateError("%s: the local alias `%s` of a member is re-seated; the translator cannot follow it"
                                         % (f.q, x["referencedDecl"].get("name")))
                return walk(inner[1]) + walk_sub(inner[0]) + wr(lval(inner[0]), True)
            if k == "CompoundAssignOperator" and len(inner) == 2:
                return walk(inner[1]) + walk_sub(inner[0]) + wr(lval(inner[0]), False)
            if k == "UnaryOperator" and n.get("opcode") in ("++", "--") and inner:
                return walk_sub(inner[0]) + wr(lval(inner[0]), False)
            if k in ("CallExpr", "CXXMemberCallExpr", "CXXOperatorCallExpr"):
                return do_call(n)
            if k in ("CXXConstructExpr", "CXXTemporaryObjectExpr"):
                ev = []
                for a in inner:
                    ev += walk(a)
                    ev += wr(passed_by_mutable_ref(a), False)
                return ev
            if k in ("CXXRecordDecl", "TypedefDecl", "TypeAliasDecl", "StaticAssertDecl"):
                return []
            return walk_list(inner)

        def walk_sub(lhs):
            """calls hidden inside an assignment target (index expressions etc.)"""
            ev = []
            for c in lhs.get("inner", []) or []:
                ev += walk(c)
            return [e for e in ev if e[0] != "w"]

        ev = []
        if f.node.get("kind") == "CXXConstructorDecl":
            for c in f.node.get("inner", []) or []:
                if c.get("kind") != "CXXCtorInitializer":
                    continue
                ci = c.get("inner", []) or []
                if "anyInit" in c:
                    ev += walk_list(ci)
                    ev.append(("w", "this", [c["anyInit"].get("name", "?")], True))
                elif "baseInit" in c:
                    ev += walk_list(ci)
                    bt = clean_type(c["baseInit"].get("desugaredQualType") or c["baseInit"].get("qualType", ""))
                    x = ci[0] if ci else {}
                    nargs = len(x.get("inner", []) or []) if x.get("kind") == "CXXConstructExpr" else None
                    t = find_fn("%s::%s" % (bt, bt.split("::")[-1]), nargs)
                    if t is not None:
                        ev.append(("call", key_of(t), [("this", "this", [])]))
                    elif bt in RECORDS and records[bt]["fields"]:
                        raise TranslateError("constructor of base %s (called by %s) not found" % (bt, f.q))
        for c in f.body.get("inner", []) or []:
            ev += walk(c)
        return ev

    guards_seen = []
    enum_uses = set()               # (translation unit, enum type) of enumerators used as array indices
    cut = set()
    out, order, todo = {}, [], []
    for r in ROOTS:
        f = find_fn(r)
        if f is None:
            raise TranslateError("function %s not found in the AST (or ambiguous: %d candidates)" % (r, len(fns.get(r.split('/')[0], []))))
        todo.append((f, 0))
    seen = set()
    while todo:
        f, d = todo.pop(0)
        k = key_of(f)
        if k in seen:
            continue
        seen.add(k)
        f.events = translate(f)
        out[k] = f.events
        order.append(k)

        def callees(evs):
            for e in evs:
                if e[0] == "call":
                    yield e[1]
                elif e[0] in ("block", "loop"):
                    yield from callees(e[1])
                elif e[0] == "ite":
                    yield from callees(e[1])
                    yield from callees(e[2])
        for c in callees(f.events):
            g = find_fn(c)
            if g is None:
                raise TranslateError("internal: callee %s of %s vanished" % (c, k))
            if d + 1 > CLOSURE_DEPTH and key_of(g) not in seen and c not in [key_of(x[0]) for x in todo]:
                cut.add(c)
            else:
                todo.append((g, d + 1))
    for g in GUARDS.items():
        if g not in guards_seen:
            raise TranslateError("guard `if (%s())` of %s not found" % (g[1], g[0]))

    # enumerators used as array indices -> their integer values (so that `a[0]` and `a[kFirst]` are the same element)
    enum_vals = {}
    for tu, et in sorted(enum_uses):
        for o in ast_objects(repo, tu, et.split("::")[-1]):
            if o.get("kind") == "EnumDecl" and o.get("name") == et.split("::")[-1]:
                v = -1
                for c in o.get("inner", []) or []:
                    if c.get("kind") == "EnumConstantDecl":
                        ce = [x for x in c.get("inner", []) or [] if x.get("kind") == "ConstantExpr" and "value" in x]
                        v = int(ce[0]["value"]) if ce else v + 1
                        enum_vals["E:%s:%s" % (et, c.get("name"))] = v

    def fix_index(x):
        m = re.match(r"^\[(E:.*)\]$", x)
        return x if not m else "[%s]" % enum_vals.get(m.group(1), "?")

    def fix_indices(evs):
        res = []
        for e in evs:
            if e[0] == "w":
                res.append(("w", e[1], [fix_index(x) for x in e[2]], e[3]))
            elif e[0] == "call":
                res.append(("call", e[1], [(a, b, [fix_index(x) for x in c]) for a, b, c in e[2]]))
            elif e[0] == "ite":
                res.append(("ite", fix_indices(e[1]), fix_indices(e[2])))
            else:
                res.append((e[0], fix_indices(e[1])))
        return res
    for k in list(out):
        out[k] = fix_indices(out[k])

    # helpers beyond the closure depth are dropped from the callers (they then behave like functions outside the map: no event)
    def drop_cut(evs):
        res = []
        for e in evs:
            if e[0] == "call":
                if e[1] in out:
                    res.append(e)
            elif e[0] in ("block", "loop"):
                b = drop_cut(e[1])
                if b:
                    res.append((e[0], b))
            elif e[0] == "ite":
                a, b = drop_cut(e[1]), drop_cut(e[2])
                if a or b:
                    res.append(("ite", a, b))
            else:
                res.append(e)
        return res
    # prune functions without any event (transitively), to keep the Lean file small
    root_keys = [key_of(find_fn(r)) for r in ROOTS]
    changed = True
    while changed:
        changed = False
        for k in list(out):
            out[k] = drop_cut(out[k])
            if not out[k] and k not in root_keys:
                del out[k]
                changed = True
    order = [k for k in order if k in out]
    return {"records": {r: records[r] for r in RECORDS}, "functions": {k: out[k] for k in order},
            "guards": sorted(set(guards_seen)), "roots": root_keys, "cut": sorted(cut)}


# ---------------------------------------------------------------------------------------------- Lean text

def lean_str(s):
    return '"' + s.replace("\\", "\\\\").replace('"', '\\"') + '"'


def lean_path(p):
    return "[" + ", ".join(lean_str(x) for x in p) + "]"


def lean_events(evs, ind=4):
    parts = []
    for e in evs:
        if e[0] == "w":
            parts.append(".w %s %s %s" % (lean_str(e[1]), lean_path(e[2]), "true" if e[3] else "false"))
        elif e[0] == "call":
            parts.append(".call %s [%s]" % (lean_str(e[1]), ", ".join("(%s, %s, %s)" % (lean_str(a), lean_str(b), lean_path(c)) for a, b, c in e[2])))
        elif e[0] == "ite":
            parts.append(".ite " + lean_events(e[1], ind + 2) + "\n" + " " * (ind + 2) + lean_events(e[2], ind + 2))
        else:
            parts.append(".%s " % e[0] + lean_events(e[1], ind + 2))
    return "[" + (",\n" + " " * ind).join(parts) + "]"


def render(data):
    s = ("-- GENERATED by tools/ast_fields.py from the clang AST of the current /repo sources. Do not edit.\n"
         "import AsmjitVerif.Model.ResetMap\nnamespace AsmjitVerif.ResetMap\n\n")
    s += "/-- record -> (base record or \"\", fields in declaration order: name, member record or \"\", array length or 0) -/\n"
    s += "def recordMap : List (String × String × List Field) := [\n"
    rows = []
    for r, d in data["records"].items():
        fl = ", ".join("⟨%s, %s, %d⟩" % (lean_str(n), lean_str(t), a) for n, t, a in d["fields"])
        rows.append("  (%s, %s, [%s])" % (lean_str(r), lean_str(d["base"]), fl))
    s += ",\n".join(rows) + "]\n\n"
    names = []
    for i, (q, evs) in enumerate(data["functions"].items()):
        s += "def body%d : List Ev :=  -- %s\n    %s\n\n" % (i, q, lean_events(evs))
        names.append("(%s, body%d)" % (lean_str(q), i))
    s += "def resetMap : List (String × List Ev) := [\n  " + ",\n  ".join(names) + "]\n\n"
    s += "/-- `if (<guard>())` statements the translator treated as always taken (reviewed in tools/ast_fields.py) -/\n"
    s += "def assumedGuards : List (String × String) := [" + ", ".join("(%s, %s)" % (lean_str(a), lean_str(b)) for a, b in data["guards"]) + "]\n\n"
    s += "end AsmjitVerif.ResetMap\n"
    return s


# ---------------------------------------------------------------------------------------------- the same analysis in Python
# (diagnostics only: lets a check *name* the offending field when a Lean theorem stops building; the verdict is Lean's)

def inline(data, fn, depth):
    """events of fn with calls inlined (objects renamed into fn's frame); foreign objects become '~'"""
    def ren(evs, binds):
        b = {a: (o, p) for a, o, p in binds}
        res = []
        for e in evs:
            if e[0] == "w":
                res.append(("w", b[e[1]][0], b[e[1]][1] + e[2], e[3]) if e[1] in b else ("w", "~", e[2], e[3]))
            elif e[0] == "ite":
                res.append(("ite", ren(e[1], binds), ren(e[2], binds)))
            elif e[0] in ("block", "loop"):
                res.append((e[0], ren(e[1], binds)))
            else:
                res.append(e)
        return res

    def go(evs, d):
        res = []
        for e in evs:
            if e[0] == "call":
                res.append(("block", ren(go(data["functions"][e[1]], d - 1), e[2])) if d > 0 and e[1] in data["functions"] else ("bad",))
            elif e[0] == "ite":
                res.append(("ite", go(e[1], d), go(e[2], d)))
            elif e[0] in ("block", "loop"):
                res.append((e[0], go(e[1], d)))
            else:
                res.append(e)
        return res
    return go(data["functions"][fn], depth)


def definite(evs, obj, loops=False):
    res = []
    for e in evs:
        if e[0] == "w" and e[1] == obj and e[3]:
            res.append(e[2])
        elif e[0] == "block" or (e[0] == "loop" and loops):
            res += definite(e[1], obj, loops)
        elif e[0] == "ite":
            a, b = definite(e[1], obj, loops), definite(e[2], obj, loops)
            cov = lambda ws, p: any(p[:len(w)] == w for w in ws)
            res += [p for p in a if cov(b, p)] + [p for p in b if cov(a, p)]
    return res


def touched(evs, obj):
    res = []
    for e in evs:
        if e[0] == "w" and e[1] == obj:
            res.append(e[2])
        elif e[0] in ("block", "loop"):
            res += touched(e[1], obj)
        elif e[0] == "ite":
            res += touched(e[1], obj) + touched(e[2], obj)
    return res


def all_fields(data, rec):
    d = data["records"][rec]
    return (all_fields(data, d["base"]) if d["base"] else []) + [(rec, n, t, a) for n, t, a in d["fields"]]


def leaves(data, rec):
    res = []
    for decl, n, t, a in all_fields(data, rec):
        if t:
            res += [([(decl, n)] + ch, arr) for ch, arr in leaves(data, t)]
        else:
            res.append(([(decl, n)], a))
    return res


def analyse(data, path, rec, depth=8):
    """path = [(function, object)] or [(function, object, loops)]; returns [(leaf path, chain, 'never' | 'partial')] of the leaves
    of `rec` that are not definitely overwritten on the recycle path ('partial' = touched, but only conditionally / in part)"""
    ws, ts = [], []
    for ent in path:
        fn, obj, loops = ent[0], ent[1], (ent[2] if len(ent) > 2 else False)
        if fn not in data["functions"]:
            return [([n for _, n in ch], ch, "never") for ch, _ in leaves(data, rec)]
        evs = inline(data, fn, depth)
        ws += definite(evs, obj, loops)
        ts += touched(evs, obj)
    res = []
    for chain, arr in leaves(data, rec):
        p = [n for _, n in chain]
        if any(p[:len(w)] == w for w in ws):
            continue
        if arr and len({tuple(w) for w in ws if len(w) == len(p) + 1 and w[:len(p)] == p and w[-1] != "[?]"}) == arr:
            continue
        res.append((p, chain, "partial" if any(t[:len(p)] == p or p[:len(t)] == t for t in ts) else "never"))
    return res


EMITTERS = ["x86::Assembler", "x86::Builder", "x86::Compiler", "a64::Assembler", "a64::Builder", "a64::Compiler"]


def handler_of(data, cls, h):
    while cls:
        if "%s::%s" % (cls, h) in data["functions"]:
            return "%s::%s" % (cls, h)
        cls = data["records"][cls]["base"]
    return "?::" + h


def theorem_paths(data):
    """the recycle paths of Props/C16Fields.lean (mirror, diagnostics only): theorem -> [(record, path, keep-list name)]"""
    t = {
        "holder_reset_then_init_covers_all_fields": [("CodeHolder", [("CodeHolder::reset", "this"), ("CodeHolder::init/3", "this")], "keepHolderReset")],
        "holder_reinit_covers_all_fields": [("CodeHolder", [("CodeHolder::reinit", "this")], "keepHolderReinit")],
        "holder_constructor_initialises_all_fields": [("CodeHolder", [("CodeHolder::CodeHolder", "this")], None)],
        "new_section_initialises_all_fields": [("Section", [("CodeHolder::new_section", "section")], "keepNewSection")],
        "rapass_function_epilogue_covers_all_fields": [("BaseRAPass", [("BaseRAPass::run_on_function", "this")], "keepRAPassFunction")],
        "rapass_run_covers_all_fields": [("BaseRAPass", [("BaseRAPass::run", "this")], "keepRAPassRun")],
        "arena_reset_covers_all_fields": [("Arena", [("Arena::reset", "this")], "keepArena")],
        "emitter_detach_then_attach_covers_all_fields": [], "emitter_holder_reset_then_attach_covers_all_fields": [],
        "emitter_reinit_covers_all_fields": [],
    }
    for c in EMITTERS:
        det, att, rei = (handler_of(data, c, h) for h in ("on_detach", "on_attach", "on_reinit"))
        t["emitter_detach_then_attach_covers_all_fields"].append(
            (c, [(det, "this"), ("CodeHolder::detach", "emitter"), (att, "this"), ("CodeHolder::attach", "emitter")], "keepEmitterDetachAttach"))
        t["emitter_holder_reset_then_attach_covers_all_fields"].append(
            (c, [(det, "this"), ("CodeHolder_detach_emitters", "emitter", True), (att, "this"), ("CodeHolder::attach", "emitter")], "keepEmitterDetachAttach"))
        t["emitter_reinit_covers_all_fields"].append((c, [(rei, "this")], "keepEmitterReinit"))
    return t


def parse_keep_lists(lean_text):
    """keep-lists of Props/C16Fields.lean: name -> [(record, [path])] (`++ keepOther` expanded)"""
    txt = re.sub(r"--[^\n]*", "", lean_text)
    lists, refs = {}, {}
    for m in re.finditer(r"def (keep\w+) : List \(String × List String\) :=(.*?)(?=\n(?:def|theorem|/-|set_option|end|example) )", txt, re.S):
        body = m.group(2)
        lists[m.group(1)] = [(r, re.findall(r'"([^"]*)"', p)) for r, p in re.findall(r'\("([^"]+)",\s*\[([^\]]*)\]\)', body)]
        refs[m.group(1)] = re.findall(r"\+\+\s*(keep\w+)", body)
    return {k: v + [e for r in refs[k] for e in lists.get(r, [])] for k, v in lists.items()}


def diagnose(data, lean_props_text):
    """theorem -> [(class, 'a.b.c', 'never'|'partial')]: the leaves that make the theorem of Props/C16Fields.lean fail
    (not definitely re-initialised and not on the theorem's keep-list).  Diagnostics: the verdict is Lean's."""
    keeps = parse_keep_lists(lean_props_text)
    out = {}
    for thm, users in theorem_paths(data).items():
        bad = []
        for rec, path, kl in users:
            keep = keeps.get(kl, []) if kl else []
            for p, chain, kind in analyse(data, path, rec):
                if not any(chain[i][0] == r and [n for _, n in chain[i:]] == kp for i in range(len(chain)) for r, kp in keep):
                    bad.append((rec, ".".join(p), kind))
        out[thm] = bad
    return out


if __name__ == "__main__":
    import sys
    data = collect(sys.argv[1] if len(sys.argv) > 1 else "/repo")
    if len(sys.argv) > 2 and sys.argv[2] == "--diagnose":
        props = Path(__file__).resolve().parent.parent / "lean" / "AsmjitVerif" / "Props" / "C16Fields.lean"
        for thm, bad in diagnose(data, props.read_text()).items():
            print(thm, "OK" if not bad else "FAILS for " + ", ".join("%s %s (%s)" % b for b in bad))
    else:
        print(render(data))
