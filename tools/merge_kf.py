#!/usr/bin/env python3
"""Structured merge of known_findings.json: union of `findings` by id (ours + theirs), `fixed` from ours.
usage: merge_kf.py <their ref>"""
import json, subprocess, sys
def show(ref):
    s = subprocess.run(['git', '-C', '/verif', 'show', ref + ':known_findings.json'], capture_output=True, text=True).stdout
    try:
        return json.loads(s)
    except Exception:
        return {'findings': []}
ours, theirs = show('HEAD'), show(sys.argv[1])
res = {'findings': list(ours.get('findings', [])), 'fixed': list(ours.get('fixed', []))}
ids = {f['id'] for f in res['findings']}
for f in theirs.get('findings', []):
    if f['id'] not in ids:
        res['findings'].append(f)
    else:  # their version of an entry they own wins
        res['findings'] = [f if g['id'] == f['id'] else g for g in res['findings']]
json.dump(res, open('/verif/known_findings.json', 'w'), indent=1)
