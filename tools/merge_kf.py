#!/usr/bin/env python3
"""Structured merge of known_findings.json when merging builder branch w-Cxx: entries of the properties that branch owns are
taken from THEIR version (so that entries they removed disappear), all other entries and the `fixed` list from OURS.
usage: merge_kf.py <their ref> [ours ref]"""
import json, subprocess, sys
def show(ref):
    s = subprocess.run(['git', '-C', '/verif', 'show', ref + ':known_findings.json'], capture_output=True, text=True).stdout
    try:
        return json.loads(s)
    except Exception:
        return {'findings': []}
their = sys.argv[1]
ours_ref = sys.argv[2] if len(sys.argv) > 2 else 'HEAD'
owned = {their.split('-')[-1]}
if 'C03' in owned:
    owned.add('C04')
ours, theirs = show(ours_ref), show(their)
if len(sys.argv) > 2 and sys.argv[2] == 'WORKTREE':
    ours = json.load(open('/verif/known_findings.json'))
res = {'findings': [f for f in ours.get('findings', []) if f.get('property') not in owned], 'fixed': list(ours.get('fixed', []))}
res['findings'] += [f for f in theirs.get('findings', []) if f.get('property') in owned]
json.dump(res, open('/verif/known_findings.json', 'w'), indent=1)
print('known findings:', len(res['findings']), 'fixed:', len(res['fixed']))
