#!/usr/bin/env python3
"""Writes MANIFEST.json from tools/manifest_entries.py (single source of truth for the claimed checks)."""
import json
import sys
from pathlib import Path

sys.path.insert(0, str(Path(__file__).resolve().parent))
from manifest_entries import CHECKS, NOT_APPLICABLE, HOOK_COMMITS

VERIF = Path(__file__).resolve().parent.parent
props = [json.loads(l)["id"] for l in (VERIF / "properties.jsonl").read_text().splitlines() if l.strip()]
claimed = [c["property_id"] for c in CHECKS]
na = [n for n in NOT_APPLICABLE if n["property_id"] not in claimed]
missing = [p for p in props if p not in claimed and p not in [n["property_id"] for n in na]]
assert not missing, missing
checks = []
for c in CHECKS:
    pid = c["property_id"]
    checks.append({
        "property_id": pid,
        "quick_cmd": "python3 tools/check.py %s --tier quick" % pid,
        "thorough_cmd": "python3 tools/check.py %s --tier thorough" % pid,
        "evidence_file": "/verif/evidence/%s.json" % pid,
        "replay_cmd_template": "python3 tools/check.py replay {path}",
        "engine": "lean4-proof+correspondence",
        "level_claimed": {"category": "proof", "text": c["text"], "design_ref": c.get("design_ref", "DESIGN.md section 6 " + pid)},
        "level_note": c["note"],
        "technique": c["technique"],
    })
m = {
    "version": 1,
    "setup_cmd": "python3 tools/check.py setup",
    "hooks": {
        "guard": "ASMJIT_VERIF",
        "enable": "checks compile /repo's working tree themselves with -DASMJIT_VERIF (tools/vlib.py ensure_lib), ASan+UBSan, static library",
        "baseline_off_cmd": "cmake --build /repo/_build -j16 && ctest --test-dir /repo/_build -j8 --timeout 900",
        "source_commits": HOOK_COMMITS,
        "add_only": True,
    },
    "engines": [{"name": "lean4-proof+correspondence", "path": "tools/check.py",
                 "serves_properties": claimed,
                 "kind_free_text": "Lean 4 theorems over hand models and regenerated tables (lean/), tied to /repo by translators "
                                   "(tools/gen_*.py) and by a C++ harness vs compiled Lean driver correspondence; violation search by the "
                                   "Lean monitor of the property run on the implementation's trace"}],
    "checks": checks,
    "not_applicable": na,
    "notes": "See DESIGN.md. Every check rebuilds /repo's working tree (cached by content hash under /verif/.build).",
}
(VERIF / "MANIFEST.json").write_text(json.dumps(m, indent=1) + "\n")
print("MANIFEST.json: %d checks, %d not claimed" % (len(checks), len(na)))
