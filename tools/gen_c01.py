"""C01 translator: db/isa_x86.json (through the repository's reader, tools/gen_c01_db.js) -> `form` lines of the Lean
driver (lean/Driver/C01.lean, structure Spec.X86.Rule). Every field is a direct re-spelling of what db/x86.js parsed;
the only interpretation added here is the assignment of operands to encoding roles from the `[RVM]`-style encoding field.
A form this translator does not understand raises TranslateError (a broken obligation), except the forms of ISA
extensions AsmJit does not implement (APX: EVEX map 4 / REX2), which are listed in `skipped`."""
import json
import subprocess
from pathlib import Path

import vlib


class TranslateError(Exception):
    pass


# Database errata: entries of db/isa_x86.json that contradict the Intel/AMD manuals (and llvm-mc / objdump); the
# assembler follows the manuals. Each is re-spelled here so that the rule the monitor uses is the architectural one.
#   (name, opcodeString) -> replacement opcodeString / encoding
ERRATA_OPCODE = {
    ("fsqrt", "D9 FE"): "D9 FA",            # D9 FE is fsin (listed twice); fsqrt is D9 FA (SDM vol. 2A FSQRT)
    ("lea", "67 8D /r"): "66 8D /r",        # the r16 form takes the operand-size prefix 66, not the address-size prefix 67
}
# wrong mandatory prefix / map in the database (the assembler and llvm-mc agree on the manuals' value)
ERRATA_FIELDS = {
    ("shrd", "66 0F AC /r ib"): {"pp": ""},       # written with 66 for the whole r16/r32/r64 group; the group index gives the prefix
    ("vmovups", "VEX.Lxy.66.0F.WIG 10 /r"): {"pp": "NP"},
    ("vmovups", "VEX.Lxy.66.0F.WIG 11 /r"): {"pp": "NP"},
    ("vmovupd", "VEX.Lxy.NP.0F.WIG 10 /r"): {"pp": "66"},
    ("vmovupd", "VEX.Lxy.NP.0F.WIG 11 /r"): {"pp": "66"},
    ("vmovntps", "EVEX.xyz.66.0F.W0 2B /r"): {"pp": "NP"},
    ("vandnps", "EVEX.xyz.66.W0 55 /r"): {"pp": "NP", "mm": "0F"},
}
# wrong operand order letters: vpcompressb/w store the SOURCE in ModRM.reg (SDM: "A" encoding, ModRM:r/m (w), ModRM:reg (r))
ERRATA_ENCODING = {"vpcompressb": "MR", "vpcompressw": "MR"}
# r/m operand listed as memory only although the manuals give `xmm1/m64` (SDM vol. 2B MOVSD/MOVSS "F2 0F 11 /r MOVSD xmm1/m64, xmm2"): the
# register-register store form is what `mod_mr()` selects (ExtMov) - (name, opcodeString) -> (operand index, register class)
ERRATA_RM_REGISTER = {("movsd", "F2 0F 11 /r"): (0, "xmm"), ("movss", "F3 0F 11 /r"): (0, "xmm")}
T1S_SUFFIX_ELEM = {"b": 1, "w": 2, "d": 4, "q": 8, "ps": 4, "pd": 8}
IMM_TOKEN_BYTES = {"ib": 1, "iw": 2, "id": 4, "iq": 8, "/is4": 1, "if": 6}


FIXED = {
    "al": ("gpb", 0), "cl": ("gpb", 1), "dl": ("gpb", 2), "bl": ("gpb", 3), "ah": ("gpbhi", 0), "ch": ("gpbhi", 1), "dh": ("gpbhi", 2), "bh": ("gpbhi", 3),
    "ax": ("gpw", 0), "cx": ("gpw", 1), "dx": ("gpw", 2), "bx": ("gpw", 3), "si": ("gpw", 6), "di": ("gpw", 7),
    "eax": ("gpd", 0), "ecx": ("gpd", 1), "edx": ("gpd", 2), "ebx": ("gpd", 3), "esi": ("gpd", 6), "edi": ("gpd", 7),
    "rax": ("gpq", 0), "rcx": ("gpq", 1), "rdx": ("gpq", 2), "rbx": ("gpq", 3), "rsi": ("gpq", 6), "rdi": ("gpq", 7),
    "es": ("sreg", 1), "cs": ("sreg", 2), "ss": ("sreg", 3), "ds": ("sreg", 4), "fs": ("sreg", 5), "gs": ("sreg", 6),
    "xmm0": ("xmm", 0), "st(0)": ("st", 0), "k0": ("k", 0),
}
CLASS = {"r8": ["gpb", "gpbhi"], "r16": ["gpw"], "r32": ["gpd"], "r64": ["gpq"], "xmm": ["xmm"], "ymm": ["ymm"], "zmm": ["zmm"],
         "mm": ["mm"], "k": ["k"], "k+1": ["k"], "tmm": ["tmm"], "sreg": ["sreg"], "creg": ["creg"], "dreg": ["dreg"], "bnd": ["bnd"],
         "st(i)": ["st"]}
TUPLE = {"": 0, "none": 0, "fv": 1, "hv": 2, "fvm": 3, "fm": 3, "t1s": 4, "t1f": 5, "t2": 6, "t4": 7, "t8": 8, "hvm": 9, "qvm": 10,
         "ovm": 11, "m128": 12, "movddup": 13, "qv": 14, "t1": 4}
TUPLE_COUNT = {4: 1, 5: 1, 6: 2, 7: 4, 8: 8}
ROLE = {"none": 0, "reg": 1, "rm": 2, "vvvv": 3, "is4": 4, "opc": 5, "imm": 6, "rel": 7, "moff": 8, "implmem": 9}


def load_db(repo=None):
    repo = Path(repo or vlib.REPO)
    cache = vlib.BUILD / ("c01_db_%s.json" % vlib.repo_hash())
    if cache.exists():
        return json.loads(cache.read_text())
    p = subprocess.run(["node", str(vlib.VERIF / "tools" / "gen_c01_db.js"), str(repo)], capture_output=True, text=True)
    if p.returncode != 0:
        raise TranslateError("db/index.js does not load the database: " + p.stderr[-800:])
    vlib.BUILD.mkdir(parents=True, exist_ok=True)
    cache.write_text(p.stdout)
    return json.loads(p.stdout)


def is_apx(f):
    return f["prefix"] == "REX2" or f["op"].get("mm") == "MAP4" or any(o["data"] == "dfv" for o in f["operands"])


def op_alts(o):
    """alternatives of one database operand as driver tokens"""
    alts = []
    if o["imm"]:
        sign = {"signed": 1, "unsigned": 2}.get(o["immSign"], 0)
        fx = "-" if o["immValue"] is None else str(int(o["immValue"]))
        return ["i.%d.%d.%s" % (o["imm"], sign, fx)]
    if o["rel"]:
        return ["l.%d" % o["rel"]]
    r = o["reg"]
    if r:
        if r in FIXED:
            alts.append("r.%s.%d" % FIXED[r])
        elif r in CLASS:
            alts += ["r.%s.-" % k for k in CLASS[r]]
        else:
            raise TranslateError("unknown register operand %r" % r)
    m = o["mem"]
    if m:
        vs = o["vsibReg"] or "none"
        size = o["memSize"]
        if size is None or size <= 0:
            alts.append("m.-.%s" % vs)
        else:
            if size % 8:
                raise TranslateError("memory size %r" % size)
            alts.append("m.%d.%s" % (size // 8, vs))
    if not alts:
        raise TranslateError("operand %r has no alternative" % o["data"])
    return alts


def translate(f):
    """database form -> (form line, info) ; raises TranslateError"""
    op = dict(f["op"])
    opstr = f["opcodeString"]
    toks = opstr.split()
    # immediate bytes: the reader's `imm` accumulator is not initialised (NaN), so the same tokens are counted here
    gi0 = f["groupIndex"]
    imm_bytes = 0
    for t in toks:
        if t == "iv":
            imm_bytes += (2, 4, 4)[gi0] if gi0 >= 0 else 4
        elif t in IMM_TOKEN_BYTES:
            imm_bytes += IMM_TOKEN_BYTES[t]
    err = ERRATA_OPCODE.get((f["name"], opstr))
    if err:
        et = err.split()
        if f["name"] == "fsqrt":
            op["byte"] = et[-1]
        if f["name"] == "lea":
            op["_67h"] = False
            op["pp"] = "66"
    op.update(ERRATA_FIELDS.get((f["name"], opstr), {}))
    # "D9 F3" (fpatan) ...: the reader takes the second byte F2/F3 of an x87 opcode for a mandatory prefix
    if f["prefix"] == "" and len(toks) == 2 and toks[0] in ("D8", "D9", "DA", "DB", "DC", "DD", "DE", "DF") and toks[1] in ("F2", "F3") \
            and op.get("byte") == toks[0] and op.get("pp") == toks[1]:
        op["mm"], op["byte"], op["pp"] = toks[0], toks[1], ""
    hexes = [t for t in toks if len(t) == 2 and all(c in "0123456789ABCDEF" for c in t)]
    # "0F AE E8" / "F3 0F 1E FB": the reader keeps the LAST byte in opcode.byte and turns it into mod/modr/modrm digits;
    # the primary opcode byte is the one before it
    primary_override = None
    if f["prefix"] in ("", "3DNOW") and op.get("mod") == "11" and str(op.get("modr", "")).isdigit() and str(op.get("modrm", "")).isdigit() and len(hexes) >= 2 \
            and hexes[-1] == op["byte"] and (int(op["byte"], 16) & 0xC0) == 0xC0 and op.get("mm", "") not in ("D8", "D9", "DA", "DB", "DC", "DD", "DE", "DF") \
            and ((int(op["byte"], 16) >> 3) & 7) == int(op["modr"]) and (int(op["byte"], 16) & 7) == int(op["modrm"]):
        primary_override = int(hexes[-2], 16)
    space = {"": 0, "VEX": 1, "EVEX": 2, "XOP": 3, "3DNOW": 4}.get(f["prefix"])
    if space is None:
        raise TranslateError("prefix %r" % f["prefix"])
    pp = {"": 0, "NP": 0, "66": 1, "F3": 2, "F2": 4, "9B": 8, "66F2": 5, "66F3": 3}.get(op.get("pp", ""))
    if pp is None:
        raise TranslateError("pp %r" % op.get("pp"))
    mm = op.get("mm", "")
    byte = int(op["byte"], 16)
    ri = bool(op.get("ri"))
    mod, modr, modrm = op.get("mod", ""), op.get("modr", ""), op.get("modrm", "")
    mod_kind = {"": 0, "xx": 1, "11": 2, "!(11)": 3}[mod]
    fixed_second = None
    if mm in ("D8", "D9", "DA", "DB", "DC", "DD", "DE", "DF"):
        # x87: escape opcode + a second byte that is a ModRM with mod = 11
        opcode, map_, fixed_second = int(mm, 16), 0, byte
    elif mm == "0F01" and space == 0 and not mod:
        opcode, map_, fixed_second = 0x01, 1, byte
    else:
        opcode = byte if primary_override is None else primary_override
        map_ = {"": 0, "0F": 1, "0F38": 2, "0F3A": 3, "0F01": None, "MAP5": 5, "MAP6": 6, "MAP7": 7, "MAP8": 8, "MAP9": 9, "MAPA": 10}.get(mm, None)
        if map_ is None:
            raise TranslateError("opcode map %r" % mm)
    rm_is_operand_from_ri = False
    if fixed_second is not None:
        if (fixed_second & 0xC0) != 0xC0:
            raise TranslateError("second opcode byte %02x is not a mod=11 ModRM" % fixed_second)
        mod_kind = 2
        mr = (fixed_second >> 3) & 7
        mrm = fixed_second & 7
        if ri:
            mrm, ri, rm_is_operand_from_ri = 8, False, True
    else:
        mr = 8 if modr in ("r", "") else int(modr)
        mrm = 8 if modrm in ("b", "") else int(modrm)
    if space in (1, 2, 3):
        w = {"W0": 0, "W1": 1, "WIG": 2, "": 2}[op.get("w", "")]
    else:
        w = {"W0": 0, "W1": 1, "WIG": 2, "": 0}[op.get("w", "")]
    l = op.get("l", "")
    gi = f["groupIndex"]
    if l in ("xy", "xyz"):
        if gi < 0:
            raise TranslateError("vector-length group without group index")
        lv = gi
    else:
        lv = {"128": 0, "256": 1, "512": 2, "LIG": 3, "": 3}[l]
    osz = 0
    if space == 0 and f["groupPattern"] == "rv":
        osz = (16, 32, 64)[gi]
    elif space == 0 and f["groupPattern"] == "ry":
        osz = (32, 64)[gi]
    tuple_ = TUPLE.get(f["tupleType"])
    if tuple_ is None:
        raise TranslateError("tuple type %r" % f["tupleType"])
    modes = {"ANY": 3, "X86": 1, "X64": 2}[f["arch"]]

    # roles
    ops = f["operands"]
    enc = ERRATA_ENCODING.get(f["name"], f["encoding"])
    letters = [c for c in enc if c in "RVMS"] if enc not in ("OP", "NONE") else []
    rolemap = {"R": "reg", "V": "vvvv", "M": "rm", "S": "is4"}
    # encodable operands; when the database's encoding letters do not fit their number (a few inconsistent entries:
    # vaesimc [RVM] with two operands, vgetexpsd [RM] with three ...) fall back to the conventional order
    def encodable(o):
        return not (o["imm"] or o["rel"] or o["implicit"] or (o["mem"] and not o["reg"] and o.get("memRegOnly")) or o["memOff"] or
                    (o["reg"] in FIXED and not o["mem"]) or o.get("regIndexRel"))
    nenc = sum(1 for o in ops if encodable(o))
    if letters and nenc != len(letters):
        if any(o.get("memRegOnly") for o in ops):
            raise TranslateError("register-addressed memory operand with encoding [%s]" % enc)
        letters = {1: ["M"], 2: ["R", "M"], 3: ["R", "V", "M"], 4: ["R", "V", "M", "S"]}.get(nenc)
        if letters is None:
            raise TranslateError("encoding letters [%s] do not fit %d operands" % (enc, nenc))
    roles = []
    li = 0
    opc_used = False
    mem_size = 0
    bcst_elem = 0
    for o in ops:
        if o["mem"] and o["memSize"] and o["memSize"] > 0:
            mem_size = o["memSize"] // 8
        if o["bcstSize"] and o["bcstSize"] > 0:
            bcst_elem = o["bcstSize"] // 8
        if o["imm"]:
            role = "none" if o["implicit"] else "imm"
        elif o["rel"]:
            role = "rel"
        elif o["implicit"]:
            role = "implmem" if o["mem"] and not o["reg"] else "none"
        elif o["mem"] and not o["reg"] and o.get("memRegOnly"):
            role = "implmem"
        elif o["memOff"]:
            role = "moff"
        elif o["reg"] in FIXED and not o["mem"]:
            role = "none"
        elif o.get("regIndexRel"):
            role = "none"      # second register of a consecutive pair (k+1): implied by the first
        elif letters:
            if li >= len(letters):
                raise TranslateError("more encoded operands than encoding letters in [%s]" % enc)
            role = rolemap[letters[li]]
            li += 1
        else:
            # [OP] / [NONE]: the register goes into the opcode byte (+r), or the r/m operand of a /digit form
            if ri and not opc_used and o["reg"] and not o["mem"]:
                role, opc_used = "opc", True
            elif rm_is_operand_from_ri and o["reg"]:
                role = "rm"
            elif mod_kind and mrm == 8:
                role = "rm"
            else:
                raise TranslateError("operand %r of an [%s] form has no place in the encoding" % (o["data"], enc))
        roles.append(role)
    if letters and li != len(letters):
        raise TranslateError("encoding letters [%s] not all used" % enc)
    # erratum class: [RM] written for a form whose first operand is memory-only and second register-only (movntsd/movntss)
    for i, (o, role) in enumerate(zip(ops, roles)):
        if role == "reg" and o["mem"] and not o["reg"]:
            j = [k for k, r2 in enumerate(roles) if r2 == "rm" and ops[k]["reg"] and not ops[k]["mem"]]
            if len(j) == 1:
                roles[i], roles[j[0]] = "rm", "reg"
    # a ModRM register / memory operand needs a ModRM byte even when the opcode string forgot its "/r" (gather forms)
    if mod_kind == 0 and any(r2 in ("reg", "rm") for r2 in roles):
        mod_kind, mr, mrm = 1, 8, 8
    # "[R]" on a /digit form means the register sits in ModRM.rm (extrq, rdpid, senduipi ...)
    if mr < 8:
        roles = ["rm" if r2 == "reg" else r2 for r2 in roles]
    # full / half / quarter / eighth vector tuples: the fraction must agree with the size of the memory operand; where the
    # database's tuple type contradicts its own operand (vcvtph2psx: "qv" with a half-vector operand) the operand decides
    vbytes = max([{"xmm": 16, "ymm": 32, "zmm": 64}.get(o["reg"], 0) for o in ops] + [0])
    frac = {1: 1, 3: 1, 2: 2, 9: 2, 14: 4, 10: 4, 11: 8}
    if tuple_ in frac and lv in (0, 1, 2) and mem_size and not f["vsibReg"]:
        vl_bytes = (16, 32, 64)[lv]
        if vl_bytes // frac[tuple_] != mem_size:
            for t2, fr in frac.items():
                if (t2 in (1, 2, 14)) == (tuple_ in (1, 2, 14)) and vl_bytes // fr == mem_size:
                    tuple_ = t2
                    break
    elem = 0
    if tuple_ in (1, 2, 14):
        elem = bcst_elem
    elif tuple_ in TUPLE_COUNT:
        elem = 0 if f["vsibReg"] else mem_size // TUPLE_COUNT[tuple_]
        if tuple_ == 4 and mem_size > 8:
            # tuple1-scalar with a whole-vector memory operand (compress / expand): element size from the mnemonic
            sfx = [v for k2, v in T1S_SUFFIX_ELEM.items() if f["name"].endswith(k2)]
            elem = max(sfx) if f["name"].endswith(("ps", "pd")) else (sfx[0] if sfx else 0)
    words = ["form", f["name"], modes, space, pp, map_, w, lv, opcode, int(ri), mod_kind, mr, mrm, imm_bytes, f["rel"], int(f["moff"]),
             osz, int(bool(op.get("_67h"))), tuple_, elem, int(f["kmask"]), int(f["zmask"]), int(f["er"]), int(f["sae"]), int(f["broadcast"]),
             int(f["name"] in ("lcall", "ljmp") and sum(1 for o in ops if o["imm"]) == 2), len(ops)]
    for o, role in zip(ops, roles):
        alts = op_alts(o)
        words += [ROLE[role], int(o["implicit"]), len(alts)] + alts
    return " ".join(str(x) for x in words), roles


def form_lines(db):
    """-> (lines, kept forms with their roles, skipped [(name, opcodeString, why)])"""
    lines, kept, skipped = [], [], []
    for f in db["forms"]:
        if is_apx(f):
            skipped.append((f["name"], f["opcodeString"], "APX (not implemented by AsmJit)"))
            continue
        fix = ERRATA_RM_REGISTER.get((f["name"], f["opcodeString"]))
        if fix and not f["operands"][fix[0]]["reg"]:
            f["operands"][fix[0]]["reg"] = fix[1]
        try:
            line, roles = translate(f)
        except TranslateError as e:
            if "register-addressed memory operand" in str(e):   # enqcmd / movdir64b: destination address in ModRM.reg
                skipped.append((f["name"], f["opcodeString"], str(e)))
                continue
            raise TranslateError("%s '%s': %s" % (f["name"], f["opcodeString"], e))
        lines.append(line)
        kept.append((f, roles))
    return lines, kept, skipped


# ----------------------------------------------------------------------------------------------------------------------
# Gen/X86ClassRows.lean: (instruction row of the compiled tables, database form) pairs of the register forms of the
# VEX-family classes, for the `decide +kernel` layer of Props/C01Rows.lean
# ----------------------------------------------------------------------------------------------------------------------
KIND_LEAN = {"gpb": ".gpb", "gpbhi": ".gpbhi", "gpw": ".gpw", "gpd": ".gpd", "gpq": ".gpq", "xmm": ".xmm", "ymm": ".ymm", "zmm": ".zmm", "k": ".k",
             "mm": ".mm", "st": ".st", "sreg": ".sreg", "creg": ".creg", "dreg": ".dreg", "bnd": ".bnd", "tmm": ".tmm", "none": ".none"}
ROLE_LEAN = {0: ".none", 1: ".reg", 2: ".rm", 3: ".vvvv", 4: ".is4", 5: ".opc", 6: ".imm", 7: ".rel", 8: ".moff", 9: ".implmem"}


def _opt(x):
    return "none" if x == "-" else "(some %s)" % x


def _alt_lean(a):
    w = a.split(".")
    if w[0] == "r":
        return "(.reg %s %s)" % (KIND_LEAN[w[1]], _opt(w[2]))
    if w[0] == "m":
        return "(.mem %s %s)" % (_opt(w[1]), KIND_LEAN[w[2]])
    if w[0] == "i":
        return "(.imm %s %s %s)" % (w[1], w[2], _opt(w[3]))
    return "(.rel %s)" % w[1]


def rule_lean(form_line):
    w = form_line.split()[2:]
    names = ["modes", "space", "pp", "map", "w", "l", "opcode", "ri", "modKind", "modr", "modrm", "immBytes", "relBytes", "moff", "osz", "a67",
             "tuple", "elem", "kmask", "zmask", "er", "sae", "bcst", "immRev"]
    bools = {"ri", "moff", "a67", "kmask", "zmask", "er", "sae", "bcst", "immRev"}
    fields = []
    for n, v in zip(names, w):
        fields.append("%s := %s" % (n, ("true" if v == "1" else "false") if n in bools else v))
    nops = int(w[len(names)])
    rest = w[len(names) + 1:]
    ops = []
    for _ in range(nops):
        role, impl, na = int(rest[0]), rest[1] == "1", int(rest[2])
        alts = rest[3:3 + na]
        rest = rest[3 + na:]
        ops.append("⟨%s, %s, [%s]⟩" % (ROLE_LEAN[role], "true" if impl else "false", ", ".join(_alt_lean(a) for a in alts)))
    return "{ " + ", ".join(fields) + ", ops := [" + ", ".join(ops) + "] }"


VEX_REG_CLASSES = {"rvm": (0x72, 0x75, 0x73, 0x76), "rm": (0x68, 0x6B, 0x83, 0x84), "rvmi": (0x7A, 0x7C, 0x7B, 0x7D), "rmi": (0x6F, 0x71),
                   # legacy space: ExtRm, ExtRm_P, X86Rm, X86Rm_NoSize ([reg, rm]); X86Mr, X86Mr_NoSize ([rm, reg]); ExtRmi, ExtRmi_P ([reg, rm, imm8])
                   "lrm": (0x4A, 0x4D, 0x14, 0x16, 0x21, 0x56, 0x2C), "lmr": (0x17, 0x18, 0x56, 0x2C), "lrmi": (0x52, 0x53), "lop": (0x01,),
                   # X86Arith, X86Test, register-register: the class emits the [rm, reg] form; 8-bit operands in both kinds (gpb, gpbhi)
                   "larith": (0x19, 0x3D),
                   # X86Rot: shift / rotate a register by an imm8 ([rm, imm8] with an opcode-extension digit), all operand sizes
                   "lrot": (0x37,),
                   # X86Arith `op r8, imm8` (80 /d ib)
                   "larithi8": (0x19,),
                   # X86Push / X86Pop with a general-purpose register: the short `50+r` / `58+r` forms (register in the opcode byte)
                   "lopreg": (0x33, 0x35),
                   # X86Arith `op reg, r/m` direction (opcode + 2), used by the class for a memory source
                   "larithrm": (0x19,),
                   # X86Mov between general-purpose registers / memory: `mov r/m, reg` (88 / 89) and `mov reg, r/m` (8A / 8B)
                   "lmov": (0x2C,), "lmovrm": (0x2C,),
                   # VexMr_Lx, VexMri / VexMri_Lx: r/m operand first
                   "mr": (0x62, 0x83, 0x84), "mri": (0x64, 0x65),
                   # X86Lea: `lea reg, mem` (the memory operand has no register alternative: only the register kind is listed)
                   "llea": (0x2B,),
                   # X86Jcc / X86Jmp / X86Call to a bound label: rel8 and rel32 forms
                   "lrel": (0x26, 0x28, 0x1C),
                   # X86Arith `op r16/r32/r64, imm` (81 /d iw|id, 83 /d ib)
                   "larithimm": (0x19,), "laccimm": (0x19, 0x3D), "lrotx": (0x37,), "lm": (0x0E, 0x38), "lmovri": (0x2C,), "lmovrmi": (0x2C,), "lmovmi": (0x2C,), "larithmi": (0x19,), "ltestmi": (0x3D,), "lmoff": (0x2C, 0x2D), "lmoffst": (0x2C, 0x2D), "lmovsr": (0x2C,), "lmovrs": (0x2C,), "xrvm": (0x85, 0x88)}
SHAPE_ROLES = {"rvm": ["reg", "vvvv", "rm"], "rm": ["reg", "rm"], "rvmi": ["reg", "vvvv", "rm", "imm"], "rmi": ["reg", "rm", "imm"],
               "lrm": ["reg", "rm"], "lmr": ["rm", "reg"], "lrmi": ["reg", "rm", "imm"], "lop": None, "larith": ["rm", "reg"], "lrot": ["rm", "imm"], "larithi8": ["rm", "imm"], "lopreg": ["opc"], "larithrm": ["reg", "rm"], "lmov": ["rm", "reg"], "lmovrm": ["reg", "rm"], "mr": ["rm", "reg"], "mri": ["rm", "reg", "imm"], "llea": ["reg", "rm"], "lrel": ["rel"], "larithimm": ["rm", "imm"], "laccimm": ["none", "imm"], "lrotx": ["rm", "none"], "lm": ["rm"], "lmovri": ["opc", "imm"], "lmovrmi": ["rm", "imm"], "lmovmi": ["rm", "imm"], "larithmi": ["rm", "imm"], "ltestmi": ["rm", "imm"], "lmoff": ["none", "moff"], "lmoffst": ["moff", "none"], "lmovsr": ["rm", "reg"], "lmovrs": ["reg", "rm"], "xrvm": ["reg", "vvvv", "rm"]}


COVER_NAMES = {}      # shape -> instruction names with an entry in that chunk (filled by class_rows_lean)


def class_rows_lean(kept, rows, chunk=96):
    """kept: [(form, roles)], rows: {name: [id, enc, mainOp hex, altOp hex, iflags hex, aflags hex]} -> Lean source"""
    out = ["/- GENERATED by tools/gen_c01.py from db/isa_x86.json and the compiled instruction tables (harness `row`). -/",
           "import AsmjitVerif.Spec.X86Decode", "set_option maxRecDepth 100000", "namespace AsmjitVerif.Gen.X86ClassRows", "open Spec.X86", "",
           "structure Entry where", "  name : String", "  enc : Nat", "  mainOp : BitVec 32", "  iflags : BitVec 32", "  aflags : BitVec 32 := 0#32", "  altOp : BitVec 32 := 0#32", "  rule : Rule", "  kinds : List RegKind", ""]
    counts = {}
    for shape, encs in VEX_REG_CLASSES.items():
        entries = []
        for f, roles in kept:
            r = rows.get(f["name"])
            legacy = shape.startswith("l")
            if not r or int(r[1]) not in encs or ((f["prefix"] not in ("VEX", "EVEX") if shape != "xrvm" else f["prefix"] != "XOP") if not legacy else f["prefix"] != ""):
                continue
            if legacy and f["arch"] == "X86":
                continue      # 32-bit-only form (the class theorems are stated for 64-bit mode)
            if shape == "lop":
                if not all(o["implicit"] for o in f["operands"]) or f["imm"] or f["op"].get("mod") or f["op"].get("mm") == "0F01":
                    continue
            elif roles != SHAPE_ROLES[shape]:
                continue
            if int(r[1]) == 0x2C and shape in ("lrm", "lmr") and not any(o["reg"] in ("creg", "dreg") for o in f["operands"]):
                continue      # X86Mov: only the control / debug register moves go through the generic [reg, rm] / [rm, reg] theorems
            if shape == "lmovsr" and f["operands"][1]["reg"] != "sreg" or shape == "lmovrs" and f["operands"][0]["reg"] != "sreg":
                continue
            if shape in ("larithmi", "lmovmi", "ltestmi") and not f["operands"][0]["mem"]:
                continue
            if shape == "lmovrmi" and f["operands"][0]["reg"] != "r64":
                continue      # the class uses C7 /0 with a register only for `mov r64, imm32` (sign-extended)
            if shape == "lmovri" and f["operands"][0]["reg"] not in ("r16", "r32", "r64"):
                continue
            if shape == "larithi8" and f["operands"][0]["reg"] != "r8":
                continue
            if shape == "larithimm" and f["operands"][0]["reg"] not in ("r16", "r32", "r64"):
                continue
            if shape in ("lmov", "lmovrm") and any(o["reg"] not in ("r8", "r16", "r32", "r64") for o in f["operands"]):
                continue
            if legacy:
                pass
            elif shape == "xrvm":
                pass
            elif (f["prefix"] == "EVEX" and not int(r[4], 16) & 0x800000) or (f["prefix"] == "VEX" and not int(r[4], 16) & 0x400000):
                continue      # database form of an encoding space the instruction table does not implement (e.g. AVX10.2 EVEX vmpsadbw)
            if not legacy and int(r[4], 16) & 0x1000000:
                continue      # kPreferEvex instructions (AVX_VNNI / IFMA): the VEX form needs the `vex` option - not covered by the class theorems
            kinds = []
            okf = True
            for o, role in zip(f["operands"] if shape != "lop" else [], roles):
                if role == "imm":
                    if o["imm"] != 8 and shape not in ("larithimm", "laccimm", "lmovri", "lmovrmi", "lmovmi", "larithmi", "ltestmi"):
                        okf = False
                    continue
                if shape in ("llea", "lm") and not o["reg"]:
                    continue
                if role == "rel":
                    continue
                if shape == "lrotx" and role == "none":      # fixed `cl` / implied `1`: not encoded
                    continue
                if shape in ("lmoff", "lmoffst"):
                    if role == "moff":
                        continue
                    acc = {"al": "gpb", "ax": "gpw", "eax": "gpd", "rax": "gpq"}.get(o["reg"])
                    if not acc:
                        okf = False
                        break
                    kinds.append((acc,))
                    continue
                if shape == "laccimm":      # fixed accumulator operand, not encoded
                    acc = {"al": "gpb", "ax": "gpw", "eax": "gpd", "rax": "gpq"}.get(o["reg"])
                    if not acc or o["implicit"]:
                        okf = False
                        break
                    kinds.append((acc,))
                    continue
                if o["reg"] not in CLASS or (len(CLASS[o["reg"]]) != 1 and shape not in ("larith", "lrot", "larithi8", "larithrm", "lmov", "lmovrm", "larithimm", "lrotx", "lm", "lmovmi", "larithmi", "ltestmi")) or o["implicit"]:
                    okf = False
                    break
                kinds.append(CLASS[o["reg"]])
            if not okf:
                continue
            line, _ = translate(f)
            import itertools
            for combo in itertools.product(*kinds):
                entries.append('  { name := "%s", enc := %d, mainOp := 0x%s#32, iflags := 0x%s#32, aflags := 0x%s#32, altOp := 0x%s#32, kinds := [%s],\n    rule := %s }' % (
                    f["name"], int(r[1]), r[2], r[4], r[5], r[3], ", ".join(KIND_LEAN[k] for k in combo), rule_lean(line)))
        counts[shape] = len(entries)
        COVER_NAMES[shape] = set(en.split('"')[1] for en in entries)
        nch = 0
        for i in range(0, len(entries), chunk):
            out.append("def %sEntries%d : List Entry := [\n%s]\n" % (shape, nch, ",\n".join(entries[i:i + chunk])))
            nch += 1
        out.append("def %sChunks : List (List Entry) := [%s]\n" % (shape, ", ".join("%sEntries%d" % (shape, k) for k in range(nch))))
    out.append("end AsmjitVerif.Gen.X86ClassRows")
    return "\n".join(out) + "\n", counts
