"""Translator for C11 (independent code generation): which machine code of the library can reach static-storage memory that is
writable at run time?  Input: the object files of the *plain* build of the current tree (no sanitizer instrumentation).
Per object file (= translation unit) it reads with objdump
  -h   the sections and their flags: a *writable data section* is ALLOC, not READONLY, not CODE, not thread-local, and not
       `.data.rel.ro*` (constant tables that contain addresses: written by the dynamic loader only, read-only afterwards);
  -t   the symbol table: every object symbol (local, global, weak, unique) with its section;
  -r   the relocation records of every CODE section: each names the symbol or section the instruction refers to.
Output -> lean/AsmjitVerif/Gen/StaticRefs.lean
  writableObjects : (translation unit, symbol)           every object living in a writable data section (any binding)
  threadLocals    : (translation unit, symbol)           objects in thread-local sections
  staticRefs      : (translation unit, function, target) every reference from code into a writable data section
                                                         (target = symbol when the relocation or the offset names one, else the section)
The judgement (which functions may do that) is a theorem in Props/C11.lean, not here."""
import re
import subprocess
from pathlib import Path

NS = re.compile(r"\bv\d+_\d+::")
SYM = re.compile(r"^([0-9a-f]{16}) (.{7}) (\S+)\t([0-9a-f]{16}) (.*)$")
NOT_DATA = (".init_array", ".fini_array", ".ctors", ".dtors", ".preinit_array")


class TranslateError(Exception):
    pass


def objdump(args, obj):
    p = subprocess.run(["objdump", *args, str(obj)], capture_output=True, text=True)
    if p.returncode != 0:
        raise TranslateError("objdump %s %s: %s" % (" ".join(args), obj, p.stderr[-300:]))
    return p.stdout


def clean(name):
    name = name.strip()
    for pre in (".hidden ", ".protected ", ".internal "):
        if name.startswith(pre):
            name = name[len(pre):]
    return NS.sub("", name)


def sections(obj):
    """name -> set of flags (the last section of a name wins; names of COMDAT sections are unique per symbol)"""
    out = {}
    lines = objdump(["-h", "-w"], obj).splitlines()
    for ln in lines:
        m = re.match(r"^\s*\d+\s+(\S+)\s+([0-9a-f]{8})\s+\S+\s+\S+\s+\S+\s+\S+\s+(.*)$", ln)
        if m:
            flags = {f.strip() for f in m.group(3).split(",")}
            size = int(m.group(2), 16)
            prev = out.get(m.group(1))
            out[m.group(1)] = (flags | (prev[0] if prev else set()), size + (prev[1] if prev else 0))
    if not out:
        raise TranslateError("no sections read from %s" % obj)
    return out


def kind_of(name, flags):
    if "ALLOC" not in flags or "CODE" in flags:
        return "code" if "CODE" in flags else "other"
    if "THREAD_LOCAL" in flags:
        return "tls"
    if "READONLY" in flags or name.startswith(".data.rel.ro") or name in NOT_DATA or name.startswith(".eh_frame") or name.startswith(".gcc_except"):
        return "const"
    if name.startswith(".data.rel.local.DW.ref."):      # compiler-made pointer to the C++ personality routine: set by the loader only
        return "const"
    return "writable"


def symbols(obj):
    """list of (value, flags, section, size, name)"""
    out = []
    for ln in objdump(["-t", "-C"], obj).splitlines():
        m = SYM.match(ln)
        if m:
            out.append((int(m.group(1), 16), m.group(2), m.group(3), int(m.group(4), 16), clean(m.group(5))))
    return out


def relocs(obj):
    """list of (code section, offset, target base, addend)"""
    out, cur = [], None
    for ln in objdump(["-r", "-C"], obj).splitlines():
        m = re.match(r"^RELOCATION RECORDS FOR \[(.*)\]:", ln)
        if m:
            cur = m.group(1)
            continue
        m = re.match(r"^([0-9a-f]{16}) (R_\S+)\s+(.*?)\s*$", ln)
        if m and cur:
            val = m.group(3)
            a = re.match(r"^(.*?)([+-]0x[0-9a-f]+)$", val)
            base, add = (a.group(1), int(a.group(2), 16)) if a else (val, 0)
            out.append((cur, int(m.group(1), 16), clean(base), add))
    return out


def collect(objdir):
    objs = sorted(Path(objdir).glob("*.o"))
    if len(objs) < 20:
        raise TranslateError("only %d object files in %s" % (len(objs), objdir))
    per = {}
    defined_writable = {}     # global symbol name -> tu (objects in writable sections, for references through the GOT from other TUs)
    for o in objs:
        tu = o.name[:-2].replace("asmjit_", "asmjit/", 1).replace("_", "/", 1) if o.name.startswith("asmjit_") else o.name[:-2]
        secs = sections(o)
        kinds = {n: kind_of(n, f) for n, (f, _) in secs.items()}
        syms = symbols(o)
        per[tu] = (o, kinds, syms)
        for (v, fl, sec, size, name) in syms:
            if kinds.get(sec) == "writable" and "O" in fl and fl[0] in "gu!" or (kinds.get(sec) == "writable" and "O" in fl and "w" in fl):
                defined_writable[name] = tu
    writable, tls, refs = set(), set(), set()
    for tu, (o, kinds, syms) in per.items():
        objs_in = {}
        funcs_in = {}
        for (v, fl, sec, size, name) in syms:
            if "O" in fl and kinds.get(sec) == "writable":
                writable.add((tu, name))
                objs_in.setdefault(sec, []).append((v, size, name))
            elif "O" in fl and kinds.get(sec) == "tls":
                tls.add((tu, name))
            elif "F" in fl and kinds.get(sec) == "code":
                funcs_in.setdefault(sec, []).append((v, size, name))
        # a writable section with bytes but no object symbol would hide data: name it
        for sec, k in kinds.items():
            if k == "writable" and sec not in objs_in:
                secs = sections(o)
                if secs[sec][1] > 0:
                    writable.add((tu, "<unnamed bytes in %s>" % sec))

        def func_at(sec, off):
            for (v, size, name) in funcs_in.get(sec, []):
                if v <= off < v + max(size, 1):
                    return name
            return "<%s+0x%x>" % (sec, off)

        def obj_at(sec, addend):
            # pc-relative addends are biased by -4 .. -8 (instruction tail); take the first object that covers one of the candidates
            for bias in (4, 5, 6, 8, 0):
                for (v, size, name) in objs_in.get(sec, []):
                    if v <= addend + bias < v + max(size, 1):
                        return name
            return sec

        for (csec, off, base, add) in relocs(o):
            if kinds.get(csec) != "code":
                continue
            target = None
            if base in kinds:                      # section symbol
                if kinds[base] == "writable":
                    target = obj_at(base, add)
            else:
                local = [s for s in syms if s[4] == base and s[2] not in ("*UND*", "*ABS*", "*COM*")]
                if local:
                    if any(kinds.get(s[2]) == "writable" and "O" in s[1] for s in local):
                        target = base
                elif base in defined_writable:     # defined in another translation unit
                    target = base
            if target is not None:
                refs.add((tu, func_at(csec, off), target))
    return sorted(writable), sorted(tls), sorted(refs)


def q(s):
    return '"' + s.replace("\\", "\\\\").replace('"', '\\"') + '"'


def render(writable, tls, refs):
    s = ("-- GENERATED by tools/gen_statics.py (objdump of the plain object files of the current /repo tree). Do not edit.\n"
         "namespace AsmjitVerif.LockMap\n\n")
    s += "def writableObjects : List (String × String) := [\n  " + ",\n  ".join("(%s, %s)" % (q(a), q(b)) for a, b in writable) + "]\n\n"
    s += "def threadLocals : List (String × String) := [" + ", ".join("(%s, %s)" % (q(a), q(b)) for a, b in tls) + "]\n\n"
    s += "def staticRefs : List (String × String × String) := [\n  " + ",\n  ".join("(%s, %s, %s)" % (q(a), q(b), q(c)) for a, b, c in refs) + "]\n\n"
    return s + "end AsmjitVerif.LockMap\n"


if __name__ == "__main__":
    import sys
    w, t, r = collect(sys.argv[1])
    print(render(w, t, r))
