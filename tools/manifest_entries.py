"""Claimed checks = every tools/props/cNN.py that defines MANIFEST; the rest is listed as not claimed."""
import importlib
import sys
from pathlib import Path

sys.path.insert(0, str(Path(__file__).resolve().parent))
HOOK_COMMITS = ["cb4264030cb3c36884ac8c9b023f87c48de77a6b",   # H1: arena fault point (asmjit/support/arena.h, arena.cpp)
                "d6210ddbd91cb3b9a73e45ba36e95b2d5074b412"]   # H2: JitAllocator critical-section event (asmjit/core/jitallocator.cpp)
CHECKS = []
for f in sorted((Path(__file__).resolve().parent / "props").glob("c[0-9][0-9].py")):
    mod = importlib.import_module("props." + f.stem)
    if getattr(mod, "MANIFEST", None):
        e = dict(mod.MANIFEST)
        e["property_id"] = f.stem.upper()
        CHECKS.append(e)

_NOT_BUILT = "check not built yet in this round (design: DESIGN.md section 6); not claimed rather than claimed without machinery"
NOT_APPLICABLE = [{"property_id": "C%02d" % i, "reason": _NOT_BUILT} for i in range(1, 21)]
