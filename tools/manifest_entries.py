"""Claimed checks and the reasons for the properties not (yet) claimed."""
HOOK_COMMITS = []

CHECKS = [
    {"property_id": "C17",
     "technique": "Lean 4 theorems (bv_decide, all 2^64 displacements per format) over a hand model of codewriter.cpp + regenerated format list + C++/Lean correspondence",
     "text": "For each of the OffsetFormats the sources construct (list regenerated from /repo on every run and proved to be a subset of the "
             "proved formats) Lean proves for every 64-bit displacement: accepted => the patched word decodes (independent spec) to exactly that "
             "displacement and no bit outside the field changes; refused => no field content designates it. The model is tied to "
             "CodeWriterUtils::encode_offset32/64 and write_offset by running both on boundary, random and bulk-exhaustive inputs; the Lean "
             "monitor (the theorem's predicate) judges every answer of the real code.",
     "note": "Trusted: Lean kernel + bv_decide certificate axioms; Spec/Offset.lean as the meaning of a displacement field; gen_formats.py; "
             "the harness/driver diff. Thumb/A32 formats are modelled, not proved (no compiled backend uses them)."},
]

_NOT_BUILT = "check not built yet in this round (design: DESIGN.md section 6); not claimed rather than claimed without machinery"
NOT_APPLICABLE = [{"property_id": "C%02d" % i, "reason": _NOT_BUILT} for i in range(1, 21)]
