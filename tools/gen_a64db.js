// Dumps the AArch64 ISA database through the repository's own reader (db/index.js) as JSON lines.
// usage: node gen_a64db.js <repo>
"use strict";
const path = require("path");
const repo = process.argv[2];
const db = require(path.join(repo, "db", "index.js"));
const isa = new db.aarch64.ISA(require(path.join(repo, "db", "isa_aarch64.json")));
const out = [];
for (const i of isa.instructions) {
  const fields = {};
  for (const k of Object.keys(i.fields)) fields[k] = i.fields[k].values.map(v => [v.index, v.from, v.size]);
  const o = {
    name: i.name, ops: i.operands.map(o => ({data: o.data, type: o.type, reg: o.reg, regType: o.regType, imm: o.imm, mem: o.mem,
                                               elementType: o.elementType, element: o.element, sp: o.sp, shiftOp: o.shiftOp, flags: o.flags,
                                               regList: !!o.regList, consecutive: o.consecutive || 0, immSize: o.immSize || 0,
                                               memModes: o.memModes, base: o.base, index: o.index, offset: o.offset, restrict: o.restrict,
                                               }))
  , opcodeString: i.opcodeString, opcodeValue: i.opcodeValue >>> 0, fields, ext: Object.keys(i.ext), category: Object.keys(i.category),
    t: i.t || "", ta: i.ta || "", tb: i.tb || "", tatb: i["ta.tb"] || "", imm: i.imm || "", aliasOf: i.aliasOf || "", alt: !!i.alt };
  out.push(o);
}
process.stdout.write(JSON.stringify(out));
