"""C05 program generator + reference interpreter (search support).

A program is a list of statements over virtual registers.  `render()` turns it into the description line understood
by harness/c05.cpp; `Interp` executes the x86-64 subset on concrete inputs with *unbounded virtual registers* (the
left-hand side of property C05).  Nothing here is trusted for a proof: the interpreter only serves to find concrete
failing inputs and to sanity-check the RW information the validator trusts.
"""
import random

M64 = (1 << 64) - 1
MS_SIGS = ["vu", "uvuv", "vvvv", "vuuvuu"]      # harness/c05.cpp ms0..ms3
VIEW_BITS = {"r8": 8, "r16": 16, "r32": 32, "r64": 64}
TYPE_BITS = {"u8": 8, "u16": 16, "u32": 32, "u64": 64, "ptr": 64, "v128": 128, "v256": 256, "v512": 512, "k16": 16}


def mix(args):
    h = 0x9E3779B97F4A7C15
    for x in args:
        h ^= (x + 0x9E3779B97F4A7C15 + ((h << 6) & M64) + (h >> 2)) & M64
        h = (h * 0xD6E8FEB86659FD93) & M64
    return h


class R:
    """register operand: virtual register `name` seen through `view` (None = natural)"""
    __slots__ = ("name", "view")

    def __init__(self, name, view=None):
        self.name, self.view = name, view

    def __str__(self):
        return self.name if self.view is None else "%s.%s" % (self.name, self.view)


class Imm:
    __slots__ = ("v",)

    def __init__(self, v):
        self.v = v

    def __str__(self):
        return "#%d" % self.v


class Mem:
    __slots__ = ("size", "base", "index", "shift", "disp")

    def __init__(self, size, base, disp=0, index=None, shift=0):
        self.size, self.base, self.index, self.shift, self.disp = size, base, index, shift, disp

    def __str__(self):
        return "m:%d:%s:%s:%d:%d" % (self.size, self.base, self.index if self.index else "-", self.shift, self.disp)


class Lbl:
    __slots__ = ("n",)

    def __init__(self, n):
        self.n = n

    def __str__(self):
        return "@%d" % self.n


def parse_reg(s):
    n, _, v = s.partition(".")
    return R(n, v or None)


def round_lane(bits, lw, imm):
    """ROUNDPS/PD of one lane (imm[1:0] = nearest-even / floor / ceil / truncate, imm[2] = 0), IEEE bit patterns in and out"""
    import math
    import struct
    ebits, mbits = (8, 23) if lw == 32 else (11, 52)
    exp = (bits >> mbits) & ((1 << ebits) - 1)
    man = bits & ((1 << mbits) - 1)
    if exp == (1 << ebits) - 1:
        return bits | (1 << (mbits - 1)) if man else bits        # NaN -> quiet NaN, infinity unchanged
    x = struct.unpack("<f" if lw == 32 else "<d", bits.to_bytes(lw // 8, "little"))[0]
    if abs(x) >= 2.0 ** mbits:
        return bits
    mode = imm & 3
    r = float(round(x) if mode == 0 else math.floor(x) if mode == 1 else math.ceil(x) if mode == 2 else math.trunc(x))
    if r == 0.0:
        r = math.copysign(0.0, x)
    return int.from_bytes(struct.pack("<f" if lw == 32 else "<d", r), "little")


def render(prog):
    out = ["arch " + " ".join(prog["arch"])]
    for name, ty in prog["regs"]:
        out.append("reg %s %s" % (name, ty))
    for name, size, align in prog.get("stacks", []):
        out.append("stk %s %d %d" % (name, size, align))
    out.append("func %s %s" % (prog["ret"], " ".join(prog["argtypes"])))
    for i, r in enumerate(prog["args"]):
        out.append("arg %d %s" % (i, r))
    for st in prog["body"]:
        k = st[0]
        if k == "i":
            out.append("i %s %s" % (st[1], " ".join(str(o) for o in st[2])))
        elif k == "ik":
            out.append("ik %s %s %s %s" % (st[1], st[2], st[3], " ".join(str(o) for o in st[4])))
        elif k == "lab":
            out.append("lab %d" % st[1])
        elif k == "jt":
            out.append("jt %s %s %s" % (st[1], st[2], " ".join(str(n) for n in st[3])))
        elif k == "call":
            out.append("call %d %s %s" % (len(st[2]), st[1] if st[1] else "-", " ".join(str(a) for a in st[2])))
        elif k == "callw":
            out.append("callw %d %s %s" % (st[1], st[2] if st[2] else "-", " ".join(str(a) for a in st[3])))
        elif k == "raw":
            out.append(st[1])
        elif k == "ret":
            out.append("ret %s" % st[1] if st[1] else "ret")
    out.append("end")
    for inp in prog.get("inputs", []):
        out.append("run " + " ".join("%x" % v for v in inp))
    return "; ".join(out)


# ------------------------------------------------------------------------------------------------------------------
# reference interpreter (x86-64 subset)
# ------------------------------------------------------------------------------------------------------------------

class Unknown(Exception):
    pass


COND = {   # asmjit's canonical mnemonics: nb = ae, nbe = a, nl = ge, nle = g
    "z": lambda f: f["Z"], "nz": lambda f: not f["Z"],
    "b": lambda f: f["C"], "nb": lambda f: not f["C"], "nbe": lambda f: not f["C"] and not f["Z"], "be": lambda f: f["C"] or f["Z"],
    "l": lambda f: f["S"] != f["O"], "nl": lambda f: f["S"] == f["O"], "nle": lambda f: not f["Z"] and f["S"] == f["O"],
    "le": lambda f: f["Z"] or f["S"] != f["O"], "s": lambda f: f["S"], "ns": lambda f: not f["S"],
}
COND_USES = {"z": "Z", "nz": "Z", "b": "C", "nb": "C", "nbe": "CZ", "be": "CZ", "l": "SO", "nl": "SO", "nle": "ZSO", "le": "ZSO", "s": "S", "ns": "S"}


class Interp:
    def __init__(self, prog, inputs):
        self.prog = prog
        self.types = dict(prog["regs"])
        self.regs = {}
        self.flags = {"C": None, "Z": None, "S": None, "O": None}
        self.mem = bytearray((k * 37 + 11) & 0xFF for k in range(256))
        self.stacks = {n: bytearray(size) for n, size, _ in prog.get("stacks", [])}
        self.stack_init = {n: bytearray(size) for n, size, _ in prog.get("stacks", [])}
        self.calls = []
        self.labels = {st[1]: i for i, st in enumerate(prog["body"]) if st[0] == "lab"}
        self.BUF = 0x7000000000
        for i, r in enumerate(prog["args"]):
            v = inputs[i]
            if prog["argtypes"][i] == "ptr":
                v = self.BUF
            self.regs[r] = v & ((1 << TYPE_BITS[self.types[r]]) - 1)

    # -- registers ------------------------------------------------------------------------------------------------
    def bits(self, r):
        if r.view is None:
            return TYPE_BITS[self.types[r.name]]
        if r.view == "xmm":
            return 128
        return VIEW_BITS[r.view]

    def rd(self, r):
        if r.name not in self.regs:
            raise Unknown("read of undefined register " + r.name)
        return self.regs[r.name] & ((1 << self.bits(r)) - 1)

    def wr(self, r, val):
        w = self.bits(r)
        W = TYPE_BITS[self.types[r.name]]
        val &= (1 << w) - 1
        if w in (8, 16) and W > w:
            if r.name not in self.regs:
                raise Unknown("partial write of undefined register " + r.name)
            val = (self.regs[r.name] & ~((1 << w) - 1)) | val
        self.regs[r.name] = val & ((1 << W) - 1)

    # -- memory -----------------------------------------------------------------------------------------------------
    def addr(self, m):
        if m.base.startswith("&"):
            a = ("s", m.base[1:], m.disp)
            buf = self.stacks[m.base[1:]]
            off = m.disp
        else:
            base = self.rd(parse_reg(m.base))
            off = base + m.disp - self.BUF
            buf = self.mem
        if m.index:
            off += self.rd(parse_reg(m.index)) << m.shift
        if off < 0 or off + m.size > len(buf):
            raise Unknown("memory access out of the buffer")
        return buf, off

    def load(self, m):
        buf, off = self.addr(m)
        if m.base.startswith("&") and not all(self.stack_init[m.base[1:]][off:off + m.size]):
            raise Unknown("read of uninitialised user stack memory")
        return int.from_bytes(buf[off:off + m.size], "little")

    def store(self, m, v):
        buf, off = self.addr(m)
        buf[off:off + m.size] = (v & ((1 << (8 * m.size)) - 1)).to_bytes(m.size, "little")
        if m.base.startswith("&"):
            self.stack_init[m.base[1:]][off:off + m.size] = b"\x01" * m.size

    def val(self, o, w):
        if isinstance(o, R):
            return self.rd(o)
        if isinstance(o, Imm):
            return o.v & ((1 << w) - 1)
        if isinstance(o, Mem):
            return self.load(o)
        raise Unknown("operand")

    def width(self, o):
        return self.bits(o) if isinstance(o, R) else 8 * o.size

    def put(self, o, v):
        if isinstance(o, R):
            self.wr(o, v)
        else:
            self.store(o, v)

    def setf(self, w, r, c=None, o=None):
        r &= (1 << w) - 1
        self.flags["Z"] = r == 0
        self.flags["S"] = bool(r >> (w - 1))
        if c is not None:
            self.flags["C"] = bool(c)
        if o is not None:
            self.flags["O"] = bool(o)

    def noflags(self):
        for k in self.flags:
            self.flags[k] = None

    def cond(self, cc):
        for k in COND_USES[cc]:
            if self.flags[k] is None:
                raise Unknown("condition %s reads an undefined flag" % cc)
        return bool(COND[cc](self.flags))

    # -- execution ----------------------------------------------------------------------------------------------------
    def run(self, max_steps=200000):
        body = self.prog["body"]
        pc = 0
        steps = 0
        while True:
            steps += 1
            if steps > max_steps:
                raise Unknown("too many steps")
            st = body[pc]
            pc += 1
            k = st[0]
            if k == "lab":
                continue
            if k == "ret":
                rv = self.rd(R(st[1])) if st[1] else 0
                return rv, bytes(self.mem), self.calls
            if k == "callw":      # Win64 callee: 'v' arguments are logged as two 64-bit halves
                sig = MS_SIGS[st[1]]
                log = []
                for c, a in zip(sig, st[3]):
                    if c == "v":
                        v = self.val(a, 128)
                        log += [v & M64, v >> 64]
                    else:
                        log.append(self.val(a, 64))
                self.calls.append(log)
                if st[2]:
                    self.wr(R(st[2]), mix(log))
                self.noflags()
                continue
            if k == "call":
                args = [self.val(a, 64) for a in st[2]]
                self.calls.append(args)
                if st[1]:
                    self.wr(R(st[1]), mix(args))
                self.noflags()
                continue
            if k == "ik":       # AVX-512 masked 32-bit lane operation: ik name k z|m dst a b
                name, kr, z, ops = st[1], st[2], st[3], st[4]
                w = self.width(ops[0])
                m = self.rd(kr)
                a, b = self.val(ops[1], w), self.val(ops[2], w)
                old = 0 if z == "z" else self.val(ops[0], w)
                r = 0
                for i in range(w // 32):
                    x, y = (a >> (32 * i)) & 0xFFFFFFFF, (b >> (32 * i)) & 0xFFFFFFFF
                    v = (x + y) & 0xFFFFFFFF if name == "vpaddd" else (x - y) & 0xFFFFFFFF if name == "vpsubd" else x ^ y
                    r |= (v if (m >> i) & 1 else (old >> (32 * i)) & 0xFFFFFFFF) << (32 * i)
                self.put(ops[0], r)
                continue
            if k == "jt":
                t = self.rd(st[2])
                if t not in self.code_labels or self.code_labels[t] not in st[3]:
                    raise Unknown("jump table target")
                pc = self.labels[self.code_labels[t]]
                continue
            name, ops = st[1], st[2]
            if name == "jmp":
                pc = self.labels[ops[0].n]
                continue
            if name[0] == "j" and name[1:] in COND:
                if self.cond(name[1:]):
                    pc = self.labels[ops[0].n]
                continue
            self.exec_inst(name, ops)

    code_labels = {}

    def exec_inst(self, name, ops):
        f = self.flags
        if name in ("mov", "movzx"):
            self.put(ops[0], self.val(ops[1], self.width(ops[0])))
        elif name in ("movsx", "movsxd"):
            w = self.width(ops[1])
            v = self.val(ops[1], w)
            if v >> (w - 1):
                v -= 1 << w
            self.put(ops[0], v)
        elif name in ("add", "sub", "cmp", "and", "or", "xor", "test"):
            w = self.width(ops[0])
            if name in ("xor", "sub") and isinstance(ops[1], R) and str(ops[0]) == str(ops[1]):
                a = b = 0          # same-register idiom: the old value is not read
            else:
                a, b = self.val(ops[0], w), self.val(ops[1], w)
            if isinstance(ops[1], Imm):
                b = ops[1].v & ((1 << w) - 1)
            if name == "add":
                r = a + b
                self.setf(w, r, r >> w, ((a ^ r) & (b ^ r)) >> (w - 1) & 1)
            elif name in ("sub", "cmp"):
                r = a - b
                self.setf(w, r, a < b, ((a ^ b) & (a ^ r)) >> (w - 1) & 1)
            else:
                r = a & b if name in ("and", "test") else (a | b if name == "or" else a ^ b)
                self.setf(w, r, 0, 0)
            if name not in ("cmp", "test"):
                self.put(ops[0], r)
        elif name == "imul":
            w = self.width(ops[0])
            a, b = self.val(ops[0], w), self.val(ops[1], w)
            self.put(ops[0], a * b)
            self.noflags()
        elif name == "not":
            self.put(ops[0], ~self.val(ops[0], self.width(ops[0])))
        elif name == "neg":
            w = self.width(ops[0])
            a = self.val(ops[0], w)
            r = (-a) & ((1 << w) - 1)
            self.setf(w, r, a != 0, r == 1 << (w - 1))
            self.put(ops[0], r)
        elif name in ("inc", "dec"):
            w = self.width(ops[0])
            a = self.val(ops[0], w)
            r = (a + (1 if name == "inc" else -1)) & ((1 << w) - 1)
            self.setf(w, r, None, r == (1 << (w - 1)) if name == "inc" else r == (1 << (w - 1)) - 1)
            self.put(ops[0], r)
        elif name in ("shl", "shr", "sar", "rol", "ror"):
            w = self.width(ops[0])
            a = self.val(ops[0], w)
            c = self.val(ops[1], 8) & (63 if w == 64 else 31)
            if name == "shl":
                r = a << c
            elif name == "shr":
                r = a >> c
            elif name == "sar":
                r = ((a - (1 << w)) if a >> (w - 1) else a) >> c
            else:
                c %= w
                r = ((a << c) | (a >> (w - c))) if name == "rol" else ((a >> c) | (a << (w - c)))
            self.put(ops[0], r)
            self.noflags()
        elif name == "lea":
            m = ops[1]
            v = self.rd(parse_reg(m.base)) + m.disp + ((self.rd(parse_reg(m.index)) << m.shift) if m.index else 0)
            self.put(ops[0], v)
        elif name == "xchg":
            a, b = self.val(ops[0], self.width(ops[0])), self.val(ops[1], self.width(ops[1]))
            self.put(ops[0], b)
            self.put(ops[1], a)
        elif name.startswith("cmov"):
            w = self.width(ops[0])
            self.put(ops[0], self.val(ops[1], w) if self.cond(name[4:]) else self.val(ops[0], w))
        elif name.startswith("set"):
            self.put(ops[0], 1 if self.cond(name[3:]) else 0)
        elif name == "mul":       # mul hi, lo, src
            w = self.width(ops[1])
            p = self.val(ops[1], w) * self.val(ops[2], w)
            self.put(ops[1], p)
            self.put(ops[0], p >> w)
            self.noflags()
        elif name == "div":       # div rem(hi), quot(lo), divisor
            w = self.width(ops[1])
            n = (self.val(ops[0], w) << w) | self.val(ops[1], w)
            d = self.val(ops[2], w)
            if d == 0 or n // d >= 1 << w:
                raise Unknown("division fault")
            self.put(ops[1], n // d)
            self.put(ops[0], n % d)
            self.noflags()
        elif name == "cmpxchg":   # cmpxchg dst, new, acc
            w = self.width(ops[0])
            d, nw, acc = self.val(ops[0], w), self.val(ops[1], w), self.val(ops[2], w)
            r = acc - d
            self.setf(w, r, acc < d, ((acc ^ d) & (acc ^ r)) >> (w - 1) & 1)
            if acc == d:
                self.put(ops[0], nw)
            else:
                self.put(ops[2], d)
        elif name in ("movd", "movq"):
            w = 32 if name == "movd" else 64
            self.put(ops[0], self.val(ops[1], self.width(ops[1])) & ((1 << w) - 1))
        elif name in ("movdqu", "movups", "movaps", "movdqa"):
            self.put(ops[0], self.val(ops[1], 128))
        elif name in ("paddd", "psubd", "paddq", "pxor", "pand", "por"):
            a, b = self.val(ops[0], 128), self.val(ops[1], 128)
            if name in ("pxor", "pand", "por"):
                r = a ^ b if name == "pxor" else (a & b if name == "pand" else a | b)
            else:
                lw = 64 if name == "paddq" else 32
                r = 0
                for i in range(0, 128, lw):
                    x, y = (a >> i) & ((1 << lw) - 1), (b >> i) & ((1 << lw) - 1)
                    r |= (((x - y) if name == "psubd" else (x + y)) & ((1 << lw) - 1)) << i
            self.put(ops[0], r)
        elif name in ("vmovdqu32", "vmovdqa32", "vmovdqu", "vmovdqa"):
            w = self.width(ops[0]) if isinstance(ops[0], R) else self.width(ops[1])
            self.put(ops[0], self.val(ops[1], w))
        elif name in ("vpaddd", "vpsubd", "vpxord", "vpandd", "vpord"):
            w = self.width(ops[0])
            a, b = self.val(ops[1], w), self.val(ops[2], w)
            r = 0
            for i in range(0, w, 32):
                x, y = (a >> i) & 0xFFFFFFFF, (b >> i) & 0xFFFFFFFF
                v = {"vpaddd": x + y, "vpsubd": x - y, "vpxord": x ^ y, "vpandd": x & y, "vpord": x | y}[name] & 0xFFFFFFFF
                r |= v << i
            self.put(ops[0], r)
        elif name in ("vpand", "vpandn", "vpor", "vpxor"):
            w = self.width(ops[0])
            a, b = self.val(ops[1], w), self.val(ops[2], w)
            m = (1 << w) - 1
            self.put(ops[0], {"vpand": a & b, "vpandn": (~a & m) & b, "vpor": a | b, "vpxor": a ^ b}[name])
        elif name in ("vroundps", "vroundpd"):
            w = self.width(ops[0])
            lw = 32 if name == "vroundps" else 64
            a = self.val(ops[1], w)
            r = 0
            for i in range(0, w, lw):
                r |= round_lane((a >> i) & ((1 << lw) - 1), lw, ops[2].v) << i
            self.put(ops[0], r)
        elif name in ("vroundss", "vroundsd"):
            lw = 32 if name == "vroundss" else 64
            a, b = self.val(ops[1], 128), self.val(ops[2], 128)
            self.put(ops[0], (a & ~((1 << lw) - 1)) | round_lane(b & ((1 << lw) - 1), lw, ops[3].v))
        elif name in ("vextractf128", "vextracti128"):
            self.put(ops[0], (self.val(ops[1], 256) >> (128 * (ops[2].v & 1))) & ((1 << 128) - 1))
        elif name in ("vinsertf128", "vinserti128"):
            a, b, k = self.val(ops[1], 256), self.val(ops[2], 128), ops[3].v & 1
            self.put(ops[0], (a & ~(((1 << 128) - 1) << (128 * k))) | (b << (128 * k)))
        elif name in ("vbroadcastf128", "vbroadcasti128"):
            v = self.val(ops[1], 128)
            self.put(ops[0], v | (v << 128))
        elif name == "kmovw":
            self.put(ops[0], self.val(ops[1], 16) & 0xFFFF)
        elif name in ("korw", "kandw", "kxorw"):
            a, b = self.rd(ops[1]), self.rd(ops[2])
            self.put(ops[0], (a | b) if name == "korw" else (a & b) if name == "kandw" else a ^ b)
        elif name == "knotw":
            self.put(ops[0], ~self.rd(ops[1]) & 0xFFFF)
        elif name == "pshufd":
            a = self.val(ops[1], 128)
            r = 0
            for i in range(4):
                r |= ((a >> (32 * ((ops[2].v >> (2 * i)) & 3))) & 0xFFFFFFFF) << (32 * i)
            self.put(ops[0], r)
        else:
            raise Unknown("instruction " + name)


# ------------------------------------------------------------------------------------------------------------------
# generators
# ------------------------------------------------------------------------------------------------------------------

CONDS_AFTER_CMP = ["z", "nz", "b", "nb", "nbe", "be", "l", "nl", "nle", "le", "s", "ns"]


class GenX64:
    """random well-defined x86-64 programs; every register is defined before the random part and folded into the
    result at the end, so `nlive` values are simultaneously live throughout"""

    def __init__(self, rng, nlive, nops, features=()):
        self.rng, self.nlive, self.nops = rng, nlive, nops
        self.features = set(features)
        self.body = []
        self.regs = []      # (name, type)
        self.gp = []        # names of general data registers
        self.vec = []
        self.nlabel = 1
        self.counters = 0
        self.stacks = []
        self.avx = []       # (name, type) of AVX-512 vector registers (v128 / v256 / v512)
        self.kregs = []

    def new(self, ty, prefix="r"):
        n = "%s%d" % (prefix, len(self.regs))
        self.regs.append((n, ty))
        return n

    def label(self):
        self.nlabel += 1
        return self.nlabel

    def I(self, name, *ops):
        self.body.append(("i", name, list(ops)))

    def nat(self, r):
        return R(r, "r32" if dict(self.regs)[r] == "u32" else "r64")

    def pick(self, same_as=None):
        rng = self.rng
        if same_as is not None:
            ty = dict(self.regs)[same_as]
            c = [g for g in self.gp if dict(self.regs)[g] == ty]
            return rng.choice(c)
        return rng.choice(self.gp)

    def avx_op(self):
        rng = self.rng
        v, ty = rng.choice(self.avx)
        same = [x for x, t in self.avx if t == ty]
        size = TYPE_BITS[ty] // 8
        c = rng.random()
        if c < 0.35:
            self.I(rng.choice(["vpaddd", "vpsubd", "vpxord", "vpandd", "vpord"]), R(v), R(rng.choice(same)), R(rng.choice(same)))
        elif c < 0.45:
            self.I("vmovdqu32", R(v), Mem(size, "p", rng.randrange(0, 256 - size + 1, 4)))
        elif c < 0.55:
            self.I("vmovdqu32", Mem(size, "p", rng.randrange(0, 256 - size + 1, 4)), R(v))
        elif c < 0.62:
            self.I("vmovdqa32", R(v), R(rng.choice(same)))
        elif self.kregs:
            kk = rng.choice(self.kregs)
            if c < 0.72:
                self.I("kmovw", R(kk), R(self.pick(), "r32"))
            elif c < 0.78:
                g = self.pick()
                self.I("kmovw", R(g, "r32"), R(kk))
            elif c < 0.86:
                self.I(rng.choice(["korw", "kandw", "kxorw"]), R(kk), R(rng.choice(self.kregs)), R(rng.choice(self.kregs)))
            elif c < 0.9:
                self.I("knotw", R(kk), R(rng.choice(self.kregs)))
            else:
                self.body.append(("ik", rng.choice(["vpaddd", "vpsubd", "vpxord"]), R(kk), rng.choice(["z", "m"]), [R(v), R(rng.choice(same)), R(rng.choice(same))]))

    def rand_op(self, depth):
        rng = self.rng
        if self.avx and rng.random() < 0.3:
            return self.avx_op()
        k = rng.random()
        types = dict(self.regs)
        d = self.pick()
        dv = self.nat(d)
        w = 32 if types[d] == "u32" else 64
        if k < 0.30:
            op = rng.choice(["add", "sub", "and", "or", "xor", "mov", "imul"])
            if rng.random() < 0.25 and op != "imul":
                self.I(op, dv, Imm(rng.choice([0, 1, -1, 7, 255, 0x7FFFFFFF, -128, rng.randrange(-2**31, 2**31)])))
            else:
                s = self.pick(same_as=d)
                self.I(op, dv, self.nat(s))
        elif k < 0.36:
            self.I(rng.choice(["not", "neg", "inc", "dec"]), dv)
        elif k < 0.43:
            # shift by CL (fixed register) or immediate
            op = rng.choice(["shl", "shr", "sar", "rol", "ror"])
            if rng.random() < 0.6:
                self.I(op, dv, R(self.pick(), "r8"))
            else:
                self.I(op, dv, Imm(rng.randrange(0, w)))
        elif k < 0.50:
            # partial register writes / extensions
            s = self.pick()
            c = rng.random()
            if c < 0.35:
                self.I("mov", R(d, "r8"), R(s, "r8"))
            elif c < 0.5:
                self.I(rng.choice(["add", "xor"]), R(d, "r16"), R(s, "r16"))
            elif c < 0.75:
                self.I("movzx", R(d, "r32"), R(s, rng.choice(["r8", "r16"])))
            else:
                self.I("movsx", dv, R(s, rng.choice(["r8", "r16"])))
        elif k < 0.56:
            a, b = self.pick(), self.pick()
            self.I("lea", R(d, "r64") if types[d] != "u32" else R(d, "r32"), Mem(0, self.as64(a), rng.randrange(-64, 64), self.as64(b), rng.randrange(0, 4)))
        elif k < 0.64:
            # memory: loads, stores, register-or-memory operands on the 256-byte buffer
            size = 4 if types[d] == "u32" else 8
            disp = rng.randrange(0, 256 - size, size)
            c = rng.random()
            if c < 0.3:
                self.I("mov", dv, Mem(size, "p", disp))
            elif c < 0.55:
                self.I("mov", Mem(size, "p", disp), dv)
            elif c < 0.8:
                self.I(rng.choice(["add", "xor", "sub"]), dv, Mem(size, "p", disp))
            else:
                self.I(rng.choice(["add", "xor"]), Mem(size, "p", disp), dv)
        elif k < 0.68 and self.stacks:
            st = rng.choice(self.stacks)
            size = 4 if types[d] == "u32" else 8
            disp = rng.randrange(0, st[1] - size + 1, size)
            if rng.random() < 0.5:
                self.I("mov", Mem(size, "&" + st[0], disp), dv)
            else:
                self.I("add", dv, Mem(size, "&" + st[0], disp))
        elif k < 0.72:
            # widening multiply / divide with fixed registers
            if w == 32:
                cands = [g for g in self.gp if types[g] == "u32" and g != d]
            else:
                cands = [g for g in self.gp if types[g] == "u64" and g != d]
            if len(cands) >= 2:
                hi, src = rng.sample(cands, 2)
                if rng.random() < 0.6:
                    self.I("mul", self.nat(hi), dv, self.nat(src))
                else:
                    self.I("xor", R(hi, "r32"), R(hi, "r32"))
                    self.I("or", self.nat(src), Imm(1))
                    self.I("div", self.nat(hi), dv, self.nat(src))
        elif k < 0.75:
            cands = [g for g in self.gp if types[g] == types[d] and g != d]
            if len(cands) >= 2:
                nw, acc = rng.sample(cands, 2)
                self.I("cmpxchg", dv, self.nat(nw), self.nat(acc))
        elif k < 0.78:
            s = self.pick(same_as=d)
            if s != d:
                self.I("xchg", dv, self.nat(s))
        elif k < 0.84:
            # flag consumers right after a compare, with flag-neutral instructions in between
            a = self.pick(same_as=d)
            self.I(rng.choice(["cmp", "test"]) if rng.random() < 0.8 else "sub", dv, self.nat(a))
            for _ in range(rng.randrange(0, 3)):
                x = self.pick()
                y = self.pick(same_as=x)
                self.I("mov", self.nat(x), self.nat(y))
            cc = rng.choice(CONDS_AFTER_CMP)
            t = self.pick(same_as=d)
            if rng.random() < 0.5:
                self.I("cmov" + cc, self.nat(t), self.nat(self.pick(same_as=t)))
            else:
                self.I("set" + cc, R(t, "r8"))
        elif k < 0.88 and self.vec:
            v = rng.choice(self.vec)
            c = rng.random()
            if c < 0.25:
                self.I("movd" if w == 32 else "movq", R(v), dv)
            elif c < 0.45:
                self.I("movd" if w == 32 else "movq", dv, R(v))
            elif c < 0.7:
                self.I(rng.choice(["paddd", "psubd", "paddq", "pxor", "pand", "por"]), R(v), R(rng.choice(self.vec)))
            elif c < 0.8:
                self.I("pshufd", R(v), R(rng.choice(self.vec)), Imm(rng.randrange(256)))
            elif c < 0.9:
                self.I("movdqu", R(v), Mem(16, "p", rng.randrange(0, 241)))
            else:
                self.I("movdqu", Mem(16, "p", rng.randrange(0, 241)), R(v))
        elif k < 0.91:
            # call: 0..8 register / immediate arguments
            n = rng.randrange(0, 9)
            args = []
            for _ in range(n):
                if rng.random() < 0.15:
                    args.append(Imm(rng.randrange(0, 1000)))
                else:
                    g = rng.choice([g for g in self.gp if types[g] == "u64"] or [None])
                    args.append(R(g) if g else Imm(3))
            rets = [g for g in self.gp if types[g] == "u64"]
            self.body.append(("call", rng.choice(rets) if rets and rng.random() < 0.8 else None, args))
        elif depth < 3:
            self.control(depth)

    def as64(self, r):
        return r + ".r64" if dict(self.regs)[r] == "u32" else r

    def block(self, depth, n):
        for _ in range(n):
            self.rand_op(depth)

    def compare(self):
        a = self.pick()
        b = self.pick(same_as=a)
        self.I("cmp", self.nat(a), self.nat(b))
        return rng_choice(self.rng, CONDS_AFTER_CMP)

    def control(self, depth):
        rng = self.rng
        k = rng.random()
        n = max(1, self.nops // 12)
        if k < 0.25:                                   # forward skip
            cc = self.compare()
            l = self.label()
            self.I("j" + cc, Lbl(l))
            self.block(depth + 1, rng.randrange(1, n + 1))
            self.body.append(("lab", l))
        elif k < 0.5:                                  # diamond
            cc = self.compare()
            le, lx = self.label(), self.label()
            self.I("j" + cc, Lbl(le))
            self.block(depth + 1, rng.randrange(1, n + 1))
            self.I("jmp", Lbl(lx))
            self.body.append(("lab", le))
            self.block(depth + 1, rng.randrange(1, n + 1))
            self.body.append(("lab", lx))
        elif k < 0.75:                                 # counted loop (possibly nested through recursion)
            c = self.new("u32", "c")
            self.I("mov", R(c), Imm(rng.randrange(1, 4)))
            lt = self.label()
            self.body.append(("lab", lt))
            self.block(depth + 1, rng.randrange(1, n + 1))
            self.I("dec", R(c))
            self.I("jnz", Lbl(lt))
        elif k < 0.9:                                  # irreducible: a second entry into the loop body
            c = self.new("u32", "c")
            self.I("mov", R(c), Imm(rng.randrange(1, 4)))
            cc = self.compare()
            lt, lm = self.label(), self.label()
            self.I("j" + cc, Lbl(lm))
            self.body.append(("lab", lt))
            self.block(depth + 1, rng.randrange(1, n + 1))
            self.body.append(("lab", lm))
            self.block(depth + 1, rng.randrange(1, n + 1))
            self.I("dec", R(c))
            self.I("jnz", Lbl(lt))
        else:                                          # annotated jump table over label addresses
            t, u = self.new("u64", "t"), self.new("u64", "t")
            ls = [self.label() for _ in range(rng.randrange(2, 5))]
            lx = self.label()
            self.I("lea", R(t), Mem(0, "@%d" % ls[0]))
            for l in ls[1:]:
                self.I("lea", R(u), Mem(0, "@%d" % l))
                cc = self.compare()
                self.I("cmov" + cc, R(t), R(u))
            self.body.append(("jt", "jmp", R(t), ls))
            for l in ls:
                self.body.append(("lab", l))
                self.block(depth + 1, rng.randrange(1, n + 1))
                if l != ls[-1] or rng.random() < 0.5:
                    self.I("jmp", Lbl(lx))
            self.body.append(("lab", lx))

    def build(self, ninputs=4):
        rng = self.rng
        p = "p"
        self.regs.append((p, "ptr"))
        args = [p]
        argtypes = ["ptr"]
        nargs = rng.randrange(1, 6)
        for i in range(nargs):
            a = self.new("u64", "a")
            args.append(a)
            argtypes.append("u64")
            self.gp.append(a)
        if rng.random() < 0.4:
            self.stacks.append(("s0", rng.choice([16, 32, 64]), rng.choice([4, 8, 16])))
        while len(self.gp) < max(self.nlive, 3):
            ty = "u64" if rng.random() < 0.5 else "u32"
            r = self.new(ty)
            src = rng.choice(args[1:])
            c = rng.random()
            if c < 0.4:
                self.I("mov", self.nat(r), Imm(rng.randrange(-2**31, 2**31)))
            elif c < 0.8:
                self.I("lea", R(r, "r64") if ty == "u64" else R(r, "r32"), Mem(0, src, len(self.gp) * 3 + 1))
            else:
                self.I("mov", self.nat(r), Mem(8 if ty == "u64" else 4, p, (len(self.gp) * 8) % 248))
            self.gp.append(r)
        if not [g for g in self.gp if dict(self.regs)[g] == "u32"]:
            r = self.new("u32")
            self.I("mov", R(r), Imm(5))
            self.gp.append(r)
        nvec = 0 if rng.random() < 0.5 else rng.randrange(1, max(2, min(24, self.nlive // 2 + 2)))
        for i in range(nvec):
            v = self.new("v128", "x")
            self.I("movdqu", R(v), Mem(16, p, (i * 16) % 241))
            self.vec.append(v)
        if "avx512" in self.features:
            for i in range(rng.choice([2, 4, 8, 16, 24, 40])):
                ty = rng.choice(["v128", "v256", "v512", "v512"])
                v = self.new(ty, "y")
                size = TYPE_BITS[ty] // 8
                self.I("vmovdqu32", R(v), Mem(size, p, (i * 16) % (256 - size + 1)))
                self.avx.append((v, ty))
            for i in range(rng.choice([1, 2, 4, 7, 9, 12])):
                kk = self.new("k16", "k")
                self.I("kmovw", R(kk), R(rng.choice(self.gp), "r32"))
                self.kregs.append(kk)
        for st in self.stacks:
            for off in range(0, st[1], 8):
                self.I("mov", Mem(8, "&" + st[0], off), R(args[1]))
        self.block(0, self.nops)
        # fold everything into the result
        res = self.new("u64", "res")
        tmp = self.new("u64", "tmp")
        self.I("xor", R(res, "r32"), R(res, "r32"))
        for g in self.gp:
            if dict(self.regs)[g] == "u32":
                self.I("mov", R(tmp, "r32"), R(g))
                self.I("add", R(res), R(tmp))
            else:
                self.I("add", R(res), R(g))
            self.I("rol", R(res), Imm(7))
        for i, v in enumerate(self.vec):
            self.I("movq", R(tmp), R(v))
            self.I("xor", R(res), R(tmp))
            if i < 8:
                self.I("movdqu", Mem(16, p, 16 * i), R(v))
        # AVX-512 values: one accumulator per vector width, masks through a GP register
        for ty in ("v128", "v256", "v512"):
            regs_t = [v for v, t in self.avx if t == ty]
            if regs_t:
                for v in regs_t[1:]:
                    self.I("vpxord" if rng.random() < 0.5 else "vpaddd", R(regs_t[0]), R(regs_t[0]), R(v))
                size = TYPE_BITS[ty] // 8
                self.I("vmovdqu32", Mem(size, p, {"v128": 0, "v256": 32, "v512": 128}[ty]), R(regs_t[0]))
        for kk in self.kregs:
            self.I("kmovw", R(tmp, "r32"), R(kk))
            self.I("add", R(res), R(tmp))
            self.I("rol", R(res), Imm(5))
        self.body.append(("ret", res))
        inputs = []
        for _ in range(ninputs):
            inputs.append([0] + [rng.choice([0, 1, 2, M64, 1 << 63, rng.getrandbits(64), rng.getrandbits(16), rng.getrandbits(32)]) for _ in range(nargs)])
        # code-label "addresses" for the interpreter: the value of `lea r, [label]` is the label number
        prog = {"arch": ["x64"] + sorted(self.features), "regs": self.regs, "stacks": self.stacks, "ret": "u64", "argtypes": argtypes, "args": args,
                "body": self.body, "inputs": inputs}
        return prog


def rng_choice(rng, seq):
    return rng.choice(seq)


class InterpX64(Interp):
    """adds code labels as values: `lea r, [label]` yields a token, an annotated jump consumes it"""

    def exec_inst(self, name, ops):
        if name == "lea" and isinstance(ops[1], Mem) and ops[1].base.startswith("@"):
            self.put(ops[0], 0x5000000000 + int(ops[1].base[1:]))
            return
        Interp.exec_inst(self, name, ops)

    def run(self, max_steps=200000):
        self.code_labels = {0x5000000000 + n: n for n in self.labels}
        return Interp.run(self, max_steps)
