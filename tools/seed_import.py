#!/usr/bin/env python3
"""Import seeded changes produced by an independent sub-agent: /var/tmp/seed/<PID>/s<PID>_<i>.{patch,json}, _demo.cpp
-> /verif/seeded/<PID>-<i>/{patch.diff, demo.cpp, meta.json}.  usage: seed_import.py PID"""
import json
import os
import shutil
import sys
from pathlib import Path

pid = sys.argv[1]
src = Path(os.environ.get("SEED_ROOT", "/var/tmp/seed")) / pid   # round 2: SEED_ROOT=/var/tmp/seed2
dst_root = Path(__file__).resolve().parent.parent / "seeded"
for p in sorted(src.glob("s%s_*.patch" % pid)):
    i = p.stem.split("_")[-1]
    d = dst_root / ("%s-%s" % (pid, i))
    d.mkdir(parents=True, exist_ok=True)
    shutil.copy(p, d / "patch.diff")
    demo = src / ("s%s_%s_demo.cpp" % (pid, i))
    if demo.exists():
        shutil.copy(demo, d / "demo.cpp")
    meta = {}
    j = src / ("s%s_%s.json" % (pid, i))
    if j.exists():
        try:
            meta = json.loads(j.read_text())
        except Exception:
            meta = {"raw": j.read_text()[:2000]}
    meta.setdefault("property", pid)
    meta["origin"] = "independent sub-agent given only the property text and a scratch worktree of /repo"
    meta.setdefault("confirmed", "pending")
    meta.setdefault("check_result", "pending")
    (d / "meta.json").write_text(json.dumps(meta, indent=1))
    print("imported", d)
