"""GNU/LLVM assembly text for an `emit` line of the C02 protocol, and the llvm-mc-14 oracle (an assembler independent of
AsmJit and of our Lean spec).  Used (a) in the thorough tier to cross-check the Lean spec on accepted instructions
(disagreements are reported as SPEC-SUSPECT, never as violations) and (b) offline to vet database errata."""
import re
import subprocess

COND = ["al", "nv", "eq", "ne", "cs", "cc", "mi", "pl", "vs", "vc", "hi", "ls", "ge", "lt", "gt", "le"]
SHIFT = {0: "lsl", 1: "lsr", 2: "asr", 3: "ror", 5: "msl", 6: "uxtb", 7: "uxth", 8: "uxtw", 9: "uxtx", 10: "sxtb", 11: "sxth", 12: "sxtw", 13: "sxtx"}
ARR = {(10, 1): "8b", (11, 1): "16b", (10, 2): "4h", (11, 2): "8h", (10, 3): "2s", (11, 3): "4s", (11, 4): "2d", (10, 4): "1d",
       (9, 2): "2h", (9, 1): "4b", (11, 5): "4b", (11, 6): "2h", (10, 5): "4b", (10, 6): "2h"}
ELEM = {1: "b", 2: "h", 3: "s", 4: "d", 5: "4b", 6: "2h"}
COND_MNEMONICS = {"csel", "csinc", "csinv", "csneg", "cinc", "cinv", "cneg", "cset", "csetm", "ccmp", "ccmn", "fcsel", "fccmp", "fccmpe"}
LIST_ALL = re.compile(r"^(ld|st)[1-4]r?$")
MARCH = "+v8.9a,+fullfp16,+crc,+lse,+rdm,+dotprod,+fp16fml,+sha2,+sha3,+aes,+sm4,+bf16,+i8mm,+mte,+complxnum,+jsconv,+rcpc,+rcpc-immo,+flagm,+altnzcv,+fptoint,+pauth,+ls64,+xs,+wfxt,+hbc,+mops,+tme,+rand,+sb,+ssbs,+predres,+spe,+brbe"


def reg_name(rt, rid, et, idx):
    if rt == 5:
        return "wsp" if rid == 31 else "wzr" if rid == 63 else "w%d" % rid
    if rt == 6:
        return "sp" if rid == 31 else "xzr" if rid == 63 else "x%d" % rid
    if 7 <= rt <= 11:
        if idx is not None:
            return "v%d.%s[%d]" % (rid, ELEM.get(et, "?"), idx)
        if et:
            return "v%d.%s" % (rid, ARR.get((rt, et), "?"))
        return "%s%d" % ("bhsdq"[rt - 7], rid)
    return "?%d.%d" % (rt, rid)


def parse_tok(t):
    if t == "-":
        return ("none",)
    if t == "l":
        return ("label",)
    if t.startswith("ml"):
        return ("memlabel", int(t[2:], 16))
    p = t[1:].split(".")
    if t[0] == "r":
        v = [int(x) for x in p]
        return ("reg", v[0], v[1], v[2] if len(v) > 2 else 0, v[3] if len(v) > 3 else None)
    if t[0] == "i":
        return ("imm", int(p[0], 16), int(p[1]) if len(p) > 1 else 0)
    if t[0] == "f":
        return ("fimm", int(p[0], 16))
    if t[0] == "a":
        return ("abs", int(p[0], 16))
    if t[0] == "m":
        v = [int(x) for x in p[:7]] + [int(p[7], 16)]
        return ("mem",) + tuple(v)
    return ("?",)


def shift_position(name, ops, k):
    n = len(ops)
    if k != n - 1 or k == 0:
        return False
    if name in ("add", "adds", "sub", "subs", "and", "ands", "orr", "orn", "eor", "eon", "bic", "bics", "addpt", "subpt"):
        return n == 4
    if name in ("cmp", "cmn", "tst", "mvn", "neg", "negs", "movz", "movk", "movn", "movi", "mvni"):
        return n == 3
    return False


def s64(v):
    return v - (1 << 64) if v >= (1 << 63) else v


def text_of(line, insts):
    """emit line -> assembly text (None when an operand has no textual form)"""
    w = line.split()
    pos, iid, cc = int(w[1]), int(w[2]), int(w[3])
    name = insts[iid]["name"]
    ops = [parse_tok(t) for t in w[4:]]
    while ops and ops[-1][0] == "none":
        ops.pop()
    mn = name + ("." + COND[cc] if cc else "")
    parts = []
    pc = 0x10000000 + pos
    nimm = len([o for o in ops if o[0] == "imm"])
    seen_imm = 0
    k = 0
    n = len(ops)
    while k < n:
        o = ops[k]
        if o[0] == "reg":
            _, rt, rid, et, idx = o
            is_vec = 7 <= rt <= 11
            lst = None
            if is_vec and LIST_ALL.match(name):
                j = k
                while j < n and ops[j][0] == "reg" and 7 <= ops[j][1] <= 11:
                    j += 1
                lst = ops[k:j]
            elif is_vec and name in ("tbl", "tbx") and k == 1:
                lst = ops[1:n - 1]
            if lst:
                idxs = {x[4] for x in lst}
                if len(idxs) == 1 and lst[0][4] is not None:
                    parts.append("{" + ", ".join("v%d.%s" % (x[2], ELEM.get(x[3], "?")) for x in lst) + "}[%d]" % lst[0][4])
                else:
                    parts.append("{" + ", ".join(reg_name(x[1], x[2], x[3], x[4]) for x in lst) + "}")
                k += len(lst)
                continue
            parts.append(reg_name(rt, rid, et, idx))
        elif o[0] == "imm":
            _, v, p = o
            seen_imm += 1
            if name in COND_MNEMONICS and seen_imm == nimm and p == 0:
                if v > 15:
                    return None
                parts.append(COND[v])
            elif p != 0 or shift_position(name, ops, k):
                if p not in SHIFT:
                    return None
                parts.append("%s #%d" % (SHIFT[p], v))
            elif name in ("b", "bl", "bc", "cbz", "cbnz", "tbz", "tbnz", "adr", "adrp") and k == n - 1:
                d = s64(v) - (pc & ~0xFFF if name == "adrp" else pc)
                parts.append("#%d" % d if name != "adrp" else "#%d" % d)
            else:
                parts.append("#%d" % s64(v))
        elif o[0] == "fimm":
            import struct
            parts.append("#%r" % struct.unpack("<d", struct.pack("<Q", o[1]))[0])
        elif o[0] == "mem":
            _, bt, bid, it, iid_, sop, sh, mode, off = o
            if bt != 6:
                return None
            base = reg_name(6, bid, 0, None)
            so = off - (1 << 32) if off >= (1 << 31) else off
            if it:
                idx = reg_name(it, iid_, 0, None)
                if mode == 2:
                    parts.append("[%s], %s" % (base, idx))
                elif mode == 0 and so == 0:
                    ext = ""
                    if sop != 0 or sh != 0:
                        if sop not in SHIFT:
                            return None
                        ext = ", %s #%d" % (SHIFT[sop], sh) if (sh or sop == 0) else ", %s" % SHIFT[sop]
                    parts.append("[%s, %s%s]" % (base, idx, ext))
                else:
                    return None
            elif mode == 0:
                parts.append("[%s, #%d]" % (base, so) if so else "[%s]" % base)
            elif mode == 1:
                parts.append("[%s, #%d]!" % (base, so))
            else:
                parts.append("[%s], #%d" % (base, so))
        elif o[0] == "abs":
            parts.append("#%d" % (s64(o[1]) - pc))
        elif o[0] == "label":
            parts.append("#%d" % (0x10000000 - pc))
        elif o[0] == "memlabel":
            parts.append("#%d" % (0x10000000 + s64(o[1]) - pc))
        else:
            return None
        k += 1
    return mn + " " + ", ".join(parts)


def llvm_assemble(texts):
    """assemble each text separately (one llvm-mc run, errors are per line) -> list of word (int) or None"""
    src = "\n".join(texts) + "\n"
    p = subprocess.run(["llvm-mc-14", "-triple=aarch64", "-mattr=" + MARCH, "-show-encoding"], input=src, capture_output=True, text=True)
    res = [None] * len(texts)
    # errors carry "<stdin>:LINE:"; encodings appear in order for the lines that assembled
    bad = set()
    for m in re.finditer(r"<stdin>:(\d+):\d+: error", p.stderr):
        bad.add(int(m.group(1)) - 1)
    encs = re.findall(r"encoding: \[([^\]]*)\]", p.stdout)
    good = [i for i in range(len(texts)) if i not in bad]
    if len(encs) != len(good):
        return None
    for i, e in zip(good, encs):
        b = [x.strip() for x in e.split(",")]
        try:
            res[i] = int(b[0], 16) | (int(b[1], 16) << 8) | (int(b[2], 16) << 16) | (int(b[3], 16) << 24)
        except (ValueError, IndexError):
            res[i] = None
    return res
