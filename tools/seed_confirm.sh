#!/bin/bash
# Confirms a seeded change in a scratch worktree: builds with cmake, runs the 10 ctest tests, builds and runs the demo
# with and without the change.  usage: seed_confirm.sh <seeded dir>     (writes <dir>/confirm.log; updates nothing else)
set -u
D=$(readlink -f "$1"); N=$(basename "$D"); W=/var/tmp/sc_$N
exec > "$D/confirm.log" 2>&1
git -C /repo worktree add --detach -q "$W" HEAD || exit 2
trap 'git -C /repo worktree remove --force "$W"' EXIT
cd "$W"
build_demo() { # $1 = out
  g++ -std=c++17 -O1 -DASMJIT_STATIC -I"$W" "$D/demo.cpp" $(ls "$W"/asmjit/*/*.cpp) -o "$1" -lpthread -lrt 2>&1 | tail -5
}
echo "== pristine demo"; build_demo "$W/demo_clean" && "$W/demo_clean" > /dev/null 2>&1; echo "pristine_demo_exit=$?"
git apply "$D/patch.diff" || { echo "patch_applies=no"; exit 3; }
echo "patch_applies=yes"
echo "== mutated demo"; build_demo "$W/demo_mut" && "$W/demo_mut" > "$W/demo_mut.out" 2>&1; echo "mutated_demo_exit=$?"; tail -5 "$W/demo_mut.out"
echo "== tests with the change"
cmake -S "$W" -B "$W/_b" -G Ninja -DASMJIT_TEST=ON -DCMAKE_BUILD_TYPE=RelWithDebInfo > /dev/null && cmake --build "$W/_b" -j8 2>&1 | tail -2
ctest --test-dir "$W/_b" -j8 --timeout 900 2>&1 | tail -6
echo "done"
