#!/usr/bin/env python3
"""QA of C11's linearisation check: scratch worktree of /repo + fixes/H2-hook.patch (unless /repo already has the hook) + one mutant,
then the quick check through VERIF_REPO.  usage: selftest_c11_h2.py [patch ...]   (default: tools/mutants/C11-h2/*.patch, then
tools/mutants/C11/*.patch and seeded/C11-*/patch.diff on the hooked tree).  The first run is the hooked tree without a mutant: must be green."""
import os
import subprocess
import sys
from pathlib import Path

VERIF = Path(__file__).resolve().parent.parent
patches = [Path(p) for p in sys.argv[1:]] or (sorted((VERIF / "tools/mutants/C11-h2").glob("*.patch")) +
                                               sorted((VERIF / "tools/mutants/C11").glob("*.patch")) + sorted((VERIF / "seeded").glob("C11-*/patch.diff")))
scratch = Path("/var/tmp/st_C11h2_%d" % os.getpid())
subprocess.run(["git", "-C", "/repo", "worktree", "add", "--detach", "-q", str(scratch), "HEAD"], check=True)
hook_in_repo = "asmjit_verif_jit_event" in (scratch / "asmjit/core/jitallocator.cpp").read_text()
try:
    for p in [None] + patches:
        subprocess.run(["git", "-C", str(scratch), "checkout", "-q", "--", "."], check=True)
        if not hook_in_repo:
            subprocess.run(["git", "-C", str(scratch), "apply", str(VERIF / "fixes/H2-hook.patch")], check=True)
        name = "(hooked tree, no mutant)"
        if p is not None:
            name = p.parent.name + "/" + p.name
            a = subprocess.run(["patch", "-p1", "-s", "-d", str(scratch), "-i", str(p.resolve())], capture_output=True, text=True)
            if a.returncode != 0:
                print("%-60s PATCH DOES NOT APPLY: %s" % (name, (a.stdout + a.stderr).strip()[:200]))
                continue
        env = dict(os.environ, VERIF_REPO=str(scratch), VERIF_EVIDENCE_DIR=str(VERIF / ".build" / "selftest_evidence"))
        r = subprocess.run([sys.executable, str(VERIF / "tools/check.py"), "C11", "--tier", "quick"], cwd=VERIF, env=env, capture_output=True, text=True)
        lines = [l for l in r.stdout.splitlines() if l.startswith(("VIOLATION", "KNOWN-FINDING"))]
        if p is None:
            verdict = "green" if r.returncode == 0 else "NOT GREEN"
        else:
            verdict = "caught" if r.returncode == 1 and any(l.startswith("VIOLATION") for l in lines) else "MISSED"
        print("%-60s %s  %s" % (name, verdict, " | ".join(lines)[:200]))
        for l in r.stderr.splitlines():
            if l.startswith("  -> "):
                print("      " + l[:600])
        sys.stdout.flush()
finally:
    subprocess.run(["git", "-C", "/repo", "worktree", "remove", "--force", str(scratch)])
    subprocess.run([sys.executable, "-c", "import sys; sys.path.insert(0, %r); import importlib, vlib\n"
                    "importlib.import_module('props.c11').generate()" % str(VERIF / "tools")], cwd=VERIF)
