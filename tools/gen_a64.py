"""Translators for C02.

  * db/isa_aarch64.json  --(node, the repository's own reader db/index.js)-->  Gen/A64DB.lean
    per form: mnemonic, bit template (mask, value), named fields with positions, one OpSpec per assembly operand
    (Spec/A64Decode.lean says what an OpSpec means).  Only the *syntax* of the database is interpreted here: operand
    pattern -> OpSpec constructor; everything semantic lives in the Lean spec.
  * harness `dump` (compiled from the current a64instdb.cpp / a64assembler.cpp)  -->  Gen/A64Tables.lean
    instruction table + the EncodingData arrays of the modelled classes + the file-static lookup tables.

Database errata: tools/a64db_errata.json lists forms whose template / operand pattern in db/isa_aarch64.json is not
the Arm ARM encoding (each vetted with llvm-mc-14); they are replaced before the Lean file is written and listed in
the evidence.  Forms of SVE / SME are dropped (AsmJit has no such instructions).
"""
import json
import re
import subprocess
from pathlib import Path

import vlib


class TranslateError(Exception):
    pass


HERE = Path(__file__).resolve().parent
ERRATA = HERE / "a64db_errata.json"

REGLETTER_GP = {"W": "w32", "X": "x64", "R": "any"}
SCALAR_RT = {"B": 7, "H": 8, "S": 9, "D": 10, "Q": 11}
ARR = {"8B": (10, 1), "16B": (11, 1), "4H": (10, 2), "8H": (11, 2), "2S": (10, 3), "4S": (11, 3), "2D": (11, 4),
       "2H": (9, 2), "4B": (9, 1)}
INVERTED_COND = {"cinc", "cinv", "cneg", "cset", "csetm"}


def load_db(repo):
    p = subprocess.run(["node", str(HERE / "gen_a64db.js"), str(repo)], capture_output=True, text=True)
    if p.returncode != 0:
        raise TranslateError("db/index.js does not read db/isa_aarch64.json: " + p.stderr[-500:])
    try:
        forms = json.loads(p.stdout)
    except ValueError as e:
        raise TranslateError("db dump is not JSON: %s" % e)
    if len(forms) < 1000:
        raise TranslateError("suspiciously small database: %d forms" % len(forms))
    return forms


def parse_template(opstr, reader_fields):
    """opcodeString -> (mask, value, fields[(name, [(pos, from, size)])]).  Tokens from the most significant bit:
    literal bits, NAME, NAME:size, NAME[hi:lo] / NAME[i].  A register-like field named twice is a copy, an
    immediate field named twice (imm:1|...|imm:5) is split with the first occurrence most significant."""
    toks = [t.replace(" ", "") for t in opstr.split("|")]
    items = []   # (kind, name, size, frm)
    sizes = {}
    for name, pieces in reader_fields.items():
        sizes[name] = [p[2] for p in pieces]
    total = 0
    occ = {}
    for t in toks:
        if t == "":
            continue
        if re.fullmatch(r"[01]+", t):
            items.append(("lit", t, len(t), 0))
            total += len(t)
            continue
        m = re.fullmatch(r"([!A-Za-z_][A-Za-z0-9_]*)(?::(\d+)|\[(\d+)(?::(\d+))?\])?", t)
        if m and m.group(2) is None and m.group(3) is None and m.group(1) not in sizes:
            m = None
        if not m:
            # mixed token like X0101010: leading field letters followed by literal bits
            m2 = re.fullmatch(r"([A-Za-z]+?)([01]+)", t)
            if not m2:
                raise TranslateError("cannot parse opcode token %r in %r" % (t, opstr))
            pre = m2.group(1)
            if pre in sizes:
                items.append(("fld", pre, sizes[pre][0], None))
                total += sizes[pre][0]
            else:
                for ch in pre:
                    items.append(("fld", ch, 1, None))
                    total += 1
            items.append(("lit", m2.group(2), len(m2.group(2)), 0))
            total += len(m2.group(2))
            continue
        name, sz, hi, lo = m.group(1), m.group(2), m.group(3), m.group(4)
        if sz is not None:
            items.append(("fld", name, int(sz), None))
            total += int(sz)
        elif hi is not None:
            lo = hi if lo is None else lo
            items.append(("fld", name, int(hi) - int(lo) + 1, int(lo)))
            total += int(hi) - int(lo) + 1
        else:
            k = occ.get(name, 0)
            occ[name] = k + 1
            ss = sizes.get(name)
            if not ss:
                raise TranslateError("no size for field %r in %r" % (name, opstr))
            s = ss[min(k, len(ss) - 1)]
            items.append(("fld", name, s, None))
            total += s
    if total != 32:
        raise TranslateError("template %r has %d bits" % (opstr, total))
    mask = value = 0
    pos = 32
    raw = []
    for kind, name, size, frm in items:
        pos -= size
        if kind == "lit":
            mask |= ((1 << size) - 1) << pos
            value |= int(name, 2) << pos
        else:
            raw.append((name, pos, size, frm))
    # assemble fields
    fields = []
    byname = {}
    for name, pos, size, frm in raw:
        byname.setdefault(name, []).append((pos, size, frm))
    for name, occs in byname.items():
        reglike = re.fullmatch(r"[RVZP][a-z0-9]*", name) is not None
        if len(occs) > 1 and all(f is None for _, _, f in occs) and reglike:
            for pos, size, _ in occs:
                fields.append((name, [(pos, 0, size)]))
            continue
        pieces = []
        if all(f is not None for _, _, f in occs):
            for pos, size, frm in occs:
                pieces.append((pos, frm, size))
        else:
            # split immediate: first occurrence most significant
            acc = 0
            for pos, size, _ in reversed(occs):
                pieces.append((pos, acc, size))
                acc += size
        fields.append((name, pieces))
    return mask, value, fields


def q(s):
    return json.dumps(s)


def opspecs(form, fields):
    """DB operand list -> list of Lean OpSpec terms."""
    fnames = {f[0] for f in fields}
    name = form["name"]
    out = []
    ops = form["ops"]
    used = set()
    b64_default = None
    for o in ops:       # operation width: first W/X register
        d = o["data"]
        if o["type"] == "reg" and d[:1] in ("W", "X") and not d.startswith("Xn|SP]"):
            b64_default = d[0] == "X"
            break
    is64 = bool(b64_default)
    i = 0
    srcs = []
    list_head = None
    list_head_w = "any"
    list_head_elem = False
    while i < len(ops):
        o = ops[i]
        d = o["data"]
        t = o["type"]
        spec = None
        if t == "reg":
            if d in ("", "+"):
                # continuation of a register list
                m = re.fullmatch(r"([A-Z][a-z]+?)(\d+)", o["reg"] or "")
                if list_head and m:
                    delta = int(m.group(2)) - 1
                    kind, fld = list_head
                    if kind == "gp":
                        spec = "(.gpNext .%s %s %d)" % (list_head_w, q(fld), delta)
                    else:
                        spec = "(.velem %s %d)" % (q(fld), delta) if list_head_elem else "(.vany %s %d)" % (q(fld), delta)
                else:
                    spec = "(.unchecked %s)" % q("list-cont")
            else:
                m = re.fullmatch(r"(?:(\d)x\{)?([WXRBHSDQV])([a-z]+\d?)(?:\.([0-9A-Za-z]+))?\}?(\+)?(?:\[#?(\w+)\])?(\|W?SP)?(!)?", d)
                if not m:
                    spec = "(.unchecked %s)" % q(d)
                else:
                    cnt, letter, rest, arr, plus, idx, sp, bang = m.groups()
                    if letter in REGLETTER_GP:
                        fld = "R" + rest
                        if fld in fnames and not bang:
                            spec = "(.gp .%s %s %s)" % (REGLETTER_GP[letter], q(fld), "true" if sp else "false")
                            used.add(fld)
                            if cnt:
                                list_head, list_head_w, list_head_elem = ("gp", fld), REGLETTER_GP[letter], False
                        else:
                            spec = "(.unchecked %s)" % q(d)
                    else:
                        fld = "V" + rest
                        if fld not in fnames:
                            # the DB sometimes names the operand `Bd` while the template calls the field `Vs` / `Vt` (stur, stp ...):
                            # bind the operand to the only vector register field that no operand names
                            named = set()
                            for o2 in ops:
                                m2 = re.match(r"^\{?\d?[BHSDQV]([a-z]\d?)", o2["data"]) if o2["type"] == "reg" else None
                                if m2:
                                    named.add("V" + m2.group(1))
                            cands = [n for n in fnames if re.fullmatch(r"V[a-z]\d?", n) and n not in used and n not in named]
                            if len(cands) == 1 and len(rest) == 1:
                                fld = cands[0]
                        if fld not in fnames:
                            spec = "(.unchecked %s)" % q(d)
                        else:
                            used.add(fld)
                            if idx is not None:
                                spec = "(.velem %s 0)" % q(fld)
                                used.update(n for n in fnames if n.startswith("idx"))
                                list_head, list_head_elem = ("vec", fld), True
                            elif letter != "V":
                                spec = "(.vscalar %d %s)" % (SCALAR_RT[letter], q(fld)) if arr is None else "(.vany %s 0)" % q(fld)
                            elif arr in ARR and not cnt:
                                spec = "(.vfixed %d %d %s)" % (ARR[arr][0], ARR[arr][1], q(fld))
                            elif arr in ARR and cnt:
                                spec = "(.vfixed %d %d %s)" % (ARR[arr][0], ARR[arr][1], q(fld))
                                list_head, list_head_elem = ("vec", fld), False
                            else:
                                spec = "(.vany %s 0)" % q(fld)
                                list_head, list_head_elem = ("vec", fld), False
        elif t == "imm":
            imm_attr = form["imm"]["name"] if isinstance(form["imm"], dict) else ""
            nxt = ops[i + 1]["data"] if i + 1 < len(ops) else ""
            if d in ("#immZ", "#imm") and nxt == "{lsl #n=0|12}" and ("immZ" in fnames or "imm" in fnames) and "n" in fnames:
                f0 = "immZ" if "immZ" in fnames else "imm"
                spec = "(.addSubImm %s %s)" % (q(f0), q("n"))
                used.update((f0, "n"))
                i += 1
            elif d in ("{lsl|lsr|asr #n}", "{sop #n}") and "sop" in fnames and "n" in fnames:
                spec = "(.shift %s %s %s %s)" % (q("sop"), q("n"), "true" if d == "{sop #n}" else "false", "true" if is64 else "false")
                used.update(("sop", "n"))
            elif d == "{extend #n}" and "option" in fnames and "n" in fnames:
                spec = "(.extend %s %s %s)" % (q("option"), q("n"), "true" if is64 else "false")
                used.update(("option", "n"))
            elif d in ("#imm", "#log_imm") and imm_attr in ("LogicalImm", "ImmLogical") and "imm" in fnames:
                spec = "(.logical %s %s)" % (q("imm"), "true" if is64 else "false")
                used.add("imm")
            elif d == "#cond" and "cond" in fnames:
                spec = "(.cond %s %s)" % (q("cond"), "true" if name in INVERTED_COND else "false")
                used.add("cond")
            elif d == "#imm" and nxt == "{lsl #n}" and "hw" in fnames and "imm" in fnames:
                spec = "(.wide %s %s %s)" % (q("imm"), q("hw"), "true" if is64 else "false")
                used.update(("imm", "hw"))
                i += 1
            elif d == "#lsb" and nxt == "#width" and "immr" in fnames and "imms" in fnames:
                kind = 1 if name in ("bfxil", "sbfx", "ubfx") else 0
                spec = "(.bfLsbWidth %d %s)" % (kind, "true" if is64 else "false")
                used.update(("immr", "imms"))
                i += 1
            elif d == "#n" and name in ("lsl", "lsr", "asr", "ror") and len(ops) == 3:
                kind = {"lsl": 0, "lsr": 1, "asr": 1, "ror": 2}[name]
                spec = "(.shiftAlias %d %s)" % (kind, "true" if is64 else "false")
                used.update(n for n in ("immr", "imms", "n", "imm") if n in fnames)
            elif d in ("#relS*4", "#relS") and "relS" in fnames:
                spec = "(.rel %s %d %s)" % (q("relS"), 4096 if name == "adrp" else (4 if d.endswith("*4") else 1), "true" if name == "adrp" else "false")
                used.add("relS")
            elif re.fullmatch(r"#([A-Za-z_0-9]+)\*(\d+)", d) and d[1:].split("*")[0] in fnames and not d.startswith("#rel"):
                fld, sc = d[1:].split("*")
                spec = "(.immU %s %s)" % (q(fld), sc)
                used.add(fld)
            elif re.fullmatch(r"#(\d+)", d):
                spec = "(.immConst %s)" % d[1:]
            elif d in ("#immr", "#imms") and d[1:] in fnames and imm_attr in ("ImmBFM", ""):
                # SBFM/BFM/UBFM: plain fields (the ImmBFM attribute of the database only states the range 0..size-1)
                spec = "(.immU %s 1)" % q(d[1:])
                used.add(d[1:])
            elif re.fullmatch(r"#([A-Za-z_0-9]+)", d) and d[1:] in fnames and not imm_attr and (d[1:] not in ("n", "sysreg") or (d == "#sysreg" and any(f[0] == "sysreg" and f[1][0][2] == 16 for f in fields))):
                fld = d[1:]
                if fld.endswith("S") and fld.startswith("imm"):
                    spec = "(.immS %s)" % q(fld)
                else:
                    spec = "(.immU %s 1)" % q(fld)
                used.add(fld)
            else:
                spec = "(.unchecked %s)" % q(d)
        elif t == "mem":
            m = re.fullmatch(r"\[Xn\|SP\]", d)
            if m and "Rn" in fnames:
                spec = "(.memBase %s)" % q("Rn")
                used.add("Rn")
            if spec is None:
                m = re.fullmatch(r"\[Xn\|SP, #(offS|offZ)(?:\*(\d+))?\](\{@\}\{!\}|@|!)?", d)
                if m and "Rn" in fnames and m.group(1) in fnames:
                    mode = {None: ".fixed", "@": ".post", "!": ".pre", "{@}{!}": ".byFields"}[m.group(3)]
                    if mode != ".byFields" or ("!post" in fnames and "W" in fnames):
                        spec = "(.memOff %s %s %s %d %s)" % (q("Rn"), q(m.group(1)), "true" if m.group(1) == "offS" else "false", int(m.group(2) or 1), mode)
                        used.update(("Rn", m.group(1), "!post", "W"))
            if spec is None:
                m = re.fullmatch(r"\[Xn\|SP, Rm, \{uxtw\|lsl\|sxtw\|sxtx #n(?:\*(\d+))?\}\]", d)
                sfld = "s" if "s" in fnames else ("n" if "n" in fnames else None)
                if m and "Rn" in fnames and "Rm" in fnames and "option" in fnames and sfld:
                    fixed = "none"
                    if name in ("prfm",):
                        fixed = "(some 3)"
                    spec = "(.memIndex %s %s %s %s %s)" % (q("Rn"), q("Rm"), q("option"), q(sfld), fixed)
                    used.update(("Rn", "Rm", "option", sfld))
            if spec is None:
                m = re.fullmatch(r"\[PC, #offS\*4\]", d)
                if m and "offS" in fnames:
                    spec = "(.memLit %s 4)" % q("offS")
                    used.add("offS")
            if spec is None:
                spec = "(.unchecked %s)" % q(d)
                if "Rn" in fnames and d.startswith("[Xn|SP"):
                    spec = "(.memBaseOnly %s)" % q("Rn")
                    used.add("Rn")
        else:
            spec = "(.unchecked %s)" % q(d)
        out.append(spec)
        srcs.append(d)
        i += 1
    if name == "b.<cond>":
        used.add("cond")     # the condition of b.<cond> is part of the instruction id; Driver/C02.lean checks it
    free = sorted(n for n in fnames if n not in used)
    return out, free, srcs


def apply_errata(forms):
    if not ERRATA.exists():
        return forms, []
    er = json.loads(ERRATA.read_text())
    applied = []
    index = {}
    for k, e in enumerate(er):
        index[(e["name"], tuple(e["ops"]), e["op"])] = (k, e)
    out = []
    for f in forms:
        key = (f["name"], tuple(o["data"] for o in f["ops"]), f["opcodeString"])
        hit = index.get(key)
        if hit:
            k, e = hit
            applied.append(k)
            if e.get("drop"):
                continue
            f = dict(f)
            f["_orig_name"], f["_orig_ops"], f["_orig_op"] = key
            f["_orig_ops"] = list(f["_orig_ops"])
            if "new_op" in e:
                f["opcodeString"] = e["new_op"]
            if "new_ops" in e:
                f["ops"] = [dict(o, data=nd) for o, nd in zip(f["ops"], e["new_ops"])]
            if "new_name" in e:
                f["name"] = e["new_name"]
            if "new_value" in e:
                f["_new_value"] = int(e["new_value"], 16)
            if e.get("relax"):
                f["_relax"] = True
        out.append(f)
    return out, sorted(set(applied))


def collect_forms(repo):
    forms = load_db(repo)
    forms = [f for f in forms if not ({"SVE", "SME"} & set(f["category"]))]
    forms, applied = apply_errata(forms)
    res = []
    for f in forms:
        names = [f["name"]]
        if f["name"] in ("b.<cond>", "bc.<cond>"):
            names = [f["name"].split(".")[0]]
        try:
            mask, value, fields = parse_template(f["opcodeString"], f["fields"])
        except TranslateError:
            raise
        # MRS / MSR (register): the operand is AsmJit's 16-bit system register id op0:op1:CRn:CRm:op2 (a64globals.h SysReg::encode).
        # The template gives op0<1> as a fixed 1 right above the 15-bit `sysreg` field; widen the field over that bit so that the id
        # is compared as a whole
        if any(o["data"] == "#sysreg" for o in f["ops"]):
            for k, (fname, pieces) in enumerate(fields):
                if fname == "sysreg" and len(pieces) == 1 and pieces[0][2] == 15:
                    top = pieces[0][0] + 15
                    if (mask >> top) & 1 and (value >> top) & 1:
                        fields[k] = (fname, [(pieces[0][0], 0, 16)])
        specs, free, srcs = opspecs(f, fields)
        if "_new_value" in f:
            value = f["_new_value"] & mask
        if f.get("_relax"):
            # the operand pattern of this database row is not reliable: template only
            specs = ["(.unchecked %s)" % q("relaxed:" + d) for d in srcs]
            free = sorted({n for n, _ in fields})
        for n in names:
            res.append({"name": n, "mask": mask, "value": value, "fields": fields, "ops": specs, "free": free, "opsrc": srcs,
                        "t": f.get("t", ""), "ta": f.get("ta", ""), "tb": f.get("tb", ""), "tatb": f.get("tatb", ""),
                        "cond": f["name"] in ("b.<cond>", "bc.<cond>"), "key": [f.get("_orig_name", f["name"]), f.get("_orig_ops", [o["data"] for o in f["ops"]]), f.get("_orig_op", f["opcodeString"])],
                        "src": "%s %s" % (f["name"], ", ".join(o["data"] for o in f["ops"]))})
    return res, applied


def render_db(forms):
    lines = ["/- GENERATED by tools/gen_a64.py from db/isa_aarch64.json (through db/index.js) - do not edit -/",
             "import AsmjitVerif.Spec.A64Decode", "namespace AsmjitVerif.Gen.A64DB", "open AsmjitVerif.A64Spec", "set_option maxRecDepth 100000", ""]
    chunk = 64
    nchunks = (len(forms) + chunk - 1) // chunk
    for c in range(nchunks):
        lines.append("def forms%d : List Form := [" % c)
        rows = []
        for f in forms[c * chunk:(c + 1) * chunk]:
            flds = ", ".join("⟨%s, [%s]⟩" % (q(n), ", ".join("⟨%d, %d, %d⟩" % p for p in ps)) for n, ps in f["fields"])
            rows.append("  -- %s\n  { name := %s, mask := 0x%08x, value := 0x%08x, fields := [%s], ops := [%s], freeFields := [%s] }" % (
                f["src"], q(f["name"]), f["mask"], f["value"], flds, ", ".join(f["ops"]), ", ".join(q(x) for x in f["free"])))
        lines.append(",\n".join(rows))
        lines.append("  ]")
        lines.append("")
    lines.append("def allForms : List Form := " + " ++ ".join("forms%d" % c for c in range(nchunks)))
    lines.append("def formCount : Nat := %d" % len(forms))
    lines.append("end AsmjitVerif.Gen.A64DB")
    return "\n".join(lines) + "\n"


# ------------------------------------------------------------------------------------------------------------
# tables of a64instdb.cpp / a64assembler.cpp, read from the compiler through the harness
# ------------------------------------------------------------------------------------------------------------

def dump_tables(harness):
    out, rc, err = vlib.run_lines([str(harness)], ["dump"])
    if rc != 0 or not out or out[-1] != "end-of-dump":
        raise TranslateError("table dump failed: rc=%s %s" % (rc, err[-300:]))
    insts, rows, consts = [], {}, {}
    for l in out[:-1]:
        w = l.split()
        if w[0] == "inst":
            kv = dict(x.split("=") for x in w[3:])
            insts.append({"id": int(w[1]), "name": w[2], "enc": int(kv["enc"]), "idx": int(kv["idx"]), "flags": int(kv["flags"])})
        elif w[0] == "row":
            kv = [(x.split("=")[0], int(x.split("=")[1])) for x in w[3:]]
            rows.setdefault(w[1], []).append(kv)
        elif w[0] == "const":
            consts[w[1]] = int(w[2])
    if len(insts) != consts.get("kIdCount"):
        raise TranslateError("instruction table has %d rows, _kIdCount = %s" % (len(insts), consts.get("kIdCount")))
    return insts, rows, consts


def encoding_ids(repo):
    """enum EncodingId of a64instdb_p.h: name -> number"""
    src = (Path(repo) / "asmjit/arm/a64instdb_p.h").read_text()
    m = re.search(r"enum EncodingId : uint32_t \{(.*?)\};", src, re.S)
    if not m:
        raise TranslateError("enum EncodingId not found")
    names = re.findall(r"kEncoding(\w+)", m.group(1))
    return {n: i for i, n in enumerate(names)}


def source_features(repo):
    """which of the proposed repairs the current a64assembler.cpp contains (the model transcribes both variants)"""
    src = (Path(repo) / "asmjit/arm/a64assembler.cpp").read_text()
    m = re.search(r"EmitOp_MemBaseIndex_Rn5_Rm16:(.*?)goto EmitOp;", src, re.S)
    if not m:
        raise TranslateError("EmitOp_MemBaseIndex_Rn5_Rm16 not found")
    tail = m.group(1)
    return {"srcIndexTailChecksBase": int("check_mem_base" in tail and "is_pre_or_post" in tail),
            "srcIndexTailChecksWIndex": int("RegType::kGp32" in tail and "B(13)" in tail),
            "srcMatchWideNarrow": int("match_wide_narrow" in src),
            # fixes/C02-16.patch: movi/mvni with 64-bit elements look at the second immediate (the original reads operand 0 as an immediate)
            "srcMoviChecksShiftOperand": int("o2.is_imm() && (o2.as<Imm>().value() != 0" in src),
            # fixes/C02-17.patch: a condition code is also allowed with BC.<cond> (the original gate only lets `b` through)
            "srcBcAcceptsCond": int("inst_id != Inst::kIdB && inst_id != Inst::kIdBc" in src)}


def render_tables(insts, rows, consts, encids):
    L = ["/- GENERATED by tools/gen_a64.py from the compiled a64instdb.cpp / a64assembler.cpp (harness `dump`) - do not edit -/",
         "namespace AsmjitVerif.Gen.A64Tables", "set_option maxRecDepth 100000", ""]
    L.append("structure InstRow where\n  id : Nat\n  name : String\n  enc : Nat\n  idx : Nat\n  flags : Nat\n  deriving Repr, DecidableEq, Inhabited\n")
    L.append("def instTable : Array InstRow := #[")
    L.append(",\n".join("  ⟨%d, %s, %d, %d, %d⟩" % (r["id"], q(r["name"]), r["enc"], r["idx"], r["flags"]) for r in insts))
    L.append("  ]\n")
    for n, i in sorted(encids.items(), key=lambda x: x[1]):
        L.append("def enc%s : Nat := %d" % (n, i))
    L.append("")
    for tname, trows in sorted(rows.items()):
        keys = [k for k, _ in trows[0]]
        sname = tname[0].upper() + tname[1:] + "Row"
        L.append("structure %s where" % sname)
        for k in keys:
            L.append("  %s : Nat" % k)
        L.append("  deriving Repr, DecidableEq, Inhabited\n")
        L.append("def %s : Array %s := #[" % (tname, sname))
        L.append(",\n".join("  ⟨%s⟩" % ", ".join(str(v) for _, v in r) for r in trows))
        L.append("  ]\n")
    for k, v in sorted(consts.items()):
        L.append("def %s : Nat := %d" % (k, v))
    L.append("end AsmjitVerif.Gen.A64Tables")
    return "\n".join(L) + "\n"
