#!/bin/bash
# merge a builder branch into main, resolving the predictable conflicts (evidence of other properties, generated MANIFEST,
# append-only README / DESIGN false-alarm list)
b=$1
cd /verif
git merge -q $b -m "Merge $b" 2>&1 | grep -i "conflict\|error\|overwritten"
for f in $(git diff --name-only --diff-filter=U); do
  case $f in
    evidence/*|MANIFEST.json) git checkout --ours $f;;
    known_findings.json) python3 tools/merge_kf.py $b;;
    fixes/README.md|DESIGN.md) sed -i '/^<<<<<<< /d; /^=======$/d; /^>>>>>>> /d' $f;;
    .setup.log) git rm -q --cached $f; rm -f $f;;
    *) echo "UNRESOLVED $f";;
  esac
done
python3 tools/gen_manifest.py
python3 -c "import json; json.load(open('/verif/known_findings.json'))" || echo "known_findings.json BROKEN"
git add -A; git commit -qm "Merge $b"; git log --oneline | head -1
