"""Instantiation of x86 ISA-database forms (tools/gen_db.js output) with representative AsmJit operands, and the
near-miss mutations of an instance. An instance is the tail of a protocol line of harness/c13.cpp:
    <id> <options hex> <extra> <operand>...            (the mode is put in front by the caller)
Operand syntax: r:<RegType>:<id>  m:<size>:<btype>:<bid>:<itype>:<iid>:<shift>:<off>:<seg>:<bcst>  i:<hex>  l  n
"""
RT = {"none": 0, "label": 1, "r8": 2, "r8hi": 3, "r16": 4, "r32": 5, "r64": 6, "xmm": 11, "ymm": 12, "zmm": 13, "k": 16, "tmm": 17,
      "sreg": 25, "creg": 26, "dreg": 27, "mm": 28, "st": 29, "bnd": 30, "rip": 31}

FIXED = {  # fixed registers of the database -> (RegType, id)
    "al": ("r8", 0), "cl": ("r8", 1), "dl": ("r8", 2), "bl": ("r8", 3), "ah": ("r8hi", 0),
    "ax": ("r16", 0), "cx": ("r16", 1), "dx": ("r16", 2), "bx": ("r16", 3),
    "eax": ("r32", 0), "ecx": ("r32", 1), "edx": ("r32", 2), "ebx": ("r32", 3),
    "rax": ("r64", 0), "rcx": ("r64", 1), "rdx": ("r64", 2), "rbx": ("r64", 3),
    "es": ("sreg", 1), "cs": ("sreg", 2), "ss": ("sreg", 3), "ds": ("sreg", 4), "fs": ("sreg", 5), "gs": ("sreg", 6),
    "xmm0": ("xmm", 0), "st(0)": ("st", 0), "k0": ("k", 0),
}
CLASS = {"r8": "r8", "r16": "r16", "r32": "r32", "r64": "r64", "xmm": "xmm", "ymm": "ymm", "zmm": "zmm", "mm": "mm", "k": "k",
         "k+1": "k", "tmm": "tmm", "sreg": "sreg", "creg": "creg", "dreg": "dreg", "bnd": "bnd", "st(i)": "st"}


def reg(cls, rid):
    return "r:%d:%d" % (RT[cls], rid)


def mem(size, base=("r64", 3), index=None, shift=0, off=16, seg=0, bcst=0):
    bt, bi = (RT[base[0]], base[1]) if base else (0, 0)
    it, ii = (RT[index[0]], index[1]) if index else (0, 0)
    return "m:%d:%d:%d:%d:%d:%d:%d:%d:%d" % (size, bt, bi, it, ii, shift, off, seg, bcst)


def imm_for(o):
    """a value that fits the immediate field of the database operand"""
    if o.get("immValue") is not None:
        return "i:%x" % (int(o["immValue"]) & ((1 << 64) - 1))
    bits, sign = o["imm"], o.get("immSign", "")
    if bits == 4:
        return "i:5"
    if bits == 8:
        return "i:%x" % (0x11 if sign != "signed" else (-0x11) & ((1 << 64) - 1))
    if bits == 16:
        return "i:1234"
    if bits == 32:
        return "i:%x" % (0x12345678 if sign != "signed" else (-0x12345678) & ((1 << 64) - 1))
    if bits == 64:
        return "i:123456789abcdef0"
    return None


def operand_variants(o, mode, slot, form):
    """list of (text, tag) alternatives of one database operand in the given mode (32/64)"""
    base = ("r64", 3) if mode == 64 else ("r32", 3)
    out = []
    data = o["data"]
    if o["imm"]:
        t = imm_for(o)
        return [(t, "imm")] if t else []
    if o["rel"]:
        return [("l", "rel")]
    if data in FIXED and not o["mem"]:
        c, i = FIXED[data]
        return [(reg(c, i), "fix")]
    # register alternative
    r = o["reg"]
    if r:
        if r in FIXED:
            c, i = FIXED[r]
            out.append((reg(c, i), "fix"))
        elif r in CLASS:
            c = CLASS[r]
            rid = {"sreg": 3, "creg": 0, "dreg": 1, "bnd": 1, "st": 2, "k": 2 + slot, "tmm": 1 + slot, "mm": 1 + slot}.get(c, 1 + slot)
            if c == "r8":
                rid = [1, 2, 3, 0][slot % 4]
            out.append((reg(c, rid), "reg"))
        else:
            return []
    # memory alternative
    m = o["mem"]
    if m:
        if o.get("vsibReg"):
            vs = o["vsibReg"]
            out.append((mem(0, base, (vs, 4 + slot), 0, 16), "vsib"))
        elif o.get("memOff"):
            out.append((mem(max(o["memSize"], 0) // 8, None, None, 0, 0x1234), "moff"))
        elif m == "mib":
            out.append((mem(0, base, (base[0], 6), 0, 16), "mib"))
        elif m == "tmem":
            out.append((mem(0, base, (base[0], 6), 0, 16), "tmem"))
        else:
            size = o["memSize"] // 8 if o["memSize"] and o["memSize"] > 0 else 0
            if o.get("memSegment"):
                # implicit string operand: seg:[reg] without displacement
                ro = o.get("memRegOnly", "")
                bid = {"zax": 0, "zcx": 1, "zdx": 2, "zbx": 3, "zsi": 6, "zdi": 7}.get(ro, 3)
                out.append((mem(size, (base[0], bid), None, 0, 0), "smem"))
            else:
                out.append((mem(size, base, None, 0, 16), "mem"))
                if o.get("bcstSize", -1) and o.get("bcstSize", -1) > 0 and form.get("broadcast"):
                    es = o["bcstSize"] // 8
                    n = (o["memSize"] // 8) // es if o["memSize"] > 0 else 0
                    lg = {2: 1, 4: 2, 8: 3, 16: 4, 32: 5}.get(n)
                    if lg:
                        out.append((mem(es, base, None, 0, 16, 0, lg), "bcst"))
    return out


def instances_of_form(form, inst_id, mode):
    """[(tail, kind)] - representative instantiations of one database form in one mode"""
    ops = form["operands"]
    res = []

    def build(with_implicit, pick):
        texts = []
        for slot, o in enumerate(ops):
            if o["implicit"] and not with_implicit:
                continue
            vs = operand_variants(o, mode, slot, form)
            if not vs:
                return None
            texts.append(vs[min(pick(slot, vs), len(vs) - 1)][0])
        if len(texts) > 6:
            return None
        return texts

    variants = []
    nslots = len(ops)
    # all first alternatives (registers), then one memory alternative per slot that has one
    variants.append(("reg", lambda s, vs: 0))
    for k in range(nslots):
        variants.append(("alt%d" % k, (lambda k: lambda s, vs: (len(vs) - 1 if s == k else 0))(k)))
        variants.append(("alt%db" % k, (lambda k: lambda s, vs: (1 if s == k else 0))(k)))
    has_impl = any(o["implicit"] for o in ops)
    seen = set()
    for wi in ([False, True] if has_impl else [False]):
        for kind, pick in variants:
            t = build(wi, pick)
            if t is None:
                continue
            extra = "-"
            opts = 0
            tail = "%d %x %s %s" % (inst_id, opts, extra, " ".join(t))
            tail = tail.rstrip()
            if tail in seen:
                continue
            seen.add(tail)
            res.append((tail, kind + ("+impl" if wi else "")))
            # decorated variants the form allows
            if form.get("kmask") and t:
                kt = "%d %x r:16:2 %s" % (inst_id, 0, " ".join(t))
                if kt not in seen:
                    seen.add(kt)
                    res.append((kt, kind + "+k"))
                if form.get("zmask") and t[0].startswith("r:"):
                    zt = "%d %x r:16:2 %s" % (inst_id, 0x800000, " ".join(t))
                    if zt not in seen:
                        seen.add(zt)
                        res.append((zt, kind + "+kz"))
            if kind == "reg" and form.get("er"):
                et = "%d %x - %s" % (inst_id, 0x40000 | 0x200000, " ".join(t))
                if et not in seen:
                    seen.add(et)
                    res.append((et, "reg+er"))
            elif kind == "reg" and form.get("sae"):
                et = "%d %x - %s" % (inst_id, 0x80000, " ".join(t))
                if et not in seen:
                    seen.add(et)
                    res.append((et, "reg+sae"))
    return res


# ---------------------------------------------------------------------------------------------------------------------
# near-miss mutations
# ---------------------------------------------------------------------------------------------------------------------
SIZE_NEIGHBOURS = {2: [4], 4: [2, 5], 5: [4, 6], 6: [5], 11: [12], 12: [11, 13], 13: [12], 28: [11], 16: [5]}
MEM_SIZES = [0, 1, 2, 4, 6, 8, 10, 16, 32, 64]


def mutations(tail, rng, mode, limit=6):
    """near-miss mutants of an instance: operand size off by one class, swapped / dropped / duplicated operands, illegal
    decoration (lock, rep, {k}, {z}, {er}, {sae}), out-of-range register ids, odd memory sizes, bad segment."""
    w = tail.split()
    iid, opts, extra, ops = w[0], int(w[1], 16), w[2], w[3:]
    out = []

    def emit(ops2, opts2=opts, extra2=extra, what=""):
        out.append((("%s %x %s %s" % (iid, opts2, extra2, " ".join(ops2))).rstrip(), what))

    for i, o in enumerate(ops):
        f = o.split(":")
        if f[0] == "r":
            t, rid = int(f[1]), int(f[2])
            for nt in SIZE_NEIGHBOURS.get(t, []):
                emit(ops[:i] + ["r:%d:%d" % (nt, rid)] + ops[i + 1:], what="reg-size")
            for nid in (rid + 8, 15, 16, 31, 32, 7, 4, 0, 255, 256):
                emit(ops[:i] + ["r:%d:%d" % (t, nid)] + ops[i + 1:], what="reg-id")
            emit(ops[:i] + [x86mem_for(mode, 0)] + ops[i + 1:], what="reg->mem")
        elif f[0] == "m":
            sz = int(f[1])
            k = MEM_SIZES.index(sz) if sz in MEM_SIZES else 0
            for ns in {MEM_SIZES[max(k - 1, 0)], MEM_SIZES[min(k + 1, len(MEM_SIZES) - 1)], 0, 3} - {sz}:
                emit(ops[:i] + [":".join(["m", str(ns)] + f[2:])] + ops[i + 1:], what="mem-size")
            emit(ops[:i] + [":".join(f[:8] + ["7", f[9]])] + ops[i + 1:], what="mem-seg7")
            emit(ops[:i] + [":".join(f[:8] + [str(rng.randrange(1, 7)), f[9]])] + ops[i + 1:], what="mem-seg")
            emit(ops[:i] + [":".join(f[:9] + [str(rng.randrange(1, 7))])] + ops[i + 1:], what="mem-bcst")
            emit(ops[:i] + [":".join(f[:4] + [str(rng.choice((4, 5, 6, 11, 12, 13))), str(rng.choice((1, 4, 9, 20))), str(rng.randrange(4))] + f[7:])] + ops[i + 1:],
                 what="mem-index")
            emit(ops[:i] + [":".join(f[:2] + [str(rng.choice((4, 5, 6, 31, 1, 11))), str(rng.choice((0, 5, 12, 40)))] + f[4:])] + ops[i + 1:], what="mem-base")
            emit(ops[:i] + [":".join(f[:2] + ["0", "0"] + f[4:7] + [str(rng.choice((0x1000, -4096, 0x7FFFFFFF0, -0x7FFFFFFF0, 0xFFFFFFFF)))] + f[8:])] + ops[i + 1:],
                 what="mem-abs")
            emit(ops[:i] + [":".join(f[:7] + ["0"] + f[8:])] + ops[i + 1:], what="mem-nodisp")
            emit(ops[:i] + ["r:%d:3" % (6 if mode == 64 else 5)] + ops[i + 1:], what="mem->reg")
        elif f[0] == "i":
            for v in (0, 7, 8, 0xF, 0x10, 0x7F, 0x80, 0xFF, 0x100, 0x7FFF, 0x8000, 0xFFFF, 0x10000, 0x7FFFFFFF, 0x80000000, 0xFFFFFFFF,
                      0x100000000, (1 << 63) - 1, 1 << 63, (1 << 64) - 1, (1 << 64) - 8, (1 << 64) - 9, (1 << 64) - 0x80, (1 << 64) - 0x81,
                      (1 << 64) - 0x8000, (1 << 64) - 0x8001, (1 << 64) - 0x80000000, (1 << 64) - 0x80000001):
                emit(ops[:i] + ["i:%x" % v] + ops[i + 1:], what="imm-range")
            emit(ops[:i] + ["l"] + ops[i + 1:], what="imm->label")
        elif f[0] == "l":
            emit(ops[:i] + ["i:10"] + ops[i + 1:], what="label->imm")
    for i in range(len(ops) - 1):
        emit(ops[:i] + [ops[i + 1], ops[i]] + ops[i + 2:], what="swap")
    for i in range(len(ops)):
        emit(ops[:i] + ops[i + 1:], what="drop")
        emit(ops[:i] + ["n"] + ops[i + 1:], what="gap")
    if len(ops) < 6:
        emit(ops + [ops[-1] if ops else "r:5:1"], what="dup")
        emit(ops + ["i:1"], what="extra-imm")
    for bit, what in ((0x2000, "lock"), (0x4000, "rep"), (0x8000, "repne"), (0x2000 | 0x10000, "xacquire"), (0x2000 | 0x20000, "xrelease"),
                      (0x10000, "xacquire-nolock"), (0x4000 | 0x8000, "rep+repne"), (0x800000, "z"), (0x40000, "er"), (0x80000, "sae"),
                      (0x40000000, "rex"), (0x2000 | 0x30000, "xacq+xrel")):
        emit(ops, opts2=opts | bit, what="opt-" + what)
    for ex in ("r:16:0", "r:16:3", "r:5:1", "r:6:1", "r:4:1", "r:6:2", "r:11:1", "r:16:256"):
        emit(ops, extra2=ex, what="extra")
        emit(ops, opts2=opts | 0x4000, extra2=ex, what="rep-extra")
    emit(ops, opts2=opts | 0x800000, extra2="r:16:1", what="kz")
    rng.shuffle(out)
    # keep a spread of kinds
    seen, pick = set(), []
    for t, what in out:
        if what not in seen:
            seen.add(what)
            pick.append((t, what))
    rest = [x for x in out if x not in pick]
    return (pick + rest)[:limit] if limit else pick + rest


def x86mem_for(mode, size):
    return mem(size, ("r64", 3) if mode == 64 else ("r32", 3), None, 0, 16)


def arch_modes(arch):
    return {"ANY": (32, 64), "X86": (32,), "X64": (64,)}[arch]
