#!/usr/bin/env python3
"""C15 - search for multi-fault defects (not a registered command; the thorough tier runs a reduced version).

usage: c15_search.py <workload> [seed ...]
  1. every single request index  -> T  = tolerated failures (the call completes although a request failed)
  2. every pair (k1 in T, k2 > k1) -> T2 = tolerated pairs          (a failure that is reported ends the work, so only tolerated
  3. sampled triples (k1,k2 in T2, k3 > k2) per seed                  first failures can expose a second one)
  4. random multi-failure runs per seed
Every record is judged by the Lean monitor (`runGood`); crashes / sanitizer reports are located to the line."""
import re
import sys
from pathlib import Path

sys.path.insert(0, str(Path(__file__).resolve().parent))
import vlib
from props import c15


def run_checked(h, lines, found):
    """returns {line: record fields}; appends (line, what) to found"""
    recs = {}
    pos = 0
    while pos < len(lines):
        chunk = lines[pos:pos + 4000]
        out, rc, err = vlib.run_lines([str(h)], chunk, env={"VH_FLUSH": "1"}, timeout=14400)
        mon, _, _ = vlib.run_model("C15", out) if out else ([], 0, "")
        for l, r, m in zip(chunk, out, mon):
            f = dict(x.split("=", 1) for x in r.split() if "=" in x)
            recs[l] = f
            if m != "good":
                found.append((l, m + " | " + r[:300]))
        if rc != 0 and len(out) < len(chunk):
            tail = " ".join(x.strip() for x in err.splitlines() if "ERROR" in x or "runtime error" in x or "SUMMARY" in x)[-400:]
            found.append((chunk[len(out)], "CRASH " + tail))
            pos += len(out) + 1
        else:
            pos += len(chunk)
    return recs


def tolerated(f):
    return f.get("err") == "ok" and int(f.get("fired", "0")) > 0


def main():
    w = sys.argv[1]
    seeds = [int(x) for x in sys.argv[2:]] or [11, 12, 13, 14, 15]
    h = c15.harness()
    out, rc, err = vlib.run_lines([str(h)], ["count " + w])
    c = c15.parse_counts(out[0])
    found = []
    stats = {}
    for cls in ("arena", "heap"):
        n = c[cls]
        single = run_checked(h, ["fault %s %s %d" % (w, cls, k) for k in range(n)], found)
        T = [int(l.split()[3]) for l, f in single.items() if tolerated(f)]
        pairs = ["fault %s %s %d %d" % (w, cls, a, b) for a in T for b in range(a + 1, n + 4)]
        pr = run_checked(h, pairs, found)
        T2 = [(int(l.split()[3]), int(l.split()[4])) for l, f in pr.items() if tolerated(f) and int(f.get("fired", "0")) >= 2]
        if cls == "arena":
            stats["_TA"], stats["_T2A"] = T, T2
        stats[cls] = {"requests": n, "tolerated_single": len(T), "pairs": len(pairs), "tolerated_pairs": len(T2)}
        ntr = 0
        for seed in seeds:
            rng = vlib.rng_for(seed, "C15search" + w + cls)
            tri = []
            if T2:
                for _ in range(2500 if cls == "arena" else 300):
                    a, b = rng.choice(T2)
                    tri.append("fault %s %s %d %d %d" % (w, cls, a, b, rng.randrange(b + 1, n + 6)))
            ntr += len(tri)
            run_checked(h, sorted(set(tri)), found)
        stats[cls]["triples"] = ntr
    # mixed classes: a tolerated arena failure (or tolerated pair) followed by every heap request, and vice versa
    TA = stats.get("_TA", [])
    mixed = ["fault %s arena %d heap %d" % (w, a, hk) for a in TA for hk in range(c["heap"] + 2)]
    mixed += ["fault %s arena %d %d heap %d" % (w, a, b, hk) for (a, b) in stats.get("_T2A", [])[:400] for hk in range(c["heap"] + 2)]
    run_checked(h, mixed, found)
    stats["mixed"] = len(mixed)
    stats.pop("_TA", None); stats.pop("_T2A", None)
    nm = 0
    for seed in seeds:
        rng = vlib.rng_for(seed, "C15search-multi" + w)
        lines = ["multi %s %d %d" % (w, rng.randrange(1, 1 << 30), rng.choice((2, 3, 5, 8, 10, 15, 20, 30, 50, 100))) for _ in range(400)]
        nm += len(lines)
        run_checked(h, lines, found)
    stats["multi"] = nm
    print("SEARCH %s %s" % (w, stats))
    seen = set()
    for l, what in found:
        key = re.sub(r"0x[0-9a-f]+|\d+", "#", what)[:160]
        if key in seen:
            continue
        seen.add(key)
        print("  FOUND %s -> %s" % (l, what[:420]))
    print("  total findings: %d (distinct shapes %d)" % (len(found), len(seen)))


if __name__ == "__main__":
    main()
