import sys, json, collections
sys.path.insert(0,'tools')
import vlib, gen_c12 as g
ok,out=vlib.lake_build(["vdriver"]); print(ok, out[-800:] if not ok else "")
db = json.load(open('.build/c12_db.json'))
fe = g.feature_ids(vlib.REPO); fl = g.cpu_flag_bits(vlib.REPO)
qs = g.x86_queries(db) + g.x86_queries(db, mode="x86")
h = vlib.build_harness("c12")
out, rc, err = vlib.run_lines([str(h)], [q["line"] for q in qs])
print(rc, len(out), err[-300:])
rows=[]; st=collections.Counter()
for q,a in zip(qs,out):
    if a=="noinst": st[q["mode"]+" noinst"]+=1; continue
    an=g.parse_answer(a)
    if an.get("v")!="Ok": st[q["mode"]+" invalid"]+=1; continue
    if an.get("rw")!="Ok": st[q["mode"]+" rwerr"]+=1; continue
    st[q["mode"]+" valid"]+=1
    rows.append((q, an, g.make_row(q, db["x86"][q["form"]], an, fe, fl)))
print(st)
mon, rc, err = vlib.run_model("C12", [g.monitor_line(r) for q,an,r in rows])
cl=collections.defaultdict(list)
for (q,an,r),m in zip(rows,mon):
    if m!="good" and q["implicit"]:
        cl[(m.split()[1] if len(m.split())>1 else m, q["mode"])].append((q,an))
for k,v in sorted(cl.items(), key=lambda kv:-len(kv[1])):
    names=collections.Counter(q["line"].split()[2] for q,an in v)
    print(k, len(v), len(names), list(names)[:30])
    for q,an in v[:3]:
        f=db["x86"][q["form"]]
        print("    ", q["line"], "|", [o["data"] for o in f["ops"]], [(d["lo"],d["width"]) for d in q["dbops"]], ["%x,%x,%x,%x"%(o[0],o[4],o[5],o[6]) for o in an["oplist"]])
print("=====")
seen=set()
for (q,an,r),m in zip(rows,mon):
    if m.startswith("BAD widemask") and q["implicit"] and q["mode"]=="x64":
        f=db["x86"][q["form"]]
        key=(f["name"], tuple(o["data"] for o in f["ops"]), q["extra"], "mem" in q["variant"])
        if key[0] in seen and not key[0].startswith("punpck"): continue
        if key in seen: continue
        seen.add(key); seen.add(key[0])
        print(m, "|", q["line"], "|", [o["data"] for o in f["ops"]], [(d["read"],d["write"],d["lo"],d["width"]) for d in q["dbops"]], ["%x,%x,%x,%x"%(o[0],o[4],o[5],o[6]) for o in an["oplist"]])
