import sys
sys.path.insert(0,'tools')
import vlib
h = vlib.build_harness("c06")
print(h)
