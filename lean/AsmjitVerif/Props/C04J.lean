/-
C04, JitRuntime::add: the model `jitAdd` (Model/JitAdd.lean, compared with the real `JitRuntime::add` on every explored
program - the bytes at the returned pointer against the model's image for that pointer) refines the relocation theorems:
a successful add is a successful `relocate_to_base(rx)` of `program ++ [flatten, resolve]`, so everything Props/C04E proves
about the relocated sections (`reloc_correct`, `reloc_abs_correct`, `reloc_rel_correct`, `reloc_table_correct`,
`reloc_label_address`) holds with `B = rx`, and the image is the copy of exactly those sections.
With a dual-mapped allocator the span has two addresses: the code is relocated to the executable one (`rx`), stored through the
writable one (`rw`); `jit_add_dual` states the distinction.
-/
import AsmjitVerif.Model.JitAdd
import AsmjitVerif.Props.C04E
namespace AsmjitVerif.CodeHolder
open AsmjitVerif.Offset

/-- **jit_add_refines_relocate.** `jitAdd` succeeds only through flatten = kOk, resolve = kOk, relocate_to_base(rx) = kOk; the
final state is the relocated one and the image is the copy loop over its sections, cut to `estimate - reduction` bytes. -/
theorem jit_add_refines_relocate (s s' : State) (rx : BitVec 64) (img : Bytes) (h : jitAdd s rx = (s', .ok img)) :
    ∃ s1 s2 red, flatten s = (s1, .ok) ∧ resolve s1 = (s2, .ok) ∧ relocate s2 rx = (s', .ok, red) ∧
      codeSize s2 ≠ 0#64 ∧ (codeSize s2).toNat - red ≠ 0 ∧
      img = (jitCopy s'.secs (List.replicate (codeSize s2).toNat 0xCC#8)).take ((codeSize s2).toNat - red) := by
  unfold jitAdd at h
  rcases hf : flatten s with ⟨s1, e1⟩
  rw [hf] at h
  dsimp only at h
  split at h
  · cases h
  rename_i he1
  rcases hr : resolve s1 with ⟨s2, e2⟩
  rw [hr] at h
  dsimp only at h
  split at h
  · cases h
  rename_i he2
  split at h
  · cases h
  rename_i hz
  split at h
  · cases h
  rename_i hre
  split at h
  · cases h
  rename_i hsz
  have e1ok : e1 = .ok := Classical.not_not.1 he1
  have e2ok : e2 = .ok := Classical.not_not.1 he2
  have hrok : (relocate s2 rx).2.1 = .ok := Classical.not_not.1 hre
  subst e1ok; subst e2ok
  simp only [Prod.mk.injEq, JitRes.ok.injEq] at h
  refine ⟨s1, s2, (relocate s2 rx).2.2, (by first | rfl | assumption), (by first | rfl | assumption), ?_, hz, hsz, h.2.symm ▸ ?_⟩
  · rw [← h.1, ← hrok]
  · rw [← h.1]

/-- **jit_add_program.** For every program of the menu: a successful `JitRuntime::add` at span address `rx` is a successful
relocation of `program ++ [flatten, resolve]` to `rx` (the hypothesis shape of the Props/C04E theorems). -/
theorem jit_add_program (arch : Arch) (base0 : BitVec 64) (ops : List Op) (s' : State) (rx : BitVec 64) (img : Bytes)
    (h : jitAdd (run (State.init arch base0) ops) rx = (s', .ok img)) :
    ∃ red, relocate (run (State.init arch base0) (ops ++ [.flatten, .resolve])) rx = (s', .ok, red) ∧
      img = (jitCopy s'.secs (List.replicate (codeSize (run (State.init arch base0) (ops ++ [.flatten, .resolve]))).toNat 0xCC#8)).take
              ((codeSize (run (State.init arch base0) (ops ++ [.flatten, .resolve]))).toNat - red) := by
  obtain ⟨s1, s2, red, hf, hr, hrel, _, _, himg⟩ := jit_add_refines_relocate _ _ _ _ h
  have hrun : run (State.init arch base0) (ops ++ [.flatten, .resolve]) = s2 := by
    rw [run_append]
    generalize run (State.init arch base0) ops = s0 at hf ⊢
    simp only [run, List.foldl_cons, List.foldl_nil, step, hf, hr]
  rw [hrun]
  exact ⟨red, hrel, himg⟩

/-- a failed add never hands out an image: the only results are an error of flatten / resolve / relocate_to_base, or
NoCodeGenerated -/
theorem jit_add_no_image_on_failure (s : State) (rx : BitVec 64) (e : Err) (s' : State) (h : jitAdd s rx = (s', .failed e)) : e ≠ .ok := by
  unfold jitAdd at h
  intro he
  subst he
  rcases hf : flatten s with ⟨s1, e1⟩
  rw [hf] at h
  dsimp only at h
  split at h
  · rename_i h1; simp only [Prod.mk.injEq, JitRes.failed.injEq] at h; exact h1 h.2
  rcases hr : resolve s1 with ⟨s2, e2⟩
  rw [hr] at h
  dsimp only at h
  split at h
  · rename_i h1; simp only [Prod.mk.injEq, JitRes.failed.injEq] at h; exact h1 h.2
  split at h
  · cases h
  split at h
  · rename_i h1; simp only [Prod.mk.injEq, JitRes.failed.injEq] at h; exact h1 h.2
  split at h <;> cases h

/-- non-vacuity: `call 0x123456789abc` added at 0x7f0000001040 - the call goes through the address table, the image is the
rewritten instruction, padding and the slot -/
example :
    (jitAdd (run (State.init .x64 noBase) [.jmpAbs .call .dflt 0x123456789abc#64]) 0x7f0000001040#64).2 matches .ok _ := by decide

/-! ### the two views of a span (`JitAllocatorOptions::kUseDualMapping`: `rx ≠ rw`) -/

/-- `relocate_to_base(b)` makes `b` the CodeHolder's base address, whatever the outcome of the relocation loop -/
theorem relocate_base (s : State) (b : BitVec 64) (hb : b ≠ noBase) : (relocate s b).1.base = b := by
  unfold relocate
  rw [if_neg hb]
  dsimp only
  split
  · split <;> rfl
  · rfl

/-- **jit_add_dual.** `_add` on a span with executable view `rx` and writable view `rw` (both alias the same bytes): on success
 * the CodeHolder is relocated to the address the code is *executed* at - the state is the one of `relocate … sp.rx`
   (`jit_add_program`) and its base address is `sp.rx`;
 * the image was stored through the writable view and is what a fetch through the executable view sees;
 * nothing depends on the value of `rw`: a dual-mapped span gives the same image and the same state as a single-mapped one. -/
theorem jit_add_dual (s s' : State) (sp sp' : Span) (img : Bytes) (hrx : sp.rx ≠ noBase)
    (h : jitAddVia s sp = (s', .ok img, some sp')) :
    jitAdd s sp.rx = (s', .ok img) ∧ s'.base = sp.rx ∧ sp'.fetch sp.rx = some img ∧ sp'.rx = sp.rx ∧ sp'.rw = sp.rw ∧
    (∀ rw' : BitVec 64, (jitAddVia s { sp with rw := rw' }).1 = s' ∧ (jitAddVia s { sp with rw := rw' }).2.1 = .ok img) := by
  unfold jitAddVia at h
  rcases hj : jitAdd s sp.rx with ⟨s1, r⟩
  rw [hj] at h
  cases r with
  | failed e => simp at h
  | noCode => simp at h
  | ok img1 =>
    simp only [Span.write, if_true, Prod.mk.injEq, JitRes.ok.injEq, Option.some.injEq] at h
    obtain ⟨h1, h2, h3⟩ := h
    subst h1; subst h2; subst h3
    obtain ⟨_, s2, red, _, _, hrel, _, _, _⟩ := jit_add_refines_relocate _ _ _ _ hj
    have hbase : s1.base = sp.rx := by
      have := relocate_base s2 sp.rx hrx
      rw [hrel] at this; exact this
    refine ⟨rfl, hbase, by simp [Span.fetch], rfl, rfl, fun rw' => ?_⟩
    unfold jitAddVia
    simp [hj]

/-- relocating to the writable view instead is a different relocation as soon as the views differ: the base address (and with it
every absolute reference, `reloc_abs_correct`) is off by `rw - rx` -/
theorem relocate_wrong_view (s : State) (rx rw : BitVec 64) (h : rw ≠ rx) (hw : rw ≠ noBase) (hx : rx ≠ noBase) :
    (relocate s rw).1.base ≠ (relocate s rx).1.base := by
  rw [relocate_base s rw hw, relocate_base s rx hx]; exact h

/-- a store through the executable address does not reach the span when the views differ -/
theorem write_needs_writable_view (sp : Span) (img : Bytes) (h : sp.rx ≠ sp.rw) : sp.write sp.rx img = none := by
  unfold Span.write; rw [if_neg h]

end AsmjitVerif.CodeHolder
