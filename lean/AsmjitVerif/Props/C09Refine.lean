/-
C09 (second part) — memory contents, fill pattern, `statistics()`, the refinement "the monitor accepts every model run", and the two
views of a dual-mapped block.

All theorems hold for EVERY history of protocol operations and EVERY configuration `JitAllocator_new_impl` can produce
(`ReachableC`: any option word, granularity, block size and pattern word given to the constructor).

* `contents_kept`: no operation writes inside another live span (release / shrink / reset / a new allocation fill or wipe only the
  range they free or hand out); only the caller's own write changes the bytes of a span, and sets all of them.
* `free_granules_filled`, `fill_after_release`, `fill_after_shrink`: with kFillUnusedMemory every granule outside the live spans —
  in particular what release and shrink just gave back — carries the fill pattern.
* `stats_exact`: `statistics()` = block count, number of live spans, sum of the block sizes, bytes of the live spans + padding.
* `model_accepted_by_spec`: the independent monitor `Spec.monitor` (the meaning of C09: disjointness, alignment, size, contents,
  fill pattern, query sweep, statistics, reusability, retention policy, foreign pointers) accepts every run of the model.
* `rx_view_disjoint`, `rw_view_disjoint`, `views_never_cross`, `views_alias_same_cell`: with explicit base addresses of the two
  mappings (`Layout`, OS behaviour = hypothesis `LayoutOK`), distinct live spans are disjoint in each view and across the views, and
  byte `o` of a span addressed through rx and through rw is the same memory cell.
* `block_sizes_bounded`, `block_size_arithmetic_exact`, `request_arithmetic_exact`, `shrink_arithmetic`: the `size_t` / `uint32_t`
  expressions of jitallocator.cpp (Lemmas/JitAllocWord.lean, wrap-around and truncation explicit) equal the model's unbounded
  arithmetic in every reachable state — except the narrowing of `new_size` in `shrink` (defect C09-9, repaired test proved exact) and
  the alignment of a request within one granule of 2^64 (C09-10, error code only).
-/
import AsmjitVerif.Props.C09
import AsmjitVerif.Lemmas.JitAllocViews
import AsmjitVerif.Lemmas.JitAllocWordInv
namespace AsmjitVerif.JitAlloc

/-- reachable from a freshly constructed allocator of any configuration the constructor can build -/
def ReachableC (s : St) : Prop :=
  ∃ opts gran blockSize pattern ops, s = finalState (St.init (mkConfig opts gran blockSize pattern)) ops

theorem ReachableC.reachable {s : St} (h : ReachableC s) : Reachable s := by
  obtain ⟨o, g, b, p, ops, rfl⟩ := h
  exact ⟨_, ops, mkConfig_wf o g b p, rfl⟩

theorem ReachableC.step {s : St} (h : ReachableC s) (op : Op) : ReachableC (step s op).1 := by
  obtain ⟨o, g, b, p, ops, rfl⟩ := h
  refine ⟨o, g, b, p, ops ++ [op], ?_⟩
  generalize St.init (mkConfig o g b p) = s0
  induction ops generalizing s0 with
  | nil => rfl
  | cons x xs ih => exact ih (JitAlloc.step s0 x).1

theorem Good.finalState {s : St} (h : Good s) (ops : List Op) : Good (finalState s ops) := by
  induction ops generalizing s with
  | nil => exact h
  | cons op ops ih => exact ih (h.step op)

/-- **All invariants for all histories and configurations**: bookkeeping (`Inv`), search window, allocation count, pool totals, empty
flags, memory / fill pattern, block sizes divisible by the granularity, byte totals. -/
theorem good_all_histories {s : St} (h : ReachableC s) : Good s := by
  obtain ⟨o, g, b, p, ops, rfl⟩ := h
  exact (Good.init _ (mkConfig_wf o g b p) (mkConfig_div o g b p) (mkConfig_gran_le o g b p)).finalState ops

/-! ### memory contents -/

/-- **Contents are kept until release**: let span `i` be live before and after an arbitrary operation `op` (on this or any other
span, or a reset / allocation).  It keeps its block and first byte, does not grow, and every granule it still covers holds exactly
what it held before — unless `op` is the caller's own write to span `i`, after which every granule holds the written byte.
So release, shrink, reset and the fill / wipe they do never touch a live span. -/
theorem contents_kept {s : St} (hR : ReachableC s) (op : Op) {i : Nat} {hd hd' : Handle}
    (h : s.tab[i]? = some hd) (hl : hd.live = true) (h' : (step s op).1.tab[i]? = some hd') (hl' : hd'.live = true)
    {b : Block} (hb : b ∈ s.a.blocks) (hbid : b.id = hd.blk) :
    hd'.blk = hd.blk ∧ hd'.off = hd.off ∧ hd'.size ≤ hd.size ∧
    ∀ b' ∈ (step s op).1.a.blocks, b'.id = hd.blk → b'.pool = b.pool ∧
      ∀ k, inSpan (s.a.cfg.poolGran b.pool) hd' k →
        ((∀ byte, op.writes ≠ some (i, byte)) → memAt b' k = memAt b k) ∧ (∀ byte, op.writes = some (i, byte) → memAt b' k = byte) :=
  contents_step (good_all_histories hR).inv (good_all_histories hR).mem op h hl h' hl' hb hbid

/-- **Unused memory carries the fill pattern** (kFillUnusedMemory): every granule not marked used — by `bitvectors_exact` exactly the
granules outside all live spans and the padding — and the padding granule itself hold the pattern. -/
theorem free_granules_filled {s : St} (hR : ReachableC s) (hf : s.a.cfg.fillUnused = true) {b : Block} (hb : b ∈ s.a.blocks)
    {k : Nat} (hk : k < b.areaSize) (hfree : bit b.used k = false ∨ (b.pad = true ∧ k = 0)) : memAt b k = patColour s.a.cfg :=
  ((good_all_histories hR).mem b hb).fill hf k hk hfree

/-- **Fill after release**: after releasing live span `j` every granule it covered (if its block still exists) holds the pattern. -/
theorem fill_after_release {s : St} (hR : ReachableC s) (hf : s.a.cfg.fillUnused = true) {j : Nat} {hd : Handle}
    (e : s.tab[j]? = some hd) (l : hd.live = true) :
    ∀ b' ∈ (step s (.release j)).1.a.blocks, b'.id = hd.blk → ∀ k, k < b'.areaSize →
      inSpan ((step s (.release j)).1.a.cfg.poolGran b'.pool) hd k → memAt b' k = patColour (step s (.release j)).1.a.cfg := by
  have hG := good_all_histories hR
  have hG' := hG.step (.release j)
  obtain ⟨_, htab⟩ := release_ok hR.reachable e l
  intro b' hb' eb' k hk hin
  have hc := step_cfg hG.inv (.release j)
  refine gap_filled hG'.inv hG'.mem (by rw [hc]; exact hf) hb' (lo := hd.off) (hi := hd.off + hd.size) ?_ hk hin.1 hin.2
  intro i x hx hlx hbx
  rw [htab, getElem?_killHandle] at hx
  cases hsi : s.tab[i]? with
  | none => rw [hsi] at hx; simp at hx
  | some y =>
    rw [hsi] at hx
    simp only [Option.map_some, Option.some.injEq] at hx
    by_cases hij : i = j
    · rw [if_pos hij] at hx; rw [← hx] at hlx; simp at hlx
    · rw [if_neg hij] at hx
      subst hx
      have := live_spans_disjoint hR.reachable hij hsi e hlx l (by rw [hbx, eb'])
      omega

/-- **Fill after shrink**: after shrinking live span `j` to `sz` bytes every granule behind the kept prefix holds the pattern. -/
theorem fill_after_shrink {s : St} (hR : ReachableC s) (hf : s.a.cfg.fillUnused = true) {j : Nat} {hd : Handle}
    (e : s.tab[j]? = some hd) (l : hd.live = true) (newSize : Nat) (h0 : 0 < newSize) (hle : newSize ≤ hd.size) :
    ∃ sz, (step s (.shrink j newSize)).2 = .size sz ∧
    ∀ b' ∈ (step s (.shrink j newSize)).1.a.blocks, b'.id = hd.blk → ∀ k, k < b'.areaSize →
      (hd.off + sz) / (step s (.shrink j newSize)).1.a.cfg.poolGran b'.pool ≤ k →
      k < (hd.off + hd.size) / (step s (.shrink j newSize)).1.a.cfg.poolGran b'.pool →
      memAt b' k = patColour (step s (.shrink j newSize)).1.a.cfg := by
  have hG := good_all_histories hR
  have hG' := hG.step (.shrink j newSize)
  obtain ⟨sz, hans, _, hsz, htab⟩ := shrink_ok hR.reachable e l newSize h0 hle
  refine ⟨sz, hans, ?_⟩
  intro b' hb' eb' k hk h1 h2
  have hc := step_cfg hG.inv (.shrink j newSize)
  refine gap_filled hG'.inv hG'.mem (by rw [hc]; exact hf) hb' (lo := hd.off + sz) (hi := hd.off + hd.size) ?_ hk h1 h2
  intro i x hx hlx hbx
  rw [htab, getElem?_setHandleSize] at hx
  cases hsi : s.tab[i]? with
  | none => rw [hsi] at hx; simp at hx
  | some y =>
    rw [hsi] at hx
    simp only [Option.map_some, Option.some.injEq] at hx
    by_cases hij : i = j
    · rw [if_pos hij] at hx
      subst hij
      rw [e] at hsi; cases hsi
      subst hx
      left; exact Nat.le_refl _
    · rw [if_neg hij] at hx
      subst hx
      have := live_spans_disjoint hR.reachable hij hsi e hlx l (by rw [hbx, eb'])
      omega

/-! ### statistics -/

/-- **`statistics()` is exact**: the sums over the pools it reports are the number of blocks, the number of live spans, the bytes
reserved (sum of the block sizes) and the bytes used = bytes of all live spans + one padding granule per block (none with
kDisableInitialPadding). -/
theorem stats_exact {s : St} (hR : ReachableC s) :
    s.a.stats.blocks = s.a.blocks.length ∧
    s.a.stats.allocs = liveCount s.tab ∧
    s.a.stats.reserved = agg (fun b => b.blockSize) s.a.blocks ∧
    s.a.stats.used = liveBytes s.tab + agg (wPB s.a.cfg) s.a.blocks := by
  have hG := good_all_histories hR
  obtain ⟨s1, s2, s3⟩ := stats_of_pinv hG.pool
  refine ⟨s1, hG.cnt, ?_, ?_⟩
  · rw [s2]; exact agg_congr_mem _ _ _ (fun b hb => (hG.div b hb).area)
  · rw [s3]; exact hG.bytes

/-! ### the refinement -/

/-- **The monitor accepts every model run**: for every configuration the constructor can build and every history of operations, the
independent monitor of Spec/JitAlloc.lean — the stated meaning of C09 — raises no alarm on the answers and statistics of the model.
(The correspondence run ties the model to jitallocator.cpp; this theorem ties the model to the property.) -/
theorem model_accepted_by_spec (opts gran blockSize pattern : Nat) (ops : List Op) :
    Spec.monitor (Spec.Ghost.init (mkConfig opts gran blockSize pattern))
      (trace (St.init (mkConfig opts gran blockSize pattern)) ops) = none :=
  model_accepted opts gran blockSize pattern ops

/-- the trace the theorem speaks about is the whole run: one entry per operation -/
theorem trace_length (s : St) (ops : List Op) : (trace s ops).length = ops.length := by
  unfold trace
  have : ∀ (s : St), (run s ops).length = ops.length := by
    induction ops with
    | nil => intro _; rfl
    | cons o os ih => intro s; simp [run, ih]
  simp [this s]

/-! ### the two views of a block -/

/-- **Disjointness in the executable view** -/
theorem rx_view_disjoint {s : St} (hR : ReachableC s) {L : Layout} (hL : LayoutOK L s.a.cfg.dual s.a.blocks)
    {i j : Nat} {h1 h2 : Handle} (hij : i ≠ j) (e1 : s.tab[i]? = some h1) (e2 : s.tab[j]? = some h2)
    (l1 : h1.live = true) (l2 : h2.live = true) : Apart (L.rxAddr h1) h1.size (L.rxAddr h2) h2.size :=
  rx_disjoint (good_all_histories hR) hL hij e1 e2 l1 l2

/-- **Disjointness in the writable view** -/
theorem rw_view_disjoint {s : St} (hR : ReachableC s) {L : Layout} (hL : LayoutOK L s.a.cfg.dual s.a.blocks)
    {i j : Nat} {h1 h2 : Handle} (hij : i ≠ j) (e1 : s.tab[i]? = some h1) (e2 : s.tab[j]? = some h2)
    (l1 : h1.live = true) (l2 : h2.live = true) : Apart (L.rwAddr h1) h1.size (L.rwAddr h2) h2.size :=
  rw_disjoint (good_all_histories hR) hL hij e1 e2 l1 l2

/-- **The views never cross**: the executable range of a live span does not meet the writable range of another live span, and with
dual mapping not even its own writable range. -/
theorem views_never_cross {s : St} (hR : ReachableC s) {L : Layout} (hL : LayoutOK L s.a.cfg.dual s.a.blocks)
    {i j : Nat} {h1 h2 : Handle} (e1 : s.tab[i]? = some h1) (e2 : s.tab[j]? = some h2)
    (l1 : h1.live = true) (l2 : h2.live = true) (hij : i ≠ j ∨ s.a.cfg.dual = true) :
    Apart (L.rxAddr h1) h1.size (L.rwAddr h2) h2.size :=
  cross_disjoint (good_all_histories hR) hL e1 e2 l1 l2 hij

/-- **rx aliases rw**: byte `o` of a live span addressed through either view is the same cell (block, offset). -/
theorem views_alias_same_cell {s : St} (hR : ReachableC s) {L : Layout} (hL : LayoutOK L s.a.cfg.dual s.a.blocks)
    {i : Nat} {hd : Handle} (e : s.tab[i]? = some hd) (l : hd.live = true) {o : Nat} (ho : o < hd.size) :
    viewCell L.rx s.a.blocks (L.rxAddr hd + o) = some (hd.blk, hd.off + o) ∧
    viewCell L.rw s.a.blocks (L.rwAddr hd + o) = some (hd.blk, hd.off + o) :=
  views_alias (good_all_histories hR) hL e l ho

/-! ### machine arithmetic (size_t = 64 bit, uint32_t) -/

/-- **No block is larger than 2^31 + 2^29 bytes** (requests are at most 2^31 - 1 bytes, base block sizes at most 2^28, doubling stops
at 64 MiB): the `uint32_t` area sizes, bit-word counts and byte products of jitallocator.cpp never overflow. -/
theorem block_sizes_bounded {s : St} (hR : ReachableC s) : ∀ b ∈ s.a.blocks, b.blockSize ≤ 2684354560 := by
  obtain ⟨o, g, b, p, ops, rfl⟩ := hR
  have := lift_final (Q := fun s => CfgBnd s.a.cfg ∧ ABnd s.a)
    (fun s s' l hI h t => ⟨by rw [t.cfg]; exact h.1, ABnd.trans hI h.1 h.2 t⟩)
    (Inv.init _ (mkConfig_wf o g b p)) ⟨mkConfig_bnd o g b p, by intro x hx; simp [St.init, Alloc.init] at hx⟩ ops
  exact this.2

theorem reachable_cfg_bnd {s : St} (hR : ReachableC s) : CfgBnd s.a.cfg := by
  obtain ⟨o, g, b, p, ops, rfl⟩ := hR
  have := lift_final (Q := fun s => CfgBnd s.a.cfg) (fun s s' l hI h t => by rw [t.cfg]; exact h)
    (Inv.init _ (mkConfig_wf o g b p)) (mkConfig_bnd o g b p) ops
  exact this

/-- **The block-size computation is exact in 64 bits**: in every reachable state, for every request `alloc` lets through, the
`size_t` computation of `JitAllocator_calculate_ideal_block_size` (with its overflow exits and wrap-around, `Word.ideal64`) returns
the model's value, which is again within the bound, and `JitAllocator_new_block` narrows its area size to `uint32_t` without loss. -/
theorem block_size_arithmetic_exact {s : St} (hR : ReachableC s) {p size : Nat} (hp : p < s.a.cfg.poolCount) (hs : size ≤ 2147483647) :
    Word.ideal64 (lastSize s.a p) s.a.cfg.blockSize s.a.cfg.noPad (s.a.cfg.poolGran p) size = idealBlockSize s.a p size ∧
    idealBlockSize s.a p size ≤ 2684354560 ∧
    Word.areaOfBytes32 (idealBlockSize s.a p size) (s.a.cfg.poolGran p) =
      (idealBlockSize s.a p size + s.a.cfg.poolGran p - 1) / s.a.cfg.poolGran p := by
  have hc := reachable_cfg_bnd hR
  obtain ⟨h1, h2⟩ := ideal_word_exact hc (block_sizes_bounded hR) hp hs
  exact ⟨h1, h2, (Word.new_block_area_exact (poolGran_pos (good_all_histories hR).inv.wf p) (hc.2.2 p hp) h2).1⟩

/-- **The request test of `alloc` is exact** unless the request lies within one granule of 2^64 (there the aligned size wraps to 0
and the pinned code answers kInvalidArgument instead of kTooLarge: `Word.alloc_check_wraps`, finding C09-10), and the area of an
accepted request is narrowed to `uint32_t` without loss. -/
theorem request_arithmetic_exact {s : St} (hR : ReachableC s) (req : Nat) (h : req + s.a.cfg.gran ≤ 18446744073709551616) :
    Word.allocCheck req s.a.cfg.gran = Word.allocCheckModel req s.a.cfg.gran ∧
    ∀ p size, p < s.a.cfg.poolCount → size ≤ 2147483648 →
      Word.areaOfBytes32 size (s.a.cfg.poolGran p) = (size + s.a.cfg.poolGran p - 1) / s.a.cfg.poolGran p := by
  have hG := good_all_histories hR
  refine ⟨Word.alloc_check_exact hG.inv.wf.1 h, ?_⟩
  intro p size hp hs
  exact Word.area_exact (poolGran_pos hG.inv.wf p) hs ((reachable_cfg_bnd hR).2.2 p hp)

/-- **`shrink`: the pinned narrowing is wrong, the repaired test is exact.**  `uint32_t area_shrunk_size =
area_size_from_byte_size(new_size)` maps 2^38 (and 2^64 - 1) to 0 granules, so a request to ENLARGE a span passed the test
`area_shrunk_size > area_prev_size` and freed the span while the caller still held it (defect C09-9, replayed on the real code);
the repaired test `new_size > span_prev_size` rejects exactly what the model rejects for EVERY `new_size`, and whatever passes is
narrowed without loss. -/
theorem shrink_arithmetic {s : St} (hR : ReachableC s) {b : Block} (hb : b ∈ s.a.blocks) {st n : Nat}
    (hS : Spans s.tab b.id (s.a.cfg.poolGran b.pool) st n) (newSize : Nat) :
    (newSize > n * s.a.cfg.poolGran b.pool ↔ (newSize + s.a.cfg.poolGran b.pool - 1) / s.a.cfg.poolGran b.pool > n) ∧
    (¬ newSize > n * s.a.cfg.poolGran b.pool →
      Word.areaOfBytes32 newSize (s.a.cfg.poolGran b.pool) = (newSize + s.a.cfg.poolGran b.pool - 1) / s.a.cfg.poolGran b.pool) ∧
    (Word.areaOfBytes32 274877906944 64 = 0 ∧ (274877906944 + 64 - 1) / 64 = 4294967296) := by
  have hG := good_all_histories hR
  have hg := poolGran_pos hG.inv.wf b.pool
  have hd := hG.div b hb
  obtain ⟨_, _, i3⟩ := (hG.inv.blk b hb).1.inside st n hS
  have hbs := block_sizes_bounded hR b hb
  have hlt : n * s.a.cfg.poolGran b.pool < 4294967296 := by
    have : n * s.a.cfg.poolGran b.pool ≤ b.areaSize * s.a.cfg.poolGran b.pool := Nat.mul_le_mul_right _ (by omega)
    rw [hd.area] at this
    omega
  obtain ⟨g1, g2⟩ := Word.shrink_guard_exact (newSize := newSize) hg ((reachable_cfg_bnd hR).2.2 b.pool hd.pool) hlt
  exact ⟨g1, g2, Word.shrink_area_truncates.1, Word.shrink_area_truncates.2.1⟩

/-! ### non-vacuity -/

example : ReachableC (St.init (mkConfig 0 0 0 0)) := ⟨0, 0, 0, 0, [], rfl⟩
example : ReachableC exState := ⟨0, 0, 0, 0, [.alloc 128], rfl⟩

/-- a dual-mapped, filling configuration is covered (options kUseDualMapping | kFillUnusedMemory) -/
example : (mkConfig 5 0 0 0).dual = true ∧ (mkConfig 5 0 0 0).fillUnused = true := by decide

/-- `model_accepted_by_spec` is not vacuous: the monitor does reject — a wrong initialised flag, a wrong allocation count, the same
span handed out twice — and accepts a correct first allocation -/
example : Spec.monitor (Spec.Ghost.init (mkConfig 0 0 0 0)) [(.isinit, .flag false, ⟨0, 0, 0, 0, 0⟩)] ≠ none := by decide
example : Spec.monitor (Spec.Ghost.init (mkConfig 0 0 0 0)) [(.isinit, .flag true, ⟨0, 1, 0, 0, 0⟩)] ≠ none := by decide
example : Spec.monitor (Spec.Ghost.init (mkConfig 0 0 0 0))
    [(.alloc 64, .span ⟨1, 0, 131072, 64, 64⟩, ⟨1, 1, 128, 131072, 0⟩),
     (.alloc 64, .span ⟨1, 0, 131072, 64, 64⟩, ⟨1, 2, 192, 131072, 0⟩)] ≠ none := by decide +kernel
example : Spec.monitor (Spec.Ghost.init (mkConfig 0 0 0 0))
    [(.alloc 64, .span ⟨1, 0, 131072, 64, 64⟩, ⟨1, 1, 128, 131072, 0⟩)] = none := by decide +kernel

end AsmjitVerif.JitAlloc
