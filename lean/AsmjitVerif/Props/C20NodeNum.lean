/-
  C20 (tenth file) — align and embed-data nodes denote their content (numbers read back), proved for all inputs.
  Kept apart from C20Node.lean and cut into small lemmas (each text equation and each reader step on its own).
-/
import AsmjitVerif.Props.C20Node

namespace AsmjitVerif.Props.C20
open AsmjitVerif.Format AsmjitVerif.FormatText AsmjitVerif.Lemmas.FormatLex AsmjitVerif.Lemmas.FormatNum

def alignSuffix (mode : Nat) : Str := if mode = 0 then " (code)".toList else " (data)".toList

theorem alignSuffix_stops (mode : Nat) : StopsAt isDigitC (alignSuffix mode) := by
  unfold alignSuffix
  split
  · exact Or.inr ⟨' ', "(code)".toList, rfl, rfl⟩
  · exact Or.inr ⟨' ', "(data)".toList, rfl, rfl⟩

theorem align_text (flags : Nat) (env : Env) (mode n : Nat) :
    formatNodeBody flags env (.align mode n) = ".align ".toList ++ (uintStr n 10 ++ alignSuffix mode) := by
  show ".align ".toList ++ uintStr n ++ " (".toList ++ (if mode = 0 then "code" else "data").toList ++ [')'] = _
  unfold alignSuffix
  by_cases hm : mode = 0
  · rw [if_pos hm, if_pos hm]; simp
  · rw [if_neg hm, if_neg hm]; simp

theorem alignSuffix_read (mode n : Nat) :
    (if alignSuffix mode == " (code)".toList then some (0, n)
     else if alignSuffix mode == " (data)".toList then some (1, n) else none) = some ((if mode = 0 then 0 else 1), n) := by
  unfold alignSuffix
  by_cases hm : mode = 0
  · rw [if_pos hm, if_pos hm]; rfl
  · rw [if_neg hm, if_neg hm]; rfl

theorem readAlign_text (mode n : Nat) (h : n < two64) :
    readAlign (".align ".toList ++ (uintStr n 10 ++ alignSuffix mode)) = some ((if mode = 0 then 0 else 1), n) := by
  unfold readAlign
  rw [stripPrefix_append]
  simp only [Option.bind_some]
  rw [readNat_uint n h _ (alignSuffix_stops mode)]
  simp only [Option.bind_some]
  exact alignSuffix_read mode n

/-- `.align N (code|data)` reads back to the alignment and the mode, for every alignment value -/
theorem align_node_parse_back (flags : Nat) (env : Env) (pad0 mode n : Nat) (h : n < two64) :
    monNode env flags (.align mode n) none (formatNode flags env pad0 (.align mode n) none) = true := by
  rw [formatNode_plain _ _ _ _ (by intro t h; cases h), align_text, monNode_align]
  unfold monAlignText
  rw [readAlign_text mode n h]
  simp

/-! ### embedded data -/

theorem dataWord_wordName (arch : Arch) (size : Nat) (h : size = 1 ∨ size = 2 ∨ size = 4 ∨ size = 8) :
    dataWord arch size = some (wordName arch size) := by
  rcases h with h | h | h | h <;> subst h <;> cases arch <;> rfl

/-- the text after the directive word, nested to the right the way the reader consumes it -/
def embedTail (size count rep : Nat) : Str :=
  uintStr count 10 ++ (" Repeat=".toList ++ (uintStr rep 10 ++ (" TotalSize=".toList ++ (uintStr (size * count) 10 ++ ['}']))))

theorem embed_text (flags : Nat) (env : Env) (size count rep : Nat) :
    formatNodeBody flags env (.embedData size count rep) =
      (['.'] ++ wordName env.arch size ++ " {Count=".toList) ++ embedTail size count rep := by
  show ['.'] ++ wordName env.arch size ++ " {Count=".toList ++ uintStr count ++ " Repeat=".toList ++ uintStr rep ++
      " TotalSize=".toList ++ uintStr (size * count) ++ ['}'] = _
  unfold embedTail
  simp only [List.append_assoc]

theorem stops_repeat (r : Str) : StopsAt isDigitC (" Repeat=".toList ++ r) := Or.inr ⟨' ', "Repeat=".toList ++ r, rfl, rfl⟩
theorem stops_total (r : Str) : StopsAt isDigitC (" TotalSize=".toList ++ r) := Or.inr ⟨' ', "TotalSize=".toList ++ r, rfl, rfl⟩
theorem stops_brace : StopsAt isDigitC ['}'] := Or.inr ⟨'}', [], rfl, rfl⟩

/-- the three numbers are read in turn -/
theorem readEmbed_tail (count rep total : Nat) (hc : count < two64) (hr : rep < two64) (ht : total < two64) :
    ((readNat (uintStr count 10 ++ (" Repeat=".toList ++ (uintStr rep 10 ++ (" TotalSize=".toList ++ (uintStr total 10 ++ ['}'])))))).bind
      fun (count, r) => (stripPrefix? " Repeat=".toList r).bind fun r => (readNat r).bind fun (rep, r) =>
        (stripPrefix? " TotalSize=".toList r).bind fun r => (readNat r).bind fun (total, r) =>
          if r == ['}'] then some (count, rep, total) else none) = some (count, rep, total) := by
  rw [readNat_uint count hc _ (stops_repeat _)]
  simp only [Option.bind_some]
  rw [stripPrefix_append]
  simp only [Option.bind_some]
  rw [readNat_uint rep hr _ (stops_total _)]
  simp only [Option.bind_some]
  rw [stripPrefix_append]
  simp only [Option.bind_some]
  rw [readNat_uint total ht _ stops_brace]
  simp

theorem readEmbed_text (arch : Arch) (size count rep : Nat) (h : size = 1 ∨ size = 2 ∨ size = 4 ∨ size = 8)
    (hc : count < two64) (hr : rep < two64) (ht : size * count < two64) :
    readEmbed arch size ((['.'] ++ wordName arch size ++ " {Count=".toList) ++ embedTail size count rep) =
      some (count, rep, size * count) := by
  unfold readEmbed
  rw [dataWord_wordName arch size h]
  simp only [Option.bind_some]
  rw [stripPrefix_append]
  simp only [Option.bind_some]
  exact readEmbed_tail count rep (size * count) hc hr ht

/-- `.dd {Count=c Repeat=r TotalSize=t}` reads back to the item size (through the directive word), the count, the repeat count
    and the total size, for all values -/
theorem embed_node_parse_back (flags : Nat) (env : Env) (pad0 size count rep : Nat) (h : size = 1 ∨ size = 2 ∨ size = 4 ∨ size = 8)
    (hc : count < two64) (hr : rep < two64) (ht : size * count < two64) :
    monNode env flags (.embedData size count rep) none (formatNode flags env pad0 (.embedData size count rep) none) = true := by
  rw [formatNode_plain _ _ _ _ (by intro t h; cases h), embed_text, monNode_embed]
  unfold monEmbedText
  rw [readEmbed_text env.arch size count rep h hc hr ht]
  simp

/-- the directive word determines the item size: two different sizes never share a word -/
theorem embed_word_determines_size (arch : Arch) (s t : Nat) (hs : s = 1 ∨ s = 2 ∨ s = 4 ∨ s = 8) (ht : t = 1 ∨ t = 2 ∨ t = 4 ∨ t = 8)
    (h : wordName arch s = wordName arch t) : s = t := by
  rcases hs with hs | hs | hs | hs <;> rcases ht with ht | ht | ht | ht <;> subst hs <;> subst ht <;> cases arch <;>
    first | rfl | (exact absurd h (by decide))

/-! ### `.label (a - b)` -/

theorem label_delta_text (flags : Nat) (env : Env) (id base : Nat) :
    formatNodeBody flags env (.embedLabelDelta id base) =
      ".label (".toList ++ ((formatLabel env id ++ (" - ".toList ++ formatLabel env base)) ++ [')']) := by
  show ".label (".toList ++ formatLabel env id ++ " - ".toList ++ formatLabel env base ++ [')'] = _
  simp only [List.append_assoc]

theorem monNode_delta (env : Env) (flags id base : Nat) (text : Str) :
    monNode env flags (.embedLabelDelta id base) none text 0 = monLabelDeltaText env id base text :=
  monNode_plain env flags (.embedLabelDelta id base) text

theorem stops_dash (r : Str) : StopsAt notSpace (" - ".toList ++ r) := Or.inr ⟨' ', "- ".toList ++ r, rfl, rfl⟩

/-- `.label (a - b)` reads back to the two labels, whenever each label's text reads back to the label and the first one has no
    space in it (label names with spaces are outside: the text would be ambiguous) -/
theorem label_delta_node_parse_back (flags : Nat) (env : Env) (pad0 id base : Nat)
    (hid : parseLabel env (formatLabel env id) = some id) (hbase : parseLabel env (formatLabel env base) = some base)
    (hsp : ∀ c ∈ formatLabel env id, notSpace c = true) :
    monNode env flags (.embedLabelDelta id base) none (formatNode flags env pad0 (.embedLabelDelta id base) none) = true := by
  rw [formatNode_plain _ _ _ _ (by intro t h; cases h), label_delta_text, monNode_delta]
  have hs := takeWhile_append_stop notSpace (formatLabel env id) (" - ".toList ++ formatLabel env base) hsp (stops_dash _)
  unfold monLabelDeltaText
  rw [stripPrefix_append]
  simp only [Option.bind_some]
  rw [dropLast_concat]
  simp only [hs.1, hs.2]
  rw [stripPrefix_append]
  simp [hid, hbase]

/-! ### the `<00012> ` position prefix (kPositions) -/

theorem uintStr_ne_nil (n : Nat) : uintStr n 10 ≠ [] := by
  unfold uintStr; exact digitsLoop_ne_nil 10 63 n

theorem uintStr_digits (n : Nat) : ∀ c ∈ uintStr n 10, isDigitC c = true := by
  unfold uintStr
  exact digitsLoop_chars 10 _ (by omega) (fun d hd => dec_isDigitC ⟨d, hd⟩) 64 n

/-- the folding step of `parseBase 10 decVal?` -/
def decStep (acc : Option Nat) (c : Char) : Option Nat :=
  match acc, decVal? c with
  | some a, some d => if d < 10 then some (a * 10 + d) else none
  | _, _ => none

theorem parseDec_fold (s : Str) (h : s ≠ []) : parseDec s = s.foldl decStep (some 0) := by
  cases s with
  | nil => exact absurd rfl h
  | cons c r => rfl

theorem zeros_fold (k : Nat) : (List.replicate k '0').foldl decStep (some 0) = some 0 := by
  induction k with
  | zero => rfl
  | succ k ih => rw [List.replicate_succ, List.foldl_cons]; exact ih

/-- leading zeros do not change the value read -/
theorem parseDec_zeros (k : Nat) (s : Str) (h : s ≠ []) : parseDec (List.replicate k '0' ++ s) = parseDec s := by
  have hne : List.replicate k '0' ++ s ≠ [] := by
    intro h0; exact h (List.append_eq_nil_iff.mp h0).2
  rw [parseDec_fold _ hne, parseDec_fold _ h, List.foldl_append, zeros_fold]

def posDigits (pos : Nat) : Str := List.replicate (5 - (uintStr pos 10).length) '0' ++ uintStr pos 10

theorem posDigits_digits (pos : Nat) : ∀ c ∈ posDigits pos, isDigitC c = true := by
  intro c hc
  unfold posDigits at hc
  rcases List.mem_append.mp hc with h | h
  · rw [(List.mem_replicate.mp h).2]; rfl
  · exact uintStr_digits pos c h

theorem posDigits_len (pos : Nat) : (posDigits pos).length ≥ 5 := by
  unfold posDigits; rw [List.length_append, List.length_replicate]; omega

theorem posDigits_value (pos : Nat) (h : pos < two64) : parseDec (posDigits pos) = some pos := by
  unfold posDigits
  rw [parseDec_zeros _ _ (uintStr_ne_nil pos), parseDec_uintStr pos h]

theorem positionPrefix_text (flags pos : Nat) (h : hasBit flags ffPositions ∧ pos ≠ 0) (body : Str) :
    positionPrefix flags pos ++ body = '<' :: (posDigits pos ++ ('>' :: ' ' :: body)) := by
  unfold positionPrefix posDigits
  rw [if_pos h]
  simp [List.append_assoc]

/-- the position prefix is read back to the node's position, and what follows it is the node text -/
theorem stripPosition_prefix (flags pos : Nat) (hp : pos < two64) (body : Str) :
    stripPosition flags pos (positionPrefix flags pos ++ body) = some body := by
  by_cases h : hasBit flags ffPositions ∧ pos ≠ 0
  · rw [positionPrefix_text flags pos h]
    have hs := takeWhile_append_stop isDigitC (posDigits pos) ('>' :: ' ' :: body) (posDigits_digits pos) (Or.inr ⟨'>', ' ' :: body, rfl, rfl⟩)
    unfold stripPosition
    rw [if_pos h]
    simp only [hs.1, hs.2]
    rw [if_pos ⟨posDigits_len pos, posDigits_value pos hp⟩]
    exact stripPrefix_append ['>', ' '] body
  · unfold stripPosition positionPrefix
    rw [if_neg h, if_neg h]; rfl

/-- a node printed with its position is judged exactly as the same node printed without: every node theorem above
    (and the instruction-line theorems through `inst_node_text_x86` / `_a64`) therefore holds at every position -/
theorem node_position_irrelevant (flags : Nat) (env : Env) (pad0 : Nat) (n : Node) (inl : Option Str) (pos : Nat) (hp : pos < two64) :
    monNode env flags n inl (formatNode flags env pad0 n inl pos) pos = monNode env flags n inl (formatNode flags env pad0 n inl 0) 0 := by
  unfold monNode formatNode
  rw [stripPosition_prefix flags pos hp, stripPosition_prefix flags 0 (by decide)]

end AsmjitVerif.Props.C20
