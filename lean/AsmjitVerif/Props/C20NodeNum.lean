/-
  C20 (tenth file) — align and embed-data nodes denote their content (numbers read back), proved for all inputs.
  Kept apart from C20Node.lean and cut into small lemmas (each text equation and each reader step on its own).
-/
import AsmjitVerif.Props.C20Node

namespace AsmjitVerif.Props.C20
open AsmjitVerif.Format AsmjitVerif.FormatText AsmjitVerif.Lemmas.FormatLex AsmjitVerif.Lemmas.FormatNum

def alignSuffix (mode : Nat) : Str := if mode = 0 then " (code)".toList else " (data)".toList

theorem alignSuffix_stops (mode : Nat) : StopsAt isDigitC (alignSuffix mode) := by
  unfold alignSuffix
  split
  · exact Or.inr ⟨' ', "(code)".toList, rfl, rfl⟩
  · exact Or.inr ⟨' ', "(data)".toList, rfl, rfl⟩

theorem align_text (flags : Nat) (env : Env) (mode n : Nat) :
    formatNodeBody flags env (.align mode n) = ".align ".toList ++ (uintStr n 10 ++ alignSuffix mode) := by
  show ".align ".toList ++ uintStr n ++ " (".toList ++ (if mode = 0 then "code" else "data").toList ++ [')'] = _
  unfold alignSuffix
  by_cases hm : mode = 0
  · rw [if_pos hm, if_pos hm]; simp
  · rw [if_neg hm, if_neg hm]; simp

theorem alignSuffix_read (mode n : Nat) :
    (if alignSuffix mode == " (code)".toList then some (0, n)
     else if alignSuffix mode == " (data)".toList then some (1, n) else none) = some ((if mode = 0 then 0 else 1), n) := by
  unfold alignSuffix
  by_cases hm : mode = 0
  · rw [if_pos hm, if_pos hm]; rfl
  · rw [if_neg hm, if_neg hm]; rfl

theorem readAlign_text (mode n : Nat) (h : n < two64) :
    readAlign (".align ".toList ++ (uintStr n 10 ++ alignSuffix mode)) = some ((if mode = 0 then 0 else 1), n) := by
  unfold readAlign
  rw [stripPrefix_append]
  simp only [Option.bind_some]
  rw [readNat_uint n h _ (alignSuffix_stops mode)]
  simp only [Option.bind_some]
  exact alignSuffix_read mode n

/-- `.align N (code|data)` reads back to the alignment and the mode, for every alignment value -/
theorem align_node_parse_back (flags : Nat) (env : Env) (pad0 mode n : Nat) (h : n < two64) :
    monNode env flags (.align mode n) none (formatNode flags env pad0 (.align mode n) none) = true := by
  rw [formatNode_plain _ _ _ _ (by intro t h; cases h), align_text, monNode_align]
  unfold monAlignText
  rw [readAlign_text mode n h]
  simp

/-! ### embedded data -/

theorem dataWord_wordName (arch : Arch) (size : Nat) (h : size = 1 ∨ size = 2 ∨ size = 4 ∨ size = 8) :
    dataWord arch size = some (wordName arch size) := by
  rcases h with h | h | h | h <;> subst h <;> cases arch <;> rfl

/-- the text after the directive word, nested to the right the way the reader consumes it -/
def embedTail (size count rep : Nat) : Str :=
  uintStr count 10 ++ (" Repeat=".toList ++ (uintStr rep 10 ++ (" TotalSize=".toList ++ (uintStr (size * count) 10 ++ ['}']))))

theorem embed_text (flags : Nat) (env : Env) (size count rep : Nat) :
    formatNodeBody flags env (.embedData size count rep) =
      (['.'] ++ wordName env.arch size ++ " {Count=".toList) ++ embedTail size count rep := by
  show ['.'] ++ wordName env.arch size ++ " {Count=".toList ++ uintStr count ++ " Repeat=".toList ++ uintStr rep ++
      " TotalSize=".toList ++ uintStr (size * count) ++ ['}'] = _
  unfold embedTail
  simp only [List.append_assoc]

theorem stops_repeat (r : Str) : StopsAt isDigitC (" Repeat=".toList ++ r) := Or.inr ⟨' ', "Repeat=".toList ++ r, rfl, rfl⟩
theorem stops_total (r : Str) : StopsAt isDigitC (" TotalSize=".toList ++ r) := Or.inr ⟨' ', "TotalSize=".toList ++ r, rfl, rfl⟩
theorem stops_brace : StopsAt isDigitC ['}'] := Or.inr ⟨'}', [], rfl, rfl⟩

/-- the three numbers are read in turn -/
theorem readEmbed_tail (count rep total : Nat) (hc : count < two64) (hr : rep < two64) (ht : total < two64) :
    ((readNat (uintStr count 10 ++ (" Repeat=".toList ++ (uintStr rep 10 ++ (" TotalSize=".toList ++ (uintStr total 10 ++ ['}'])))))).bind
      fun (count, r) => (stripPrefix? " Repeat=".toList r).bind fun r => (readNat r).bind fun (rep, r) =>
        (stripPrefix? " TotalSize=".toList r).bind fun r => (readNat r).bind fun (total, r) =>
          if r == ['}'] then some (count, rep, total) else none) = some (count, rep, total) := by
  rw [readNat_uint count hc _ (stops_repeat _)]
  simp only [Option.bind_some]
  rw [stripPrefix_append]
  simp only [Option.bind_some]
  rw [readNat_uint rep hr _ (stops_total _)]
  simp only [Option.bind_some]
  rw [stripPrefix_append]
  simp only [Option.bind_some]
  rw [readNat_uint total ht _ stops_brace]
  simp

theorem readEmbed_text (arch : Arch) (size count rep : Nat) (h : size = 1 ∨ size = 2 ∨ size = 4 ∨ size = 8)
    (hc : count < two64) (hr : rep < two64) (ht : size * count < two64) :
    readEmbed arch size ((['.'] ++ wordName arch size ++ " {Count=".toList) ++ embedTail size count rep) =
      some (count, rep, size * count) := by
  unfold readEmbed
  rw [dataWord_wordName arch size h]
  simp only [Option.bind_some]
  rw [stripPrefix_append]
  simp only [Option.bind_some]
  exact readEmbed_tail count rep (size * count) hc hr ht

/-- `.dd {Count=c Repeat=r TotalSize=t}` reads back to the item size (through the directive word), the count, the repeat count
    and the total size, for all values -/
theorem embed_node_parse_back (flags : Nat) (env : Env) (pad0 size count rep : Nat) (h : size = 1 ∨ size = 2 ∨ size = 4 ∨ size = 8)
    (hc : count < two64) (hr : rep < two64) (ht : size * count < two64) :
    monNode env flags (.embedData size count rep) none (formatNode flags env pad0 (.embedData size count rep) none) = true := by
  rw [formatNode_plain _ _ _ _ (by intro t h; cases h), embed_text, monNode_embed]
  unfold monEmbedText
  rw [readEmbed_text env.arch size count rep h hc hr ht]
  simp

/-- the directive word determines the item size: two different sizes never share a word -/
theorem embed_word_determines_size (arch : Arch) (s t : Nat) (hs : s = 1 ∨ s = 2 ∨ s = 4 ∨ s = 8) (ht : t = 1 ∨ t = 2 ∨ t = 4 ∨ t = 8)
    (h : wordName arch s = wordName arch t) : s = t := by
  rcases hs with hs | hs | hs | hs <;> rcases ht with ht | ht | ht | ht <;> subst hs <;> subst ht <;> cases arch <;>
    first | rfl | (exact absurd h (by decide))

end AsmjitVerif.Props.C20
