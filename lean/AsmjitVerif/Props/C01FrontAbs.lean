/-
C01 property theorems: the ABSOLUTE-ADDRESS form `seg:[disp32]` as an instance of the generic address-form structures `AddrForm` (VEX / EVEX
emitter) and `AddrFormL` (legacy emitter) - every memory-shape class theorem (`front_cls_correct_*_mem`, `..._lm_mem`, `..._mov_mi_mem`, ...)
applies to it unchanged - and the moffs forms of `mov` / `movabs`.
-/
import AsmjitVerif.Props.C01RowsMov
set_option linter.constructorNameAsVariable false
set_option linter.unusedSimpArgs false
set_option linter.unusedVariables false
set_option maxRecDepth 100000
namespace AsmjitVerif.Props.C01
open Spec.X86 Model.X86 AsmjitVerif.Lemmas.X86Parse AsmjitVerif.Gen.X86ClassRows

/-! ### absolute address `[disp32]` (explicit `abs`, sign-extended 32-bit value, code base address known) -/

/-- model-side absolute-address operand (no base, no index; address type `aty`: 1 = explicit `abs`, 0 = default, which the assembler resolves to
`abs` when the value is a 32-bit one) -/
def memAbs (size : Nat) (d : BitVec 64) (seg : Nat := 0) (aty : Nat := 1) (bc : Nat := 0) : Mem :=
  { size := size, baseType := 0, baseId := 0, indexType := 0, indexId := 0, shift := 0, offset := d, seg := seg, bcst := bc, addrType := aty }

def memOpAbs (size : Nat) (d : BitVec 64) (seg : Nat := 0) (aty : Nat := 1) (bc : Nat := 0) : MemOp :=
  { size := size, baseKind := .none, baseId := 0, indexKind := .none, indexId := 0, shift := 0, disp := d, seg := seg, bcst := bc, addrType := aty }

theorem memInfo_abs : memInfo 0 0 = 0x0C#32 := by decide

def absMb (o7 : BitVec 32) : BitVec 8 := (encodeMod 0#32 o7 4#32).truncate 8

theorem absMb_facts : ∀ o : Fin 8, bits (absMb (BitVec.ofNat 32 o.val)) 6 2 = 0 ∧ bits (absMb (BitVec.ofNat 32 o.val)) 0 3 = 4 ∧
    bits (absMb (BitVec.ofNat 32 o.val)) 3 3 = o.val := by decide

theorem absMb_factsBV (o7 : BitVec 32) (ho : o7 < 8#32) : bits (absMb o7) 6 2 = 0 ∧ bits (absMb o7) 0 3 = 4 ∧ bits (absMb o7) 3 3 = o7.toNat := by
  have ho' : o7.toNat < 8 := by simpa [BitVec.lt_def] using ho
  simpa using absMb_facts ⟨o7.toNat, ho'⟩

theorem emitModSib_abs_parts (c : Model.X86.Ctx) (pre : List (BitVec 8)) (ao : Nat) (opcode options opReg rbReg rxReg : BitVec 32) (m : Mem)
    (imm : BitVec 64) (n : Nat) (b : BitVec 64) (hm : c.mode64 = true) (hb : c.base = some b) (hat : m.addrType = 1 ∨ m.addrType = 0)
    (hint : m.offHi32 = m.offLo32.sshiftRight 31) :
    emitModSib c pre ao opcode options opReg rbReg rxReg 0x0C#32 m imm n false =
      .ok (pre ++ (absMb opReg :: ([0x25#8] ++ le32 m.offLo32)) ++ emitImmediate imm n) := by
  have e25 : (encodeSib 0#32 4#32 5#32).truncate 8 = 0x25#8 := by decide
  unfold emitModSib
  rcases hat with hat | hat <;>
    simp [kX86MemInfo_Index, kX86MemInfo_67H_X86, kX86MemInfo_BaseGp, kX86MemInfo_BaseLabel, kX86MemInfo_BaseRip, hm, hb, hat, hint, absMb, e25]

theorem emitVexEvexM_abs_eq (c : Model.X86.Ctx) (opcode reg vvvvv aaa : BitVec 32) (z : Bool) (size : Nat) (d imm : BitVec 64) (n : Nat) (seg : Nat) (aty : Nat) (hat1 : aty = 1 ∨ aty = 0)
    (hm : c.mode64 = true) (hpe : c.preferEvex = false) (hk : c.extraId = aaa) (hvs : c.vsib = false) :
    emitVexEvexM c opcode (zOpt z) (reg + (vvvvv <<< 7)) (memAbs size d seg aty) imm n =
      (match vexEvexMPrefix c ((if c.vexFlag then xMbK opcode reg vvvvv 0#32 aaa z else xMbK opcode reg vvvvv 0#32 aaa z ||| 0x80000000#32) ||| zOpt z) opcode (zOpt z)
          (memAbs size d seg aty) with
       | .error e => .error e
       | .ok v => emitModSib c (segmentPrefix seg ++ aoBytes false ++ v.1) (segmentPrefix seg).length v.2 (zOpt z) ((reg + (vvvvv <<< 7)) &&& 7#32) 0#32 0#32 0x0C#32
                    (memAbs size d seg aty) imm n false) := by
  unfold emitVexEvexM
  cases z
  all_goals
    dsimp only [memAbs, xMbK, aoBytes, zOpt]
    simp only [hk, hpe, hvs, memInfo_abs, Model.X86.Ctx.aoMask, hm]
    simp only [rtLabel, oZMask, oER, oSAE, oVex, oVex3]
    simp only [BitVec.ofNat_toNat, BitVec.setWidth_eq, BitVec.zero_and, BitVec.zero_or, BitVec.or_zero, bne_self_eq_false, Bool.false_eq_true, ↓reduceIte,
      Bool.false_and, gt_iff_lt, Nat.lt_irrefl, Nat.not_lt_zero, BitVec.zero_shiftLeft, BitVec.and_zero, bind, Except.bind, Bool.not_false,
      show (1 < 0) = False from by decide, show (0x0C#32 &&& 0x80#32 != 0#32) = false from by decide, List.nil_append, List.length_nil, List.append_nil,
      show ((0:Nat) != 0) = false from by decide, BitVec.ofNat_eq_ofNat,
      show (0x800000#32 &&& (0x800000#32 ||| 0x40000#32 ||| 0x80000#32) != 0#32) = true from by decide,
      show (0x800000#32 &&& (0x40000#32 ||| 0x80000#32) != 0#32) = false from by decide,
      show (0x800000#32 &&& 0x800000#32) = 0x800000#32 from by decide,
      show (0x800000#32 &&& (0x800#32 ||| 0x400#32)) = 0#32 from by decide]
    generalize vexEvexMPrefix c _ opcode _ _ = r
    cases r <;> rfl

/-- the address form `seg:[abs disp32]` (mod = 00, rm = 100, SIB = 25h): ANY segment override, ANY mask register, EVERY address representable
as a sign-extended 32-bit value -/
theorem addrForm_abs (c : Model.X86.Ctx) (ctx : Spec.X86.Ctx) (aaa : BitVec 32) (size : Nat) (d : BitVec 64) (seg : Nat) (aty : Nat) (hat1 : aty = 1 ∨ aty = 0)
    (hm : c.mode64 = true) (hpe : c.preferEvex = false) (hk : c.extraId = aaa) (ha : aaa < 8#32) (hvs : c.vsib = false) (hm64 : ctx.mode64 = true)
    (b : BitVec 64) (hbase : c.base = some b) (hint : isInt32of64 d = true) :
    AddrForm c ctx (memAbs size d seg aty) (memOpAbs size d seg aty) (segmentPrefix seg ++ aoBytes false) 0#32 aaa
      (fun o7 _ => absMb o7) (fun _ _ => some 0x25#8) (fun _ _ => le32 (d.truncate 32)) := by
  have hhi : (memAbs size d seg aty).offHi32 = (memAbs size d seg aty).offLo32.sshiftRight 31 := by
    simp only [memAbs, Mem.offHi32, Mem.offLo32, isInt32of64] at hint ⊢
    bv_decide
  obtain ⟨hpl, hpc, h67⟩ := segPfx_ok seg false (memOpAbs size d seg aty) rfl (by simp [wantedAddrSize, memOpAbs])
  refine ⟨by decide, ha, hpl, hpc, rfl, rfl, ?_, ?_, ?_⟩
  · intro o7 s ho
    obtain ⟨f1, f2, f3⟩ := absMb_factsBV o7 ho
    refine ⟨by rw [f1]; omega, by simp [f2], ?_, f3⟩
    simp [dispLen, f1, f2, le32, show bits (0x25#8) 0 3 = 5 from by decide]
  · intro rule p o7 s ho hs6 F hN
    obtain ⟨hpm, hps, hpd, hpv, hpp, hpa, hpB, hpX⟩ := F
    obtain ⟨f1, f2, f3⟩ := absMb_factsBV o7 ho
    refine checkMem_abs ctx rule p (memOpAbs size d seg aty) _ 0x25#8 false hm64 (by rw [hpp]; exact h67) hpa hpm f1 f2 rfl rfl (by rcases hat1 with h | h <;> simp [memOpAbs, h]) hps
      (by decide) (by decide) (by decide) (by rw [hpX]; rfl) (by rw [hpd]; rfl) ?_
    rw [hpv, leNat_le32]
    have := sext32_mod d hint
    rw [Nat.mod_eq_of_lt d.isLt] at this
    simpa [memOpAbs, BitVec.toNat_setWidth] using this
  · intro opcode reg vvvvv z imm n hr hv hxop
    have hoff : (memAbs size d seg aty).offLo32 = d.truncate 32 := rfl
    have hxe : xMbK opcode reg vvvvv 0#32 aaa z = xR opcode 0#32 reg vvvvv 0#32 aaa := by
      cases z <;> simp only [xMbK, xR, zOpt, oZMask, extractLLMMMMM, kLL_Mask, kMM_Mask, oEvex, Bool.false_eq_true, ↓reduceIte] <;> bv_decide
    rw [emitVexEvexM_abs_eq c opcode reg vvvvv aaa z size d imm n seg aty hat1 hm hpe hk hvs, hxe,
      vexEvexMPrefix_decided c opcode reg vvvvv 0#32 aaa z _ hr hv (by decide) ha hxop]
    simp only []
    split
    · rw [emitModSib_abs_parts c _ _ _ _ _ 0#32 0#32 _ imm n b hm hbase hat1 hhi, hoff]; simp
    · split
      · rw [emitModSib_abs_parts c _ _ _ _ _ 0#32 0#32 _ imm n b hm hbase hat1 hhi, hoff]; simp
      · rw [emitModSib_abs_parts c _ _ _ _ _ 0#32 0#32 _ imm n b hm hbase hat1 hhi, hoff]; simp

/-! ### the same form for the legacy emitter -/

theorem emitX86M_abs_bytes (c : Model.X86.Ctx) (opcode opReg : BitVec 32) (size : Nat) (d imm : BitVec 64) (n : Nat) (seg : Nat) (aty : Nat) (hat1 : aty = 1 ∨ aty = 0)
    (hm : c.mode64 = true) (ho : opReg < 16#32) (hopc : opcode &&& 0xF780FC00#32 = 0#32)
    (b : BitVec 64) (hbase : c.base = some b) (hint : isInt32of64 d = true) :
    emitX86M c opcode 0#32 opReg (memAbs size d seg aty) imm n =
      .ok ((segmentPrefix seg ++ aoBytes false) ++ ppBytes ((opcode >>> 21) &&& 3#32).toNat ++ ((rexOfM opcode opReg 0#32).toList ++
           (legacyEscape ((opcode >>> 8) &&& 3#32).toNat ++
            opcode.truncate 8 :: absMb (opReg &&& 7#32) :: ((some 0x25#8 : Option (BitVec 8)).toList ++ le32 (d.truncate 32) ++ emitImmediate imm n)))) := by
  have h1 : ¬ ((((0#32 >>> 3) &&& 1#32) ||| ((0#32 >>> 2) &&& 2#32) ||| ((opReg >>> 1) &&& 4#32)) &&& 0x0C#32 ||| extractRex opcode 0#32) > 0x80#32 := by
    simp only [extractRex]; bv_decide
  have h2 : ((((0#32 >>> 3) &&& 1#32) ||| ((0#32 >>> 2) &&& 2#32) ||| ((opReg >>> 1) &&& 4#32)) &&& 0x0C#32 ||| extractRex opcode 0#32) &&& 0x7F#32 =
      (((0#32 >>> 3) &&& 1#32) ||| ((0#32 >>> 3) &&& 2#32) ||| ((opReg >>> 1) &&& 4#32) ||| extractRex opcode 0#32) &&& 0x7F#32 := by
    simp only [extractRex]; bv_decide
  have hhi : (memAbs size d seg aty).offHi32 = (memAbs size d seg aty).offLo32.sshiftRight 31 := by
    simp only [memAbs, Mem.offHi32, Mem.offLo32, isInt32of64] at hint ⊢
    bv_decide
  have hmd : ∀ (pre : List (BitVec 8)) (ao : Nat) (o : BitVec 32), emitModSib c pre ao opcode 0#32 o 0#32 0#32 0x0C#32 (memAbs size d seg aty) imm n false =
      .ok (pre ++ (absMb o :: ([0x25#8] ++ le32 (memAbs size d seg aty).offLo32)) ++ emitImmediate imm n) :=
    fun pre ao o => emitModSib_abs_parts c pre ao opcode 0#32 o 0#32 0#32 _ imm n b hm hbase hat1 hhi
  unfold emitX86M
  simp only [memAbs, memInfo_abs, Model.X86.Ctx.aoMask, hm, ↓reduceIte, BitVec.ofNat_eq_ofNat,
    show (0x0C#32 &&& 0x80#32 != 0#32) = false from by decide, emitRex, h1, bind, Except.bind, pure, Except.pure, h2,
    emitPP_eq opcode (by bv_decide), emitMM_eq opcode (by bv_decide)]
  rw [show ({ size := size, baseType := 0, baseId := 0, indexType := 0, indexId := 0, shift := 0, offset := d, seg := seg, bcst := 0, addrType := aty } : Mem) = memAbs size d seg aty from rfl, hmd]
  simp only [aoBytes, rexOfM, Bool.false_eq_true, ↓reduceIte]
  split <;> simp [Mem.offLo32, memAbs]

theorem addrFormL_abs (c : Model.X86.Ctx) (ctx : Spec.X86.Ctx) (size : Nat) (d : BitVec 64) (seg : Nat) (aty : Nat) (hat1 : aty = 1 ∨ aty = 0)
    (hm : c.mode64 = true) (hm64 : ctx.mode64 = true) (b : BitVec 64) (hbase : c.base = some b) (hint : isInt32of64 d = true) :
    AddrFormL c ctx (memAbs size d seg aty) (memOpAbs size d seg aty) (segmentPrefix seg ++ aoBytes false) 0#32
      (fun o7 => absMb o7) (some 0x25#8) (le32 (d.truncate 32)) := by
  have hwa : wantedAddrSize true (memOpAbs size d seg aty) = (if false then 32 else 64) := by simp [wantedAddrSize, memOpAbs]
  have AFv := addrForm_abs (c := { c with preferEvex := false, extraId := 0#32, vsib := false }) ctx 0#32 size d seg aty hat1 hm rfl rfl (by decide) rfl hm64 b hbase hint
  refine ⟨by decide, ?_, ?_, rfl, rfl, ?_, ?_, ?_⟩
  · intro pp hpp
    exact (segPfxL_ok seg false pp _ hpp rfl hwa).1
  · intro pp hpp
    exact (segPfxL_ok seg false pp _ hpp rfl hwa).2.1
  · intro o7 ho
    exact AFv.shape o7 0#32 ho
  · intro rule p o7 pp ho hpp F hvk
    have h67 := (segPfxL_ok seg false pp _ hpp rfl hwa).2.2
    obtain ⟨hpm, hps, hpd, hpv, hpp', hpa, hpB, hpX⟩ := F
    obtain ⟨f1, f2, f3⟩ := absMb_factsBV o7 ho
    refine checkMem_abs ctx rule p (memOpAbs size d seg aty) _ 0x25#8 false hm64 (by rw [hpp']; exact h67) hpa hpm f1 f2 rfl rfl (by rcases hat1 with h | h <;> simp [memOpAbs, h]) hps
      (by decide) (by decide) (by decide) (by rw [hpX]; rfl) (by rw [hpd]; rfl) ?_
    rw [hpv, leNat_le32]
    have := sext32_mod d hint
    rw [Nat.mod_eq_of_lt d.isLt] at this
    simpa [memOpAbs, BitVec.toNat_setWidth] using this
  · intro opcode opReg imm n ho hopc
    exact emitX86M_abs_bytes c opcode opReg size d imm n seg aty hat1 hm ho hopc b hbase hint


/-! ### the class theorems at the absolute-address form (instances; every other `front_cls_correct_*_mem` theorem applies the same way) -/

/-- legacy `reg, [abs]` (ExtRm / X86Rm / ExtMov loads / `imul reg, mem` ...) -/
theorem front_cls_correct_lrm_mem_abs (e : Entry) (ch : List Entry) (hch : ch ∈ lrmChunks) (he : e ∈ ch)
    (c : Model.X86.Ctx) (ctx : Spec.X86.Ctx) (r0 : BitVec 32) (size : Nat) (d : BitVec 64) (seg aty : Nat) (hat1 : aty = 1 ∨ aty = 0)
    (hm : c.mode64 = true) (hm64 : ctx.mode64 = true) (b : BitVec 64) (hbase : c.base = some b) (hint : isInt32of64 d = true) (h0 : r0 < 16#32)
    (hsz : ∀ f1, e.rule.ops[1]? = some f1 → hasMemAlt f1 size = true) :
    ∃ bytes k0 k1, e.kinds = [k0, k1] ∧ emitX86M c (finalOpLegM e) 0#32 r0 (memAbs size d seg aty) 0 0 = .ok bytes ∧
      formOk ctx e.rule [.reg k0 r0.toNat, .mem (memOpAbs size d seg aty)] {} bytes = true :=
  front_cls_correct_lrm_mem e ch hch he c ctx r0 0#32 size _ _ _ _ _ _ (addrFormL_abs c ctx size d seg aty hat1 hm hm64 b hbase hint) rfl hm64 h0 hsz

/-- VEX / EVEX `reg, vvvv, [abs]` (VexRvm / VexRvm_Lx), with masking / zeroing decorations -/
theorem front_cls_correct_rvm_mem_abs (e : Entry) (ch : List Entry) (hch : ch ∈ rvmChunks) (he : e ∈ ch)
    (c : Model.X86.Ctx) (ctx : Spec.X86.Ctx) (reg vvvvv aaa : BitVec 32) (z : Bool) (size : Nat) (d : BitVec 64) (seg aty : Nat) (hat1 : aty = 1 ∨ aty = 0)
    (hm : c.mode64 = true) (hpe : c.preferEvex = false) (hk : c.extraId = aaa) (ha : aaa < 8#32) (hvs : c.vsib = false)
    (b : BitVec 64) (hbase : c.base = some b) (hint : isInt32of64 d = true)
    (D : DecorAllowed e.rule aaa.toNat z false false)
    (hvf : c.vexFlag = (e.iflags &&& 0x400000#32 != 0#32)) (hm64 : ctx.mode64 = true)
    (hsz : ∀ f2, e.rule.ops[2]? = some f2 → hasMemAlt f2 size = true)
    (hids : (e.rule.space = 2 ∧ reg < 32#32 ∧ vvvvv < 32#32 ∧
              (e.iflags &&& 0x400000#32 = 0#32 ∨ (xR (finalOp e 0x75) 0#32 reg vvvvv 0#32 aaa ||| zOpt z) &&& 0x00D78110#32 ≠ 0#32)) ∨
            (e.rule.space = 1 ∧ reg < 16#32 ∧ vvvvv < 16#32 ∧ aaa = 0#32 ∧ z = false)) :
    ∃ bytes k0 k1 k2, e.kinds = [k0, k1, k2] ∧
      emitVexEvexM c (finalOp e 0x75) (zOpt z) (packRegVvvvv reg.toNat vvvvv.toNat) (memAbs size d seg aty) 0 0 = .ok bytes ∧
      formOk ctx e.rule [.reg k0 reg.toNat, .reg k1 vvvvv.toNat, .mem (memOpAbs size d seg aty)] (decorOf aaa.toNat z false false 0) bytes = true :=
  front_cls_correct_rvm_mem e ch hch he c ctx reg vvvvv 0#32 aaa z size _ _ _ _ _ _
    (addrForm_abs c ctx aaa size d seg aty hat1 hm hpe hk ha hvs hm64 b hbase hint) rfl D hvf hm64 hsz hids

/-! ### moffs forms of `mov` / `movabs`: `EmitX86OpMovAbs` -/

/-- little-endian bytes decode to the value modulo 256^n -/
theorem leNat_leBytes (a n : Nat) : leNat (leBytes a n) = a % 256 ^ n := by
  induction n generalizing a with
  | zero => simp [leBytes, leNat, Nat.mod_one]
  | succ n ih =>
    simp only [leBytes, leNat, ih, BitVec.toNat_ofNat, Nat.pow_succ]
    have h1 : a % (256 ^ n * 256) = a % 256 + 256 * (a / 256 % 256 ^ n) := by
      rw [Nat.mul_comm, Nat.mod_mul]
    rw [h1]

/-- `EmitX86OpMovAbs` (no segment override, 64-bit mode): `mov acc, [moffs64]` -/
theorem movAbs_load_formOk (c : Model.X86.Ctx) (ctx : Spec.X86.Ctx) (rule : Rule) (opcode : BitVec 32) (k : RegKind) (f0 f3 : FormOp) (id : Nat) (m : Mem) (mo : MemOp)
    (hcm : c.mode64 = true) (hseg : m.seg = 0)
    (hm64 : ctx.mode64 = true) (hmode : (rule.modes &&& 2 != 0) = true) (hopc : opcode &&& 0xF7801C00#32 = 0#32)
    (hs : rule.space = 0) (hpp8 : rule.pp &&& 8 = 0)
    (h66 : (rule.pp &&& 1 != 0 || rule.osz == 16) = (((opcode >>> 21) &&& 3#32).toNat == 1))
    (hF3 : (rule.pp &&& 2 != 0) = (((opcode >>> 21) &&& 3#32).toNat == 2)) (hF2 : (rule.pp &&& 4 != 0) = (((opcode >>> 21) &&& 3#32).toNat == 3))
    (hri : rule.ri = false) (ha67 : rule.a67 = false) (hmk : rule.modKind = 0)
    (himm : rule.immBytes = 0) (hrel : rule.relBytes = 0) 
    (hmoff1 : rule.moff = true) (A : LegAgree rule opcode)
    (hf0 : f0.role = .none) (hf3 : f3.role = .moff)
    (hbk : mo.baseKind = .none) (hik : mo.indexKind = .none) (hmseg : mo.seg = 0) (hbc : mo.bcst = 0) (hdisp : mo.disp = m.offset)
    (hal : alignOps rule.oszEff rule.ops [.reg k id, .mem mo] = some [(f0, some (.reg k id)), (f3, some (.mem mo))]) :
    ∃ bytes, emitMovAbs c opcode 0#32 m = .ok bytes ∧ formOk ctx rule [.reg k id, .mem mo] {} bytes = true := by
  obtain ⟨hop, hmap, hw, hsafe⟩ := A
  have hemit : emitMovAbs c opcode 0#32 m = .ok (ppBytes ((opcode >>> 21) &&& 3#32).toNat ++ (rexOf opcode 0#32 0#32).toList ++
      legacyEscape ((opcode >>> 8) &&& 3#32).toNat ++ opcode.truncate 8 :: emitImmediate m.offset 8) := by
    simp [emitMovAbs, emitX86Op_bytesI opcode m.offset 8 hopc, hcm, hseg, segmentPrefix, bind, Except.bind, pure, Except.pure]
  refine ⟨_, hemit, ?_⟩
  have hpplt : ((opcode >>> 21) &&& 3#32).toNat < 4 := by
    have : (opcode >>> 21) &&& 3#32 < 4#32 := by bv_decide
    simpa [BitVec.lt_def] using this
  have hmaplt : rule.map < 4 := by
    rw [hmap]
    have : (opcode >>> 8) &&& 3#32 < 4#32 := by bv_decide
    simpa [BitVec.lt_def] using this
  have hrexv : ∀ b, rexOf opcode 0#32 0#32 = some b → b >>> 4 = 4#8 ∧ (b.getLsbD 3 = opcode.getLsbD 27) := by
    intro b hb'
    unfold rexOf at hb'
    dsimp only at hb'
    split at hb'
    · injection hb' with hb'; subst hb'; simp only [extractRex] at *; refine ⟨?_, ?_⟩ <;> bv_decide
    · contradiction
  have hnone : rexOf opcode 0#32 0#32 = none → opcode.getLsbD 27 = false := by
    intro hn
    unfold rexOf at hn
    dsimp only at hn
    split at hn
    · contradiction
    · rename_i hz; simp only [extractRex] at hz; bv_decide
  have hrexH : ∀ b, rexOf opcode 0#32 0#32 = some b → b.toNat / 16 = 4 ∧ isLegacyPrefix b false = false := by
    intro b hb'
    obtain ⟨h4, -⟩ := hrexv b hb'
    refine ⟨toNat_div16_eq4 b h4, ?_⟩
    rw [Bool.eq_false_iff]
    intro hh
    simp only [isLegacyPrefix, Bool.or_eq_true, beq_iff_eq, Bool.false_and, Bool.or_false] at hh
    bv_decide
  have hoH : rule.map = 0 → isLegacyPrefix (opcode.truncate 8) false = false ∧
      (rexOf opcode 0#32 0#32 = none → (opcode.truncate 8 : BitVec 8).toNat / 16 ≠ 4) := by
    intro hm0
    have hm0' : (opcode >>> 8) &&& 3#32 = 0#32 := by
      apply BitVec.eq_of_toNat_eq; rw [← hmap, hm0]; rfl
    obtain ⟨s1, s2⟩ := hsafe hm0'
    refine ⟨s1, fun _ h => s2 ?_⟩
    apply BitVec.eq_of_toNat_eq
    simpa [BitVec.toNat_ushiftRight, Nat.shiftRight_eq_div_pow] using h
  have hparse := parse_legacy_op_moff rule _ (rexOf opcode 0#32 0#32) (opcode.truncate 8) (emitImmediate m.offset 8) hpplt hs hpp8 hmaplt hmk hrexH hoH
    (imm_le_exact m.offset 8).1 himm hrel hmoff1
  rw [hmap] at hparse
  have hpk : ∃ p : Parsed, parse true rule (ppBytes ((opcode >>> 21) &&& 3#32).toNat ++ (rexOf opcode 0#32 0#32).toList ++
        legacyEscape ((opcode >>> 8) &&& 3#32).toNat ++ opcode.truncate 8 :: emitImmediate m.offset 8) = .ok p ∧ p.vexKind = 0 ∧
        p.prefixes = ppBytes ((opcode >>> 21) &&& 3#32).toNat ∧ p.modrm = Option.none ∧ p.opcode = opcode.truncate 8 ∧
        p.W = rexBit (rexOf opcode 0#32 0#32) 3 ∧ p.imm = emitImmediate m.offset 8 := ⟨_, hparse, rfl, rfl, rfl, rfl, rfl, rfl⟩
  obtain ⟨p, hp, e1, e2, e3, e4, e5, e6⟩ := hpk
  refine leg_acc_moff_formOk ctx rule p _ _ k f0 f3 id mo (by simpa [hm64] using hmode) hs hpp8 h66 hF3 hF2 hpplt hri ha67 hf0 hf3 hbk hik hmseg hbc himm
    ?_ hal (by rw [hm64]; exact hp) e1 e2 e3 ?_ ?_
  · rw [List.take_length, e6, emitImmediate_leBytes, hdisp, leNat_leBytes]
    exact Nat.mod_eq_of_lt (by have := m.offset.isLt; simpa using this)
  · rw [e4]
    show (opcode.truncate 8 : BitVec 8).toNat = rule.opcode
    rw [hop]; exact toNat_eq_of_zext _ _ (by omega) (by bv_decide)
  · rw [e5]
    rcases hw with h | h
    · exact Or.inl h
    · right
      have hc : (opcode >>> 27) &&& 1#32 = 0#32 ∨ (opcode >>> 27) &&& 1#32 = 1#32 := by bv_decide
      simp only [rexBit]
      cases hr : rexOf opcode 0#32 0#32 with
      | none =>
        have w0 := hnone hr
        rcases hc with hc | hc
        · rw [h, hc]; simp
        · exfalso; bv_decide
      | some b =>
        obtain ⟨-, wb⟩ := hrexv b hr
        simp only [bit]
        rcases hc with hc | hc
        · rw [h, hc, wb]; simp; bv_decide
        · rw [h, hc, wb]; simp; bv_decide

/-- `EmitX86OpMovAbs` (no segment override, 64-bit mode): `mov [moffs64], acc` -/
theorem movAbs_store_formOk (c : Model.X86.Ctx) (ctx : Spec.X86.Ctx) (rule : Rule) (opcode : BitVec 32) (k : RegKind) (f0 f3 : FormOp) (id : Nat) (m : Mem) (mo : MemOp)
    (hcm : c.mode64 = true) (hseg : m.seg = 0)
    (hm64 : ctx.mode64 = true) (hmode : (rule.modes &&& 2 != 0) = true) (hopc : opcode &&& 0xF7801C00#32 = 0#32)
    (hs : rule.space = 0) (hpp8 : rule.pp &&& 8 = 0)
    (h66 : (rule.pp &&& 1 != 0 || rule.osz == 16) = (((opcode >>> 21) &&& 3#32).toNat == 1))
    (hF3 : (rule.pp &&& 2 != 0) = (((opcode >>> 21) &&& 3#32).toNat == 2)) (hF2 : (rule.pp &&& 4 != 0) = (((opcode >>> 21) &&& 3#32).toNat == 3))
    (hri : rule.ri = false) (ha67 : rule.a67 = false) (hmk : rule.modKind = 0)
    (himm : rule.immBytes = 0) (hrel : rule.relBytes = 0) 
    (hmoff1 : rule.moff = true) (A : LegAgree rule opcode)
    (hf0 : f0.role = .none) (hf3 : f3.role = .moff)
    (hbk : mo.baseKind = .none) (hik : mo.indexKind = .none) (hmseg : mo.seg = 0) (hbc : mo.bcst = 0) (hdisp : mo.disp = m.offset)
    (hal : alignOps rule.oszEff rule.ops [.mem mo, .reg k id] = some [(f3, some (.mem mo)), (f0, some (.reg k id))]) :
    ∃ bytes, emitMovAbs c opcode 0#32 m = .ok bytes ∧ formOk ctx rule [.mem mo, .reg k id] {} bytes = true := by
  obtain ⟨hop, hmap, hw, hsafe⟩ := A
  have hemit : emitMovAbs c opcode 0#32 m = .ok (ppBytes ((opcode >>> 21) &&& 3#32).toNat ++ (rexOf opcode 0#32 0#32).toList ++
      legacyEscape ((opcode >>> 8) &&& 3#32).toNat ++ opcode.truncate 8 :: emitImmediate m.offset 8) := by
    simp [emitMovAbs, emitX86Op_bytesI opcode m.offset 8 hopc, hcm, hseg, segmentPrefix, bind, Except.bind, pure, Except.pure]
  refine ⟨_, hemit, ?_⟩
  have hpplt : ((opcode >>> 21) &&& 3#32).toNat < 4 := by
    have : (opcode >>> 21) &&& 3#32 < 4#32 := by bv_decide
    simpa [BitVec.lt_def] using this
  have hmaplt : rule.map < 4 := by
    rw [hmap]
    have : (opcode >>> 8) &&& 3#32 < 4#32 := by bv_decide
    simpa [BitVec.lt_def] using this
  have hrexv : ∀ b, rexOf opcode 0#32 0#32 = some b → b >>> 4 = 4#8 ∧ (b.getLsbD 3 = opcode.getLsbD 27) := by
    intro b hb'
    unfold rexOf at hb'
    dsimp only at hb'
    split at hb'
    · injection hb' with hb'; subst hb'; simp only [extractRex] at *; refine ⟨?_, ?_⟩ <;> bv_decide
    · contradiction
  have hnone : rexOf opcode 0#32 0#32 = none → opcode.getLsbD 27 = false := by
    intro hn
    unfold rexOf at hn
    dsimp only at hn
    split at hn
    · contradiction
    · rename_i hz; simp only [extractRex] at hz; bv_decide
  have hrexH : ∀ b, rexOf opcode 0#32 0#32 = some b → b.toNat / 16 = 4 ∧ isLegacyPrefix b false = false := by
    intro b hb'
    obtain ⟨h4, -⟩ := hrexv b hb'
    refine ⟨toNat_div16_eq4 b h4, ?_⟩
    rw [Bool.eq_false_iff]
    intro hh
    simp only [isLegacyPrefix, Bool.or_eq_true, beq_iff_eq, Bool.false_and, Bool.or_false] at hh
    bv_decide
  have hoH : rule.map = 0 → isLegacyPrefix (opcode.truncate 8) false = false ∧
      (rexOf opcode 0#32 0#32 = none → (opcode.truncate 8 : BitVec 8).toNat / 16 ≠ 4) := by
    intro hm0
    have hm0' : (opcode >>> 8) &&& 3#32 = 0#32 := by
      apply BitVec.eq_of_toNat_eq; rw [← hmap, hm0]; rfl
    obtain ⟨s1, s2⟩ := hsafe hm0'
    refine ⟨s1, fun _ h => s2 ?_⟩
    apply BitVec.eq_of_toNat_eq
    simpa [BitVec.toNat_ushiftRight, Nat.shiftRight_eq_div_pow] using h
  have hparse := parse_legacy_op_moff rule _ (rexOf opcode 0#32 0#32) (opcode.truncate 8) (emitImmediate m.offset 8) hpplt hs hpp8 hmaplt hmk hrexH hoH
    (imm_le_exact m.offset 8).1 himm hrel hmoff1
  rw [hmap] at hparse
  have hpk : ∃ p : Parsed, parse true rule (ppBytes ((opcode >>> 21) &&& 3#32).toNat ++ (rexOf opcode 0#32 0#32).toList ++
        legacyEscape ((opcode >>> 8) &&& 3#32).toNat ++ opcode.truncate 8 :: emitImmediate m.offset 8) = .ok p ∧ p.vexKind = 0 ∧
        p.prefixes = ppBytes ((opcode >>> 21) &&& 3#32).toNat ∧ p.modrm = Option.none ∧ p.opcode = opcode.truncate 8 ∧
        p.W = rexBit (rexOf opcode 0#32 0#32) 3 ∧ p.imm = emitImmediate m.offset 8 := ⟨_, hparse, rfl, rfl, rfl, rfl, rfl, rfl⟩
  obtain ⟨p, hp, e1, e2, e3, e4, e5, e6⟩ := hpk
  refine leg_moff_acc_formOk ctx rule p _ _ k f0 f3 id mo (by simpa [hm64] using hmode) hs hpp8 h66 hF3 hF2 hpplt hri ha67 hf0 hf3 hbk hik hmseg hbc himm
    ?_ hal (by rw [hm64]; exact hp) e1 e2 e3 ?_ ?_
  · rw [List.take_length, e6, emitImmediate_leBytes, hdisp, leNat_leBytes]
    exact Nat.mod_eq_of_lt (by have := m.offset.isLt; simpa using this)
  · rw [e4]
    show (opcode.truncate 8 : BitVec 8).toNat = rule.opcode
    rw [hop]; exact toNat_eq_of_zext _ _ (by omega) (by bv_decide)
  · rw [e5]
    rcases hw with h | h
    · exact Or.inl h
    · right
      have hc : (opcode >>> 27) &&& 1#32 = 0#32 ∨ (opcode >>> 27) &&& 1#32 = 1#32 := by bv_decide
      simp only [rexBit]
      cases hr : rexOf opcode 0#32 0#32 with
      | none =>
        have w0 := hnone hr
        rcases hc with hc | hc
        · rw [h, hc]; simp
        · exfalso; bv_decide
      | some b =>
        obtain ⟨-, wb⟩ := hrexv b hr
        simp only [bit]
        rcases hc with hc | hc
        · rw [h, hc, wb]; simp; bv_decide
        · rw [h, hc, wb]; simp; bv_decide


/-! ### table layer of the moffs forms -/

/-- opcode word of the moffs forms: A0|A1 (load), A2|A3 (store) with the operand-size prefix / REX.W of the accumulator size -/
def movAbsOpc (base : BitVec 32) (s : Nat) : BitVec 32 := addArithBySize base s

def entryOkMoff (st : Bool) (e : Entry) : Bool :=
  let r := e.rule
  match (if st then e.rule.ops.reverse else e.rule.ops), e.kinds with
  | [f0, f3], [k0] =>
    let s := kindSize k0
    let op := movAbsOpc (if st then 0xA2#32 else 0xA0#32) s
    let pp := ((op >>> 21) &&& 3#32).toNat
    (e.enc == 0x2c || e.enc == 0x2d) && ((s == 1 || s == 2 || s == 4 || s == 8) && (r.modes &&& 2 != 0 && (r.space == 0 && (r.pp &&& 8 == 0 &&
    (((r.pp &&& 1 != 0 || r.osz == 16) == (pp == 1)) && (((r.pp &&& 2 != 0) == (pp == 2)) && (((r.pp &&& 4 != 0) == (pp == 3)) && (!r.ri && (!r.a67 &&
    (r.modKind == 0 && (r.immBytes == 0 && (r.relBytes == 0 && (r.moff && (legAgreeOk r op && (f0.role == .none && (f3.role == .moff &&
    (formOpMatches r.oszEff f0 (.reg k0 0) && hasMemAlt f3 s)))))))))))))))))
  | _, _ => false

theorem moff_load_entries_ok : lmoffChunks.all (fun c => c.all (entryOkMoff false)) = true := by decide +kernel
theorem moff_store_entries_ok : lmoffstChunks.all (fun c => c.all (entryOkMoff true)) = true := by decide +kernel

/-- **front_cls_correct, moffs loads `mov|movabs al|ax|eax|rax, [moffs64]`** (A0 / A1 with 66 / REX.W): EVERY 64-bit address, no segment override -/
theorem front_cls_correct_moff_load (e : Entry) (ch : List Entry) (hch : ch ∈ lmoffChunks) (he : e ∈ ch)
    (c : Model.X86.Ctx) (ctx : Spec.X86.Ctx) (m : Mem) (mo : MemOp) (hcm : c.mode64 = true) (hm64 : ctx.mode64 = true) (hseg : m.seg = 0)
    (hbk : mo.baseKind = .none) (hik : mo.indexKind = .none) (hmseg : mo.seg = 0) (hbc : mo.bcst = 0) (hdisp : mo.disp = m.offset)
    (hsize : mo.size = kindSize (e.kinds.getD 0 .none)) :
    ∃ bytes k0, e.kinds = [k0] ∧ emitMovAbs c (movAbsOpc 0xA0#32 (kindSize k0)) 0#32 m = .ok bytes ∧
      formOk ctx e.rule [.reg k0 0, .mem mo] {} bytes = true := by
  have hok := mem_chunks_ok moff_load_entries_ok e ch hch he
  unfold entryOkMoff at hok
  simp only [Bool.false_eq_true, ↓reduceIte] at hok
  split at hok
  · rename_i f0 f3 k0 hops hkinds
    simp only [hkinds, List.getD_cons_zero] at hsize
    simp only [Bool.and_eq_true, Bool.or_eq_true, beq_iff_eq, bne_iff_ne, ne_eq, Bool.not_eq_true', decide_eq_true_eq] at hok
    obtain ⟨-, -, hmodes, hs, hpp8, h66, hF3, hF2, hri, ha67, hmk, himm, hrel, hmoff, hA, r0, r3, m0, hma⟩ := hok
    obtain ⟨A, hmask⟩ := legAgreeOk_spec _ _ hA
    have hvs : vsibOf mo = .none := by simp [vsibOf, hik]
    have hal : alignOps e.rule.oszEff e.rule.ops [.reg k0 0, .mem mo] = some [(f0, some (.reg k0 0)), (f3, some (.mem mo))] := by
      rw [hops]
      exact alignOps2 _ _ _ _ _ m0 (hasMemAlt_matches _ _ _ _ hma hsize hvs)
    obtain ⟨bytes, hb, hf⟩ := movAbs_load_formOk c ctx e.rule (movAbsOpc 0xA0#32 (kindSize k0)) k0 f0 f3 0 m mo hcm hseg hm64 (by simpa using hmodes) hmask hs hpp8
      (by simpa using h66) (by simpa using hF3) (by simpa using hF2) hri ha67 hmk himm hrel hmoff A r0 r3 hbk hik hmseg hbc hdisp hal
    exact ⟨bytes, k0, hkinds, hb, hf⟩
  · simp at hok

/-- **front_cls_correct, moffs stores `mov|movabs [moffs64], al|ax|eax|rax`** (A2 / A3) -/
theorem front_cls_correct_moff_store (e : Entry) (ch : List Entry) (hch : ch ∈ lmoffstChunks) (he : e ∈ ch)
    (c : Model.X86.Ctx) (ctx : Spec.X86.Ctx) (m : Mem) (mo : MemOp) (hcm : c.mode64 = true) (hm64 : ctx.mode64 = true) (hseg : m.seg = 0)
    (hbk : mo.baseKind = .none) (hik : mo.indexKind = .none) (hmseg : mo.seg = 0) (hbc : mo.bcst = 0) (hdisp : mo.disp = m.offset)
    (hsize : mo.size = kindSize (e.kinds.getD 0 .none)) :
    ∃ bytes k0, e.kinds = [k0] ∧ emitMovAbs c (movAbsOpc 0xA2#32 (kindSize k0)) 0#32 m = .ok bytes ∧
      formOk ctx e.rule [.mem mo, .reg k0 0] {} bytes = true := by
  have hok := mem_chunks_ok moff_store_entries_ok e ch hch he
  unfold entryOkMoff at hok
  simp only [↓reduceIte] at hok
  split at hok
  · rename_i f0 f3 k0 hops hkinds
    have hops' : e.rule.ops = [f3, f0] := by
      have := congrArg List.reverse hops
      simpa using this
    simp only [hkinds, List.getD_cons_zero] at hsize
    simp only [Bool.and_eq_true, Bool.or_eq_true, beq_iff_eq, bne_iff_ne, ne_eq, Bool.not_eq_true', decide_eq_true_eq] at hok
    obtain ⟨-, -, hmodes, hs, hpp8, h66, hF3, hF2, hri, ha67, hmk, himm, hrel, hmoff, hA, r0, r3, m0, hma⟩ := hok
    obtain ⟨A, hmask⟩ := legAgreeOk_spec _ _ hA
    have hvs : vsibOf mo = .none := by simp [vsibOf, hik]
    have hal : alignOps e.rule.oszEff e.rule.ops [.mem mo, .reg k0 0] = some [(f3, some (.mem mo)), (f0, some (.reg k0 0))] := by
      rw [hops']
      exact alignOps2 _ _ _ _ _ (hasMemAlt_matches _ _ _ _ hma hsize hvs) m0
    obtain ⟨bytes, hb, hf⟩ := movAbs_store_formOk c ctx e.rule (movAbsOpc 0xA2#32 (kindSize k0)) k0 f0 f3 0 m mo hcm hseg hm64 (by simpa using hmodes) hmask hs hpp8
      (by simpa using h66) (by simpa using hF3) (by simpa using hF2) hri ha67 hmk himm hrel hmoff A r0 r3 hbk hik hmseg hbc hdisp hal
    exact ⟨bytes, k0, hkinds, hb, hf⟩
  · simp at hok

/-- the class switches: explicit `movabs` (X86Movabs) always, `mov` (X86Mov) when `x86_should_use_movabs` decides for the moffs form -/
theorem dispatch_movabs (c : Model.X86.Ctx) (row : Row) (k : RegKind) (m : Mem) (henc : row.encoding = 0x2d)
    (hk : k = .gpb ∨ k = .gpw ∨ k = .gpd ∨ k = .gpq) (hb : m.baseType = 0) (hi : m.indexType = 0) :
    (m.addrType ≠ 2 → dispatch c row 0#32 (.reg (rtypeOf k) 0) (.mem m) .none .none = emitMovAbs c (movAbsOpc 0xA0#32 (kindSize k)) 0#32 m) ∧
    dispatch c row 0#32 (.mem m) (.reg (rtypeOf k) 0) .none .none = emitMovAbs c (movAbsOpc 0xA2#32 (kindSize k)) 0#32 m := by
  refine ⟨fun hat => ?_, ?_⟩
  · have hat' : (m.addrType == 2) = false := by simpa using hat
    rcases hk with h | h | h | h <;> subst h <;>
      simp [dispatch, henc, sig3, Op.kind, Op.id, Op.rmSize, Op.isGp, Op.isGp8Hi, rtypeOf, kindSize, hb, hi, hat', movAbsOpc]
  · rcases hk with h | h | h | h <;> subst h <;>
      simp [dispatch, henc, sig3, Op.kind, Op.id, Op.rmSize, Op.isGp, Op.isGp8Hi, rtypeOf, kindSize, hb, hi, movAbsOpc]

theorem dispatch_mov_moffs (c : Model.X86.Ctx) (row : Row) (k : RegKind) (m : Mem) (henc : row.encoding = 0x2c)
    (hk : k = .gpb ∨ k = .gpw ∨ k = .gpd ∨ k = .gpq) (hb : m.baseType = 0) (hi : m.indexType = 0)
    (huse : shouldUseMovabs c (kindSize k) 0#32 m = true) :
    dispatch c row 0#32 (.reg (rtypeOf k) 0) (.mem m) .none .none = emitMovAbs c (movAbsOpc 0xA0#32 (kindSize k)) 0#32 m ∧
    dispatch c row 0#32 (.mem m) (.reg (rtypeOf k) 0) .none .none = emitMovAbs c (movAbsOpc 0xA2#32 (kindSize k)) 0#32 m := by
  rcases hk with h | h | h | h <;> subst h <;> constructor <;>
    (simp [kindSize, Op.rmSize, rtypeOf] at huse
     simp [dispatch, henc, sig3, Op.kind, Op.id, Op.rmSize, Op.isGp, Op.isGp8Hi, rtypeOf, kindSize, hb, hi, huse, movAbsOpc, addArithBySize, kPP_66, kW])

/-! ### class VexRvm_Wx (andn, vcvtsi2sd / vcvtsi2ss / vcvtusi2sd ... with a general-purpose operand): its entries are part of the `rvm` chunk
(`finalOp` adds W for a 64-bit destination or an 8-byte r/m operand), so every `front_cls_correct_rvm*` theorem covers them; the class switch: -/

theorem dispatch_rvm_wx (c : Model.X86.Ctx) (row : Row) (options : BitVec 32) (t0 t1 t2 i0 i1 i2 : Nat) (m : Mem) (henc : row.encoding = 0x73) :
    dispatch c row options (.reg t0 i0) (.reg t1 i1) (.reg t2 i2) .none =
      emitVexEvexR c (row.mainOp ||| (if (Op.reg t0 i0).rmSize == 8 && (Op.reg t0 i0).isGp || (Op.reg t2 i2).rmSize == 8 then kW else 0#32))
        options (packRegVvvvv i0 i1) (r32 i2) 0 0 ∧
    dispatch c row options (.reg t0 i0) (.reg t1 i1) (.mem m) .none =
      emitVexEvexM c (row.mainOp ||| (if (Op.reg t0 i0).rmSize == 8 && (Op.reg t0 i0).isGp || m.size == 8 then kW else 0#32))
        options (packRegVvvvv i0 i1) m 0 0 := by
  constructor <;> simp [dispatch, henc, sig3, Op.kind, Op.id, Op.rmSize]

/-! ### classes VexRvm_Lx_KEvex, VexRvmi_KEvex, VexRvmi_Lx_KEvex (vpcmp*, vcmp*, ... whose EVEX form writes a mask register): their entries are
part of the `rvm` / `rvmi` chunks (`finalOp` sets the force-EVEX bit for a mask destination); the class switches: -/

theorem dispatch_kevex (c : Model.X86.Ctx) (row : Row) (options : BitVec 32) (t0 t1 t2 i0 i1 i2 : Nat) (m : Mem) (imm : BitVec 64) :
    (row.encoding = 0x76 → dispatch c row options (.reg t0 i0) (.reg t1 i1) (.reg t2 i2) .none =
        emitVexEvexR c ((row.mainOp ||| (b2w (Op.reg t0 i0).isMask <<< 12)) ||| opcodeLBySize ((Op.reg t0 i0).rmSize ||| (Op.reg t1 i1).rmSize))
          options (packRegVvvvv i0 i1) (r32 i2) 0 0) ∧
    (row.encoding = 0x76 → dispatch c row options (.reg t0 i0) (.reg t1 i1) (.mem m) .none =
        emitVexEvexM c ((row.mainOp ||| (b2w (Op.reg t0 i0).isMask <<< 12)) ||| opcodeLBySize ((Op.reg t0 i0).rmSize ||| (Op.reg t1 i1).rmSize))
          options (packRegVvvvv i0 i1) m 0 0) ∧
    (row.encoding = 0x7b → dispatch c row options (.reg t0 i0) (.reg t1 i1) (.reg t2 i2) (.imm imm) =
        emitVexEvexR c (row.mainOp ||| (b2w (Op.reg t0 i0).isMask <<< 12)) options (packRegVvvvv i0 i1) (r32 i2) imm 1) ∧
    (row.encoding = 0x7b → dispatch c row options (.reg t0 i0) (.reg t1 i1) (.mem m) (.imm imm) =
        emitVexEvexM c (row.mainOp ||| (b2w (Op.reg t0 i0).isMask <<< 12)) options (packRegVvvvv i0 i1) m imm 1) ∧
    (row.encoding = 0x7d → dispatch c row options (.reg t0 i0) (.reg t1 i1) (.reg t2 i2) (.imm imm) =
        emitVexEvexR c ((row.mainOp ||| (b2w (Op.reg t0 i0).isMask <<< 12)) ||| opcodeLBySize ((Op.reg t0 i0).rmSize ||| (Op.reg t1 i1).rmSize))
          options (packRegVvvvv i0 i1) (r32 i2) imm 1) ∧
    (row.encoding = 0x7d → dispatch c row options (.reg t0 i0) (.reg t1 i1) (.mem m) (.imm imm) =
        emitVexEvexM c ((row.mainOp ||| (b2w (Op.reg t0 i0).isMask <<< 12)) ||| opcodeLBySize ((Op.reg t0 i0).rmSize ||| (Op.reg t1 i1).rmSize))
          options (packRegVvvvv i0 i1) m imm 1) := by
  refine ⟨?_, ?_, ?_, ?_, ?_, ?_⟩ <;> intro h <;> simp [dispatch, h, sig3, sig4, Op.kind, Op.id, Op.rmSize, Op.immVal]

/-! ### classes VexRmMr / VexRmMr_Lx (vmovaps, vmovups, vmovapd, vmovdqa*, vmovdqu* ...): loads are entries of the `rm` chunk (main opcode),
stores are entries of the `mr` chunk (alternative opcode, LL kept: `finalOp` / `finalOpM` / `finalOpMrM`); the class switch: -/

theorem dispatch_rmmr (c : Model.X86.Ctx) (row : Row) (options : BitVec 32) (t0 t1 i0 i1 : Nat) (m : Mem)
    (henc : row.encoding = 0x83 ∨ row.encoding = 0x84) :
    dispatch c row options (.reg t0 i0) (.reg t1 i1) .none .none =
      emitVexEvexR c (if row.encoding = 0x84 then row.mainOp ||| opcodeLBySize ((Op.reg t0 i0).rmSize ||| (Op.reg t1 i1).rmSize) else row.mainOp)
        options (r32 i0) (r32 i1) 0 0 ∧
    dispatch c row options (.reg t0 i0) (.mem m) .none .none =
      emitVexEvexM c (if row.encoding = 0x84 then row.mainOp ||| opcodeLBySize ((Op.reg t0 i0).rmSize ||| m.size) else row.mainOp)
        options (r32 i0) m 0 0 ∧
    dispatch c row options (.mem m) (.reg t1 i1) .none .none =
      emitVexEvexM c (((if row.encoding = 0x84 then row.mainOp ||| opcodeLBySize (m.size ||| (Op.reg t1 i1).rmSize) else row.mainOp) &&& kLL_Mask) ||| row.altOp)
        options (r32 i1) m 0 0 := by
  rcases henc with h | h <;> refine ⟨?_, ?_, ?_⟩ <;> simp [dispatch, h, sig3, Op.kind, Op.id, Op.rmSize]

/-! ### class X86Mov: segment-register moves `mov r16|r32|r64, sreg` (8C /r) and `mov sreg, r16|r32|r64` (8E /r) -/

theorem regOkB_sreg (s : BitVec 32) (p : Parsed) (n : Nat) (h1 : 1#32 ≤ s) (hn : n = (s - 1#32).toNat) : regOkB .sreg s.toNat n p = true := by
  subst hn
  have h1' : 1 ≤ s.toNat := by simpa [BitVec.le_def] using h1
  have e : (s - 1#32).toNat + 1 = s.toNat := by
    have hlt := s.isLt
    simp only [BitVec.toNat_sub, BitVec.toNat_ofNat]
    omega
  simp only [regOkB, regConds, allOk, List.all_cons, List.all_nil, Bool.and_true, beq_iff_eq]
  exact e

/-- `mov gp, sreg`: [rm = gp, reg = sreg]; ModRM.reg = segment register number - 1 -/
theorem movFromSreg_formOk (ctx : Spec.X86.Ctx) (rule : Rule) (opcode sid rb : BitVec 32) (kg : RegKind) (fa fb : FormOp)
    (hm64 : ctx.mode64 = true) (hmode : (rule.modes &&& 2 != 0) = true) (hopc : opcode &&& 0xF7801C00#32 = 0#32)
    (hkg : PlainKind kg) (hs1 : 1#32 ≤ sid) (hs6 : sid ≤ 6#32) (hb : rb < 16#32)
    (R : LegRule rule 0 ((opcode >>> 21) &&& 3#32).toNat) (A : LegAgree rule opcode)
    (hra : fa.role = .rm) (hrb : fb.role = .reg)
    (hal : alignOps rule.oszEff rule.ops [.reg kg rb.toNat, .reg .sreg sid.toNat] = some [(fa, some (.reg kg rb.toNat)), (fb, some (.reg .sreg sid.toNat))]) :
    ∃ bytes, emitX86R opcode 0#32 (sid - 1#32) rb 0 0 = .ok bytes ∧ formOk ctx rule [.reg kg rb.toNat, .reg .sreg sid.toNat] {} bytes = true := by
  have hok : ¬ (extractRex opcode 0#32 ||| (((sid - 1#32) &&& 8#32) >>> 1) ||| ((rb &&& 8#32) >>> 3)) > 0x80#32 := by
    simp only [extractRex]; bv_decide
  obtain ⟨bytes, p, hb', hp, P, hR, hB, hi, hrex, hvk⟩ := x86R_parsedO rule opcode 0#32 (sid - 1#32) rb 0 0 hopc (by decide) (by bv_decide) hb hok 8 R A
  refine ⟨bytes, hb', ?_⟩
  refine leg_2reg_formOkG ctx rule p _ _ _ kg .sreg fa fb _ _ (by simpa [hm64] using hmode) R (Or.inr ⟨hra, hrb, ?_, ?_⟩) hal (by rw [hm64]; exact hp) P
  · rw [hB]; exact regOkB_plain kg _ _ p hkg rfl
  · rw [hR]; exact regOkB_sreg sid p _ hs1 rfl

/-- `mov sreg, gp`: [reg = sreg, rm = gp] -/
theorem movToSreg_formOk (ctx : Spec.X86.Ctx) (rule : Rule) (opcode sid rb : BitVec 32) (kg : RegKind) (fa fb : FormOp)
    (hm64 : ctx.mode64 = true) (hmode : (rule.modes &&& 2 != 0) = true) (hopc : opcode &&& 0xF7801C00#32 = 0#32)
    (hkg : PlainKind kg) (hs1 : 1#32 ≤ sid) (hs6 : sid ≤ 6#32) (hb : rb < 16#32)
    (R : LegRule rule 0 ((opcode >>> 21) &&& 3#32).toNat) (A : LegAgree rule opcode)
    (hra : fa.role = .reg) (hrb : fb.role = .rm)
    (hal : alignOps rule.oszEff rule.ops [.reg .sreg sid.toNat, .reg kg rb.toNat] = some [(fa, some (.reg .sreg sid.toNat)), (fb, some (.reg kg rb.toNat))]) :
    ∃ bytes, emitX86R opcode 0#32 (sid - 1#32) rb 0 0 = .ok bytes ∧ formOk ctx rule [.reg .sreg sid.toNat, .reg kg rb.toNat] {} bytes = true := by
  have hok : ¬ (extractRex opcode 0#32 ||| (((sid - 1#32) &&& 8#32) >>> 1) ||| ((rb &&& 8#32) >>> 3)) > 0x80#32 := by
    simp only [extractRex]; bv_decide
  obtain ⟨bytes, p, hb', hp, P, hR, hB, hi, hrex, hvk⟩ := x86R_parsedO rule opcode 0#32 (sid - 1#32) rb 0 0 hopc (by decide) (by bv_decide) hb hok 8 R A
  refine ⟨bytes, hb', ?_⟩
  refine leg_2reg_formOkG ctx rule p _ _ _ .sreg kg fa fb _ _ (by simpa [hm64] using hmode) R (Or.inl ⟨hra, hrb, ?_, ?_⟩) hal (by rw [hm64]; exact hp) P
  · rw [hR]; exact regOkB_sreg sid p _ hs1 rfl
  · rw [hB]; exact regOkB_plain kg _ _ p hkg rfl

def movSregOpc (base : BitVec 32) (kg : RegKind) : BitVec 32 := addPrefixBySize base (kindSize kg)

def entryOkMovSr (e : Entry) : Bool :=     -- [rm = gp, reg = sreg]
  match e.rule.ops, e.kinds with
  | [f0, f1], [k0, k1] =>
    e.enc == 0x2c && (k1 == .sreg && (plainKind k0 && (legRuleOk e.rule 0 ((movSregOpc 0x8C#32 k0 >>> 21) &&& 3#32).toNat && (legAgreeOk e.rule (movSregOpc 0x8C#32 k0) &&
    (f0.role == .rm && (f1.role == .reg && (noFix f0 && (noFix f1 && (formOpMatches e.rule.oszEff f0 (.reg k0 0) && formOpMatches e.rule.oszEff f1 (.reg .sreg 0))))))))))
  | _, _ => false

def entryOkMovRs (e : Entry) : Bool :=     -- [reg = sreg, rm = gp]
  match e.rule.ops, e.kinds with
  | [f0, f1], [k0, k1] =>
    e.enc == 0x2c && (k0 == .sreg && (plainKind k1 && (legRuleOk e.rule 0 ((movSregOpc 0x8E#32 k1 >>> 21) &&& 3#32).toNat && (legAgreeOk e.rule (movSregOpc 0x8E#32 k1) &&
    (f0.role == .reg && (f1.role == .rm && (noFix f0 && (noFix f1 && (formOpMatches e.rule.oszEff f0 (.reg .sreg 0) && formOpMatches e.rule.oszEff f1 (.reg k1 0))))))))))
  | _, _ => false

theorem movsr_entries_ok : lmovsrChunks.all (fun c => c.all entryOkMovSr) = true := by decide +kernel
theorem movrs_entries_ok : lmovrsChunks.all (fun c => c.all entryOkMovRs) = true := by decide +kernel

/-- **front_cls_correct, class X86Mov, `mov r16|r32|r64, sreg`**: ALL general-purpose registers 0..15, ALL six segment registers (asmjit ids 1..6) -/
theorem front_cls_correct_mov_from_sreg (e : Entry) (ch : List Entry) (hch : ch ∈ lmovsrChunks) (he : e ∈ ch)
    (ctx : Spec.X86.Ctx) (sid rb : BitVec 32) (hm64 : ctx.mode64 = true) (hs1 : 1#32 ≤ sid) (hs6 : sid ≤ 6#32) (hb : rb < 16#32) :
    ∃ bytes k0, e.kinds = [k0, .sreg] ∧ emitX86R (movSregOpc 0x8C#32 k0) 0#32 (sid - 1#32) rb 0 0 = .ok bytes ∧
      formOk ctx e.rule [.reg k0 rb.toNat, .reg .sreg sid.toNat] {} bytes = true := by
  have hok := mem_chunks_ok movsr_entries_ok e ch hch he
  unfold entryOkMovSr at hok
  split at hok
  · rename_i f0 f1 k0 k1 hops hkinds
    simp only [Bool.and_eq_true, beq_iff_eq] at hok
    obtain ⟨-, hk1, pk, hR, hA, ra, rb', n0, n1, m0, m1⟩ := hok
    subst hk1
    obtain ⟨A, hmask⟩ := legAgreeOk_spec _ _ hA
    have R := legRuleOk_spec _ _ _ hR
    have hal : alignOps e.rule.oszEff e.rule.ops [.reg k0 rb.toNat, .reg .sreg sid.toNat] = some [(f0, some (.reg k0 rb.toNat)), (f1, some (.reg .sreg sid.toNat))] := by
      rw [hops]
      exact alignOps2 _ _ _ _ _ (by rw [formOpMatches_reg_nofix _ _ _ _ n0]; exact m0) (by rw [formOpMatches_reg_nofix _ _ _ _ n1]; exact m1)
    obtain ⟨bytes, hb', hf⟩ := movFromSreg_formOk ctx e.rule (movSregOpc 0x8C#32 k0) sid rb k0 f0 f1 hm64 (by simpa using R.hmodes) hmask
      (plainKind_spec _ pk) hs1 hs6 hb R A ra rb' hal
    exact ⟨bytes, k0, hkinds, hb', hf⟩
  · simp at hok

/-- **front_cls_correct, class X86Mov, `mov sreg, r16|r32|r64`** -/
theorem front_cls_correct_mov_to_sreg (e : Entry) (ch : List Entry) (hch : ch ∈ lmovrsChunks) (he : e ∈ ch)
    (ctx : Spec.X86.Ctx) (sid rb : BitVec 32) (hm64 : ctx.mode64 = true) (hs1 : 1#32 ≤ sid) (hs6 : sid ≤ 6#32) (hb : rb < 16#32) :
    ∃ bytes k1, e.kinds = [.sreg, k1] ∧ emitX86R (movSregOpc 0x8E#32 k1) 0#32 (sid - 1#32) rb 0 0 = .ok bytes ∧
      formOk ctx e.rule [.reg .sreg sid.toNat, .reg k1 rb.toNat] {} bytes = true := by
  have hok := mem_chunks_ok movrs_entries_ok e ch hch he
  unfold entryOkMovRs at hok
  split at hok
  · rename_i f0 f1 k0 k1 hops hkinds
    simp only [Bool.and_eq_true, beq_iff_eq] at hok
    obtain ⟨-, hk0, pk, hR, hA, ra, rb', n0, n1, m0, m1⟩ := hok
    subst hk0
    obtain ⟨A, hmask⟩ := legAgreeOk_spec _ _ hA
    have R := legRuleOk_spec _ _ _ hR
    have hal : alignOps e.rule.oszEff e.rule.ops [.reg .sreg sid.toNat, .reg k1 rb.toNat] = some [(f0, some (.reg .sreg sid.toNat)), (f1, some (.reg k1 rb.toNat))] := by
      rw [hops]
      exact alignOps2 _ _ _ _ _ (by rw [formOpMatches_reg_nofix _ _ _ _ n0]; exact m0) (by rw [formOpMatches_reg_nofix _ _ _ _ n1]; exact m1)
    obtain ⟨bytes, hb', hf⟩ := movToSreg_formOk ctx e.rule (movSregOpc 0x8E#32 k1) sid rb k1 f0 f1 hm64 (by simpa using R.hmodes) hmask
      (plainKind_spec _ pk) hs1 hs6 hb R A ra rb' hal
    exact ⟨bytes, k1, hkinds, hb', hf⟩
  · simp at hok

theorem dispatch_mov_sreg (c : Model.X86.Ctx) (row : Row) (k : RegKind) (i s : Nat) (henc : row.encoding = 0x2c) (hk : k = .gpw ∨ k = .gpd ∨ k = .gpq) :
    dispatch c row 0#32 (.reg (rtypeOf k) i) (.reg (rtypeOf .sreg) s) .none .none = emitX86R (movSregOpc 0x8C#32 k) 0#32 (r32 s - 1#32) (r32 i) 0 0 ∧
    dispatch c row 0#32 (.reg (rtypeOf .sreg) s) (.reg (rtypeOf k) i) .none .none = emitX86R (movSregOpc 0x8E#32 k) 0#32 (r32 s - 1#32) (r32 i) 0 0 := by
  rcases hk with h | h | h <;> subst h <;> constructor <;>
    simp [dispatch, henc, sig3, Op.kind, Op.id, Op.rmSize, Op.isGp, rtypeOf, kindSize, movSregOpc]

/-! ### ALTERNATIVE register-register encodings selected by `mod_rm()` (InstOptions::kX86_ModRM): X86Arith `op reg, reg` emitted as
`op reg, r/m` (opcode + 2) and X86Mov `mov reg, reg` emitted as `8B /r` - the two operands change fields (destination in ModRM.reg).
(ExtMov with `mod_mr()`: `dispatch_extmov` + `emitX86R_modmr` + `front_cls_correct_lmr`.) -/

theorem emitX86R_modrm (op a b : BitVec 32) (i : BitVec 64) (n : Nat) : emitX86R op oModRM a b i n = emitX86R op 0#32 a b i n := by
  have e : extractRex op oModRM = extractRex op 0#32 := by simp only [extractRex, oModRM]; bv_decide
  simp only [emitX86R, e]

def arithAltOp (e : Entry) : BitVec 32 := addArithBySize e.mainOp (kindSize (e.kinds.getD 0 .none)) + 2#32
def movAltOp (e : Entry) : BitVec 32 := addPrefixBySize 0x89#32 (kindSize (e.kinds.getD 0 .none)) + 2#32

def entryOkRRalt (enc : Nat) (opOf : Entry → BitVec 32) (e : Entry) : Bool :=
  match e.rule.ops, e.kinds with
  | [f0, f1], [k0, k1] =>
    is8 k0 || is8 k1 ||       -- 8-bit pairs: the option-carrying REX fix-ups are not covered here
    (e.enc == enc && (legRuleOk e.rule 0 ((opOf e >>> 21) &&& 3#32).toNat && (legAgreeOk e.rule (opOf e) &&
    (f0.role == .reg && (f1.role == .rm && (plainKind k0 && (plainKind k1 && (noFix f0 && (noFix f1 &&
    (formOpMatches e.rule.oszEff f0 (.reg k0 0) && formOpMatches e.rule.oszEff f1 (.reg k1 0)))))))))))
  | _, _ => false

theorem arith_alt_entries_ok : larithrmChunks.all (fun c => c.all (entryOkRRalt 0x19 arithAltOp)) = true := by decide +kernel
theorem mov_alt_entries_ok : lmovrmChunks.all (fun c => c.all (entryOkRRalt 0x2c movAltOp)) = true := by decide +kernel

theorem rr_alt_formOk (enc : Nat) (opOf : Entry → BitVec 32) (e : Entry) (hok : entryOkRRalt enc opOf e = true)
    (ctx : Spec.X86.Ctx) (r0 r1 : BitVec 32) (hm64 : ctx.mode64 = true) (h0 : r0 < 16#32) (h1 : r1 < 16#32)
    (hn8 : ∀ k0 k1, e.kinds = [k0, k1] → is8 k0 = false ∧ is8 k1 = false) :
    ∃ bytes k0 k1, e.kinds = [k0, k1] ∧ emitX86R (opOf e) 0#32 r0 r1 0 0 = .ok bytes ∧
      formOk ctx e.rule [.reg k0 r0.toNat, .reg k1 r1.toNat] {} bytes = true := by
  unfold entryOkRRalt at hok
  split at hok
  · rename_i f0 f1 k0 k1 hops hkinds
    obtain ⟨a8, b8⟩ := hn8 k0 k1 hkinds
    simp only [a8, b8, Bool.false_or, Bool.and_eq_true, beq_iff_eq] at hok
    obtain ⟨-, hR, hA, ra, rb, pa, pb, n0, n1, m0, m1⟩ := hok
    obtain ⟨A, hmask⟩ := legAgreeOk_spec _ _ hA
    have R := legRuleOk_spec _ _ _ hR
    obtain ⟨bytes, hb, hf⟩ := legR_2reg_formOk ctx e.rule (opOf e) r0 r1 k0 k1 f0 f1 hm64 (by simpa using R.hmodes) hmask h0 h1
      (plainKind_spec _ pa) (plainKind_spec _ pb) R A true (by simp [ra, rb])
      (fun ia ib => by rw [hops]; exact alignOps2 _ _ _ _ _ (by rw [formOpMatches_reg_nofix _ _ _ _ n0]; exact m0) (by rw [formOpMatches_reg_nofix _ _ _ _ n1]; exact m1))
    exact ⟨bytes, k0, k1, hkinds, hb, by simpa using hf⟩
  · simp at hok

/-- **front_cls_correct, X86Arith with `mod_rm()`**: `op reg, reg` (16 / 32 / 64-bit) in the `op reg, r/m` direction: destination in ModRM.reg,
source in ModRM.rm - ALL register pairs -/
theorem front_cls_correct_arith_rr_modrm (e : Entry) (ch : List Entry) (hch : ch ∈ larithrmChunks) (he : e ∈ ch)
    (ctx : Spec.X86.Ctx) (r0 r1 : BitVec 32) (hm64 : ctx.mode64 = true) (h0 : r0 < 16#32) (h1 : r1 < 16#32)
    (hn8 : ∀ k0 k1, e.kinds = [k0, k1] → is8 k0 = false ∧ is8 k1 = false) :
    ∃ bytes k0 k1, e.kinds = [k0, k1] ∧ emitX86R (arithAltOp e) oModRM r0 r1 0 0 = .ok bytes ∧
      formOk ctx e.rule [.reg k0 r0.toNat, .reg k1 r1.toNat] {} bytes = true := by
  rw [emitX86R_modrm]
  exact rr_alt_formOk 0x19 arithAltOp e (mem_chunks_ok arith_alt_entries_ok e ch hch he) ctx r0 r1 hm64 h0 h1 hn8

/-- **front_cls_correct, X86Mov with `mod_rm()`**: `mov reg, reg` (16 / 32 / 64-bit) as `8B /r` -/
theorem front_cls_correct_mov_rr_modrm (e : Entry) (ch : List Entry) (hch : ch ∈ lmovrmChunks) (he : e ∈ ch)
    (ctx : Spec.X86.Ctx) (r0 r1 : BitVec 32) (hm64 : ctx.mode64 = true) (h0 : r0 < 16#32) (h1 : r1 < 16#32)
    (hn8 : ∀ k0 k1, e.kinds = [k0, k1] → is8 k0 = false ∧ is8 k1 = false) :
    ∃ bytes k0 k1, e.kinds = [k0, k1] ∧ emitX86R (movAltOp e) oModRM r0 r1 0 0 = .ok bytes ∧
      formOk ctx e.rule [.reg k0 r0.toNat, .reg k1 r1.toNat] {} bytes = true := by
  rw [emitX86R_modrm]
  exact rr_alt_formOk 0x2c movAltOp e (mem_chunks_ok mov_alt_entries_ok e ch hch he) ctx r0 r1 hm64 h0 h1 hn8

/-- the class switches with the ModRM option: the FIRST operand goes to ModRM.reg -/
theorem dispatch_rr_modrm (c : Model.X86.Ctx) (row : Row) (k : RegKind) (i0 i1 : Nat) (hk : k = .gpw ∨ k = .gpd ∨ k = .gpq) :
    (row.encoding = 0x19 → dispatch c row oModRM (.reg (rtypeOf k) i0) (.reg (rtypeOf k) i1) .none .none =
        emitX86R (addArithBySize row.mainOp (kindSize k) + 2#32) oModRM (r32 i0) (r32 i1) 0 0) ∧
    (row.encoding = 0x2c → dispatch c row oModRM (.reg (rtypeOf k) i0) (.reg (rtypeOf k) i1) .none .none =
        emitX86R (addPrefixBySize 0x89#32 (kindSize k) + 2#32) oModRM (r32 i0) (r32 i1) 0 0) := by
  rcases hk with h | h | h <;> subst h <;> constructor <;> intro henc <;>
    simp [dispatch, henc, sig3, Op.kind, Op.id, Op.rmSize, Op.isGp, rtypeOf, kindSize, oModRM]

/-! ### XOP rotate / shift families VexRvmRmv (vpsha*, vpshl*) and VexRvmRmvRmi (vprot*) with `mod_mr()`: the ALTERNATIVE encoding re-packs the
operands as [reg, vvvv, rm] and sets XOP.W (the W1 form of the database); without W the same bytes would mean "source and count swapped" -/

/-- XOP branch (8F, map >= 8) of `EmitVexEvexR` -/
theorem xopR_parsed (rule : Rule) (opcode reg vvvvv rm : BitVec 32) (imm : List (BitVec 8))
    (hr : reg < 16#32) (hv : vvvvv < 16#32) (hm : rm < 16#32) (hxop : opcode &&& 0x800#32 ≠ 0#32) (hll : opcode &&& 0x40001000#32 = 0#32)
    (R : VexRule rule imm.length) (hs : rule.space = 3) (A : RowAgree rule opcode false) :
    ∃ p, parse true rule (le32 (vex3Word (vexPrep (xR opcode 0#32 reg vvvvv rm 0#32) opcode 0#32) opcode) ++
            ([modrmRR (reg + (vvvvv <<< 7)) rm] ++ imm)) = .ok p ∧
      VexParsed rule p (modrmRR (reg + (vvvvv <<< 7)) rm) ∧
      regNum p.R' p.R (bits (modrmRR (reg + (vvvvv <<< 7)) rm) 3 3) = reg.toNat ∧
      regNum p.V' false p.vvvv = vvvvv.toNat ∧
      regNum (p.vexKind == 4 && p.X) p.B (bits (modrmRR (reg + (vvvvv <<< 7)) rm) 0 3) = rm.toNat ∧ p.imm = imm := by
  obtain ⟨hop, hmap, hpp, hw, hl⟩ := A
  have hs' : rule.space = 1 ∨ rule.space = 2 ∨ rule.space = 3 := Or.inr (Or.inr hs)
  obtain ⟨-, e0, e15, e14, e13, e8, e23, e19, e18, e16, e24⟩ :=
    vex3_r_roundtrip opcode 0#32 reg vvvvv rm hr hv hm (by decide) hll
  have hb0 : (vex3Word (vexPrep (xR opcode 0#32 reg vvvvv rm 0#32) opcode 0#32) opcode).truncate 8 = 0x8F#8 := by
    have := e0 hxop
    bv_decide
  have hm8 : ¬ bits ((vex3Word (vexPrep (xR opcode 0#32 reg vvvvv rm 0#32) opcode 0#32) opcode >>> 8).truncate 8) 0 5 < 8 := by
    have h5 : ((vex3Word (vexPrep (xR opcode 0#32 reg vvvvv rm 0#32) opcode 0#32) opcode >>> 8).truncate 8 : BitVec 8).extractLsb' 0 5 ≥ 8#5 := by bv_decide
    simp only [bits]
    have := h5
    simp only [BitVec.le_def, BitVec.toNat_ofNat, ge_iff_le] at this
    omega
  generalize vex3Word (vexPrep (xR opcode 0#32 reg vvvvv rm 0#32) opcode 0#32) opcode = w at *
  simp only [le32, List.cons_append, List.nil_append, hb0]
  have hmodb := modrmRR_mod (reg + (vvvvv <<< 7)) rm
  rw [parse_xop_reg rule _ _ _ _ imm hs R.hpp8 (by rcases R.hmk with h | h <;> simp [h]) hmodb hm8 (by simp [R.himm, R.hrel]) R.hmoff]
  refine ⟨_, rfl, ?_, ?_, ?_, ?_, rfl⟩
  · refine ⟨Or.inr (Or.inr (Or.inr rfl)), rfl, rfl, rfl, hmodb, ?_, ?_, ?_, ?_, ?_, ?_, by simp⟩
    · show (BitVec.truncate 8 (w >>> 24)).toNat = rule.opcode
      rw [hop]; exact toNat_eq_of_zext _ _ (by omega) (by bv_decide)
    · show bits _ 0 5 = rule.map
      rw [hmap]; exact toNat_eq_of_zext _ _ (by omega) (by bv_decide)
    · show bits _ 0 2 = ppWant rule
      rw [hpp]; exact toNat_eq_of_zext _ _ (by omega) (by bv_decide)
    · rw [wWant_nonlegacy rule hs']
      rcases hw with h | h
      · exact Or.inl h
      · right
        simp only [Bool.false_eq_true, ↓reduceIte] at h
        have hc : (opcode >>> 27) &&& 1#32 = 0#32 ∨ (opcode >>> 27) &&& 1#32 = 1#32 := by bv_decide
        rcases hc with hc | hc
        · rw [h, hc]; simp only [bit]; simp; bv_decide
        · rw [h, hc]; simp only [bit]; simp; bv_decide
    · rcases hl with h | h
      · exact Or.inl h
      · right; show bits _ 2 1 = rule.l; rw [h]; exact toNat_eq_of_zext _ _ (by omega) (by bv_decide)
    · intro _
      show bits _ 2 1 ≤ 1
      have := (BitVec.extractLsb' 2 1 (BitVec.truncate 8 (w >>> 16))).isLt
      simp only [bits]; omega
  · exact regNum_eq _ _ _ reg (by simp only [bit, modrmRR, encodeMod]; bv_decide)
  · exact regNum_eq4 _ _ vvvvv (by simp only [bit]; bv_decide)
  · exact regNum_eq _ _ _ rm (by simp only [bit, modrmRR, encodeMod]; simp; bv_decide)


theorem emitVexEvexR_modmr (c : Model.X86.Ctx) (opcode opReg rbReg : BitVec 32) (imm : BitVec 64) (n : Nat) :
    emitVexEvexR c opcode oModMR opReg rbReg imm n = emitVexEvexR c opcode 0#32 opReg rbReg imm n := by
  have e1 : extractLLMMMMM opcode 256#32 = extractLLMMMMM opcode 0#32 := by simp only [extractLLMMMMM, oEvex]; bv_decide
  simp [emitVexEvexR, vexEvexROptions, oModMR, e1, oZMask, oER, oSAE, oVex, oVex3, vexPrep]

/-- shape [reg, vvvv, rm], XOP rule: the 8F-prefixed bytes `EmitVexEvexR` emits satisfy the monitor -/
theorem vexR_rvm_formOk_xop (c : Model.X86.Ctx) (ctx : Spec.X86.Ctx) (rule : Rule) (opcode reg vvvvv rm : BitVec 32)
    (k0 k1 k2 : RegKind) (f0 f1 f2 : FormOp)
    (hpe : c.preferEvex = false) (hk : c.extraId = 0#32) (hm64 : ctx.mode64 = true) (hmode : (rule.modes &&& 2 != 0) = true)
    (hr : reg < 16#32) (hv : vvvvv < 16#32) (hm : rm < 16#32) (hxop : opcode &&& 0x800#32 ≠ 0#32) (hll : opcode &&& 0x40001000#32 = 0#32)
    (hk0 : PlainKind k0) (hk1 : PlainKind k1) (hk2 : PlainKind k2)
    (R : VexRule rule 0) (hs : rule.space = 3) (A : RowAgree rule opcode false)
    (hf0 : f0.role = .reg) (hf1 : f1.role = .vvvv) (hf2 : f2.role = .rm)
    (hal : alignOps rule.oszEff rule.ops [.reg k0 reg.toNat, .reg k1 vvvvv.toNat, .reg k2 rm.toNat] =
           some [(f0, some (.reg k0 reg.toNat)), (f1, some (.reg k1 vvvvv.toNat)), (f2, some (.reg k2 rm.toNat))]) :
    ∃ bytes, emitVexEvexR c opcode 0#32 (reg + (vvvvv <<< 7)) rm 0 0 = .ok bytes ∧
      formOk ctx rule [.reg k0 reg.toNat, .reg k1 vvvvv.toNat, .reg k2 rm.toNat] {} bytes = true := by
  have hnev : ¬ (xR opcode 0#32 reg vvvvv rm 0#32 &&& 0x00D78150#32 ≠ 0#32) := by
    rw [evex_r_chosen_iff opcode 0#32 reg vvvvv rm 0#32 (by bv_decide) (by bv_decide) (by bv_decide) (by decide) (by decide)]
    intro h
    rcases h with h | h | h | h | h | h | h <;> bv_decide
  have h3 : vexPrep (xR opcode 0#32 reg vvvvv rm 0#32) opcode 0#32 &&& 0x8000803E#32 ≠ 0#32 := by
    simp only [vexPrep, xR, extractLLMMMMM, kLL_Mask, kMM_Mask, oEvex, oVex3]
    bv_decide
  rw [emitVexEvexR_branches c opcode reg vvvvv rm 0 0 hpe hk, if_neg hnev, if_pos h3]
  refine ⟨_, rfl, ?_⟩
  obtain ⟨p, hp, P, h0, h1, h2, -⟩ := xopR_parsed rule opcode reg vvvvv rm [] hr hv hm hxop hll R hs A
  simp only [emitImmByteOrDword] at *
  exact vex_rvm_formOk ctx rule p _ _ k0 k1 k2 f0 f1 f2 _ _ _ (by simpa [hm64] using hmode) hk0 hk1 hk2 R hf0 hf1 hf2 hal (by rw [hm64]; exact hp) P h0 h1 h2

def xopAgreeOk (r : Rule) (op : BitVec 32) : Bool :=
  r.opcode == (op &&& 0xFF#32).toNat && (r.map == ((op >>> 8) &&& 0xF#32).toNat && (ppWant r == ((op >>> 21) &&& 3#32).toNat &&
  ((r.w == 2 || r.w == ((op >>> 27) &&& 1#32).toNat) && ((r.l == 3 || r.l == ((op >>> 29) &&& 3#32).toNat) &&
  (op &&& 0x800#32 != 0#32 && op &&& 0x40001000#32 == 0#32)))))

def xopRuleOk (r : Rule) (nimm : Nat) : Bool :=
  r.modes &&& 2 != 0 && (r.space == 3 && (r.pp &&& 8 == 0 && (!r.ri && ((r.modKind == 1 || r.modKind == 2) && (r.modr == 8 &&
  (r.modrm == 8 && (r.immBytes == nimm && (r.relBytes == 0 && (!r.moff && (!r.a67 && (!r.immRev && r.osz == 0)))))))))))

theorem xopRuleOk_spec (r : Rule) (n : Nat) (h : xopRuleOk r n = true) : VexRule r n ∧ r.space = 3 := by
  simp only [xopRuleOk, Bool.and_eq_true, Bool.or_eq_true, beq_iff_eq, bne_iff_ne, ne_eq, Bool.not_eq_true'] at h
  obtain ⟨hmodes, hsp, hpp8, hri, hmk, hmr, hmrm, himm, hrel, hmoff, ha67, hrev, hosz⟩ := h
  exact ⟨⟨hmodes, Or.inr (Or.inr hsp), hpp8, hri, hmk, hmr, hmrm, himm, hrel, hmoff, ha67, hrev, hosz⟩, hsp⟩

def entryOkXopRvm (e : Entry) : Bool :=
  match e.rule.ops, e.kinds with
  | [f0, f1, f2], [k0, k1, k2] =>
    (e.enc == 0x85 || e.enc == 0x88) && (e.rule.space == 3 && (xopRuleOk e.rule 0 && (xopAgreeOk e.rule (e.mainOp ||| kW) &&
    (f0.role == .reg && (f1.role == .vvvv && (f2.role == .rm && shapeOk3 e.rule f0 f1 f2 k0 k1 k2))))))
  | _, _ => false

theorem xop_rvm_entries_ok : xrvmChunks.all (fun c => c.all entryOkXopRvm) = true := by decide +kernel

/-- **front_cls_correct, XOP classes VexRvmRmv / VexRvmRmvRmi with `mod_mr()`** (vprotb/w/d/q, vpshab/w/d/q, vpshlb/w/d/q xmm, xmm, xmm): the
alternative encoding [reg = dst, vvvv = src, rm = count] with XOP.W = 1 - ALL register triples 0..15. -/
theorem front_cls_correct_xop_rvm_modmr (e : Entry) (ch : List Entry) (hch : ch ∈ xrvmChunks) (he : e ∈ ch)
    (c : Model.X86.Ctx) (ctx : Spec.X86.Ctx) (reg vvvvv rm : BitVec 32)
    (hpe : c.preferEvex = false) (hk : c.extraId = 0#32) (hm64 : ctx.mode64 = true)
    (hr : reg < 16#32) (hv : vvvvv < 16#32) (hm : rm < 16#32) :
    ∃ bytes k0 k1 k2, e.kinds = [k0, k1, k2] ∧
      emitVexEvexR c (e.mainOp ||| kW) oModMR (packRegVvvvv reg.toNat vvvvv.toNat) (r32 rm.toNat) 0 0 = .ok bytes ∧
      formOk ctx e.rule [.reg k0 reg.toNat, .reg k1 vvvvv.toNat, .reg k2 rm.toNat] {} bytes = true := by
  have hok := mem_chunks_ok xop_rvm_entries_ok e ch hch he
  unfold entryOkXopRvm at hok
  split at hok
  · rename_i f0 f1 f2 k0 k1 k2 hops hkinds
    simp only [Bool.and_eq_true, Bool.or_eq_true, beq_iff_eq] at hok
    obtain ⟨-, hsp, hR, hA, r0, r1, r2, hS⟩ := hok
    obtain ⟨R, -⟩ := xopRuleOk_spec _ _ hR
    simp only [xopAgreeOk, Bool.and_eq_true, Bool.or_eq_true, beq_iff_eq, bne_iff_ne, ne_eq] at hA
    obtain ⟨hop, hmap, hpp, hw, hl, hxop, hll⟩ := hA
    have A : RowAgree e.rule (e.mainOp ||| kW) false := ⟨hop, hmap, hpp, by simpa using hw, hl⟩
    obtain ⟨p0, p1, p2, hal⟩ := shapeOk3_spec _ _ _ _ _ _ _ hops hS
    obtain ⟨bytes, hb, hf⟩ := vexR_rvm_formOk_xop c ctx e.rule (e.mainOp ||| kW) reg vvvvv rm k0 k1 k2 f0 f1 f2 hpe hk hm64 (by simpa using R.hmodes) hr hv hm hxop hll
      p0 p1 p2 R hsp A r0 r1 r2 (hal _ _ _)
    refine ⟨bytes, k0, k1, k2, hkinds, ?_, hf⟩
    rw [emitVexEvexR_modmr, packRegVvvvv_eq reg vvvvv (by bv_decide) (by bv_decide)]
    simpa [r32] using hb
  · simp at hok

/-- the class switch: with `mod_mr()` the three-register form packs (dst, src) into reg / vvvv, puts the count into ModRM.rm and adds W -/
theorem dispatch_xop_modmr (c : Model.X86.Ctx) (row : Row) (t0 t1 t2 i0 i1 i2 : Nat) (henc : row.encoding = 0x85 ∨ row.encoding = 0x88) :
    dispatch c row oModMR (.reg t0 i0) (.reg t1 i1) (.reg t2 i2) .none =
      emitVexEvexR c (row.mainOp ||| kW) oModMR (packRegVvvvv i0 i1) (r32 i2) 0 0 ∧
    dispatch c row 0#32 (.reg t0 i0) (.reg t1 i1) (.reg t2 i2) .none =
      emitVexEvexR c row.mainOp 0#32 (packRegVvvvv i0 i2) (r32 i1) 0 0 := by
  rcases henc with h | h <;> constructor <;> simp [dispatch, h, sig3, Op.kind, Op.id, oModMR]

end AsmjitVerif.Props.C01
