/- C20 — kExplainImms annotations tell the truth about every immediate byte (see Props/C20Explain.lean), part E. -/
import AsmjitVerif.Props.C20Explain

namespace AsmjitVerif.Props.C20

set_option maxRecDepth 100000 in
theorem annotation_truth_round_clmul_perm2 : annotationTruth
    ["vroundpd", "vroundps", "vroundsd", "vroundss", "roundpd", "roundps", "roundsd", "roundss", "vcvtps2ph", "vpclmulqdq", "pclmulqdq", "vperm2f128", "vperm2i128"] = true := by decide +kernel

end AsmjitVerif.Props.C20
