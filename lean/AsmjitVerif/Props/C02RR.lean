/-
C02, end-to-end for kEncodingBaseRR rows of the shape `op Rd, Rn` (destination at bit 0, source at bit 5): clz, cls, rbit, rev,
rev16, abs, cnt, ctz, the pointer-authentication pairs … - every accepted instruction is judged `full`.
-/
import AsmjitVerif.Props.C02Sys
namespace AsmjitVerif.C02
open AsmjitVerif.A64 AsmjitVerif.A64Asm AsmjitVerif.A64Spec AsmjitVerif.Gen.A64Tables

theorem rr_fields (opc x rd rn mask value : BitVec 32)
    (hc : opc &&& 0x000003FF#32 = 0#32) (hm : mask &&& 0x000003FF#32 = 0#32) (hv : (opc ||| (x <<< 31)) &&& mask = value)
    (h0 : rd.ult 32#32 = true) (h1 : rn.ult 32#32 = true) :
    (opc ||| (x <<< 31) ||| (rn <<< 5) ||| (rd <<< 0)) &&& mask = value ∧
    ((opc ||| (x <<< 31) ||| (rn <<< 5) ||| (rd <<< 0)) >>> 0) &&& 31#32 = rd ∧
    ((opc ||| (x <<< 31) ||| (rn <<< 5) ||| (rd <<< 0)) >>> 5) &&& 31#32 = rn := by
  bv_decide

def isRRForm (f : Form) (wa wb : GpW) (spa spb : Bool) (n0 n1 : String) (opcx : BitVec 32) : Bool :=
  f.ops == [.gp wa n0 spa, .gp wb n1 spb] &&
  f.fields.filter (·.name == n0) == [⟨n0, [⟨0, 0, 5⟩]⟩] &&
  f.fields.filter (·.name == n1) == [⟨n1, [⟨5, 0, 5⟩]⟩] &&
  f.freeFields.isEmpty && decide (f.mask < 2 ^ 32) && decide (f.value < 2 ^ 32) &&
  (BitVec.ofNat 32 f.mask &&& 0x000003FF#32 == 0#32) && (opcx &&& BitVec.ofNat 32 f.mask == BitVec.ofNat 32 f.value)

theorem rr_describes (f : Form) (wa wb : GpW) (spa spb : Bool) (n0 n1 : String) (opc x : BitVec 32) (o0 o1 : Reg) (pc : BitVec 64)
    (hf : isRRForm f wa wb spa spb n0 n1 (opc ||| (x <<< 31)) = true) (hc : opc &&& 0x000003FF#32 = 0#32)
    (h0 : gpOk wa spa o0) (h1 : gpOk wb spb o1) :
    describes f [.reg o0, .reg o1] pc
      (opc ||| (x <<< 31) ||| (BitVec.ofNat 32 (o1.id % 32) <<< 5) ||| (BitVec.ofNat 32 (o0.id % 32) <<< 0)) = true := by
  simp only [isRRForm, Bool.and_eq_true, beq_iff_eq, decide_eq_true_eq] at hf
  obtain ⟨⟨⟨⟨⟨⟨⟨hops, hR0⟩, hR1⟩, _hfree⟩, hmlt⟩, hvlt⟩, hm⟩, hv⟩ := hf
  obtain ⟨k1, k2, k3⟩ := rr_fields opc x (BitVec.ofNat 32 (o0.id % 32)) (BitVec.ofNat 32 (o1.id % 32))
    (BitVec.ofNat 32 f.mask) (BitVec.ofNat 32 f.value) hc hm hv (ofNat_mod32_ult _) (ofNat_mod32_ult _)
  generalize hw' : (opc ||| (x <<< 31) ||| (BitVec.ofNat 32 (o1.id % 32) <<< 5) ||| (BitVec.ofNat 32 (o0.id % 32) <<< 0)) = w at *
  have t : w.toNat &&& f.mask = f.value := by
    rw [toNat_and_mask w f.mask hmlt, k1]; simp [BitVec.toNat_ofNat, Nat.mod_eq_of_lt hvlt]
  have f0 : (w.toNat >>> 0) % 2 ^ 5 = o0.id % 32 := by rw [toNat_field, k2, ofNat_mod32_toNat]
  have f5 : (w.toNat >>> 5) % 2 ^ 5 = o1.id % 32 := by rw [toNat_field, k3, ofNat_mod32_toNat]
  have g0 := ctx_get_single f.fields w.toNat pc f.name n0 0 hR0
  have g5 := ctx_get_single f.fields w.toNat pc f.name n1 5 hR1
  rw [f0] at g0; rw [f5] at g5
  have m0 := matchOp_gp _ wa n0 spa o0 [.reg o1] g0 h0
  have m1 := matchOp_gp _ wb n1 spb o1 [] g5 h1
  simp only [describes, Form.matchesTemplate, t, hops, matchOps, m0, m1]
  simp

def rrRowOk (name : String) (d : BaseRRRow) : Bool :=
  (d.a_hi_id == idSP || d.a_hi_id == idZR) && (d.b_hi_id == idSP || d.b_hi_id == idZR) &&
  (w32 d.opcode &&& 0x000003FF#32 == 0#32) && name != "mov" && decide (d.a_type ≤ 3) && decide (d.b_type ≤ 3) &&
  [rtGp32, rtGp64].all fun ta => [rtGp32, rtGp64].all fun tb =>
    !(checkGpType { rt := ta, id := 0 } d.a_type && checkGpType { rt := tb, id := 0 } d.b_type && (d.uniform == 0 || ta == tb)) ||
    (formsNamed name).any fun f => ["Rd", "Rt"].any fun n0 => ["Rn", "Rm"].any fun n1 =>
      isRRForm f (wOfRt ta) (wOfRt tb) (d.a_hi_id == idSP) (d.b_hi_id == idSP) n0 n1
        (w32 d.opcode ||| (BitVec.ofNat 32 (xOf { rt := ta, id := 0 } d.a_type) <<< 31))

set_option maxRecDepth 1000000 in
/-- every BaseRR row with the destination at bit 0 and the source at bit 5 (15 of the 18 rows; cmpp, ngc, ngcs place their
operands elsewhere) -/
theorem rows_baseRR_have_forms :
    instTable.toList.all (fun r => r.enc != encBaseRR ||
      (match baseRR[r.idx]? with
       | some d => d.a_shift != 0 || d.b_shift != 5 || rrRowOk r.name d
       | none => false)) = true := by decide +kernel

theorem baseRR_accepts_facts (d : BaseRRRow) (o0 o1 : Reg) (ws : List (BitVec 32)) (h : emitBaseRR d o0 o1 = .ok ws) :
    checkGpType o0 d.a_type = true ∧ checkGpType o1 d.b_type = true ∧ (d.uniform = 0 ∨ o0.rt = o1.rt) ∧
    checkGpId o0 d.a_hi_id = true ∧ checkGpId o1 d.b_hi_id = true ∧
    ws = [w32 d.opcode ||| addImm (xOf o0 d.a_type) 31 ||| addReg o1.id d.b_shift ||| addReg o0.id d.a_shift] := by
  obtain ⟨h1, h2, h3, h4⟩ := baseRR_accepts_only_valid d o0 o1 ws h
  unfold emitBaseRR at h
  simp only [h1, h2, h3, h4, Bool.not_true, Bool.false_eq_true, if_false] at h
  split at h
  · simp [invalidInstruction] at h
  · rename_i hu
    simp only [ok1, Result.ok.injEq] at h
    refine ⟨h1, h2, ?_, h3, h4, h.symm⟩
    by_cases hz : d.uniform = 0
    · exact Or.inl hz
    · right
      have hs : o0.sameSig o1 = true := by
        simp only [Bool.and_eq_true, bne_iff_ne, ne_eq, Bool.not_eq_true', not_and, Bool.not_eq_false] at hu
        exact hu hz
      unfold Reg.sameSig at hs; simp only [Bool.and_eq_true, beq_iff_eq] at hs; exact hs.1.1.1

/-- **End-to-end, kEncodingBaseRR** (`op Rd, Rn` rows) -/
theorem baseRR_end_to_end (r : InstRow) (hr : r ∈ instTable.toList) (henc : r.enc = encBaseRR)
    (d : BaseRRRow) (hd : baseRR[r.idx]? = some d) (hsa : d.a_shift = 0) (hsb : d.b_shift = 5)
    (o0 o1 : Reg) (wf0 : GpWellFormed o0) (wf1 : GpWellFormed o1) (ws : List (BitVec 32)) (pc : BitVec 64)
    (h : emitBaseRR d o0 o1 = .ok ws) :
    judge (formsNamed r.name) r.name [.reg o0, .reg o1] pc (.ok ws) = .full := by
  have hrow := (List.all_eq_true.mp rows_baseRR_have_forms) r hr
  simp only [henc, bne_self_eq_false, Bool.false_or, hd, hsa, hsb] at hrow
  obtain ⟨ht0, ht1, huni, hid0, hid1, hws⟩ := baseRR_accepts_facts d o0 o1 ws h
  simp only [rrRowOk, Bool.and_eq_true, Bool.or_eq_true, beq_iff_eq, decide_eq_true_eq] at hrow
  obtain ⟨⟨⟨⟨⟨⟨hhi0, hhi1⟩, hclean⟩, hname⟩, hta⟩, htb⟩, hall⟩ := hrow
  have hr0 := gp_rt_of_check o0 d.a_type hta ht0
  have hr1 := gp_rt_of_check o1 d.b_type htb ht1
  have hm0 : o0.rt ∈ [rtGp32, rtGp64] := by rcases hr0 with a | a <;> simp [a]
  have hm1 : o1.rt ∈ [rtGp32, rtGp64] := by rcases hr1 with a | a <;> simp [a]
  have hcombo := (List.all_eq_true.mp ((List.all_eq_true.mp hall) o0.rt hm0)) o1.rt hm1
  have hck0 : checkGpType { rt := o0.rt, id := 0 } d.a_type = true := by simpa [checkGpType] using ht0
  have hck1 : checkGpType { rt := o1.rt, id := 0 } d.b_type = true := by simpa [checkGpType] using ht1
  have hu : (d.uniform == 0 || o0.rt == o1.rt) = true := by
    rcases huni with a | a <;> simp [a]
  have hx : xOf { rt := o0.rt, id := 0 } d.a_type = xOf o0 d.a_type := by simp [xOf]
  simp only [hck0, hck1, hu, Bool.and_self, Bool.not_true, Bool.false_or, hx] at hcombo
  rw [List.any_eq_true] at hcombo
  obtain ⟨f, hfmem, hn0⟩ := hcombo
  rw [List.any_eq_true] at hn0
  obtain ⟨n0, _, hn1⟩ := hn0
  rw [List.any_eq_true] at hn1
  obtain ⟨n1, _, hform⟩ := hn1
  have g0 := gpOk_of_checks o0 d.a_type d.a_hi_id hta hhi0 wf0 ht0 hid0
  have g1 := gpOk_of_checks o1 d.b_type d.b_hi_id htb hhi1 wf1 ht1 hid1
  have hdesc := rr_describes f _ _ _ _ n0 n1 (w32 d.opcode) (BitVec.ofNat 32 (xOf o0 d.a_type)) o0 o1 pc hform hclean g0 g1
  have hfull : f.isPartial = false := by
    simp only [isRRForm, Bool.and_eq_true, beq_iff_eq] at hform
    obtain ⟨⟨⟨⟨⟨⟨⟨hops, _⟩, _⟩, hfree⟩, _⟩, _⟩, _⟩, _⟩ := hform
    simp [Form.isPartial, hops, OpSpec.isPartial, hfree]
  subst hws
  apply judge_full_of_any
  · intro rr v pp hc; simp at hc
  · rw [List.any_eq_true]
    refine ⟨f, hfmem, ?_⟩
    simp only [hfull, Bool.not_false, Bool.true_and]
    simpa [addReg, addImm, hsa, hsb] using hdesc

end AsmjitVerif.C02
