/-
C02, end-to-end statements (`emit = ok -> judge = full`, all operands, every table row) for the bit-field family:
kEncodingBaseBfm (bfm, sbfm, ubfm  Rd, Rn, #immr, #imms), kEncodingBaseBfi (bfi, sbfiz, ubfiz  Rd, Rn, #lsb, #width)
and kEncodingBaseBfx (bfxil, sbfx, ubfx).  The alias arithmetic (`immr = (size - lsb) MOD size, imms = width - 1`, resp.
`immr = lsb, imms = lsb + width - 1`) is the Arm ARM reading in Spec/A64Decode.lean (`bfLsbWidth`).
-/
import AsmjitVerif.Props.C02E2E
namespace AsmjitVerif.C02
open AsmjitVerif.A64 AsmjitVerif.A64Asm AsmjitVerif.A64Spec AsmjitVerif.Gen.A64Tables

theorem judge_full_of_any (forms : List Form) (name : String) (ops : List Operand) (pc : BitVec 64) (w : BitVec 32)
    (hshape : ∀ rr v pp, ops ≠ [.reg rr, .imm v pp])
    (hany : forms.any (fun f => !f.isPartial && describes f ops pc w) = true) :
    judge forms name ops pc (.ok [w]) = .full := by
  unfold judge
  simp only []
  split
  · rename_i r v p
    exact absurd rfl (hshape r v p)
  · simp [hany]

theorem xOf_wx (r : Reg) (h : r.rt = rtGp32 ∨ r.rt = rtGp64) : (BitVec.ofNat 32 (xOf r kWX)).ult 2#32 = true ∧ (xOf r kWX = 0 ↔ r.rt = rtGp32) := by
  rcases h with h | h <;> simp [xOf, h, rtGp32, rtGp64, kWX] <;> decide

def bitfieldRowOk (name : String) (opcode : Nat) (tailOf : Nat → List OpSpec) : Bool :=
  (w32 opcode &&& 0x003FFFFF#32 == 0#32) &&
  [rtGp32, rtGp64].all fun t =>
    (formsNamed name).any fun f =>
      isBitfieldForm f (wOfRt t) (tailOf t)
        (w32 opcode ||| (BitVec.ofNat 32 (xOf { rt := t, id := 0 } kWX) <<< 31) ||| (BitVec.ofNat 32 (xOf { rt := t, id := 0 } kWX) <<< 22))

/-- shared last step of the three classes -/
theorem bitfield_class_end_to_end (name : String) (opcode : Nat) (tailOf : Nat → List OpSpec) (hrow : bitfieldRowOk name opcode tailOf = true)
    (o0 o1 : Reg) (wf0 : GpWellFormed o0) (wf1 : GpWellFormed o1) (tail : List Operand) (immr imms : Nat)
    (t0 : checkGpType o0 kWX = true) (e1 : o0.rt = o1.rt) (i0 : checkGpId o0 idZR = true) (i1 : checkGpId o1 idZR = true)
    (hr : immr < 64) (hs : imms < 64) (hnn : ∀ t rest, tail = t :: rest → t ≠ .none)
    (hshape : ∀ rr v pp, (.reg o0 :: .reg o1 :: tail : List Operand) ≠ [.reg rr, .imm v pp])
    (htail : ∀ c : Ctx, c.get "immr" = some immr → c.get "imms" = some imms → matchOps c (tailOf o0.rt) tail = true) (pc : BitVec 64) :
    judge (formsNamed name) name (.reg o0 :: .reg o1 :: tail) pc
      (.ok [w32 opcode ||| addImm (xOf o0 kWX) 31 ||| addImm (xOf o0 kWX) 22 ||| addImm immr 16 ||| addImm imms 10 ||| addReg o1.id 5 ||| addReg o0.id 0]) = .full := by
  simp only [bitfieldRowOk, Bool.and_eq_true, beq_iff_eq] at hrow
  obtain ⟨hclean, hall⟩ := hrow
  have r0 := gp_rt_of_check o0 kWX (by decide) t0
  have m0 : o0.rt ∈ [rtGp32, rtGp64] := by simp; exact r0
  have hcombo := (List.all_eq_true.mp hall) o0.rt m0
  rw [List.any_eq_true] at hcombo
  obtain ⟨f, hfmem, hform⟩ := hcombo
  have ex : xOf { rt := o0.rt, id := 0 } kWX = xOf o0 kWX := rfl
  rw [ex] at hform
  have t1 : checkGpType o1 kWX = true := by unfold checkGpType at *; rw [← e1]; exact t0
  have g0 := gpOk_of_checks o0 kWX idZR (by decide) (Or.inr rfl) wf0 t0 i0
  have g1 := gpOk_of_checks o1 kWX idZR (by decide) (Or.inr rfl) wf1 t1 i1
  rw [← e1] at g1
  have hz : (idZR == idSP) = false := by decide
  rw [hz] at g0 g1
  have hdesc := bitfield_describes f _ _ (w32 opcode) (BitVec.ofNat 32 (xOf o0 kWX)) o0 o1 immr imms tail pc hform hclean
    (xOf_wx o0 r0).1 g0 g1 hr hs hnn htail
  have hfull : f.isPartial = false := by
    simp only [isBitfieldForm, Bool.and_eq_true, beq_iff_eq, Bool.not_eq_true'] at hform
    obtain ⟨⟨⟨⟨⟨⟨⟨⟨⟨⟨hops, _⟩, _⟩, _⟩, _⟩, hfree⟩, hpart⟩, _⟩, _⟩, _⟩, _⟩ := hform
    unfold Form.isPartial
    rw [hops, List.any_append, hpart]
    simp [OpSpec.isPartial, hfree]
  have hany : (formsNamed name).any (fun f => !f.isPartial && describes f (.reg o0 :: .reg o1 :: tail) pc
      (w32 opcode ||| addImm (xOf o0 kWX) 31 ||| addImm (xOf o0 kWX) 22 ||| addImm immr 16 ||| addImm imms 10 ||| addReg o1.id 5 ||| addReg o0.id 0)) = true := by
    rw [List.any_eq_true]
    exact ⟨f, hfmem, by simp [hfull]; simpa [addImm, addReg] using hdesc⟩
  exact judge_full_of_any _ _ _ _ _ hshape hany

/-! ### kEncodingBaseBfm -/

def bfmTail (_t : Nat) : List OpSpec := [.immU "immr" 1, .immU "imms" 1]

set_option maxRecDepth 1000000 in
theorem rows_baseBfm_have_forms :
    instTable.toList.all (fun r => r.enc != encBaseBfm ||
      (match baseBfm[r.idx]? with
       | some d => bitfieldRowOk r.name d.opcode bfmTail
       | none => false)) = true := by decide +kernel

theorem bfm_accepts_facts (opc : Nat) (o0 o1 : Reg) (immr imms : BitVec 64) (ws : List (BitVec 32)) (h : emitBfm opc o0 o1 immr imms = .ok ws) :
    checkGpType o0 kWX = true ∧ o0.rt = o1.rt ∧ checkGpId o0 idZR = true ∧ checkGpId o1 idZR = true ∧
    immr.toNat < 64 ∧ imms.toNat < 64 ∧
    ws = [w32 opc ||| addImm (xOf o0 kWX) 31 ||| addImm (xOf o0 kWX) 22 ||| addImm immr.toNat 16 ||| addImm imms.toNat 10 ||| addReg o1.id 5 ||| addReg o0.id 0] := by
  unfold emitBfm at h
  have hl : immr.toNat ≤ immr.toNat ||| imms.toNat := Nat.left_le_or
  have hr : imms.toNat ≤ immr.toNat ||| imms.toNat := Nat.right_le_or
  repeat (split at h <;> try (simp [invalidInstruction, invalidPhysId, invalidImmediate] at h))
  all_goals (try (split at h <;> try (simp [invalidInstruction, invalidPhysId, invalidImmediate] at h)))
  all_goals (simp [ok1] at h; simp_all [Reg.sameSig]; omega)

/-- **End-to-end, kEncodingBaseBfm** (bfm, sbfm, ubfm) -/
theorem bfm_end_to_end (r : InstRow) (hr : r ∈ instTable.toList) (henc : r.enc = encBaseBfm)
    (d : BaseBfmRow) (hd : baseBfm[r.idx]? = some d) (o0 o1 : Reg) (immr imms : BitVec 64) (p1 p2 : Nat)
    (wf0 : GpWellFormed o0) (wf1 : GpWellFormed o1) (ws : List (BitVec 32)) (pc : BitVec 64)
    (h : emitBfm d.opcode o0 o1 immr imms = .ok ws) :
    judge (formsNamed r.name) r.name [.reg o0, .reg o1, .imm immr p1, .imm imms p2] pc (.ok ws) = .full := by
  have hrow := (List.all_eq_true.mp rows_baseBfm_have_forms) r hr
  simp only [henc, bne_self_eq_false, Bool.false_or, hd] at hrow
  obtain ⟨t0, e1, i0, i1, hr', hs', hws⟩ := bfm_accepts_facts d.opcode o0 o1 immr imms ws h
  subst hws
  refine bitfield_class_end_to_end r.name d.opcode bfmTail hrow o0 o1 wf0 wf1 [.imm immr p1, .imm imms p2] immr.toNat imms.toNat
    t0 e1 i0 i1 hr' hs' ?_ ?_ ?_ pc
  · intro t rest ht; injection ht with h1 _; subst h1; simp
  · intro rr v pp; simp
  · intro c g1 g2
    simp [bfmTail, matchOps, matchOp_immU1 c "immr" immr p1 _ g1, matchOp_immU1 c "imms" imms p2 _ g2]

/-! ### kEncodingBaseBfi (bfi, sbfiz, ubfiz) and kEncodingBaseBfx (bfxil, sbfx, ubfx): `#lsb, #width` aliases -/

def bfiTail (t : Nat) : List OpSpec := [.bfLsbWidth 0 (t == rtGp64)]
def bfxTail (t : Nat) : List OpSpec := [.bfLsbWidth 1 (t == rtGp64)]

set_option maxRecDepth 1000000 in
theorem rows_baseBfi_have_forms :
    instTable.toList.all (fun r => r.enc != encBaseBfi ||
      (match baseBfi[r.idx]? with
       | some d => bitfieldRowOk r.name d.opcode bfiTail
       | none => false)) = true := by decide +kernel

set_option maxRecDepth 1000000 in
theorem rows_baseBfx_have_forms :
    instTable.toList.all (fun r => r.enc != encBaseBfx ||
      (match baseBfx[r.idx]? with
       | some d => bitfieldRowOk r.name d.opcode bfxTail
       | none => false)) = true := by decide +kernel

/- the `#lsb, #width` alias classes: the table/database linkage is proved above (`rows_baseBfi_have_forms`, `rows_baseBfx_have_forms`);
   the operand-level step (alias arithmetic `bitfield_alias_immr`, Props/C02.lean) is not yet assembled into an end-to-end theorem. -/

end AsmjitVerif.C02
