/-
C14 - invalid input is rejected with an error and leaves the emitter state untouched.

Theorems over Model/Emitter.lean (all states, all operations, all histories - no bound), the generated commit-discipline and
table-bound facts of the current sources, and the link to the monitor of Spec/Emitter.lean.

`bind` is failure atomic since fix C14-13 (`bind_label` validates the pending fixups before it binds): `bind_failure_atomic` holds for
every state.  What is left of finding C14-K1 is `embed_const_pool` whose label has a pending fixup the bind inside it cannot reach: the
alignment padding is already appended.  The general theorems carry the hypothesis `bindOverflows s op = false` (exactly that class; it is
`false` by definition for every call other than `embedConstPool`) and `const_pool_bind_overflow_witness` proves the negation at a witness.
-/
import AsmjitVerif.Lemmas.C14
import AsmjitVerif.Spec.Emitter
import AsmjitVerif.Gen.EmitSites
import AsmjitVerif.Gen.TableBounds

namespace AsmjitVerif.Props.C14
open AsmjitVerif.Emitter AsmjitVerif.Gen AsmjitVerif.Offset

/-! ## 1. one call -/

/-- every operation either succeeds or (outside finding C14-K1) leaves the framed state exactly as it was -/
theorem step_atomic (s : St) (op : Op) (h : bindOverflows s op = false) :
    (step s op).code = Err.ok ∨ (step s op).st.frame = s.frame := by
  cases op with
  | newLabel => exact (newLabel_atomic s).imp (fun h => h) (·.1)
  | newNamedLabel n t p => exact (newNamedLabel_atomic s n t p).imp (fun h => h) (·.1)
  | bind id =>
    exact (bind_atomic s id).imp (fun h => h) (·.1)
  | align m a => exact (align_atomic s m a).imp (fun h => h) (·.1)
  | embed bs => exact Or.inl rfl
  | embedArray t d c r => exact (embedArray_atomic s t d c r).imp (fun h => h) (·.1)
  | embedLabel id sz => exact (embedLabel_atomic s id sz).imp (fun h => h) (·.1)
  | embedLabelDelta id b sz => exact (embedLabelDelta_atomic s id b sz).imp (fun h => h) (·.1)
  | embedConstPool id a d =>
    have h' : (embedConstPool s id a d).code ≠ Err.invalidDisplacement := by simpa [bindOverflows, step] using h
    exact (embedConstPool_atomic s id a d h').imp (fun h => h) (·.1)
  | newSection n a =>
    rcases newSection_code s n a with h1 | h1
    · exact Or.inl h1
    · exact Or.inr (by simp [step, h1])
  | «section» i => exact (switchSection_atomic s i).imp (fun h => h) (·.1)
  | emit pre refs o => exact (emit_atomic s pre refs o).imp (fun h => h) (·.1)

/-- **Failure atomicity** (partial: outside the const-pool residue of C14-K1).  A failed call appends no bytes, creates no labels, fixups or relocations,
does not switch sections: apart from the (cleared) one-shot state the whole CodeHolder/emitter state is the one before the call. -/
theorem failed_call_atomic_partial (s : St) (op : Op) (hfail : (step s op).code ≠ Err.ok) (hk : bindOverflows s op = false) :
    (step s op).st.frame = s.frame :=
  (step_atomic s op hk).resolve_left hfail

/-- a state in which label 0 cannot be bound: one pending 8-bit fixup (a short jump at offset 0) in a 130 byte section -/
def witnessState : St :=
  { secs := [{ data := List.replicate 130 0#8 }], labels := [{}],
    pending := [{ label := 0, sec := 0, off := 1, rel := -1, fmt := simpleValue .signed 1, reloc := none }] }

/-- **`bind` is failure atomic for every state and every label id** (fix C14-13): invalid id, already bound, or a pending displacement
that does not fit - the label table, the fixups, the bytes and the current section are the ones before the call. -/
theorem bind_failure_atomic (s : St) (id : Nat) (hfail : (Emitter.bind s id).code ≠ Err.ok) :
    (Emitter.bind s id).st.frame = s.frame ∧ (Emitter.bind s id).reported = true :=
  (bind_atomic s id).resolve_left hfail

/-- ... and the unreachable-displacement case really is refused without a trace (it used to return the error with the label bound) -/
theorem bind_overflow_refused_atomically :
    (step witnessState (.bind 0)).code = Err.invalidDisplacement ∧ (step witnessState (.bind 0)).st = witnessState := by
  decide +kernel

/-- **Witness of what is left of finding C14-K1**: `embed_const_pool` with that label - the bind inside it refuses after the alignment
padding (130 -> 136 bytes) has been appended. -/
theorem const_pool_bind_overflow_witness :
    (step witnessState (.embedConstPool 0 8 [1, 2, 3, 4, 5, 6, 7, 8])).code = Err.invalidDisplacement ∧
    ((step witnessState (.embedConstPool 0 8 [1, 2, 3, 4, 5, 6, 7, 8])).st.secs.map (·.data.length)) = [136] ∧
    bindOverflows witnessState (.embedConstPool 0 8 [1, 2, 3, 4, 5, 6, 7, 8]) = true := by
  decide +kernel

/-- **One-shot state**: after every instruction call - accepted or rejected, whatever the encoder did - options, extra register and
inline comment are cleared. -/
theorem one_shot_cleared_after_emit (s : St) (pre : OneShot) (refs : List Nat) (o : EncOutcome) :
    (emit s pre refs o).st.one = OneShot.empty := by
  simp only [emit, emitFailed]
  repeat' split
  all_goals simp [done, report, appendBytes]

/-- **Reporting**: a failed emitter call goes through `report_error` (the handler is invoked once with the returned code), a
successful call never does; `CodeHolder::new_section` is the only call that returns its error without a handler. -/
theorem failure_is_reported (s : St) (op : Op) (hk : bindOverflows s op = false) (hns : ∀ n a, op ≠ .newSection n a) :
    (step s op).reported = true ↔ (step s op).code ≠ Err.ok := by
  constructor
  · intro hr hc
    cases op <;> simp only [step] at hr hc
    case newLabel => simp [newLabel, done] at hr
    case newNamedLabel n t p =>
      revert hr hc; simp only [newNamedLabel]; repeat' split
      all_goals simp [done, report, Err.ok, Err.invalidLabelName, Err.labelNameTooLong, Err.invalidParentLabel, Err.invalidArgument, Err.labelAlreadyDefined]
    case bind id =>
      revert hr hc; simp only [Emitter.bind]; repeat' split
      all_goals simp [done, report, Err.ok, Err.invalidLabel, Err.labelAlreadyBound, Err.invalidDisplacement]
    case align m a =>
      revert hr hc; simp only [align]; repeat' split
      all_goals simp [done, report, Err.ok, Err.invalidArgument, Err.invalidState]
    case embed bs => simp [embed, done] at hr
    case embedArray t d c r =>
      revert hr hc; simp only [embedArray]; repeat' split
      all_goals simp [done, report, Err.ok, Err.invalidArgument]
    case embedLabel id sz =>
      revert hr hc; simp only [embedLabel]; repeat' split
      all_goals simp [done, report, Err.ok, Err.invalidLabel, Err.invalidOperandSize]
    case embedLabelDelta id b sz =>
      revert hr hc; simp only [embedLabelDelta]; repeat' split
      all_goals simp [done, report, Err.ok, Err.invalidLabel, Err.invalidOperandSize, Err.invalidDisplacement]
    case embedConstPool id a d =>
      revert hr hc; simp only [embedConstPool]; repeat' split
      all_goals simp_all [done, report, Err.ok, Err.invalidLabel, Err.labelAlreadyBound]
    case newSection n a => exact absurd rfl (hns n a)
    case «section» i =>
      revert hr hc; simp only [switchSection]; repeat' split
      all_goals simp [done, report, Err.ok, Err.invalidSection]
    case emit pre refs o =>
      revert hr hc; simp only [emit, emitFailed]; repeat' split
      all_goals simp_all [done, report, Err.ok, Err.invalidLabel, Err.invalidInstruction]
  · intro hc
    cases op with
    | newLabel => exact absurd rfl hc
    | newNamedLabel n t p => exact ((newNamedLabel_atomic s n t p).resolve_left hc).2
    | bind id =>
      exact ((bind_atomic s id).resolve_left hc).2
    | align m a => exact ((align_atomic s m a).resolve_left hc).2
    | embed bs => exact absurd rfl hc
    | embedArray t d c r => exact ((embedArray_atomic s t d c r).resolve_left hc).2
    | embedLabel id sz => exact ((embedLabel_atomic s id sz).resolve_left hc).2
    | embedLabelDelta id b sz => exact ((embedLabelDelta_atomic s id b sz).resolve_left hc).2
    | embedConstPool id a d =>
      have h' : (embedConstPool s id a d).code ≠ Err.invalidDisplacement := by simpa [bindOverflows, step] using hk
      exact ((embedConstPool_atomic s id a d h').resolve_left hc).2
    | newSection n a => exact absurd rfl (hns n a)
    | «section» i => exact ((switchSection_atomic s i).resolve_left hc).2
    | emit pre refs o => exact ((emit_atomic s pre refs o).resolve_left hc).2

/-- **Label ids are validated before they are dereferenced**: an instruction naming a label id that does not exist is never
accepted, whatever the encoder would have produced; `bind`, `embed_label`, `embed_label_delta` answer `kInvalidLabel`. -/
theorem invalid_label_rejected (s : St) (pre : OneShot) (refs : List Nat) (o : EncOutcome) (id : Nat)
    (hid : id ∈ refs) (hbad : s.labels.length ≤ id) : (emit s pre refs o).code ≠ Err.ok := by
  have hany : (refs.any fun i => decide (i ≥ s.labels.length)) = true := List.any_eq_true.mpr ⟨id, hid, by simpa using hbad⟩
  simp only [emit, emitFailed]
  split
  · split <;> simp_all [report, Err.ok, Err.invalidInstruction]
  · simp [hany, report, Err.ok, Err.invalidLabel]

theorem invalid_label_rejected_by_bind (s : St) (id : Nat) (hbad : s.labels.length ≤ id) :
    (bind s id).code = Err.invalidLabel ∧ (embedLabel s id 4).code = Err.invalidLabel ∧
    (embedLabelDelta s id 0 4).code = Err.invalidLabel ∧ (embedLabelDelta s 0 id 4).code = Err.invalidLabel := by
  have h1 : s.labels[id]? = none := List.getElem?_eq_none hbad
  refine ⟨?_, ?_, ?_, ?_⟩
  · simp [Emitter.bind, h1, report]
  · simp [embedLabel, h1, report]
  · simp [embedLabelDelta, h1, report]
  · simp only [embedLabelDelta, h1]; split <;> simp_all [report]

/-- **`bind` consumes the inline comment before it reports**: whatever the state, whether the label is valid, bound or not, and
therefore also when the error handler throws out of `report_error`, the state the handler sees has no inline comment; options and
extra register are not touched. -/
theorem bind_clears_comment_before_report (s : St) (id : Nat) :
    (Emitter.bind s id).st.one = { s.one with comment := false } := by
  simp only [Emitter.bind]
  repeat' split
  all_goals simp [done, report]

/-- **Calls that do not consume one-shot state leave it exactly as it was**, failed or not (align, embed, embed_data_array,
embed_label, embed_label_delta, section, new_section, new_label, new_named_label). -/
theorem other_calls_keep_one_shot (s : St) (op : Op)
    (h : match op with | .emit .. => False | .bind .. => False | .embedConstPool .. => False | _ => True) :
    (step s op).st.one = s.one := by
  cases op <;> simp only [step] at h ⊢
  case newLabel => rfl
  case newNamedLabel n t p => simp only [newNamedLabel]; repeat' split
                              all_goals rfl
  case align m a => simp only [align]; repeat' split
                    all_goals rfl
  case embed bs => rfl
  case embedArray t d c r => simp only [embedArray]; repeat' split
                             all_goals rfl
  case embedLabel id sz => simp only [embedLabel]; repeat' split
                           all_goals rfl
  case embedLabelDelta id b sz => simp only [embedLabelDelta]; repeat' split
                                  all_goals rfl
  case newSection n a => simp only [newSection]; repeat' split
                         all_goals rfl
  case «section» i => simp only [switchSection]; repeat' split
                      all_goals rfl

/-! ## 2. histories -/

/-- the one-shot state is empty between calls (the setters are part of the instruction call in the model) -/
theorem one_shot_empty_invariant (ops : List Op) (s : St) (h : s.one = OneShot.empty) : (run s ops).one = OneShot.empty := by
  induction ops generalizing s with
  | nil => exact h
  | cons op ops ih => exact ih _ (step_one_empty s op h)

/-- a failed call between calls: the state is *identical* afterwards (one-shot included) -/
theorem failed_call_identity (s : St) (op : Op) (h1 : s.one = OneShot.empty) (hk : bindOverflows s op = false)
    (hfail : (step s op).code ≠ Err.ok) : (step s op).st = s :=
  frame_eq_of_one_empty h1 (step_one_empty s op h1) (failed_call_atomic_partial s op hfail hk)

/-- **Like a fresh emitter** (partial: outside the const-pool residue of C14-K1).  For every history of calls - valid and invalid interleaved in any way -
the emitter ends in exactly the state of an emitter that was handed the accepted calls only: failed calls leave no trace
(bytes, labels, fixups, relocations, current section, one-shot state), so whatever is emitted afterwards is what a fresh emitter
would produce. -/
theorem fresh_after_failure_partial (ops : List Op) (s : St) (h1 : s.one = OneShot.empty) (hk : noBindOverflow s ops = true) :
    run s ops = run s (accepted s ops) := by
  induction ops generalizing s with
  | nil => rfl
  | cons op ops ih =>
    simp only [noBindOverflow, Bool.and_eq_true, Bool.not_eq_true'] at hk
    by_cases hc : (step s op).code = Err.ok
    · simp only [run, accepted, hc, if_true]
      exact ih _ (step_one_empty s op h1) hk.2
    · have hid : (step s op).st = s := failed_call_identity s op h1 hk.1 hc
      simp only [run, accepted, hc, if_false]
      rw [hid] at hk ⊢
      exact ih s h1 hk.2

/-- ... and that fresh emitter accepts every one of them -/
theorem accepted_all_succeed (ops : List Op) (s : St) (h1 : s.one = OneShot.empty) (hk : noBindOverflow s ops = true) :
    ∀ c ∈ codes s (accepted s ops), c = Err.ok := by
  induction ops generalizing s with
  | nil => intro c hc; simp [accepted, codes] at hc
  | cons op ops ih =>
    simp only [noBindOverflow, Bool.and_eq_true, Bool.not_eq_true'] at hk
    by_cases hc : (step s op).code = Err.ok
    · simp only [accepted, hc, if_true, codes]
      intro c hmem
      rcases List.mem_cons.mp hmem with h | h
      · exact h
      · exact ih _ (step_one_empty s op h1) hk.2 c h
    · have hid : (step s op).st = s := failed_call_identity s op h1 hk.1 hc
      simp only [accepted, hc, if_false]
      rw [hid] at hk ⊢
      exact ih s h1 hk.2

/-- the handler hears exactly the non-zero return codes, in order (no handler attached: nothing; `new_section` excluded) -/
theorem handler_hears_exactly_the_failures (ops : List Op) (s : St) (hk : noBindOverflow s ops = true)
    (hns : ∀ op ∈ ops, ∀ n a, op ≠ .newSection n a) (hh : ∀ op, (step s op).st.handler = s.handler) (hattached : s.handler ≠ .none)
    (hstable : ∀ (t : St) op, (step t op).st.handler = t.handler) :
    handled s ops = (codes s ops).filter (· ≠ Err.ok) := by
  induction ops generalizing s with
  | nil => rfl
  | cons op ops ih =>
    simp only [noBindOverflow, Bool.and_eq_true, Bool.not_eq_true'] at hk
    have hrep := failure_is_reported s op hk.1 (hns op (List.mem_cons_self ..))
    have hhand : (step s op).st.handler ≠ .none := by rw [hstable]; exact hattached
    have ih' := ih (step s op).st hk.2 (fun o ho => hns o (List.mem_cons_of_mem _ ho)) (fun o => hstable _ o) hhand
    simp only [handled, codes, List.filter_cons]
    by_cases hc : (step s op).code = Err.ok
    · have : (step s op).reported = false := by
        cases hr : (step s op).reported
        · rfl
        · exact absurd hc (hrep.mp hr)
      simp [this, hc, ih']
    · have : (step s op).reported = true := hrep.mpr hc
      simp [this, hc, hhand, ih']

/-- no operation changes which handler is attached -/
theorem handler_stable (t : St) (op : Op) : (step t op).st.handler = t.handler := by
  cases op <;> simp only [step]
  case newLabel => rfl
  case newNamedLabel n t' p => simp only [newNamedLabel]; repeat' split
                               all_goals rfl
  case bind id => simp only [Emitter.bind]; repeat' split
                  all_goals rfl
  case align m a => simp only [align]; repeat' split
                    all_goals rfl
  case embed bs => rfl
  case embedArray t' d c r => simp only [embedArray]; repeat' split
                              all_goals rfl
  case embedLabel id sz => simp only [embedLabel]; repeat' split
                           all_goals rfl
  case embedLabelDelta id b sz => simp only [embedLabelDelta]; repeat' split
                                  all_goals rfl
  case embedConstPool id a d =>
    have ha : (align t 1 a).st.handler = t.handler := by
      simp only [align]; repeat' split
      all_goals rfl
    have hb : ∀ u : St, (Emitter.bind u id).st.handler = u.handler := by
      intro u; simp only [Emitter.bind]; repeat' split
      all_goals rfl
    simp only [embedConstPool]; repeat' split
    all_goals first | rfl | exact ha | exact (hb _).trans ha
  case newSection n a => simp only [newSection]; repeat' split
                         all_goals rfl
  case «section» i => simp only [switchSection]; repeat' split
                      all_goals rfl
  case emit pre refs o => simp only [emit, emitFailed]; repeat' split
                          all_goals rfl

/-! ## 3. the monitor of Spec/Emitter.lean accepts every step of the model -/

open AsmjitVerif.EmitterSpec in
/-- abstraction of a model state to the snapshot a client sees (digest = the whole state) -/
def snapOf (s : St) : Snap St :=
  { sizes := s.secs.map (·.data.length), labels := s.labels.length, bound := s.boundCount, relocs := s.relocs,
    fixups := s.unresolved, nodes := 0, digest := s }

open AsmjitVerif.EmitterSpec in
def kindOf : Op → CallKind
  | .emit .. => .emit
  | .bind .. => .bind
  | .newSection .. => .holderCall
  | _ => .emitterCall

open AsmjitVerif.EmitterSpec in
def handlerOf : HandlerKind → Handler
  | .none => .none | .returning => .returning | .recording => .recording | .throwing => .throwing

open AsmjitVerif.EmitterSpec in
/-- what a client observes of one model step; `shadow` is the emitter that was fed the accepted calls only -/
def observe (s shadow : St) (op : Op) : Obs St :=
  let r := step s op
  let sh := if r.code = Err.ok then (step shadow op).st else shadow
  { kind := kindOf op, isAssembler := true, handler := handlerOf s.handler, ret := r.code,
    handled := if r.reported ∧ r.st.handler ≠ .none then [r.code] else [],
    thrown := r.reported && r.st.handler == .throwing,
    oneShot := (r.st.one.options, r.st.one.extraSig, r.st.one.extraId, r.st.one.comment),
    oneShotBefore := (s.one.options, s.one.extraSig, s.one.extraId, s.one.comment),
    before := snapOf s, after := snapOf r.st, shadow := snapOf sh,
    labelRefs := match op with | .emit _ refs _ => refs | _ => [],
    physIds := [] }

open AsmjitVerif.EmitterSpec in
/-- **Model ⊑ spec** for the clauses that do not depend on the encoder: on every state reachable with an empty one-shot state, for
every call outside C14-K1, the observation of the model step (shadow = the state itself, which by `fresh_after_failure_partial` is
the state of the emitter fed the accepted calls only) satisfies the reporting, atomicity, one-shot, label and freshness clauses of
the monitor that judges the real code. -/
theorem model_step_satisfies_monitor (s : St) (op : Op) (h1 : s.one = OneShot.empty) (hk : bindOverflows s op = false) :
    reportedOnce (observe s s op) = true ∧ failedIsAtomic (observe s s op) = true ∧ oneShotCleared (observe s s op) = true ∧
    labelsExist (observe s s op) = true ∧ likeFresh (observe s s op) = true := by
  have hone := step_one_empty s op h1
  have hst := handler_stable s op
  refine ⟨?_, ?_, ?_, ?_, ?_⟩
  · -- reporting
    by_cases hns : ∃ n a, op = .newSection n a
    · obtain ⟨n, a, rfl⟩ := hns
      have : (step s (.newSection n a)).reported = false := by
        simp only [step, newSection]; repeat' split
        all_goals rfl
      simp [reportedOnce, observe, kindOf, this]
    · have hns' : ∀ n a, op ≠ .newSection n a := fun n a h => hns ⟨n, a, h⟩
      have hrep := failure_is_reported s op hk hns'
      have hkind : kindOf op ≠ .holderCall := by cases op <;> simp_all [kindOf]
      by_cases hc : (step s op).code = Err.ok
      · have hr : (step s op).reported = false := by
          cases hr : (step s op).reported
          · rfl
          · exact absurd hc (hrep.mp hr)
        have hc0 : (step s op).code = 0 := hc
        cases op <;> simp_all [reportedOnce, observe, kindOf]
      · have hr : (step s op).reported = true := hrep.mpr hc
        have hc0 : (step s op).code ≠ 0 := hc
        cases hh : s.handler <;> cases op <;> simp_all [reportedOnce, observe, kindOf, handlerOf]
  · -- atomicity
    by_cases hc : (step s op).code = Err.ok
    · have hc0 : (step s op).code = 0 := hc
      simp [failedIsAtomic, observe, hc0]
    · have hid := failed_call_identity s op h1 hk hc
      simp [failedIsAtomic, observe, hid]
  · -- one-shot
    have : (step s op).st.one = OneShot.empty := hone
    cases op <;> simp [oneShotCleared, observe, kindOf, this, h1, OneShot.empty]
  · -- labels
    cases op with
    | emit pre refs o =>
      by_cases hc : (step s (.emit pre refs o)).code = Err.ok
      · have hall : ∀ id ∈ refs, id < s.labels.length := by
          intro id hid
          by_cases hlt : id < s.labels.length
          · exact hlt
          · exact absurd hc (invalid_label_rejected s pre refs o id hid (Nat.le_of_not_lt hlt))
        simp only [labelsExist, observe, snapOf]
        simp only [Bool.or_eq_true, Bool.not_eq_true', List.all_eq_true]
        exact Or.inr (fun id hid => decide_eq_true (hall id hid))
      · have hc0 : (step s (.emit pre refs o)).code ≠ 0 := hc
        simp [labelsExist, observe, hc0]
    | _ => simp [labelsExist, observe, kindOf]
  · -- freshness: after = shadow
    by_cases hc : (step s op).code = Err.ok
    · simp [likeFresh, observe, hc]
    · have hid := failed_call_identity s op h1 hk hc
      simp [likeFresh, observe, hc, hid]

/-! ## 4. facts about the current sources (regenerated on every run) -/

/-- **Commit discipline of `_emit`** (x86 and AArch64, from the current sources): after every call that creates CodeHolder state
(`new_reloc_entry`, `new_fixup`, `add_address_to_address_table`) the only failure exits are the ones that test that very call's
result (allocation failure, C15), and nothing between `EmitDone:` and `writer.done(this)` can fail. -/
theorem emit_sites_disciplined :
    ∀ st ∈ EmitSites.sites, st.call ≠ "label_entry_of" → ∀ e ∈ st.exits, e.guarded = true := by
  decide

/-- **Every `label_entry_of` in `_emit` is dominated by `if (!is_label_valid(id)) goto InvalidLabel`.** -/
theorem label_deref_validated :
    ∀ st ∈ EmitSites.sites, st.call = "label_entry_of" → (⟨"InvalidLabel", true⟩ : EmitSites.Exit) ∈ st.exits := by
  decide

/-- the scan found the sites at all (a translator that silently finds nothing proves nothing) -/
theorem emit_sites_nonempty :
    (EmitSites.sites.filter (·.call = "new_fixup")).length ≥ 2 ∧ (EmitSites.sites.filter (·.call = "new_reloc_entry")).length ≥ 4 ∧
    (EmitSites.sites.filter (·.call = "label_entry_of")).length ≥ 4 ∧ (EmitSites.sites.filter (·.call = "EmitDone")).length = 2 := by
  decide

/-- **Look-up tables indexed by operand fields**: the largest value the index expression can take (field width, or the validator's
guarantee where noted in tools/gen_c14.py) is inside the table as declared in the current source. -/
theorem table_index_in_bounds : ∀ r ∈ TableBounds.rows, r.2.2 < r.2.1 := by
  decide

/-! ## 5. non-vacuity -/

/-- a concrete mixed history: label, an instruction with a forward reference, a failing instruction carrying one-shot state, a bind
of an invalid label, a misaligned align argument, then a valid bind that patches the reference -/
def demoOps : List Op := [
  .newLabel,
  .emit {} [0] (.accept [0xEB, 0x00] (some { label := 0, off := 1, rel := -1, fmt := simpleValue .signed 1, withReloc := false }) 0 0),
  .emit { options := 0x10, comment := true } [] (.reject Err.invalidInstruction),
  .emit {} [7] (.accept [0xE9, 0, 0, 0, 0] none 0 0),
  .bind 5,
  .align 0 3,
  .embedLabel 9 4,
  .emit {} [] (.accept [0x90] none 0 0),
  .bind 0,
  .bind 0]

example : codes {} demoOps = [0, 0, 26, 12, 12, 2, 12, 0, 0, 14] := by decide +kernel
example : ((run {} demoOps).secs.map (·.data)) = [[0xEB, 0x01, 0x90]] := by decide +kernel
example : noBindOverflow {} demoOps = true := by decide +kernel
example : accepted {} demoOps = [demoOps[0], demoOps[1], demoOps[7], demoOps[8]] := by decide +kernel
example : run {} demoOps = run {} (accepted {} demoOps) := fresh_after_failure_partial demoOps {} rfl (by decide +kernel)
example : handled {} demoOps = [26, 12, 12, 2, 12, 14] := by decide +kernel
/-- the hypothesis of the partial theorems is not vacuous the other way either: the witness history is excluded -/
example : noBindOverflow witnessState [.embedConstPool 0 8 [1, 2, 3, 4, 5, 6, 7, 8]] = false := by decide +kernel
/-- a history with a refused unreachable bind is *inside* the theorems now -/
example : noBindOverflow witnessState [.bind 0, .embed [0x90], .bind 0] = true := by decide +kernel
/-- `embed_const_pool`: a bound label is refused before anything is appended; an unbound one aligns, binds and embeds -/
example : (step { secs := [{ data := [1] }], labels := [{ bound := some (0, 0) }, {}] } (.embedConstPool 0 8 [7, 7])).code = Err.labelAlreadyBound ∧
    ((step { secs := [{ data := [1] }], labels := [{ bound := some (0, 0) }, {}] } (.embedConstPool 1 8 [7, 7])).st.secs.map (·.data.length)) = [10] ∧
    ((step { secs := [{ data := [1] }], labels := [{ bound := some (0, 0) }, {}] } (.embedConstPool 1 8 [7, 7])).st.labels.map (·.bound)) =
      [some (0, 0), some (0, 8)] := by decide +kernel
/-- a failing `bind` with a pending comment, options and extra register: comment gone, the rest untouched -/
example : (step { one := { options := 0x2000, extraSig := 1, extraId := 3, comment := true } } (.bind 9)).code = Err.invalidLabel ∧
    (step { one := { options := 0x2000, extraSig := 1, extraId := 3, comment := true } } (.bind 9)).st.one =
      { options := 0x2000, extraSig := 1, extraId := 3, comment := false } := by decide
/-- valid arguments are accepted (the model does not reject everything) -/
example : (step {} (.align 0 16)).code = 0 ∧ (step {} (.embed [1, 2])).code = 0 ∧ (step {} (.newSection 5 8)).code = 0 ∧
    (step {} (.newNamedLabel [0x61] 2 kInvalidId)).code = 0 := by decide
/-- ... and the argument checks have teeth -/
example : (step {} (.align 3 16)).code = Err.invalidArgument ∧ (step {} (.align 0 48)).code = Err.invalidArgument ∧
    (step {} (.newSection 36 8)).code = Err.invalidSectionName ∧ (step {} (.newSection 5 3)).code = Err.invalidArgument ∧
    (step {} (.section none)).code = Err.invalidSection ∧ (step {} (.newNamedLabel [] 2 kInvalidId)).code = Err.invalidLabelName ∧
    (step { arch := .a64, secs := [{ data := [1] }] } (.align 0 8)).code = Err.invalidState := by decide

end AsmjitVerif.Props.C14
