/-
C01 property theorems, class X86Arith, register-register forms, table layer: `front_cls_correct_arith_rr` - for EVERY regenerated
(row, [rm, reg] form, operand-kind pair) of add / or / adc / sbb / and / sub / xor / cmp (8 instructions x (4 combinations of 8-bit kinds +
16 / 32 / 64-bit) = 56 entries), ALL register numbers: whatever the class's register-register path emits (when `EmitX86R` accepts it)
satisfies the monitor. `dispatch_arith_rr` shows that the class switch reaches exactly this emission.
-/
import AsmjitVerif.Props.C01FrontArith
set_option linter.constructorNameAsVariable false
set_option linter.unusedSimpArgs false
set_option linter.unusedVariables false
set_option maxRecDepth 100000
namespace AsmjitVerif.Props.C01
open Spec.X86 Model.X86 AsmjitVerif.Lemmas.X86Parse AsmjitVerif.Gen.X86ClassRows

def is8 (k : RegKind) : Bool := k == .gpb || k == .gpbhi

/-- the opcode word the class hands to `EmitX86R`: the main opcode adjusted by the operand size -/
def finalOpArith (e : Entry) : BitVec 32 := addArithBySize e.mainOp (kindSize (e.kinds.getD 0 .none))

/-- the register-register emission of the class X86Arith for operand kinds k0, k1 (no instruction options) -/
def arithRRemit (op : BitVec 32) (k0 k1 : RegKind) (r0 r1 : BitVec 32) : Except Err (List (BitVec 8)) :=
  if is8 k0 then emitX86R op (fixK (fixK 0#32 k0 r0).1 k1 r1).1 (fixK (fixK 0#32 k0 r0).1 k1 r1).2 (fixK 0#32 k0 r0).2 0 0
  else emitX86R op 0#32 r1 r0 0 0

def entryOkArith (e : Entry) : Bool :=
  match e.rule.ops, e.kinds with
  | [f0, f1], [k0, k1] =>
    (e.enc == 0x19 || e.enc == 0x3D) && (legRuleOk e.rule 0 ((finalOpArith e >>> 21) &&& 3#32).toNat && (legAgreeOk e.rule (finalOpArith e) &&
    (f0.role == .rm && (f1.role == .reg && (((is8 k0 && is8 k1) || (plainKind k0 && plainKind k1 && !is8 k0)) &&
    (noFix f0 && (noFix f1 && (formOpMatches e.rule.oszEff f0 (.reg k0 0) && formOpMatches e.rule.oszEff f1 (.reg k1 0)))))))))
  | _, _ => false

theorem arith_entries_ok : larithChunks.all (fun c => c.all entryOkArith) = true := by decide +kernel

theorem is8_spec (k : RegKind) (h : is8 k = true) : k = .gpb ∨ k = .gpbhi := by
  cases k <;> simp_all [is8]

/-- **front_cls_correct, classes X86Arith and X86Test (`test r, r`), register-register.** ALL register numbers 0..15 (AH..BH: ids 0..3), all operand sizes. -/
theorem front_cls_correct_arith_rr (e : Entry) (ch : List Entry) (hch : ch ∈ larithChunks) (he : e ∈ ch)
    (ctx : Spec.X86.Ctx) (r0 r1 : BitVec 32) (hm64 : ctx.mode64 = true) (h0 : r0 < 16#32) (h1 : r1 < 16#32)
    (hhi : ∀ k0 k1, e.kinds = [k0, k1] → (k0 = .gpbhi → r0 < 4#32) ∧ (k1 = .gpbhi → r1 < 4#32))
    (bytes : List (BitVec 8)) :
    ∃ k0 k1, e.kinds = [k0, k1] ∧
      (arithRRemit (finalOpArith e) k0 k1 r0 r1 = .ok bytes → formOk ctx e.rule [.reg k0 r0.toNat, .reg k1 r1.toNat] {} bytes = true) := by
  have hok := mem_chunks_ok arith_entries_ok e ch hch he
  unfold entryOkArith at hok
  split at hok
  · rename_i f0 f1 k0 k1 hops hkinds
    simp only [Bool.and_eq_true, beq_iff_eq, Bool.or_eq_true, Bool.not_eq_true'] at hok
    obtain ⟨-, hR, hA, ra, rb, hkk, n0, n1, m0, m1⟩ := hok
    obtain ⟨A, hmask⟩ := legAgreeOk_spec _ _ hA
    have R := legRuleOk_spec _ _ _ hR
    have hal : alignOps e.rule.oszEff e.rule.ops [.reg k0 r0.toNat, .reg k1 r1.toNat] =
        some [(f0, some (.reg k0 r0.toNat)), (f1, some (.reg k1 r1.toNat))] := by
      rw [hops]
      exact alignOps2 _ _ _ _ _ (by rw [formOpMatches_reg_nofix _ _ _ _ n0]; exact m0) (by rw [formOpMatches_reg_nofix _ _ _ _ n1]; exact m1)
    obtain ⟨hh0, hh1⟩ := hhi k0 k1 hkinds
    refine ⟨k0, k1, hkinds, ?_⟩
    intro hb
    rcases hkk with ⟨a8, b8⟩ | ⟨⟨pa, pb⟩, na8⟩
    · simp only [arithRRemit, a8, ↓reduceIte] at hb
      exact arith8_formOk ctx e.rule (finalOpArith e) r0 r1 k0 k1 f0 f1 hm64 (by simpa using R.hmodes) hmask (is8_spec _ a8) (is8_spec _ b8)
        h0 hh0 h1 hh1 R A ra rb hal bytes hb
    · simp only [arithRRemit, na8, Bool.false_eq_true, ↓reduceIte] at hb
      obtain ⟨bytes', hb', hf⟩ := legR_2reg_formOk ctx e.rule (finalOpArith e) r1 r0 k0 k1 f0 f1 hm64 (by simpa using R.hmodes) hmask h1 h0
        (plainKind_spec _ pa) (plainKind_spec _ pb) R A false (by simp [ra, rb])
        (fun ia ib => by rw [hops]; exact alignOps2 _ _ _ _ _ (by rw [formOpMatches_reg_nofix _ _ _ _ n0]; exact m0) (by rw [formOpMatches_reg_nofix _ _ _ _ n1]; exact m1))
      rw [hb'] at hb
      injection hb with hb
      subst hb
      simpa using hf
  · simp at hok

/-- the class switch reaches exactly `arithRRemit`: register-register operands of equal size, no instruction options -/
theorem dispatch_arith_rr (c : Model.X86.Ctx) (row : Row) (k0 k1 : RegKind) (i0 i1 : Nat) (henc : row.encoding = 0x19 ∨ row.encoding = 0x3d)
    (hk : (is8 k0 = true ∧ is8 k1 = true) ∨ (k0 = k1 ∧ (k0 = .gpw ∨ k0 = .gpd ∨ k0 = .gpq))) :
    dispatch c row 0#32 (.reg (rtypeOf k0) i0) (.reg (rtypeOf k1) i1) .none .none =
      arithRRemit (addArithBySize row.mainOp (kindSize k0)) k0 k1 (r32 i0) (r32 i1) := by
  rcases henc with henc | henc <;> rcases hk with ⟨a, b⟩ | ⟨rfl, h | h | h⟩
  all_goals first
  | (rcases is8_spec _ a with h0 | h0 <;> rcases is8_spec _ b with h1 | h1 <;> subst h0 <;> subst h1 <;>
      simp [dispatch, henc, sig3, Op.kind, Op.id, Op.rmSize, rtypeOf, arithRRemit, is8, kindSize, fixupGpb, fixK, Op.isGp8Hi, oModRM])
  | (subst h; simp [dispatch, henc, sig3, Op.kind, Op.id, Op.rmSize, rtypeOf, arithRRemit, is8, kindSize, oModRM])

/-- `imul reg, reg` (class X86Imul): the class switch hands `0F AF /r` with the operand-size prefix / REX.W to `EmitX86R` (reg = destination) -/
theorem dispatch_imul_rr (c : Model.X86.Ctx) (row : Row) (k : RegKind) (i0 i1 : Nat) (henc : row.encoding = 0x21)
    (hk : k = .gpw ∨ k = .gpd ∨ k = .gpq) :
    dispatch c row 0#32 (.reg (rtypeOf k) i0) (.reg (rtypeOf k) i1) .none .none =
      emitX86R (addPrefixBySize 0x1AF#32 (kindSize k)) 0#32 (r32 i0) (r32 i1) 0 0 := by
  rcases hk with h | h | h <;> subst h <;> simp [dispatch, henc, sig3, Op.kind, Op.id, Op.rmSize, rtypeOf, kindSize]

/-! ### class X86Rot: shift / rotate a register by an 8-bit immediate -/

def legRuleDOk (r : Rule) (nimm pp d : Nat) : Bool :=
  r.modes &&& 2 != 0 && (r.space == 0 && (r.pp &&& 8 == 0 && (((r.pp &&& 1 != 0 || r.osz == 16) == (pp == 1)) && (((r.pp &&& 2 != 0) == (pp == 2)) &&
  (((r.pp &&& 4 != 0) == (pp == 3)) && (pp < 4 && (!r.ri && ((r.modKind == 1 || r.modKind == 2) && (r.modr == d && (r.modrm == 8 &&
  (r.immBytes == nimm && (r.relBytes == 0 && (!r.moff && (!r.a67 && !r.immRev))))))))))))))

theorem legRuleDOk_spec (r : Rule) (n pp d : Nat) (h : legRuleDOk r n pp d = true) : LegRuleD r n pp d := by
  simp only [legRuleDOk, Bool.and_eq_true, Bool.or_eq_true, beq_iff_eq, bne_iff_ne, ne_eq, Bool.not_eq_true', decide_eq_true_eq] at h
  obtain ⟨hmodes, hs, hpp8, h66, hF3, hF2, hpplt, hri, hmk, hmr, hmrm, himm, hrel, hmoff, ha67, hrev⟩ := h
  exact ⟨hmodes, hs, hpp8, by simpa using h66, by simpa using hF3, by simpa using hF2, hpplt, hri, hmk, hmr, hmrm, himm, hrel, hmoff, ha67, hrev⟩

/-- the opcode word of the shift-by-imm8 form: `(main opcode by size) - 0x10` (D0/D1 -> C0/C1), and the `/digit` -/
def finalOpRot (e : Entry) : BitVec 32 := addArithBySize e.mainOp (kindSize (e.kinds.getD 0 .none)) - 0x10#32
def digitOf (e : Entry) : BitVec 32 := (e.mainOp >>> 18) &&& 7#32

def gpKindOk (k : RegKind) : Bool := k == .gpb || k == .gpbhi || plainKind k

theorem gpKindOk_spec (k : RegKind) (h : gpKindOk k = true) : k = .gpb ∨ k = .gpbhi ∨ PlainKind k := by
  simp only [gpKindOk, Bool.or_eq_true, beq_iff_eq] at h
  rcases h with (h | h) | h
  · exact Or.inl h
  · exact Or.inr (Or.inl h)
  · exact Or.inr (Or.inr (plainKind_spec _ h))

def entryOkRot (e : Entry) : Bool :=
  match e.rule.ops, e.kinds with
  | [f0, f3], [k0] =>
    e.enc == 0x37 && (legRuleDOk e.rule 1 ((finalOpRot e >>> 21) &&& 3#32).toNat (digitOf e).toNat && (legAgreeOk e.rule (finalOpRot e) &&
    (f0.role == .rm && (f3.role == .imm && (immBitsOf f3 == 8 && (!(immSignOf f3 == 1) && (gpKindOk k0 &&
    (noFix f0 && formOpMatches e.rule.oszEff f0 (.reg k0 0))))))))) 
  | _, _ => false

theorem rot_entries_ok : lrotChunks.all (fun c => c.all entryOkRot) = true := by decide +kernel

/-- **front_cls_correct, class X86Rot, `op reg, imm8`** (rol / ror / rcl / rcr / shl / shr / sar, imm8 ≠ 1): ALL registers of ALL sizes
including AH..BH and SPL..DIL, every immediate the form admits. (imm8 = 1 selects the separate shift-by-1 opcode, not covered here.) -/
theorem front_cls_correct_rot_imm (e : Entry) (ch : List Entry) (hch : ch ∈ lrotChunks) (he : e ∈ ch)
    (ctx : Spec.X86.Ctx) (r0 : BitVec 32) (imm : BitVec 64) (hm64 : ctx.mode64 = true) (h0 : r0 < 16#32)
    (hhi : ∀ k0, e.kinds = [k0] → k0 = .gpbhi → r0 < 4#32)
    (himm : ∀ f3, e.rule.ops[1]? = some f3 → formOpMatches e.rule.oszEff f3 (.imm imm) = true)
    (bytes : List (BitVec 8)) :
    ∃ k0, e.kinds = [k0] ∧
      (emitX86R (finalOpRot e) (fix1 k0 r0).1 (digitOf e) (fix1 k0 r0).2 imm 1 = .ok bytes →
        formOk ctx e.rule [.reg k0 r0.toNat, .imm imm] {} bytes = true) := by
  have hok := mem_chunks_ok rot_entries_ok e ch hch he
  unfold entryOkRot at hok
  split at hok
  · rename_i f0 f3 k0 hops hkinds
    simp only [Bool.and_eq_true, beq_iff_eq, Bool.not_eq_true'] at hok
    obtain ⟨-, hR, hA, ra, r3, hib, hsg, hk, n0, m0⟩ := hok
    obtain ⟨A, hmask⟩ := legAgreeOk_spec _ _ hA
    have R := legRuleDOk_spec _ _ _ _ hR
    have m3 : formOpMatches e.rule.oszEff f3 (.imm imm) = true := himm f3 (by rw [hops]; rfl)
    have hal : alignOps e.rule.oszEff e.rule.ops [.reg k0 r0.toNat, .imm imm] = some [(f0, some (.reg k0 r0.toNat)), (f3, some (.imm imm))] := by
      rw [hops]
      exact alignOps2 _ _ _ _ _ (by rw [formOpMatches_reg_nofix _ _ _ _ n0]; exact m0) m3
    refine ⟨k0, hkinds, ?_⟩
    intro hb
    have hd : digitOf e < 8#32 := by simp only [digitOf]; bv_decide
    exact rmImm8_formOk ctx e.rule (finalOpRot e) (digitOf e) r0 k0 f0 f3 imm hm64 (by simpa using R.hmodes) hmask (gpKindOk_spec _ hk) hd h0
      (hhi k0 hkinds) R A ra r3 hib hsg hal bytes hb
  · simp at hok

/-- the class switch reaches exactly this emission for `op reg, imm` with (imm & 0xFF) ≠ 1 -/
theorem dispatch_rot_imm (c : Model.X86.Ctx) (row : Row) (k0 : RegKind) (i0 : Nat) (imm : BitVec 64) (henc : row.encoding = 0x37)
    (hk : k0 = .gpb ∨ k0 = .gpbhi ∨ k0 = .gpw ∨ k0 = .gpd ∨ k0 = .gpq) (hne : imm &&& 0xFF#64 ≠ 1#64) :
    dispatch c row 0#32 (.reg (rtypeOf k0) i0) (.imm imm) .none .none =
      emitX86R (addArithBySize row.mainOp (kindSize k0) - 0x10#32) (fix1 k0 (r32 i0)).1 ((row.mainOp >>> 18) &&& 7#32) (fix1 k0 (r32 i0)).2 (imm &&& 0xFF#64) 1 := by
  have hne' : (imm &&& 0xFF#64 == 1#64) = false := by simpa using hne
  rcases hk with h | h | h | h | h <;> subst h <;>
    simp [dispatch, henc, sig3, Op.kind, Op.id, Op.rmSize, Op.immVal, rtypeOf, kindSize, fix1, fixK, fixupGpb, Op.isGp8Hi, hne']

/-! ### class X86Arith: `op r8, imm8` (80 /digit ib), registers other than AL (for AL the class uses the short accumulator form) -/

def entryOkArithI8 (e : Entry) : Bool :=
  match e.rule.ops, e.kinds with
  | [f0, f3], [k0] =>
    e.enc == 0x19 && (legRuleDOk e.rule 1 0 (digitOf e).toNat && (legAgreeOk e.rule 0x80#32 &&
    (f0.role == .rm && (f3.role == .imm && (immBitsOf f3 == 8 && (!(immSignOf f3 == 1) && ((k0 == .gpb || k0 == .gpbhi) &&
    (noFix f0 && formOpMatches e.rule.oszEff f0 (.reg k0 0)))))))))
  | _, _ => false

theorem arithi8_entries_ok : larithi8Chunks.all (fun c => c.all entryOkArithI8) = true := by decide +kernel

/-- **front_cls_correct, class X86Arith, `op r8, imm8`**: ALL 8-bit registers but AL - BL..DL, SPL..DIL (REX), R8B..R15B, AH..BH -
and every 8-bit immediate the form admits. -/
theorem front_cls_correct_arith_r8_imm8 (e : Entry) (ch : List Entry) (hch : ch ∈ larithi8Chunks) (he : e ∈ ch)
    (ctx : Spec.X86.Ctx) (r0 : BitVec 32) (imm : BitVec 64) (hm64 : ctx.mode64 = true) (h0 : r0 < 16#32)
    (hhi : ∀ k0, e.kinds = [k0] → k0 = .gpbhi → r0 < 4#32)
    (himm : ∀ f3, e.rule.ops[1]? = some f3 → formOpMatches e.rule.oszEff f3 (.imm imm) = true)
    (bytes : List (BitVec 8)) :
    ∃ k0, e.kinds = [k0] ∧
      (emitX86R 0x80#32 (fix1 k0 r0).1 (digitOf e) (fix1 k0 r0).2 imm 1 = .ok bytes →
        formOk ctx e.rule [.reg k0 r0.toNat, .imm imm] {} bytes = true) := by
  have hok := mem_chunks_ok arithi8_entries_ok e ch hch he
  unfold entryOkArithI8 at hok
  split at hok
  · rename_i f0 f3 k0 hops hkinds
    simp only [Bool.and_eq_true, beq_iff_eq, Bool.not_eq_true', Bool.or_eq_true] at hok
    obtain ⟨-, hR, hA, ra, r3, hib, hsg, hk, n0, m0⟩ := hok
    obtain ⟨A, hmask⟩ := legAgreeOk_spec _ _ hA
    have R := legRuleDOk_spec _ _ _ _ hR
    have m3 : formOpMatches e.rule.oszEff f3 (.imm imm) = true := himm f3 (by rw [hops]; rfl)
    have hal : alignOps e.rule.oszEff e.rule.ops [.reg k0 r0.toNat, .imm imm] = some [(f0, some (.reg k0 r0.toNat)), (f3, some (.imm imm))] := by
      rw [hops]
      exact alignOps2 _ _ _ _ _ (by rw [formOpMatches_reg_nofix _ _ _ _ n0]; exact m0) m3
    refine ⟨k0, hkinds, ?_⟩
    intro hb
    have hd : digitOf e < 8#32 := by simp only [digitOf]; bv_decide
    have hk' : k0 = .gpb ∨ k0 = .gpbhi ∨ PlainKind k0 := by rcases hk with h | h; exact Or.inl h; exact Or.inr (Or.inl h)
    exact rmImm8_formOk ctx e.rule 0x80#32 (digitOf e) r0 k0 f0 f3 imm hm64 (by simpa using R.hmodes) hmask hk' hd h0
      (hhi k0 hkinds) R A ra r3 hib hsg hal bytes hb
  · simp at hok

/-- the class switch reaches exactly this emission for `op r8, imm8` when the register is not AL -/
theorem dispatch_arith_r8_imm8 (c : Model.X86.Ctx) (row : Row) (k0 : RegKind) (i0 : Nat) (imm : BitVec 64) (henc : row.encoding = 0x19)
    (hk : k0 = .gpb ∨ k0 = .gpbhi) (hne : (fix1 k0 (r32 i0)).2 ≠ 0#32) :
    dispatch c row 0#32 (.reg (rtypeOf k0) i0) (.imm imm) .none .none =
      emitX86R 0x80#32 (fix1 k0 (r32 i0)).1 ((row.mainOp >>> 18) &&& 7#32) (fix1 k0 (r32 i0)).2 imm 1 := by
  rcases hk with h | h <;> subst h
  · have hne' : ((fixupGpb 0#32 (Op.reg 2 i0) (r32 i0)).2 == 0#32) = false := by
      simpa [fix1, fixK, fixupGpb, Op.isGp8Hi] using hne
    simp [dispatch, henc, sig3, Op.kind, Op.id, Op.rmSize, Op.immVal, rtypeOf, fix1, fixK, hne']
    simp [fixupGpb, Op.isGp8Hi]
  · have hne' : ((fixupGpb 0#32 (Op.reg 3 i0) (r32 i0)).2 == 0#32) = false := by
      simpa [fix1, fixK, fixupGpb, Op.isGp8Hi] using hne
    simp [dispatch, henc, sig3, Op.kind, Op.id, Op.rmSize, Op.immVal, rtypeOf, fix1, fixK, hne']
    simp [fixupGpb, Op.isGp8Hi]

/-! ### class X86Arith: `op r16/r32/r64, imm` - 83 /d ib (sign-extended imm8) and 81 /d iw|id (imm32 sign-extended under REX.W) -/

/-- the opcode word before the form choice: 0x80 with the operand-size prefix / REX.W of the register size -/
def arithImmBase (e : Entry) : BitVec 32 :=
  let s := kindSize (e.kinds.getD 0 .none)
  if s == 2 then 0x80#32 ||| kPP_66 else if s == 8 then 0x80#32 ||| kW else 0x80#32

/-- the immediate as the class passes it on: sign-extended from 32 bits for 32-bit registers -/
def arithImm1 (e : Entry) (v : BitVec 64) : BitVec 64 := if kindSize (e.kinds.getD 0 .none) == 4 then signExtendInt32 v else v

/-- the monitor's choice between "sign-extended value modulo the operand size" and "plain bytes" for the immediate of a form -/
def immSignCase (r : Rule) (f3 : FormOp) : Bool := immSignOf f3 == 1 && r.oszEff != 0 && 8 * immBytesOf (immBitsOf f3) < r.oszEff

def entryOkArithImm (e : Entry) : Bool :=
  match e.rule.ops, e.kinds with
  | [f0, f3], [k0] =>
    let s := kindSize k0
    -- `and r64, immu32` (zero-extending 32-bit form chosen by an encoding option) is a separate path of the class: not covered
    (k0 == .gpq && immSignOf f3 == 2) ||
    (e.enc == 0x19 && ((s == 2 || s == 4 || s == 8) && (plainKind k0 && (f0.role == .rm && (f3.role == .imm && (noFix f0 && (formOpMatches e.rule.oszEff f0 (.reg k0 0) &&
    (!e.rule.immRev &&
    ((immBitsOf f3 == 8 && (immSignCase e.rule f3 && (e.rule.oszEff == 8 * s && (legRuleDOk e.rule 1 (((arithImmBase e + 3#32) >>> 21) &&& 3#32).toNat (digitOf e).toNat &&
        legAgreeOk e.rule (arithImmBase e + 3#32))))) ||
     (immBitsOf f3 == 8 * min s 4 && (immBitsOf f3 != 8 && ((!immSignCase e.rule f3 || (s == 8 && e.rule.oszEff == 64)) &&
        (legRuleDOk e.rule (min s 4) (((arithImmBase e + 1#32) >>> 21) &&& 3#32).toNat (digitOf e).toNat && legAgreeOk e.rule (arithImmBase e + 1#32))))))))))))))
  | _, _ => false

theorem arithimm_entries_ok : larithimmChunks.all (fun c => c.all entryOkArithImm) = true := by decide +kernel

/-- every imm8 form of the chunk is a sign-extended one -/
theorem arithimm8_sign_ok : larithimmChunks.all (fun c => c.all (fun e => match e.rule.ops with | [_, f3] => immBitsOf f3 != 8 || immSignOf f3 == 1 | _ => true)) = true := by decide +kernel

theorem sext32_low (v : BitVec 64) : (signExtendInt32 v).toNat % 2 ^ 32 = v.toNat % 2 ^ 32 := by
  have h : (signExtendInt32 v).truncate 32 = (v.truncate 32 : BitVec 32) := by simp only [signExtendInt32]; bv_decide
  have := congrArg BitVec.toNat h
  simpa [BitVec.truncate, BitVec.toNat_setWidth] using this

theorem leNat_leBytes4 (a : Nat) : leNat (leBytes a 4) = a % 2 ^ 32 := by
  simp only [leBytes, leNat, BitVec.toNat_ofNat]
  omega

theorem take_emitImmediate (x : BitVec 64) (n : Nat) : (emitImmediate x n).take n = emitImmediate x n := by
  have := (imm_le_exact x n).1
  exact List.take_of_length_le (by omega)

/-- **front_cls_correct, class X86Arith, `op r16/r32/r64, imm8` (83 /d ib, sign-extended)**: ALL registers 0..15, every immediate that the class
encodes in this form (`isInt8` of the value, after sign-extension from 32 bits for a 32-bit register). -/
theorem front_cls_correct_arith_imm8s (e : Entry) (ch : List Entry) (hch : ch ∈ larithimmChunks) (he : e ∈ ch)
    (ctx : Spec.X86.Ctx) (r0 : BitVec 32) (v : BitVec 64) (hm64 : ctx.mode64 = true) (h0 : r0 < 16#32)
    (h8 : ∀ f3, e.rule.ops[1]? = some f3 → immBitsOf f3 = 8)
    (himm : ∀ f3, e.rule.ops[1]? = some f3 → formOpMatches e.rule.oszEff f3 (.imm v) = true)
    (hfit : isInt8of64 (arithImm1 e v) = true) :
    ∃ bytes k0, e.kinds = [k0] ∧ emitX86R (arithImmBase e + 3#32) 0#32 (digitOf e) r0 (arithImm1 e v) 1 = .ok bytes ∧
      formOk ctx e.rule [.reg k0 r0.toNat, .imm v] {} bytes = true := by
  have hok := mem_chunks_ok arithimm_entries_ok e ch hch he
  unfold entryOkArithImm at hok
  split at hok
  · rename_i f0 f3 k0 hops hkinds
    have hb8 : immBitsOf f3 = 8 := h8 f3 (by rw [hops]; rfl)
    have m3 : formOpMatches e.rule.oszEff f3 (.imm v) = true := himm f3 (by rw [hops]; rfl)
    simp only [hb8, Bool.and_eq_true, Bool.or_eq_true, beq_iff_eq, bne_iff_ne, ne_eq, Bool.not_eq_true', decide_eq_true_eq] at hok
    rcases hok with ⟨hq, h32⟩ | ⟨-, hs, pk, ra, r3, n0, m0, hrev, hcase⟩
    · exfalso
      have h1 : immSignOf f3 = 1 := by
        have hall := mem_chunks_ok arithimm8_sign_ok e ch hch he
        simp only [hops, hb8] at hall
        simpa using hall
      omega
    · rcases hcase with ⟨-, hsc, hosz, hR, hA⟩ | ⟨hbad, hne, -⟩
      · obtain ⟨A, hmask⟩ := legAgreeOk_spec _ _ hA
        have R := legRuleDOk_spec _ _ _ _ hR
        have hal : alignOps e.rule.oszEff e.rule.ops [.reg k0 r0.toNat, .imm v] = some [(f0, some (.reg k0 r0.toNat)), (f3, some (.imm v))] := by
          rw [hops]
          exact alignOps2 _ _ _ _ _ (by rw [formOpMatches_reg_nofix _ _ _ _ n0]; exact m0) m3
        have hd : digitOf e < 8#32 := by simp only [digitOf]; bv_decide
        obtain ⟨bytes, hb, hf⟩ := rmImm_formOk ctx e.rule (arithImmBase e + 3#32) (digitOf e) r0 k0 f0 f3 v (arithImm1 e v) 1 hm64 (by simpa using R.hmodes) hmask
          (plainKind_spec _ pk) hd h0 R A ra (by
            intro p hp
            refine immConds_ok ctx e.rule p f3 v r3 (by rw [hb8]; decide) hrev ?_
            have hsc' : (immSignOf f3 == 1 && e.rule.oszEff != 0 && decide (8 * immBytesOf (immBitsOf f3) < e.rule.oszEff)) = true := by
              simpa [immSignCase] using hsc
            rw [hsc', hb8]
            simp only [↓reduceIte, decide_eq_true_eq, immBytesOf, show (8:Nat) ≤ 8 from Nat.le_refl 8, hp, emitImmediate, List.take, leNat, Nat.mul_zero, Nat.add_zero, Nat.mul_one]
            obtain ⟨a64, a32, a16⟩ := sext8_mod (arithImm1 e v) hfit
            simp only [arithImm1, hkinds, List.getD_cons_zero] at a64 a32 a16 hfit ⊢
            rw [hosz]
            rcases hs with (hs | hs) | hs <;> rw [hs] at a64 a32 a16 ⊢
            · simpa using a16
            · simp only [beq_self_eq_true, ↓reduceIte] at a32 ⊢
              rw [sext32_low] at a32
              simpa using a32
            · simpa using a64) hal
        exact ⟨bytes, k0, hkinds, hb, hf⟩
      · exact absurd trivial hne
  · simp at hok

/-- **front_cls_correct, class X86Arith, `op r16/r32/r64, imm16/imm32` (81 /d iw|id; imm32 sign-extended under REX.W)**: ALL registers 0..15;
for a 64-bit register the immediate must be representable as a sign-extended imm32 (otherwise the class refuses). The form is used when the
immediate does not fit the sign-extended imm8 form; the accumulator has its own short form (a separate path of the class). -/
theorem front_cls_correct_arith_imm (e : Entry) (ch : List Entry) (hch : ch ∈ larithimmChunks) (he : e ∈ ch)
    (ctx : Spec.X86.Ctx) (r0 : BitVec 32) (v : BitVec 64) (hm64 : ctx.mode64 = true) (h0 : r0 < 16#32)
    (hn8 : ∀ f3, e.rule.ops[1]? = some f3 → immBitsOf f3 ≠ 8)
    (hnz : ∀ f3, e.rule.ops[1]? = some f3 → ¬ (e.kinds = [.gpq] ∧ immSignOf f3 = 2))
    (himm : ∀ f3, e.rule.ops[1]? = some f3 → formOpMatches e.rule.oszEff f3 (.imm v) = true)
    (hfit : kindSize (e.kinds.getD 0 .none) = 8 → isInt32of64 v = true) :
    ∃ bytes k0, e.kinds = [k0] ∧
      emitX86R (arithImmBase e + 1#32) 0#32 (digitOf e) r0 (arithImm1 e v) (min (kindSize k0) 4) = .ok bytes ∧
      formOk ctx e.rule [.reg k0 r0.toNat, .imm v] {} bytes = true := by
  have hok := mem_chunks_ok arithimm_entries_ok e ch hch he
  unfold entryOkArithImm at hok
  split at hok
  · rename_i f0 f3 k0 hops hkinds
    have hb8 : immBitsOf f3 ≠ 8 := hn8 f3 (by rw [hops]; rfl)
    have hz := hnz f3 (by rw [hops]; rfl)
    have m3 : formOpMatches e.rule.oszEff f3 (.imm v) = true := himm f3 (by rw [hops]; rfl)
    simp only [Bool.and_eq_true, Bool.or_eq_true, beq_iff_eq, bne_iff_ne, ne_eq, Bool.not_eq_true', decide_eq_true_eq] at hok
    rcases hok with ⟨hq, h32⟩ | ⟨-, hs, pk, ra, r3, n0, m0, hrev, hcase⟩
    · exact absurd ⟨by rw [hkinds, hq], h32⟩ hz
    · rcases hcase with ⟨h8', -⟩ | ⟨hnb, -, hscase, hR, hA⟩
      · exact absurd h8' hb8
      · obtain ⟨A, hmask⟩ := legAgreeOk_spec _ _ hA
        have R := legRuleDOk_spec _ _ _ _ hR
        have hal : alignOps e.rule.oszEff e.rule.ops [.reg k0 r0.toNat, .imm v] = some [(f0, some (.reg k0 r0.toNat)), (f3, some (.imm v))] := by
          rw [hops]
          exact alignOps2 _ _ _ _ _ (by rw [formOpMatches_reg_nofix _ _ _ _ n0]; exact m0) m3
        have hd : digitOf e < 8#32 := by simp only [digitOf]; bv_decide
        have hfit' : kindSize k0 = 8 → isInt32of64 v = true := by simpa [hkinds] using hfit
        have hn : immBytesOf (immBitsOf f3) = min (kindSize k0) 4 := by
          rw [hnb]; rcases hs with (hs | hs) | hs <;> rw [hs] <;> decide
        have hn4 : immBitsOf f3 ≠ 4 := by rw [hnb]; rcases hs with (hs | hs) | hs <;> rw [hs] <;> decide
        obtain ⟨bytes, hb, hf⟩ := rmImm_formOk ctx e.rule (arithImmBase e + 1#32) (digitOf e) r0 k0 f0 f3 v (arithImm1 e v) (min (kindSize k0) 4) hm64
          (by simpa using R.hmodes) hmask (plainKind_spec _ pk) hd h0 R A ra (by
            intro p hp
            refine immConds_ok ctx e.rule p f3 v r3 hn4 hrev ?_
            rw [hn, hp, take_emitImmediate]
            have hsc : (immSignOf f3 == 1 && e.rule.oszEff != 0 && decide (8 * min (kindSize k0) 4 < e.rule.oszEff)) = immSignCase e.rule f3 := by
              simp [immSignCase, hn]
            rw [hsc]
            rcases hscase with hsf | ⟨hs8, hosz⟩
            · -- plain bytes
              rw [hsf]
              simp only [Bool.false_eq_true, ↓reduceIte, beq_iff_eq]
              simp only [arithImm1, hkinds, List.getD_cons_zero]
              rcases hs with (hs | hs) | hs <;> rw [hs]
              · simp [emitImmediate_leBytes]
              · simp only [beq_self_eq_true, ↓reduceIte, show min 4 4 = 4 from rfl]
                rw [emitImmediate_sext32, emitImmediate_leBytes]
              · simp [emitImmediate_leBytes]
            · -- sign-extended imm32 under REX.W (or plain bytes when the monitor's case is the other one)
              cases hsc2 : immSignCase e.rule f3
              · simp only [Bool.false_eq_true, ↓reduceIte, beq_iff_eq]
                simp only [arithImm1, hkinds, List.getD_cons_zero, hs8]
                simp [emitImmediate_leBytes]
              · simp only [↓reduceIte, decide_eq_true_eq]
                simp only [arithImm1, hkinds, List.getD_cons_zero, hs8, hosz]
                simp only [show ((8:Nat) == 4) = false from rfl, Bool.false_eq_true, ↓reduceIte, show min 8 4 = 4 from rfl]
                rw [emitImmediate_leBytes, leNat_leBytes4]
                have := sext32_mod v (hfit' hs8)
                simpa using this) hal
        exact ⟨bytes, k0, hkinds, hb, hf⟩
  · simp at hok

/-- the class switch reaches exactly these emissions for `op reg, imm` with a 16 / 32 / 64-bit register -/
theorem dispatch_arith_imm (c : Model.X86.Ctx) (row : Row) (k : RegKind) (i : Nat) (v : BitVec 64) (henc : row.encoding = 0x19)
    (hk : k = .gpw ∨ k = .gpd ∨ k = .gpq)
    (hfit : k = .gpq → isInt32of64 v = true) :
    let imm1 := if kindSize k == 4 then signExtendInt32 v else v
    let opc : BitVec 32 := if kindSize k == 2 then 0x80#32 ||| kPP_66 else if kindSize k == 8 then 0x80#32 ||| kW else 0x80#32
    (isInt8of64 imm1 = true → dispatch c row 0#32 (.reg (rtypeOf k) i) (.imm v) .none .none =
        emitX86R (opc + 3#32) 0#32 ((row.mainOp >>> 18) &&& 7#32) (r32 i) imm1 1) ∧
    (isInt8of64 imm1 = false → r32 i ≠ 0#32 → dispatch c row 0#32 (.reg (rtypeOf k) i) (.imm v) .none .none =
        emitX86R (opc + 1#32) 0#32 ((row.mainOp >>> 18) &&& 7#32) (r32 i) imm1 (min (kindSize k) 4)) := by
  intro imm1 opc
  have hks : kindSize .gpw = 2 ∧ kindSize .gpd = 4 ∧ kindSize .gpq = 8 := by decide
  rcases hk with h | h | h <;> subst h <;> refine ⟨fun h8 => ?_, fun h8 hr => ?_⟩
  all_goals first
    | (have hr' : (r32 i == 0#32) = false := by simpa using hr
       simp only [imm1, opc, hks.1, hks.2.1, hks.2.2] at h8 ⊢
       simp at h8
       simp [dispatch, henc, sig3, Op.kind, Op.id, Op.rmSize, Op.immVal, rtypeOf, h8, hr', oLongForm, hfit, kPP_66, kW])
    | (simp only [imm1, opc, hks.1, hks.2.1, hks.2.2] at h8 ⊢
       simp at h8
       simp [dispatch, henc, sig3, Op.kind, Op.id, Op.rmSize, Op.immVal, rtypeOf, h8, oLongForm, hfit, kPP_66, kW])

/-! ### classes X86Arith / X86Test: accumulator short forms `op al|ax|eax|rax, imm` (`EmitX86Op` with an immediate, no ModRM) -/

/-- the opcode word of the accumulator short form: operand-size prefix / REX.W of the register size, `(digit << 3) | 4|5` (X86Arith) or `A8|A9` (X86Test) -/
def accOpcOf (enc s : Nat) (d : BitVec 32) : BitVec 32 :=
  let pw : BitVec 32 := if s == 2 then kPP_66 else if s == 8 then kW else 0#32
  if enc == 0x19 then pw ||| ((d <<< 3) ||| (if s == 1 then 0x04#32 else 0x05#32))
  else pw ||| (0xA8#32 + (if s != 1 then 1#32 else 0#32))

def accOpcode (e : Entry) : BitVec 32 := accOpcOf e.enc (kindSize (e.kinds.getD 0 .none)) (digitOf e)

/-- the immediate as the classes pass it on -/
def accImmOf (enc s : Nat) (v : BitVec 64) : BitVec 64 :=
  if enc == 0x19 then (if s == 4 then signExtendInt32 v else v) else (if s == 1 then v &&& 0xFF#64 else v)

def entryOkAccImm (e : Entry) : Bool :=
  match e.rule.ops, e.kinds with
  | [f0, f3], [k0] =>
    let s := kindSize k0
    let r := e.rule
    let pp := ((accOpcode e >>> 21) &&& 3#32).toNat
    -- `and rax, immu32` (the zero-extending 32-bit form) is a separate path of the class: not covered
    (k0 == .gpq && immSignOf f3 == 2) ||
    ((e.enc == 0x19 || (e.enc == 0x3D && e.altOp &&& 0x8200000#32 == 0#32)) && ((s == 1 || s == 2 || s == 4 || s == 8) && (f0.role == .none && (f3.role == .imm && (formOpMatches r.oszEff f0 (.reg k0 0) &&
    (!r.immRev && (immBitsOf f3 == 8 * min s 4 && ((!immSignCase r f3 || (s == 8 && r.oszEff == 64)) &&
    (r.modes &&& 2 != 0 && (r.space == 0 && (r.pp &&& 8 == 0 && (((r.pp &&& 1 != 0 || r.osz == 16) == (pp == 1)) && (((r.pp &&& 2 != 0) == (pp == 2)) &&
    (((r.pp &&& 4 != 0) == (pp == 3)) && (!r.ri && (!r.a67 && (r.modKind == 0 && (r.immBytes == min s 4 && (r.relBytes == 0 && (!r.moff &&
    legAgreeOk r (accOpcode e)))))))))))))))))))))
  | _, _ => false

theorem accimm_entries_ok : laccimmChunks.all (fun c => c.all entryOkAccImm) = true := by decide +kernel

theorem emitImmediate_and8 (v : BitVec 64) : emitImmediate (v &&& 0xFF#64) 1 = emitImmediate v 1 := by
  simp only [emitImmediate]
  have : BitVec.truncate 8 (v &&& 0xFF#64) = BitVec.truncate 8 v := by bv_decide
  rw [this]

/-- the immediate bytes of the short form are the low bytes of the operand value -/
theorem accImm_bytes (enc s : Nat) (v : BitVec 64) (hs : s = 1 ∨ s = 2 ∨ s = 4 ∨ s = 8) :
    emitImmediate (accImmOf enc s v) (min s 4) = leBytes v.toNat (min s 4) := by
  rw [← emitImmediate_leBytes]
  unfold accImmOf
  rcases hs with h | h | h | h <;> subst h <;> split <;> simp [emitImmediate_sext32, emitImmediate_and8]

/-- **front_cls_correct, classes X86Arith / X86Test, accumulator short forms** `op al, imm8` (04+8d ib / A8 ib), `op ax|eax, imm16|imm32`
(05+8d iw|id / A9 iw|id) and `op rax, imm32` (REX.W, sign-extended; the immediate must be representable): every immediate value. -/
theorem front_cls_correct_acc_imm (e : Entry) (ch : List Entry) (hch : ch ∈ laccimmChunks) (he : e ∈ ch)
    (ctx : Spec.X86.Ctx) (v : BitVec 64) (hm64 : ctx.mode64 = true)
    (hnz : ∀ f3, e.rule.ops[1]? = some f3 → ¬ (e.kinds = [.gpq] ∧ immSignOf f3 = 2))
    (himm : ∀ f3, e.rule.ops[1]? = some f3 → formOpMatches e.rule.oszEff f3 (.imm v) = true)
    (hfit : kindSize (e.kinds.getD 0 .none) = 8 → isInt32of64 v = true) :
    ∃ bytes k0, e.kinds = [k0] ∧
      emitX86Op (accOpcode e) 0#32 (accImmOf e.enc (kindSize k0) v) (min (kindSize k0) 4) = .ok bytes ∧
      formOk ctx e.rule [.reg k0 0, .imm v] {} bytes = true := by
  have hok := mem_chunks_ok accimm_entries_ok e ch hch he
  unfold entryOkAccImm at hok
  split at hok
  · rename_i f0 f3 k0 hops hkinds
    have hz := hnz f3 (by rw [hops]; rfl)
    have m3 : formOpMatches e.rule.oszEff f3 (.imm v) = true := himm f3 (by rw [hops]; rfl)
    simp only [Bool.and_eq_true, Bool.or_eq_true, beq_iff_eq, bne_iff_ne, ne_eq, Bool.not_eq_true', decide_eq_true_eq] at hok
    rcases hok with ⟨hq, h32⟩ | ⟨-, hs, r0, r3, m0, hrev, hnb, hscase, hmodes, hsp, hpp8, h66, hF3, hF2, hri, ha67, hmk, hib, hrel, hmoff, hA⟩
    · exact absurd ⟨by rw [hkinds, hq], h32⟩ hz
    · obtain ⟨A, hmask⟩ := legAgreeOk_spec _ _ hA
      have hs' : kindSize k0 = 1 ∨ kindSize k0 = 2 ∨ kindSize k0 = 4 ∨ kindSize k0 = 8 := by omega
      have hal : alignOps e.rule.oszEff e.rule.ops [.reg k0 0, .imm v] = some [(f0, some (.reg k0 0)), (f3, some (.imm v))] := by
        rw [hops]
        exact alignOps2 _ _ _ _ _ m0 m3
      have hfit' : kindSize k0 = 8 → isInt32of64 v = true := by simpa [hkinds] using hfit
      have hn : immBytesOf (immBitsOf f3) = min (kindSize k0) 4 := by
        rw [hnb]; rcases hs' with hs | hs | hs | hs <;> rw [hs] <;> decide
      have hn4 : immBitsOf f3 ≠ 4 := by rw [hnb]; rcases hs' with hs | hs | hs | hs <;> rw [hs] <;> decide
      obtain ⟨bytes, hb, hf⟩ := accImm_formOk ctx e.rule (accOpcode e) k0 f0 f3 0 v (accImmOf e.enc (kindSize k0) v) (min (kindSize k0) 4) hm64
        (by simpa using hmodes) hmask hsp hpp8 (by simpa using h66) (by simpa using hF3) (by simpa using hF2) hri ha67 hmk hib hrel hmoff A r0 (by
          intro p hp
          refine immConds_ok ctx e.rule p f3 v r3 hn4 hrev ?_
          rw [hn, hp, take_emitImmediate, accImm_bytes _ _ _ hs']
          have hsc : (immSignOf f3 == 1 && e.rule.oszEff != 0 && decide (8 * min (kindSize k0) 4 < e.rule.oszEff)) = immSignCase e.rule f3 := by
            simp [immSignCase, hn]
          rw [hsc]
          rcases hscase with hsf | ⟨hs8, hosz⟩
          · rw [hsf]; simp
          · cases hsc2 : immSignCase e.rule f3
            · simp
            · simp only [↓reduceIte, decide_eq_true_eq]
              simp only [hs8, hosz, show min 8 4 = 4 from rfl]
              rw [leNat_leBytes4]
              have := sext32_mod v (hfit' hs8)
              simpa using this) hal
      exact ⟨bytes, k0, hkinds, hb, hf⟩
  · simp at hok

/-- the class switch reaches exactly these emissions for `op acc, imm` (no encoding options): X86Arith with AL always, with AX / EAX / RAX when
the immediate does not fit the sign-extended imm8 form (which is shorter and preferred) -/
theorem dispatch_arith_acc (c : Model.X86.Ctx) (row : Row) (k : RegKind) (v : BitVec 64) (henc : row.encoding = 0x19)
    (hk : k = .gpb ∨ k = .gpw ∨ k = .gpd ∨ k = .gpq)
    (hfit : k = .gpq → isInt32of64 v = true)
    (hn8 : k ≠ .gpb → isInt8of64 (accImmOf 0x19 (kindSize k) v) = false) :
    dispatch c row 0#32 (.reg (rtypeOf k) 0) (.imm v) .none .none =
      emitX86Op (accOpcOf 0x19 (kindSize k) ((row.mainOp >>> 18) &&& 7#32)) 0#32 (accImmOf 0x19 (kindSize k) v) (min (kindSize k) 4) := by
  have hks : kindSize .gpb = 1 ∧ kindSize .gpw = 2 ∧ kindSize .gpd = 4 ∧ kindSize .gpq = 8 := by decide
  rcases hk with h | h | h | h <;> subst h
  · simp [dispatch, henc, sig3, Op.kind, Op.id, Op.rmSize, Op.immVal, rtypeOf, hks.1, accOpcOf, accImmOf, fixupGpb, Op.isGp8Hi, oLongForm, r32, kPP_66, kW]
  all_goals
    (have h8 := hn8 (by decide)
     simp only [accImmOf, hks.2.1, hks.2.2.1, hks.2.2.2] at h8 ⊢
     simp at h8
     simp [dispatch, henc, sig3, Op.kind, Op.id, Op.rmSize, Op.immVal, rtypeOf, h8, accOpcOf, oLongForm, hfit, r32, kPP_66, kW])

/-- class X86Test: `test acc, imm` always takes the short form (`halt`: the alternative opcode of the row carries no prefix / W bits - part of `entryOkAccImm`) -/
theorem dispatch_test_acc (c : Model.X86.Ctx) (row : Row) (k : RegKind) (v : BitVec 64) (henc : row.encoding = 0x3d)
    (hk : k = .gpb ∨ k = .gpw ∨ k = .gpd ∨ k = .gpq) (halt : row.altOp &&& 0x8200000#32 = 0#32) :
    dispatch c row 0#32 (.reg (rtypeOf k) 0) (.imm v) .none .none =
      emitX86Op (accOpcOf 0x3d (kindSize k) 0#32) 0#32 (accImmOf 0x3d (kindSize k) v) (min (kindSize k) 4) := by
  have hks : kindSize .gpb = 1 ∧ kindSize .gpw = 2 ∧ kindSize .gpd = 4 ∧ kindSize .gpq = 8 := by decide
  rcases hk with h | h | h | h <;> subst h <;>
    simp [dispatch, henc, sig3, Op.kind, Op.id, Op.rmSize, Op.immVal, rtypeOf, hks.1, hks.2.1, hks.2.2.1, hks.2.2.2, accOpcOf, accImmOf, fixupGpb, Op.isGp8Hi,
      oLongForm, r32, addArithBySize, kPP_66, kW] <;> congr 1 <;> bv_decide

/-! ### class X86Rot: shift / rotate a register by CL (`D2|D3 /d`) or by 1 (`D0|D1 /d`) -/

/-- the form's second operand is the fixed register CL (otherwise it is the implied constant 1) -/
def clEntry (e : Entry) : Bool :=
  match e.rule.ops with
  | [_, f1] => formOpMatches e.rule.oszEff f1 (.reg .gpb 1)
  | _ => false

/-- the opcode word: main opcode by size (`D0|D1`), `+ 2` for the shift by CL -/
def rotXOpc (e : Entry) : BitVec 32 :=
  addArithBySize e.mainOp (kindSize (e.kinds.getD 0 .none)) + (if clEntry e then 2#32 else 0#32)

def entryOkRotX (e : Entry) : Bool :=
  match e.rule.ops, e.kinds with
  | [f0, f1], [k0] =>
    e.enc == 0x37 && (legRuleDOk e.rule 0 ((rotXOpc e >>> 21) &&& 3#32).toNat (digitOf e).toNat && (legAgreeOk e.rule (rotXOpc e) &&
    (f0.role == .rm && (f1.role == .none && (gpKindOk k0 && (noFix f0 && formOpMatches e.rule.oszEff f0 (.reg k0 0)))))))
  | _, _ => false

theorem rotx_entries_ok : lrotxChunks.all (fun c => c.all entryOkRotX) = true := by decide +kernel

/-- **front_cls_correct, class X86Rot, `op reg, cl` and `op reg, 1`** (rol / ror / rcl / rcr / shl / shr / sar): ALL registers of ALL sizes
including AH..BH and SPL..DIL; the second operand is whatever the form's fixed operand admits (the register CL, resp. the constant 1) and is
not encoded. -/
theorem front_cls_correct_rot_x (e : Entry) (ch : List Entry) (hch : ch ∈ lrotxChunks) (he : e ∈ ch)
    (ctx : Spec.X86.Ctx) (r0 : BitVec 32) (o1 : Operand) (imm : BitVec 64) (hm64 : ctx.mode64 = true) (h0 : r0 < 16#32)
    (hhi : ∀ k0, e.kinds = [k0] → k0 = .gpbhi → r0 < 4#32)
    (ho1 : (∃ v, o1 = .imm v) ∨ (∃ k i, o1 = .reg k i))
    (hm1 : ∀ f1, e.rule.ops[1]? = some f1 → formOpMatches e.rule.oszEff f1 o1 = true)
    (bytes : List (BitVec 8)) :
    ∃ k0, e.kinds = [k0] ∧
      (emitX86R (rotXOpc e) (fix1 k0 r0).1 (digitOf e) (fix1 k0 r0).2 imm 0 = .ok bytes →
        formOk ctx e.rule [.reg k0 r0.toNat, o1] {} bytes = true) := by
  have hok := mem_chunks_ok rotx_entries_ok e ch hch he
  unfold entryOkRotX at hok
  split at hok
  · rename_i f0 f1 k0 hops hkinds
    simp only [Bool.and_eq_true, beq_iff_eq, Bool.not_eq_true'] at hok
    obtain ⟨-, hR, hA, ra, r1, hk, n0, m0⟩ := hok
    obtain ⟨A, hmask⟩ := legAgreeOk_spec _ _ hA
    have R := legRuleDOk_spec _ _ _ _ hR
    have m1 : formOpMatches e.rule.oszEff f1 o1 = true := hm1 f1 (by rw [hops]; rfl)
    have hal : alignOps e.rule.oszEff e.rule.ops [.reg k0 r0.toNat, o1] = some [(f0, some (.reg k0 r0.toNat)), (f1, some o1)] := by
      rw [hops]
      exact alignOps2 _ _ _ _ _ (by rw [formOpMatches_reg_nofix _ _ _ _ n0]; exact m0) m1
    refine ⟨k0, hkinds, ?_⟩
    intro hb
    have hd : digitOf e < 8#32 := by simp only [digitOf]; bv_decide
    exact rmAny_formOk ctx e.rule (rotXOpc e) (digitOf e) r0 k0 f0 f1 o1 imm 0 hm64 (by simpa using R.hmodes) hmask (gpKindOk_spec _ hk) hd h0
      (hhi k0 hkinds) R A ra ho1 (by intro p _; simp [opConds, r1, allOk]) hal bytes hb
  · simp at hok

/-- the class switch reaches exactly this emission for `op reg, cl` -/
theorem dispatch_rot_cl (c : Model.X86.Ctx) (row : Row) (k0 : RegKind) (i0 : Nat) (henc : row.encoding = 0x37)
    (hk : k0 = .gpb ∨ k0 = .gpbhi ∨ k0 = .gpw ∨ k0 = .gpd ∨ k0 = .gpq) :
    dispatch c row 0#32 (.reg (rtypeOf k0) i0) (.reg (rtypeOf .gpb) 1) .none .none =
      emitX86R (addArithBySize row.mainOp (kindSize k0) + 2#32) (fix1 k0 (r32 i0)).1 ((row.mainOp >>> 18) &&& 7#32) (fix1 k0 (r32 i0)).2 0 0 := by
  rcases hk with h | h | h | h | h <;> subst h <;>
    simp [dispatch, henc, sig3, Op.kind, Op.id, Op.rmSize, Op.immVal, rtypeOf, kindSize, fix1, fixK, fixupGpb, Op.isGp8Hi]

/-- the class switch reaches exactly this emission for `op reg, imm` with (imm & 0xFF) = 1 (no encoding options): the short shift-by-1 form,
no immediate byte -/
theorem dispatch_rot_1 (c : Model.X86.Ctx) (row : Row) (k0 : RegKind) (i0 : Nat) (imm : BitVec 64) (henc : row.encoding = 0x37)
    (hk : k0 = .gpb ∨ k0 = .gpbhi ∨ k0 = .gpw ∨ k0 = .gpd ∨ k0 = .gpq) (h1 : imm &&& 0xFF#64 = 1#64) :
    dispatch c row 0#32 (.reg (rtypeOf k0) i0) (.imm imm) .none .none =
      emitX86R (addArithBySize row.mainOp (kindSize k0)) (fix1 k0 (r32 i0)).1 ((row.mainOp >>> 18) &&& 7#32) (fix1 k0 (r32 i0)).2 (imm &&& 0xFF#64) 0 := by
  rcases hk with h | h | h | h | h <;> subst h <;>
    simp [dispatch, henc, sig3, Op.kind, Op.id, Op.rmSize, Op.immVal, rtypeOf, kindSize, fix1, fixK, fixupGpb, Op.isGp8Hi, h1, oLongForm]

end AsmjitVerif.Props.C01
