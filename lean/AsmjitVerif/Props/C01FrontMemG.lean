import AsmjitVerif.Props.C01FrontMem
/-!
# C01 — what the parser makes of EVEX / VEX3 / VEX2 bytes followed by ANY ModRM / SIB / displacement bytes of a memory form

Generic in the address form: `xb` packs the two extension bits the prefix carries for the memory operand (bit 3 = B = base[3], bit 4 = X = index[3]);
`mb`, `sib`, `ds` are arbitrary bytes with the shape of a memory ModRM (mod ≠ 3, SIB iff rm = 100, displacement length by mod).
The address-form specific lemmas then only have to relate (`mb`, `sib`, `ds`, B, X) to the operand (`checkMem`).
-/
set_option linter.constructorNameAsVariable false
set_option linter.unusedSimpArgs false
set_option linter.unusedVariables false
namespace AsmjitVerif.Props.C01
open Spec.X86 Model.X86 AsmjitVerif.Lemmas.X86Parse

/-- the memory-related fields of a parse -/
structure MemFields (p : Parsed) (pfx : List (BitVec 8)) (mb : BitVec 8) (sib : Option (BitVec 8)) (ds : List (BitVec 8)) (B X : Bool) : Prop where
  hpm : p.modrm = some mb
  hps : p.sib = sib
  hpd : p.dispSize = ds.length
  hpv : p.disp = leNat ds
  hpp : p.prefixes = pfx
  hpa : p.addr16 = false
  hpB : p.B = B
  hpX : p.X = X

/-- VEX3 prefix word with both extension bits of a memory operand: like `vex3_r_roundtrip`, for `xb` < 32 (bit 14 = ~X) -/
theorem vex3_xb_roundtrip (opcode reg vvvvv xb : BitVec 32)
    (hr : reg < 16#32) (hv : vvvvv < 16#32) (hm : xb < 32#32) (hll : opcode &&& 0x40001000#32 = 0#32) :
    let w := vex3Word (vexPrep (xR opcode 0#32 reg vvvvv xb 0#32) opcode 0#32) opcode
    (opcode &&& 0x800#32 = 0#32 → w.extractLsb' 0 8 = 0xC4#8) ∧
    w.extractLsb' 15 1 = ~~~ reg.extractLsb' 3 1 ∧ w.extractLsb' 14 1 = ~~~ xb.extractLsb' 4 1 ∧ w.extractLsb' 13 1 = ~~~ xb.extractLsb' 3 1 ∧
    w.extractLsb' 8 5 = opcode.extractLsb' 8 5 ∧
    w.extractLsb' 23 1 = opcode.extractLsb' 27 1 ∧ w.extractLsb' 19 4 = ~~~ vvvvv.extractLsb' 0 4 ∧
    w.extractLsb' 18 1 = opcode.extractLsb' 29 1 ∧ w.extractLsb' 16 2 = opcode.extractLsb' 21 2 ∧
    w.extractLsb' 24 8 = opcode.extractLsb' 0 8 := by
  intro w
  simp only [w, vex3Word, vexPrep, vexPrefixTable, xR, extractLLMMMMM, kLL_Mask, kMM_Mask, oEvex, oVex3]
  refine ⟨?_, ?_, ?_, ?_, ?_, ?_, ?_, ?_, ?_, ?_⟩
  · intro h; bv_decide
  all_goals bv_decide

/-- EVEX bytes followed by a memory ModRM -/
theorem evexG_parsed (rule : Rule) (opcode reg vvvvv xb aaa : BitVec 32) (z : Bool) (pfx : List (BitVec 8)) (mb : BitVec 8) (sib : Option (BitVec 8)) (ds imm : List (BitVec 8))
    (hpl : PfxList false pfx)
    (hr : reg < 32#32) (hv : vvvvv < 32#32) (hb : xb < 32#32) (ha : aaa < 8#32) (hxop : opcode &&& 0x800#32 = 0#32)
    (R : VexRuleM rule imm.length) (hs : rule.space = 2) (A : RowAgree rule opcode true)
    (hmodne : bits mb 6 2 ≠ 3) (fsib : (bits mb 0 3 == 4) = sib.isSome) (hdl : ds.length = dispLen mb sib)
    (freg : bits mb 3 3 = ((reg + (vvvvv <<< 7)) &&& 7#32).toNat) :
    ∃ p, parse true rule (pfx ++ (le32 (evexWord (xR opcode 0#32 reg vvvvv xb aaa ||| zOpt z) opcode) ++ [opcode.truncate 8] ++ (mb :: (sib.toList ++ ds)) ++ imm)) = .ok p ∧
      VexParsedM rule p mb pfx aaa.toNat z false ∧
      regNum p.R' p.R (bits mb 3 3) = reg.toNat ∧
      regNum p.V' false p.vvvv = vvvvv.toNat ∧
      MemFields p pfx mb sib ds (xb.getLsbD 3) (xb.getLsbD 4) ∧
      (if p.vexKind == 4 then disp8N rule p else 1) =
        disp8Nf rule ((opcode >>> 29) &&& 3#32).toNat ((((opcode >>> 27) ||| (opcode >>> 28)) &&& 1#32) == 1#32) false ∧
      p.imm = imm := by
  obtain ⟨hop, hmap, hpp, hw, hl⟩ := A
  have hs' : rule.space = 1 ∨ rule.space = 2 ∨ rule.space = 3 := Or.inr (Or.inl hs)
  obtain ⟨e0, e15, e14, e13, e12, e11, e8, e23, e19, e18, e16, e31', e29, e28, e27, e24⟩ :=
    vex_evex_r_roundtrip opcode 0#32 reg vvvvv xb aaa hr hv hb ha hxop (by decide)
  have hrel : evexWord (xR opcode 0#32 reg vvvvv xb aaa ||| zOpt z) opcode &&& 0x7FFFFFFF#32 =
        evexWord (xR opcode 0#32 reg vvvvv xb aaa) opcode &&& 0x7FFFFFFF#32 ∧
      (evexWord (xR opcode 0#32 reg vvvvv xb aaa ||| zOpt z) opcode).getLsbD 31 = z := by
    cases z <;> simp only [zOpt, oZMask, evexWord, xR, extractLLMMMMM, kLL_Mask, kMM_Mask, oEvex, Bool.false_eq_true, ↓reduceIte] <;>
      constructor <;> bv_decide
  obtain ⟨hrel1, hrel2⟩ := hrel
  generalize evexWord (xR opcode 0#32 reg vvvvv xb aaa) opcode = w0 at *
  generalize hwdef : evexWord (xR opcode 0#32 reg vvvvv xb aaa ||| zOpt z) opcode = w at *
  have hb0 : w.truncate 8 = 0x62#8 := by bv_decide
  have ho7 : (reg + (vvvvv <<< 7)) &&& 7#32 < 8#32 := by bv_decide
  simp only [le32, List.cons_append, List.nil_append, hb0, List.append_assoc]
  have hpl' : PfxList (rule.pp &&& 8 != 0) pfx := by rw [R.hpp8]; exact hpl
  have hparse := parse_evex_mem rule pfx (BitVec.truncate 8 (w >>> 8)) (BitVec.truncate 8 (w >>> 16)) (BitVec.truncate 8 (w >>> 24)) (opcode.truncate 8)
    mb sib ds imm hpl' hs R.hpp8 (by rcases R.hmk with h | h <;> simp [h]) (by simp only [bit]; bv_decide)
    (by simp only [bit]; bv_decide) hmodne fsib hdl (by simp [R.himm, R.hrel]) R.hmoff
  simp only [List.append_assoc] at hparse
  refine ⟨_, hparse, ?P, ?hreg, ?hvv, ?hF, ?hN, rfl⟩
  case P =>
    refine ⟨Or.inr (Or.inr (Or.inl rfl)), rfl, rfl, rfl, hmodne, ?_, ?_, ?_, ?_, ?_, by simp, ?_, ?_⟩
    · show (opcode.truncate 8 : BitVec 8).toNat = rule.opcode
      rw [hop]; exact toNat_eq_of_zext _ _ (by omega) (by bv_decide)
    · show bits _ 0 3 = rule.map
      rw [hmap]; exact toNat_eq_of_zext _ _ (by omega) (by bv_decide)
    · show bits _ 0 2 = ppWant rule
      rw [hpp]; exact toNat_eq_of_zext _ _ (by omega) (by bv_decide)
    · rw [wWant_nonlegacy rule hs']
      rcases hw with h | h
      · exact Or.inl h
      · right
        simp only [↓reduceIte] at h
        have hc : ((opcode >>> 27) ||| (opcode >>> 28)) &&& 1#32 = 0#32 ∨ ((opcode >>> 27) ||| (opcode >>> 28)) &&& 1#32 = 1#32 := by bv_decide
        rcases hc with hc | hc
        · rw [h, hc]; simp only [bit]; simp; bv_decide
        · rw [h, hc]; simp only [bit]; simp; bv_decide
    · rcases hl with h | h
      · exact Or.inl h
      · right; show bits _ 5 2 = rule.l; rw [h]; exact toNat_eq_of_zext _ _ (by omega) (by bv_decide)
    · intro _
      refine ⟨?_, ?_, ?_, ?_⟩
      · show bits _ 0 3 = aaa.toNat
        exact toNat_eq_of_zext _ _ (by omega) (by bv_decide)
      · show bit _ 7 = z
        rw [← hrel2]; simp only [bit]; bv_decide
      · simp only [bit]; bv_decide
      · show bits _ 0 3 < 8
        have := (BitVec.extractLsb' 0 3 (BitVec.truncate 8 (w >>> 8))).isLt
        exact this
    · intro h; exact absurd rfl h
  case hreg =>
    rw [freg]
    have e3 : ((reg + (vvvvv <<< 7)) &&& 7#32).toNat = (((reg + (vvvvv <<< 7)) &&& 7#32).truncate 3 : BitVec 3).toNat := by
      have : ((reg + (vvvvv <<< 7)) &&& 7#32).toNat < 8 := by simpa [BitVec.lt_def] using ho7
      rw [BitVec.truncate, BitVec.toNat_setWidth]; exact (Nat.mod_eq_of_lt this).symm
    rw [e3]
    exact regNum_eq _ _ _ reg (by simp only [bit]; bv_decide)
  case hvv =>
    exact regNum_eq4 _ _ vvvvv (by simp only [bit]; bv_decide)
  case hF =>
    refine ⟨rfl, rfl, rfl, rfl, rfl, rfl, ?_, ?_⟩
    · show (!bit (BitVec.truncate 8 (w >>> 8)) 5) = xb.getLsbD 3
      simp only [bit]; bv_decide
    · show (!bit (BitVec.truncate 8 (w >>> 8)) 6) = xb.getLsbD 4
      simp only [bit]; bv_decide
  case hN =>
    have hL : bits (BitVec.truncate 8 (w >>> 24)) 5 2 = ((opcode >>> 29) &&& 3#32).toNat := toNat_eq_of_zext _ _ (by omega) (by bv_decide)
    have hW : bit (BitVec.truncate 8 (w >>> 16)) 7 = ((((opcode >>> 27) ||| (opcode >>> 28)) &&& 1#32) == 1#32) := by simp only [bit]; bv_decide
    have hB : bit (BitVec.truncate 8 (w >>> 24)) 4 = false := by simp only [bit]; bv_decide
    simp only [disp8N, hL, hW, hB, beq_self_eq_true, ↓reduceIte]

/-- EVEX bytes with the broadcast bit (b = 1) followed by a memory ModRM -/
theorem evexG_parsedB (rule : Rule) (opcode reg vvvvv xb aaa : BitVec 32) (z : Bool) (pfx : List (BitVec 8)) (mb : BitVec 8) (sib : Option (BitVec 8)) (ds imm : List (BitVec 8))
    (hpl : PfxList false pfx)
    (hr : reg < 32#32) (hv : vvvvv < 32#32) (hb : xb < 32#32) (ha : aaa < 8#32) (hxop : opcode &&& 0x800#32 = 0#32)
    (R : VexRuleM rule imm.length) (hs : rule.space = 2) (A : RowAgree rule opcode true)
    (hmodne : bits mb 6 2 ≠ 3) (fsib : (bits mb 0 3 == 4) = sib.isSome) (hdl : ds.length = dispLen mb sib)
    (freg : bits mb 3 3 = ((reg + (vvvvv <<< 7)) &&& 7#32).toNat) :
    ∃ p, parse true rule (pfx ++ (le32 (evexWord (xR opcode 0#32 reg vvvvv xb aaa ||| zOpt z ||| 0x100000#32) opcode) ++ [opcode.truncate 8] ++ (mb :: (sib.toList ++ ds)) ++ imm)) = .ok p ∧
      VexParsedM rule p mb pfx aaa.toNat z true ∧
      regNum p.R' p.R (bits mb 3 3) = reg.toNat ∧
      regNum p.V' false p.vvvv = vvvvv.toNat ∧
      MemFields p pfx mb sib ds (xb.getLsbD 3) (xb.getLsbD 4) ∧
      (if p.vexKind == 4 then disp8N rule p else 1) =
        disp8Nf rule ((opcode >>> 29) &&& 3#32).toNat ((((opcode >>> 27) ||| (opcode >>> 28)) &&& 1#32) == 1#32) true ∧
      p.imm = imm := by
  obtain ⟨hop, hmap, hpp, hw, hl⟩ := A
  have hs' : rule.space = 1 ∨ rule.space = 2 ∨ rule.space = 3 := Or.inr (Or.inl hs)
  obtain ⟨e0, e15, e14, e13, e12, e11, e8, e23, e19, e18, e16, e31', e29, e28, e27, e24⟩ :=
    vex_evex_r_roundtrip opcode 0#32 reg vvvvv xb aaa hr hv hb ha hxop (by decide)
  have hrel : evexWord (xR opcode 0#32 reg vvvvv xb aaa ||| zOpt z ||| 0x100000#32) opcode &&& 0x6FFFFFFF#32 =
        evexWord (xR opcode 0#32 reg vvvvv xb aaa) opcode &&& 0x6FFFFFFF#32 ∧ (evexWord (xR opcode 0#32 reg vvvvv xb aaa ||| zOpt z ||| 0x100000#32) opcode).getLsbD 28 = true ∧
      (evexWord (xR opcode 0#32 reg vvvvv xb aaa ||| zOpt z ||| 0x100000#32) opcode).getLsbD 31 = z := by
    cases z <;> simp only [zOpt, oZMask, evexWord, xR, extractLLMMMMM, kLL_Mask, kMM_Mask, oEvex, Bool.false_eq_true, ↓reduceIte] <;>
      refine ⟨?_, ?_, ?_⟩ <;> bv_decide
  obtain ⟨hrel1, hrel3, hrel2⟩ := hrel
  generalize evexWord (xR opcode 0#32 reg vvvvv xb aaa) opcode = w0 at *
  generalize hwdef : evexWord (xR opcode 0#32 reg vvvvv xb aaa ||| zOpt z ||| 0x100000#32) opcode = w at *
  have hb0 : w.truncate 8 = 0x62#8 := by bv_decide
  have ho7 : (reg + (vvvvv <<< 7)) &&& 7#32 < 8#32 := by bv_decide
  simp only [le32, List.cons_append, List.nil_append, hb0, List.append_assoc]
  have hpl' : PfxList (rule.pp &&& 8 != 0) pfx := by rw [R.hpp8]; exact hpl
  have hparse := parse_evex_mem rule pfx (BitVec.truncate 8 (w >>> 8)) (BitVec.truncate 8 (w >>> 16)) (BitVec.truncate 8 (w >>> 24)) (opcode.truncate 8)
    mb sib ds imm hpl' hs R.hpp8 (by rcases R.hmk with h | h <;> simp [h]) (by simp only [bit]; bv_decide)
    (by simp only [bit]; bv_decide) hmodne fsib hdl (by simp [R.himm, R.hrel]) R.hmoff
  simp only [List.append_assoc] at hparse
  refine ⟨_, hparse, ?P, ?hreg, ?hvv, ?hF, ?hN, rfl⟩
  case P =>
    refine ⟨Or.inr (Or.inr (Or.inl rfl)), rfl, rfl, rfl, hmodne, ?_, ?_, ?_, ?_, ?_, by simp, ?_, ?_⟩
    · show (opcode.truncate 8 : BitVec 8).toNat = rule.opcode
      rw [hop]; exact toNat_eq_of_zext _ _ (by omega) (by bv_decide)
    · show bits _ 0 3 = rule.map
      rw [hmap]; exact toNat_eq_of_zext _ _ (by omega) (by bv_decide)
    · show bits _ 0 2 = ppWant rule
      rw [hpp]; exact toNat_eq_of_zext _ _ (by omega) (by bv_decide)
    · rw [wWant_nonlegacy rule hs']
      rcases hw with h | h
      · exact Or.inl h
      · right
        simp only [↓reduceIte] at h
        have hc : ((opcode >>> 27) ||| (opcode >>> 28)) &&& 1#32 = 0#32 ∨ ((opcode >>> 27) ||| (opcode >>> 28)) &&& 1#32 = 1#32 := by bv_decide
        rcases hc with hc | hc
        · rw [h, hc]; simp only [bit]; simp; bv_decide
        · rw [h, hc]; simp only [bit]; simp; bv_decide
    · rcases hl with h | h
      · exact Or.inl h
      · right; show bits _ 5 2 = rule.l; rw [h]; exact toNat_eq_of_zext _ _ (by omega) (by bv_decide)
    · intro _
      refine ⟨?_, ?_, ?_, ?_⟩
      · show bits _ 0 3 = aaa.toNat
        exact toNat_eq_of_zext _ _ (by omega) (by bv_decide)
      · show bit _ 7 = z
        rw [← hrel2]; simp only [bit]; bv_decide
      · show bit _ 4 = true
        rw [← hrel3]; simp only [bit]; bv_decide
      · show bits _ 0 3 < 8
        have := (BitVec.extractLsb' 0 3 (BitVec.truncate 8 (w >>> 8))).isLt
        exact this
    · intro h; exact absurd rfl h
  case hreg =>
    rw [freg]
    have e3 : ((reg + (vvvvv <<< 7)) &&& 7#32).toNat = (((reg + (vvvvv <<< 7)) &&& 7#32).truncate 3 : BitVec 3).toNat := by
      have : ((reg + (vvvvv <<< 7)) &&& 7#32).toNat < 8 := by simpa [BitVec.lt_def] using ho7
      rw [BitVec.truncate, BitVec.toNat_setWidth]; exact (Nat.mod_eq_of_lt this).symm
    rw [e3]
    exact regNum_eq _ _ _ reg (by simp only [bit]; bv_decide)
  case hvv =>
    exact regNum_eq4 _ _ vvvvv (by simp only [bit]; bv_decide)
  case hF =>
    refine ⟨rfl, rfl, rfl, rfl, rfl, rfl, ?_, ?_⟩
    · show (!bit (BitVec.truncate 8 (w >>> 8)) 5) = xb.getLsbD 3
      simp only [bit]; bv_decide
    · show (!bit (BitVec.truncate 8 (w >>> 8)) 6) = xb.getLsbD 4
      simp only [bit]; bv_decide
  case hN =>
    have hL : bits (BitVec.truncate 8 (w >>> 24)) 5 2 = ((opcode >>> 29) &&& 3#32).toNat := toNat_eq_of_zext _ _ (by omega) (by bv_decide)
    have hW : bit (BitVec.truncate 8 (w >>> 16)) 7 = ((((opcode >>> 27) ||| (opcode >>> 28)) &&& 1#32) == 1#32) := by simp only [bit]; bv_decide
    have hB : bit (BitVec.truncate 8 (w >>> 24)) 4 = true := by rw [← hrel3]; simp only [bit]; bv_decide
    simp only [disp8N, hL, hW, hB, beq_self_eq_true, ↓reduceIte]

/-- VEX3 bytes (C4) followed by a memory ModRM -/
theorem vex3G_parsed (rule : Rule) (opcode reg vvvvv xb : BitVec 32) (pfx : List (BitVec 8)) (mb : BitVec 8) (sib : Option (BitVec 8)) (ds imm : List (BitVec 8))
    (hpl : PfxList false pfx)
    (hr : reg < 16#32) (hv : vvvvv < 16#32) (hb : xb < 32#32) (hxop : opcode &&& 0x800#32 = 0#32) (hll : opcode &&& 0x40001000#32 = 0#32)
    (R : VexRuleM rule imm.length) (hs : rule.space = 1) (A : RowAgree rule opcode false)
    (hmodne : bits mb 6 2 ≠ 3) (fsib : (bits mb 0 3 == 4) = sib.isSome) (hdl : ds.length = dispLen mb sib)
    (freg : bits mb 3 3 = ((reg + (vvvvv <<< 7)) &&& 7#32).toNat) :
    ∃ p, parse true rule (pfx ++ (le32 (vex3Word (vexPrep (xR opcode 0#32 reg vvvvv xb 0#32) opcode 0#32) opcode) ++ (mb :: (sib.toList ++ ds)) ++ imm)) = .ok p ∧
      VexParsedM rule p mb pfx 0 false false ∧
      regNum p.R' p.R (bits mb 3 3) = reg.toNat ∧
      regNum p.V' false p.vvvv = vvvvv.toNat ∧
      MemFields p pfx mb sib ds (xb.getLsbD 3) (xb.getLsbD 4) ∧
      (if p.vexKind == 4 then disp8N rule p else 1) = 1 ∧
      p.imm = imm := by
  obtain ⟨hop, hmap, hpp, hw, hl⟩ := A
  have hs' : rule.space = 1 ∨ rule.space = 2 ∨ rule.space = 3 := Or.inl hs
  obtain ⟨e0, e15, e14, e13, e8, e23, e19, e18, e16, e24⟩ := vex3_xb_roundtrip opcode reg vvvvv xb hr hv hb hll
  have hb0 : (vex3Word (vexPrep (xR opcode 0#32 reg vvvvv xb 0#32) opcode 0#32) opcode).truncate 8 = 0xC4#8 := by
    have := e0 hxop
    bv_decide
  generalize vex3Word (vexPrep (xR opcode 0#32 reg vvvvv xb 0#32) opcode 0#32) opcode = w at *
  have ho7 : (reg + (vvvvv <<< 7)) &&& 7#32 < 8#32 := by bv_decide
  simp only [le32, List.cons_append, List.nil_append, hb0, List.append_assoc]
  have hpl' : PfxList (rule.pp &&& 8 != 0) pfx := by rw [R.hpp8]; exact hpl
  have hparse := parse_vex3_mem rule pfx (BitVec.truncate 8 (w >>> 8)) (BitVec.truncate 8 (w >>> 16)) (BitVec.truncate 8 (w >>> 24))
    mb sib ds imm hpl' hs R.hpp8 (by rcases R.hmk with h | h <;> simp [h]) hmodne fsib hdl (by simp [R.himm, R.hrel]) R.hmoff
  simp only [List.append_assoc] at hparse
  refine ⟨_, hparse, ?P, ?hreg, ?hvv, ?hF, rfl, rfl⟩
  case P =>
    refine ⟨Or.inr (Or.inl rfl), rfl, rfl, rfl, hmodne, ?_, ?_, ?_, ?_, ?_, ?_, by simp, ?_⟩
    · show (BitVec.truncate 8 (w >>> 24)).toNat = rule.opcode
      rw [hop]; exact toNat_eq_of_zext _ _ (by omega) (by bv_decide)
    · show bits _ 0 5 = rule.map
      rw [hmap]; exact toNat_eq_of_zext _ _ (by omega) (by bv_decide)
    · show bits _ 0 2 = ppWant rule
      rw [hpp]; exact toNat_eq_of_zext _ _ (by omega) (by bv_decide)
    · rw [wWant_nonlegacy rule hs']
      rcases hw with h | h
      · exact Or.inl h
      · right
        simp only [Bool.false_eq_true, ↓reduceIte] at h
        have hc : (opcode >>> 27) &&& 1#32 = 0#32 ∨ (opcode >>> 27) &&& 1#32 = 1#32 := by bv_decide
        rcases hc with hc | hc
        · rw [h, hc]; simp only [bit]; simp; bv_decide
        · rw [h, hc]; simp only [bit]; simp; bv_decide
    · rcases hl with h | h
      · exact Or.inl h
      · right; show bits _ 2 1 = rule.l; rw [h]; exact toNat_eq_of_zext _ _ (by omega) (by bv_decide)
    · intro _
      show bits _ 2 1 ≤ 1
      have := (BitVec.extractLsb' 2 1 (BitVec.truncate 8 (w >>> 16))).isLt
      simp only [bits]; omega
    · intro _; exact ⟨rfl, rfl, rfl⟩
  case hreg =>
    rw [freg]
    have e3 : ((reg + (vvvvv <<< 7)) &&& 7#32).toNat = (((reg + (vvvvv <<< 7)) &&& 7#32).truncate 3 : BitVec 3).toNat := by
      have : ((reg + (vvvvv <<< 7)) &&& 7#32).toNat < 8 := by simpa [BitVec.lt_def] using ho7
      rw [BitVec.truncate, BitVec.toNat_setWidth]; exact (Nat.mod_eq_of_lt this).symm
    rw [e3]
    exact regNum_eq _ _ _ reg (by simp only [bit]; bv_decide)
  case hvv =>
    exact regNum_eq4 _ _ vvvvv (by simp only [bit]; bv_decide)
  case hF =>
    refine ⟨rfl, rfl, rfl, rfl, rfl, rfl, ?_, ?_⟩
    · show (!bit (BitVec.truncate 8 (w >>> 8)) 5) = xb.getLsbD 3
      simp only [bit]; bv_decide
    · show (!bit (BitVec.truncate 8 (w >>> 8)) 6) = xb.getLsbD 4
      simp only [bit]; bv_decide

/-- VEX2 bytes (C5) followed by a memory ModRM; chosen only when representable (B = X = 0, W = 0, map 0F) -/
theorem vex2G_parsed (rule : Rule) (opcode reg vvvvv xb : BitVec 32) (pfx : List (BitVec 8)) (mb : BitVec 8) (sib : Option (BitVec 8)) (ds imm : List (BitVec 8))
    (hpl : PfxList false pfx)
    (hr : reg < 16#32) (hv : vvvvv < 16#32) (hb : xb < 32#32) (hll : opcode &&& 0x40001000#32 = 0#32) (hmm : opcode &&& 0x100#32 ≠ 0#32)
    (h2 : vexPrep (xR opcode 0#32 reg vvvvv xb 0#32) opcode 0#32 &&& 0x8000807E#32 = 0#32)
    (R : VexRuleM rule imm.length) (hs : rule.space = 1) (A : RowAgree rule opcode false)
    (hmodne : bits mb 6 2 ≠ 3) (fsib : (bits mb 0 3 == 4) = sib.isSome) (hdl : ds.length = dispLen mb sib)
    (freg : bits mb 3 3 = ((reg + (vvvvv <<< 7)) &&& 7#32).toNat) :
    ∃ p, parse true rule (pfx ++ ([0xC5#8, (vex2Byte (vexPrep (xR opcode 0#32 reg vvvvv xb 0#32) opcode 0#32)).truncate 8, opcode.truncate 8] ++
            (mb :: (sib.toList ++ ds)) ++ imm)) = .ok p ∧
      VexParsedM rule p mb pfx 0 false false ∧
      regNum p.R' p.R (bits mb 3 3) = reg.toNat ∧
      regNum p.V' false p.vvvv = vvvvv.toNat ∧
      MemFields p pfx mb sib ds (xb.getLsbD 3) (xb.getLsbD 4) ∧
      (if p.vexKind == 4 then disp8N rule p else 1) = 1 ∧
      p.imm = imm := by
  obtain ⟨hop, hmap, hpp, hw, hl⟩ := A
  have hs' : rule.space = 1 ∨ rule.space = 2 ∨ rule.space = 3 := Or.inl hs
  have hxb8 : xb < 8#32 := by
    simp only [vexPrep, xR, extractLLMMMMM, kLL_Mask, kMM_Mask, oEvex, oVex3] at h2
    bv_decide
  have h2' : vexPrep (xR opcode 0#32 reg vvvvv xb 0#32) opcode 0#32 &&& 0x8000803E#32 = 0#32 := by bv_decide
  obtain ⟨hiff, hf⟩ := vex2_r_only_when_representable opcode 0#32 reg vvvvv xb hr hv (by bv_decide) (by decide) hll hmm
  obtain ⟨hrm8, hW0, hmm0, -⟩ := hiff.mp h2'
  obtain ⟨e7, e3, e2, e0⟩ := hf h2'
  generalize (BitVec.truncate 8 (vex2Byte (vexPrep (xR opcode 0#32 reg vvvvv xb 0#32) opcode 0#32)) : BitVec 8) = b1 at *
  have ho7 : (reg + (vvvvv <<< 7)) &&& 7#32 < 8#32 := by bv_decide
  simp only [List.cons_append, List.nil_append, List.append_assoc]
  have hpl' : PfxList (rule.pp &&& 8 != 0) pfx := by rw [R.hpp8]; exact hpl
  have hparse := parse_vex2_mem rule pfx b1 (opcode.truncate 8) mb sib ds imm hpl' hs R.hpp8 (by rcases R.hmk with h | h <;> simp [h]) hmodne fsib hdl
    (by simp [R.himm, R.hrel]) R.hmoff
  simp only [List.append_assoc] at hparse
  refine ⟨_, hparse, ?P, ?hreg, ?hvv, ?hF, rfl, rfl⟩
  case P =>
    refine ⟨Or.inl rfl, rfl, rfl, rfl, hmodne, ?_, ?_, ?_, ?_, ?_, ?_, by simp, ?_⟩
    · show (opcode.truncate 8 : BitVec 8).toNat = rule.opcode
      rw [hop]; exact toNat_eq_of_zext _ _ (by omega) (by bv_decide)
    · show 1 = rule.map
      rw [hmap]; exact (congrArg BitVec.toNat (show (opcode >>> 8) &&& 0xF#32 = 1#32 by bv_decide)).symm
    · show bits _ 0 2 = ppWant rule
      rw [hpp]; exact toNat_eq_of_zext _ _ (by omega) (by bv_decide)
    · rw [wWant_nonlegacy rule hs']
      rcases hw with h | h
      · exact Or.inl h
      · right
        simp only [Bool.false_eq_true, ↓reduceIte] at h
        have hc : (opcode >>> 27) &&& 1#32 = 0#32 := by bv_decide
        rw [h, hc]; simp
    · rcases hl with h | h
      · exact Or.inl h
      · right; show bits _ 2 1 = rule.l; rw [h]; exact toNat_eq_of_zext _ _ (by omega) (by bv_decide)
    · intro _
      show bits _ 2 1 ≤ 1
      have := (BitVec.extractLsb' 2 1 b1).isLt
      simp only [bits]; omega
    · intro _; exact ⟨rfl, rfl, rfl⟩
  case hreg =>
    rw [freg]
    have e3' : ((reg + (vvvvv <<< 7)) &&& 7#32).toNat = (((reg + (vvvvv <<< 7)) &&& 7#32).truncate 3 : BitVec 3).toNat := by
      have : ((reg + (vvvvv <<< 7)) &&& 7#32).toNat < 8 := by simpa [BitVec.lt_def] using ho7
      rw [BitVec.truncate, BitVec.toNat_setWidth]; exact (Nat.mod_eq_of_lt this).symm
    rw [e3']
    exact regNum_eq _ _ _ reg (by simp only [bit]; simp; bv_decide)
  case hvv =>
    exact regNum_eq4 _ _ vvvvv (by simp only [bit]; simp; bv_decide)
  case hF =>
    refine ⟨rfl, rfl, rfl, rfl, rfl, rfl, ?_, ?_⟩
    · show false = xb.getLsbD 3
      bv_decide
    · show false = xb.getLsbD 4
      bv_decide

end AsmjitVerif.Props.C01
