/-
C01 property theorems, front-end layer, 32-bit mode: the VEX / EVEX register-form theorems of Props/C01Front.lean re-proved for the
32-bit mode of the assembler (forced instruction option `kX86_InvalidRex` = 0x80000000, register numbers 0..7) and of the decoder
(`parse false`: C4 / C5 / 62 are LES / LDS / BOUND unless the two top bits of the next byte are 11 - discharged from the prefix
round-trip theorems). Generated from the 64-bit proofs by substitution; every statement is checked on its own.
-/
import AsmjitVerif.Props.C01Front
set_option linter.constructorNameAsVariable false
namespace AsmjitVerif.Props.C01
open Spec.X86 Model.X86 AsmjitVerif.Lemmas.X86Parse

/-- EVEX branch, 32-bit mode (forced option InvalidRex, register numbers 0..7) -/
theorem evexR_parsed32 (rule : Rule) (opcode reg vvvvv rm : BitVec 32) (imm : List (BitVec 8))
    (hr : reg < 8#32) (hv : vvvvv < 8#32) (hm : rm < 8#32) (hxop : opcode &&& 0x800#32 = 0#32)
    (R : VexRule rule imm.length) (hs : rule.space = 2) (A : RowAgree rule opcode true) :
    ∃ p, parse false rule (le32 (evexWord (xR opcode 0x80000000#32 reg vvvvv rm 0#32) opcode) ++ [opcode.truncate 8] ++
            ([modrmRR (reg + (vvvvv <<< 7)) rm] ++ imm)) = .ok p ∧
      VexParsed rule p (modrmRR (reg + (vvvvv <<< 7)) rm) ∧
      regNum p.R' p.R (bits (modrmRR (reg + (vvvvv <<< 7)) rm) 3 3) = reg.toNat ∧
      regNum p.V' false p.vvvv = vvvvv.toNat ∧
      regNum (p.vexKind == 4 && p.X) p.B (bits (modrmRR (reg + (vvvvv <<< 7)) rm) 0 3) = rm.toNat ∧ p.imm = imm := by
  obtain ⟨hop, hmap, hpp, hw, hl⟩ := A
  have hs' : rule.space = 1 ∨ rule.space = 2 ∨ rule.space = 3 := Or.inr (Or.inl hs)
  have hb0 : (evexWord (xR opcode 0x80000000#32 reg vvvvv rm 0#32) opcode).truncate 8 = 0x62#8 := by
    simp only [evexWord, xR, extractLLMMMMM, kLL_Mask, kMM_Mask, oEvex]; bv_decide
  obtain ⟨-, e15, e14, e13, e12, e11, e8, e23, e19, e18, e16, e31, e29, e28, e27, e24⟩ :=
    vex_evex_r_roundtrip opcode 0x80000000#32 reg vvvvv rm 0#32 (by bv_decide) (by bv_decide) (by bv_decide) (by decide) hxop (by decide)
  generalize evexWord (xR opcode 0x80000000#32 reg vvvvv rm 0#32) opcode = w at *
  simp only [le32, List.cons_append, List.nil_append, hb0]
  have hmodb := modrmRR_mod (reg + (vvvvv <<< 7)) rm
  rw [parse_evex_reg false rule _ _ _ _ _ imm (fun _ => congrArg BitVec.toNat (show BitVec.extractLsb' 6 2 _ = 3#2 by bv_decide)) hs R.hpp8 (by rcases R.hmk with h | h <;> simp [h]) (by simp only [bit]; bv_decide)
        (by simp only [bit]; bv_decide) hmodb (by simp [R.himm, R.hrel]) R.hmoff]
  refine ⟨_, rfl, ?_, ?_, ?_, ?_, rfl⟩
  · refine ⟨Or.inr (Or.inr (Or.inl rfl)), rfl, rfl, rfl, hmodb, ?_, ?_, ?_, ?_, ?_, by simp, ?_⟩
    · show (opcode.truncate 8 : BitVec 8).toNat = rule.opcode
      rw [hop]; exact toNat_eq_of_zext _ _ (by omega) (by bv_decide)
    · show bits _ 0 3 = rule.map
      rw [hmap]; exact toNat_eq_of_zext _ _ (by omega) (by bv_decide)
    · show bits _ 0 2 = ppWant rule
      rw [hpp]; exact toNat_eq_of_zext _ _ (by omega) (by bv_decide)
    · rw [wWant_nonlegacy rule hs']
      rcases hw with h | h
      · exact Or.inl h
      · right
        simp only [↓reduceIte] at h
        have hc : ((opcode >>> 27) ||| (opcode >>> 28)) &&& 1#32 = 0#32 ∨ ((opcode >>> 27) ||| (opcode >>> 28)) &&& 1#32 = 1#32 := by bv_decide
        rcases hc with hc | hc
        · rw [h, hc]; simp only [bit]; simp; bv_decide
        · rw [h, hc]; simp only [bit]; simp; bv_decide
    · rcases hl with h | h
      · exact Or.inl h
      · right; show bits _ 5 2 = rule.l; rw [h]; exact toNat_eq_of_zext _ _ (by omega) (by bv_decide)
    · intro _
      refine ⟨?_, ?_, ?_, ?_⟩
      · exact congrArg BitVec.toNat (show BitVec.extractLsb' 0 3 _ = 0#3 by bv_decide)
      · simp only [bit]; bv_decide
      · simp only [bit]; bv_decide
      · show bits _ 0 3 < 8
        have := (BitVec.extractLsb' 0 3 (BitVec.truncate 8 (w >>> 8))).isLt
        exact this
  · exact regNum_eq _ _ _ reg (by simp only [bit, modrmRR, encodeMod]; bv_decide)
  · exact regNum_eq4 _ _ vvvvv (by simp only [bit]; bv_decide)
  · exact regNum_eq _ _ _ rm (by simp only [bit, modrmRR, encodeMod]; bv_decide)

/-- VEX3 branch (C4) -/
theorem vex3R_parsed32 (rule : Rule) (opcode reg vvvvv rm : BitVec 32) (imm : List (BitVec 8))
    (hr : reg < 8#32) (hv : vvvvv < 8#32) (hm : rm < 8#32) (hxop : opcode &&& 0x800#32 = 0#32) (hll : opcode &&& 0x40001000#32 = 0#32)
    (R : VexRule rule imm.length) (hs : rule.space = 1) (A : RowAgree rule opcode false) :
    ∃ p, parse false rule (le32 (vex3Word (vexPrep (xR opcode 0x80000000#32 reg vvvvv rm 0#32) opcode 0x80000000#32) opcode) ++
            ([modrmRR (reg + (vvvvv <<< 7)) rm] ++ imm)) = .ok p ∧
      VexParsed rule p (modrmRR (reg + (vvvvv <<< 7)) rm) ∧
      regNum p.R' p.R (bits (modrmRR (reg + (vvvvv <<< 7)) rm) 3 3) = reg.toNat ∧
      regNum p.V' false p.vvvv = vvvvv.toNat ∧
      regNum (p.vexKind == 4 && p.X) p.B (bits (modrmRR (reg + (vvvvv <<< 7)) rm) 0 3) = rm.toNat ∧ p.imm = imm := by
  obtain ⟨hop, hmap, hpp, hw, hl⟩ := A
  have hs' : rule.space = 1 ∨ rule.space = 2 ∨ rule.space = 3 := Or.inl hs
  obtain ⟨e0, -, e15, e14, e13, e8, e23, e19, e18, e16, e24⟩ :=
    vex3_r_roundtrip opcode 0x80000000#32 reg vvvvv rm (by bv_decide) (by bv_decide) (by bv_decide) (by decide) hll
  have hb0 : (vex3Word (vexPrep (xR opcode 0x80000000#32 reg vvvvv rm 0#32) opcode 0x80000000#32) opcode).truncate 8 = 0xC4#8 := by
    have := e0 hxop
    bv_decide
  generalize vex3Word (vexPrep (xR opcode 0x80000000#32 reg vvvvv rm 0#32) opcode 0x80000000#32) opcode = w at *
  simp only [le32, List.cons_append, List.nil_append, hb0]
  have hmodb := modrmRR_mod (reg + (vvvvv <<< 7)) rm
  rw [parse_vex3_reg false rule _ _ _ _ imm (fun _ => congrArg BitVec.toNat (show BitVec.extractLsb' 6 2 _ = 3#2 by bv_decide)) hs R.hpp8 (by rcases R.hmk with h | h <;> simp [h]) hmodb (by simp [R.himm, R.hrel]) R.hmoff]
  refine ⟨_, rfl, ?_, ?_, ?_, ?_, rfl⟩
  · refine ⟨Or.inr (Or.inl rfl), rfl, rfl, rfl, hmodb, ?_, ?_, ?_, ?_, ?_, ?_, by simp⟩
    · show (BitVec.truncate 8 (w >>> 24)).toNat = rule.opcode
      rw [hop]; exact toNat_eq_of_zext _ _ (by omega) (by bv_decide)
    · show bits _ 0 5 = rule.map
      rw [hmap]; exact toNat_eq_of_zext _ _ (by omega) (by bv_decide)
    · show bits _ 0 2 = ppWant rule
      rw [hpp]; exact toNat_eq_of_zext _ _ (by omega) (by bv_decide)
    · rw [wWant_nonlegacy rule hs']
      rcases hw with h | h
      · exact Or.inl h
      · right
        simp only [Bool.false_eq_true, ↓reduceIte] at h
        have hc : (opcode >>> 27) &&& 1#32 = 0#32 ∨ (opcode >>> 27) &&& 1#32 = 1#32 := by bv_decide
        rcases hc with hc | hc
        · rw [h, hc]; simp only [bit]; simp; bv_decide
        · rw [h, hc]; simp only [bit]; simp; bv_decide
    · rcases hl with h | h
      · exact Or.inl h
      · right; show bits _ 2 1 = rule.l; rw [h]; exact toNat_eq_of_zext _ _ (by omega) (by bv_decide)
    · intro _
      show bits _ 2 1 ≤ 1
      have := (BitVec.extractLsb' 2 1 (BitVec.truncate 8 (w >>> 16))).isLt
      simp only [bits]; omega
  · exact regNum_eq _ _ _ reg (by simp only [bit, modrmRR, encodeMod]; bv_decide)
  · exact regNum_eq4 _ _ vvvvv (by simp only [bit]; bv_decide)
  · exact regNum_eq _ _ _ rm (by simp only [bit, modrmRR, encodeMod]; simp; bv_decide)

/-- VEX2 branch (C5), taken only when representable (`vex2_r_only_when_representable`) -/
theorem vex2R_parsed32 (rule : Rule) (opcode reg vvvvv rm : BitVec 32) (imm : List (BitVec 8))
    (hr : reg < 8#32) (hv : vvvvv < 8#32) (hm : rm < 8#32) (hll : opcode &&& 0x40001000#32 = 0#32) (hmm : opcode &&& 0x100#32 ≠ 0#32)
    (h2 : vexPrep (xR opcode 0x80000000#32 reg vvvvv rm 0#32) opcode 0x80000000#32 &&& 0x8000803E#32 = 0#32)
    (R : VexRule rule imm.length) (hs : rule.space = 1) (A : RowAgree rule opcode false) :
    ∃ p, parse false rule ([0xC5#8, (vex2Byte (vexPrep (xR opcode 0x80000000#32 reg vvvvv rm 0#32) opcode 0x80000000#32)).truncate 8, opcode.truncate 8] ++
            ([modrmRR (reg + (vvvvv <<< 7)) rm] ++ imm)) = .ok p ∧
      VexParsed rule p (modrmRR (reg + (vvvvv <<< 7)) rm) ∧
      regNum p.R' p.R (bits (modrmRR (reg + (vvvvv <<< 7)) rm) 3 3) = reg.toNat ∧
      regNum p.V' false p.vvvv = vvvvv.toNat ∧
      regNum (p.vexKind == 4 && p.X) p.B (bits (modrmRR (reg + (vvvvv <<< 7)) rm) 0 3) = rm.toNat ∧ p.imm = imm := by
  obtain ⟨hop, hmap, hpp, hw, hl⟩ := A
  have hs' : rule.space = 1 ∨ rule.space = 2 ∨ rule.space = 3 := Or.inl hs
  obtain ⟨hiff, hf⟩ := vex2_r_only_when_representable opcode 0x80000000#32 reg vvvvv rm (by bv_decide) (by bv_decide) (by bv_decide) (by decide) hll hmm
  obtain ⟨hrm8, hW0, hmm0, -⟩ := hiff.mp h2
  obtain ⟨e7, e3, e2, e0⟩ := hf h2
  generalize (BitVec.truncate 8 (vex2Byte (vexPrep (xR opcode 0x80000000#32 reg vvvvv rm 0#32) opcode 0x80000000#32)) : BitVec 8) = b1 at *
  simp only [List.cons_append, List.nil_append]
  have hmodb := modrmRR_mod (reg + (vvvvv <<< 7)) rm
  rw [parse_vex2_reg false rule _ _ _ imm (fun _ => congrArg BitVec.toNat (show BitVec.extractLsb' 6 2 _ = 3#2 by bv_decide)) hs R.hpp8 (by rcases R.hmk with h | h <;> simp [h]) hmodb (by simp [R.himm, R.hrel]) R.hmoff]
  refine ⟨_, rfl, ?_, ?_, ?_, ?_, rfl⟩
  · refine ⟨Or.inl rfl, rfl, rfl, rfl, hmodb, ?_, ?_, ?_, ?_, ?_, ?_, by simp⟩
    · show (opcode.truncate 8 : BitVec 8).toNat = rule.opcode
      rw [hop]; exact toNat_eq_of_zext _ _ (by omega) (by bv_decide)
    · show 1 = rule.map
      rw [hmap]; exact (congrArg BitVec.toNat (show (opcode >>> 8) &&& 0xF#32 = 1#32 by bv_decide)).symm
    · show bits _ 0 2 = ppWant rule
      rw [hpp]; exact toNat_eq_of_zext _ _ (by omega) (by bv_decide)
    · rw [wWant_nonlegacy rule hs']
      rcases hw with h | h
      · exact Or.inl h
      · right
        simp only [Bool.false_eq_true, ↓reduceIte] at h
        have hc : (opcode >>> 27) &&& 1#32 = 0#32 := by bv_decide
        rw [h, hc]; simp
    · rcases hl with h | h
      · exact Or.inl h
      · right; show bits _ 2 1 = rule.l; rw [h]; exact toNat_eq_of_zext _ _ (by omega) (by bv_decide)
    · intro _
      show bits _ 2 1 ≤ 1
      have := (BitVec.extractLsb' 2 1 b1).isLt
      simp only [bits]; omega
  · exact regNum_eq _ _ _ reg (by simp only [bit, modrmRR, encodeMod]; simp; bv_decide)
  · exact regNum_eq4 _ _ vvvvv (by simp only [bit]; simp; bv_decide)
  · exact regNum_eq _ _ _ rm (by simp only [bit, modrmRR, encodeMod]; simp; bv_decide)

/-! ### the three branches of `EmitVexEvexR` as one case statement (no option, no {k}, no EVEX preference) -/

theorem emitVexEvexR_branches32 (c : Model.X86.Ctx) (opcode reg vvvvv rm : BitVec 32) (imm : BitVec 64) (n : Nat)
    (hpe : c.preferEvex = false) (hk : c.extraId = 0#32) :
    emitVexEvexR c opcode 0x80000000#32 (reg + (vvvvv <<< 7)) rm imm n =
      .ok (if xR opcode 0x80000000#32 reg vvvvv rm 0#32 &&& 0x00D78150#32 ≠ 0#32 then
             le32 (evexWord (xR opcode 0x80000000#32 reg vvvvv rm 0#32) opcode) ++ [opcode.truncate 8] ++
               ([modrmRR (reg + (vvvvv <<< 7)) rm] ++ emitImmByteOrDword imm n)
           else if vexPrep (xR opcode 0x80000000#32 reg vvvvv rm 0#32) opcode 0x80000000#32 &&& 0x8000803E#32 ≠ 0#32 then
             le32 (vex3Word (vexPrep (xR opcode 0x80000000#32 reg vvvvv rm 0#32) opcode 0x80000000#32) opcode) ++
               ([modrmRR (reg + (vvvvv <<< 7)) rm] ++ emitImmByteOrDword imm n)
           else
             [0xC5#8, (vex2Byte (vexPrep (xR opcode 0x80000000#32 reg vvvvv rm 0#32) opcode 0x80000000#32)).truncate 8, opcode.truncate 8] ++
               ([modrmRR (reg + (vvvvv <<< 7)) rm] ++ emitImmByteOrDword imm n)) := by
  have hx : xR opcode 0x80000000#32 reg vvvvv rm 0#32 = xOfR opcode 0x80000000#32 (reg + (vvvvv <<< 7)) rm 0#32 := rfl
  rw [hx]
  unfold xOfR
  simp [emitVexEvexR, vexEvexROptions, hpe, hk, bind, Except.bind, pure, Except.pure, modrmRR, oZMask, oER, oSAE]
  split
  · split <;> first | rfl | simp_all
  · first | rfl | simp_all

/-- shape [reg, vvvv, rm], EVEX rule: whatever `EmitVexEvexR` emits when the EVEX branch is taken satisfies the monitor -/
theorem vexR_rvm_formOk_evex32 (c : Model.X86.Ctx) (ctx : Spec.X86.Ctx) (rule : Rule) (opcode reg vvvvv rm : BitVec 32)
    (k0 k1 k2 : RegKind) (f0 f1 f2 : FormOp)
    (hpe : c.preferEvex = false) (hk : c.extraId = 0#32) (hm64 : ctx.mode64 = false) (hmode : (rule.modes &&& 1 != 0) = true)
    (hr : reg < 8#32) (hv : vvvvv < 8#32) (hm : rm < 8#32) (hxop : opcode &&& 0x800#32 = 0#32)
    (hev : xR opcode 0x80000000#32 reg vvvvv rm 0#32 &&& 0x00D78150#32 ≠ 0#32)
    (hk0 : PlainKind k0) (hk1 : PlainKind k1) (hk2 : PlainKind k2)
    (R : VexRule rule 0) (hs : rule.space = 2) (A : RowAgree rule opcode true)
    (hf0 : f0.role = .reg) (hf1 : f1.role = .vvvv) (hf2 : f2.role = .rm)
    (hal : alignOps rule.oszEff rule.ops [.reg k0 reg.toNat, .reg k1 vvvvv.toNat, .reg k2 rm.toNat] =
           some [(f0, some (.reg k0 reg.toNat)), (f1, some (.reg k1 vvvvv.toNat)), (f2, some (.reg k2 rm.toNat))]) :
    ∃ bytes, emitVexEvexR c opcode 0x80000000#32 (reg + (vvvvv <<< 7)) rm 0 0 = .ok bytes ∧
      formOk ctx rule [.reg k0 reg.toNat, .reg k1 vvvvv.toNat, .reg k2 rm.toNat] {} bytes = true := by
  rw [emitVexEvexR_branches32 c opcode reg vvvvv rm 0 0 hpe hk, if_pos hev]
  refine ⟨_, rfl, ?_⟩
  obtain ⟨p, hp, P, h0, h1, h2, -⟩ := evexR_parsed32 rule opcode reg vvvvv rm [] hr hv hm hxop R hs A
  simp only [emitImmByteOrDword] at *
  exact vex_rvm_formOk ctx rule p _ _ k0 k1 k2 f0 f1 f2 _ _ _ (by simpa [hm64] using hmode) hk0 hk1 hk2 R hf0 hf1 hf2 hal (by rw [hm64]; exact hp) P h0 h1 h2

/-- shape [reg, vvvv, rm], VEX rule: the VEX3 or VEX2 bytes `EmitVexEvexR` emits when EVEX is not needed satisfy the monitor -/
theorem vexR_rvm_formOk_vex32 (c : Model.X86.Ctx) (ctx : Spec.X86.Ctx) (rule : Rule) (opcode reg vvvvv rm : BitVec 32)
    (k0 k1 k2 : RegKind) (f0 f1 f2 : FormOp)
    (hpe : c.preferEvex = false) (hk : c.extraId = 0#32) (hm64 : ctx.mode64 = false) (hmode : (rule.modes &&& 1 != 0) = true)
    (hr : reg < 8#32) (hv : vvvvv < 8#32) (hm : rm < 8#32) (hxop : opcode &&& 0x800#32 = 0#32) (hll : opcode &&& 0x40001000#32 = 0#32)
    (hmm : opcode &&& 0x1F00#32 ≠ 0#32)
    (hk0 : PlainKind k0) (hk1 : PlainKind k1) (hk2 : PlainKind k2)
    (R : VexRule rule 0) (hs : rule.space = 1) (A : RowAgree rule opcode false)
    (hf0 : f0.role = .reg) (hf1 : f1.role = .vvvv) (hf2 : f2.role = .rm)
    (hal : alignOps rule.oszEff rule.ops [.reg k0 reg.toNat, .reg k1 vvvvv.toNat, .reg k2 rm.toNat] =
           some [(f0, some (.reg k0 reg.toNat)), (f1, some (.reg k1 vvvvv.toNat)), (f2, some (.reg k2 rm.toNat))]) :
    ∃ bytes, emitVexEvexR c opcode 0x80000000#32 (reg + (vvvvv <<< 7)) rm 0 0 = .ok bytes ∧
      formOk ctx rule [.reg k0 reg.toNat, .reg k1 vvvvv.toNat, .reg k2 rm.toNat] {} bytes = true := by
  have hnev : ¬ (xR opcode 0x80000000#32 reg vvvvv rm 0#32 &&& 0x00D78150#32 ≠ 0#32) := by
    rw [evex_r_chosen_iff opcode 0x80000000#32 reg vvvvv rm 0#32 (by bv_decide) (by bv_decide) (by bv_decide) (by decide) (by decide)]
    intro h
    rcases h with h | h | h | h | h | h | h <;> bv_decide
  rw [emitVexEvexR_branches32 c opcode reg vvvvv rm 0 0 hpe hk, if_neg hnev]
  by_cases h3 : vexPrep (xR opcode 0x80000000#32 reg vvvvv rm 0#32) opcode 0x80000000#32 &&& 0x8000803E#32 ≠ 0#32
  · rw [if_pos h3]
    refine ⟨_, rfl, ?_⟩
    obtain ⟨p, hp, P, h0, h1, h2, -⟩ := vex3R_parsed32 rule opcode reg vvvvv rm [] hr hv hm hxop hll R hs A
    simp only [emitImmByteOrDword] at *
    exact vex_rvm_formOk ctx rule p _ _ k0 k1 k2 f0 f1 f2 _ _ _ (by simpa [hm64] using hmode) hk0 hk1 hk2 R hf0 hf1 hf2 hal (by rw [hm64]; exact hp) P h0 h1 h2
  · rw [if_neg h3]
    refine ⟨_, rfl, ?_⟩
    have h3' : vexPrep (xR opcode 0x80000000#32 reg vvvvv rm 0#32) opcode 0x80000000#32 &&& 0x8000803E#32 = 0#32 := by simpa using h3
    have hmm1 : opcode &&& 0x100#32 ≠ 0#32 := by
      simp only [vexPrep, xR, extractLLMMMMM, kLL_Mask, kMM_Mask, oEvex, oVex3] at h3'
      bv_decide
    obtain ⟨p, hp, P, h0, h1, h2, -⟩ := vex2R_parsed32 rule opcode reg vvvvv rm [] hr hv hm hll hmm1 h3' R hs A
    simp only [emitImmByteOrDword] at *
    exact vex_rvm_formOk ctx rule p _ _ k0 k1 k2 f0 f1 f2 _ _ _ (by simpa [hm64] using hmode) hk0 hk1 hk2 R hf0 hf1 hf2 hal (by rw [hm64]; exact hp) P h0 h1 h2

/-- shape [reg, rm], EVEX rule: whatever `EmitVexEvexR` emits when the EVEX branch is taken satisfies the monitor -/
theorem vexR_rm_formOk_evex32 (c : Model.X86.Ctx) (ctx : Spec.X86.Ctx) (rule : Rule) (opcode reg rm : BitVec 32)
    (k0 k2 : RegKind) (f0 f2 : FormOp)
    (hpe : c.preferEvex = false) (hk : c.extraId = 0#32) (hm64 : ctx.mode64 = false) (hmode : (rule.modes &&& 1 != 0) = true)
    (hr : reg < 8#32) (hm : rm < 8#32) (hxop : opcode &&& 0x800#32 = 0#32)
    (hev : xR opcode 0x80000000#32 reg 0#32 rm 0#32 &&& 0x00D78150#32 ≠ 0#32)
    (hk0 : PlainKind k0) (hk2 : PlainKind k2)
    (R : VexRule rule 0) (hs : rule.space = 2) (A : RowAgree rule opcode true)
    (hf0 : f0.role = .reg) (hf2 : f2.role = .rm)
    (hal : alignOps rule.oszEff rule.ops [.reg k0 reg.toNat, .reg k2 rm.toNat] =
           some [(f0, some (.reg k0 reg.toNat)), (f2, some (.reg k2 rm.toNat))]) :
    ∃ bytes, emitVexEvexR c opcode 0x80000000#32 (reg + (0#32 <<< 7)) rm 0 0 = .ok bytes ∧
      formOk ctx rule [.reg k0 reg.toNat, .reg k2 rm.toNat] {} bytes = true := by
  rw [emitVexEvexR_branches32 c opcode reg 0#32 rm 0 0 hpe hk, if_pos hev]
  refine ⟨_, rfl, ?_⟩
  obtain ⟨p, hp, P, h0, h1, h2, -⟩ := evexR_parsed32 rule opcode reg 0#32 rm [] hr (by decide) hm hxop R hs A
  simp only [emitImmByteOrDword] at *
  exact vex_rm_formOk ctx rule p _ _ k0 k2 f0 f2 _ _ (by simpa [hm64] using hmode) hk0 hk2 R hf0 hf2 hal (by rw [hm64]; exact hp) P h0 h1 h2

/-- shape [reg, rm], VEX rule: the VEX3 or VEX2 bytes `EmitVexEvexR` emits when EVEX is not needed satisfy the monitor -/
theorem vexR_rm_formOk_vex32 (c : Model.X86.Ctx) (ctx : Spec.X86.Ctx) (rule : Rule) (opcode reg rm : BitVec 32)
    (k0 k2 : RegKind) (f0 f2 : FormOp)
    (hpe : c.preferEvex = false) (hk : c.extraId = 0#32) (hm64 : ctx.mode64 = false) (hmode : (rule.modes &&& 1 != 0) = true)
    (hr : reg < 8#32) (hm : rm < 8#32) (hxop : opcode &&& 0x800#32 = 0#32) (hll : opcode &&& 0x40001000#32 = 0#32)
    (hmm : opcode &&& 0x1F00#32 ≠ 0#32)
    (hk0 : PlainKind k0) (hk2 : PlainKind k2)
    (R : VexRule rule 0) (hs : rule.space = 1) (A : RowAgree rule opcode false)
    (hf0 : f0.role = .reg) (hf2 : f2.role = .rm)
    (hal : alignOps rule.oszEff rule.ops [.reg k0 reg.toNat, .reg k2 rm.toNat] =
           some [(f0, some (.reg k0 reg.toNat)), (f2, some (.reg k2 rm.toNat))]) :
    ∃ bytes, emitVexEvexR c opcode 0x80000000#32 (reg + (0#32 <<< 7)) rm 0 0 = .ok bytes ∧
      formOk ctx rule [.reg k0 reg.toNat, .reg k2 rm.toNat] {} bytes = true := by
  have hnev : ¬ (xR opcode 0x80000000#32 reg 0#32 rm 0#32 &&& 0x00D78150#32 ≠ 0#32) := by
    rw [evex_r_chosen_iff opcode 0x80000000#32 reg 0#32 rm 0#32 (by bv_decide) (by bv_decide) (by bv_decide) (by decide) (by decide)]
    intro h
    rcases h with h | h | h | h | h | h | h <;> bv_decide
  rw [emitVexEvexR_branches32 c opcode reg 0#32 rm 0 0 hpe hk, if_neg hnev]
  by_cases h3 : vexPrep (xR opcode 0x80000000#32 reg 0#32 rm 0#32) opcode 0x80000000#32 &&& 0x8000803E#32 ≠ 0#32
  · rw [if_pos h3]
    refine ⟨_, rfl, ?_⟩
    obtain ⟨p, hp, P, h0, h1, h2, -⟩ := vex3R_parsed32 rule opcode reg 0#32 rm [] hr (by decide) hm hxop hll R hs A
    simp only [emitImmByteOrDword] at *
    exact vex_rm_formOk ctx rule p _ _ k0 k2 f0 f2 _ _ (by simpa [hm64] using hmode) hk0 hk2 R hf0 hf2 hal (by rw [hm64]; exact hp) P h0 h1 h2
  · rw [if_neg h3]
    refine ⟨_, rfl, ?_⟩
    have h3' : vexPrep (xR opcode 0x80000000#32 reg 0#32 rm 0#32) opcode 0x80000000#32 &&& 0x8000803E#32 = 0#32 := by simpa using h3
    have hmm1 : opcode &&& 0x100#32 ≠ 0#32 := by
      simp only [vexPrep, xR, extractLLMMMMM, kLL_Mask, kMM_Mask, oEvex, oVex3] at h3'
      bv_decide
    obtain ⟨p, hp, P, h0, h1, h2, -⟩ := vex2R_parsed32 rule opcode reg 0#32 rm [] hr (by decide) hm hll hmm1 h3' R hs A
    simp only [emitImmByteOrDword] at *
    exact vex_rm_formOk ctx rule p _ _ k0 k2 f0 f2 _ _ (by simpa [hm64] using hmode) hk0 hk2 R hf0 hf2 hal (by rw [hm64]; exact hp) P h0 h1 h2

/-- shape [reg, vvvv, rm, imm8], EVEX rule: whatever `EmitVexEvexR` emits when the EVEX branch is taken satisfies the monitor -/
theorem vexR_rvmi_formOk_evex32 (c : Model.X86.Ctx) (ctx : Spec.X86.Ctx) (rule : Rule) (opcode reg vvvvv rm : BitVec 32)
    (k0 k1 k2 : RegKind) (f0 f1 f2 : FormOp)
    (hpe : c.preferEvex = false) (hk : c.extraId = 0#32) (hm64 : ctx.mode64 = false) (hmode : (rule.modes &&& 1 != 0) = true)
    (hr : reg < 8#32) (hv : vvvvv < 8#32) (hm : rm < 8#32) (hxop : opcode &&& 0x800#32 = 0#32)
    (hev : xR opcode 0x80000000#32 reg vvvvv rm 0#32 &&& 0x00D78150#32 ≠ 0#32)
    (hk0 : PlainKind k0) (hk1 : PlainKind k1) (hk2 : PlainKind k2)
    (R : VexRule rule 1) (f3 : FormOp) (imm : BitVec 64) (hf3 : f3.role = .imm) (hib : immBitsOf f3 = 8) (hs : rule.space = 2) (A : RowAgree rule opcode true)
    (hf0 : f0.role = .reg) (hf1 : f1.role = .vvvv) (hf2 : f2.role = .rm)
    (hal : alignOps rule.oszEff rule.ops [.reg k0 reg.toNat, .reg k1 vvvvv.toNat, .reg k2 rm.toNat, .imm imm] =
           some [(f0, some (.reg k0 reg.toNat)), (f1, some (.reg k1 vvvvv.toNat)), (f2, some (.reg k2 rm.toNat)), (f3, some (.imm imm))]) :
    ∃ bytes, emitVexEvexR c opcode 0x80000000#32 (reg + (vvvvv <<< 7)) rm imm 1 = .ok bytes ∧
      formOk ctx rule [.reg k0 reg.toNat, .reg k1 vvvvv.toNat, .reg k2 rm.toNat, .imm imm] {} bytes = true := by
  rw [emitVexEvexR_branches32 c opcode reg vvvvv rm imm 1 hpe hk, if_pos hev]
  refine ⟨_, rfl, ?_⟩
  obtain ⟨p, hp, P, h0, h1, h2, hi⟩ := evexR_parsed32 rule opcode reg vvvvv rm [imm.truncate 8] hr hv hm hxop R hs A
  simp only [emitImmByteOrDword, Nat.one_ne_zero, beq_self_eq_true, ↓reduceIte, show ((1:Nat) == 0) = false from rfl, Bool.false_eq_true] at *
  exact vex_rvmi_formOk ctx rule p _ _ k0 k1 k2 f0 f1 f2 _ _ _ (by simpa [hm64] using hmode) hk0 hk1 hk2 R f3 imm hf3 hib (by simp [hi]) hf0 hf1 hf2 hal (by rw [hm64]; exact hp) P h0 h1 h2

/-- shape [reg, vvvv, rm, imm8], VEX rule: the VEX3 or VEX2 bytes `EmitVexEvexR` emits when EVEX is not needed satisfy the monitor -/
theorem vexR_rvmi_formOk_vex32 (c : Model.X86.Ctx) (ctx : Spec.X86.Ctx) (rule : Rule) (opcode reg vvvvv rm : BitVec 32)
    (k0 k1 k2 : RegKind) (f0 f1 f2 : FormOp)
    (hpe : c.preferEvex = false) (hk : c.extraId = 0#32) (hm64 : ctx.mode64 = false) (hmode : (rule.modes &&& 1 != 0) = true)
    (hr : reg < 8#32) (hv : vvvvv < 8#32) (hm : rm < 8#32) (hxop : opcode &&& 0x800#32 = 0#32) (hll : opcode &&& 0x40001000#32 = 0#32)
    (hmm : opcode &&& 0x1F00#32 ≠ 0#32)
    (hk0 : PlainKind k0) (hk1 : PlainKind k1) (hk2 : PlainKind k2)
    (R : VexRule rule 1) (f3 : FormOp) (imm : BitVec 64) (hf3 : f3.role = .imm) (hib : immBitsOf f3 = 8) (hs : rule.space = 1) (A : RowAgree rule opcode false)
    (hf0 : f0.role = .reg) (hf1 : f1.role = .vvvv) (hf2 : f2.role = .rm)
    (hal : alignOps rule.oszEff rule.ops [.reg k0 reg.toNat, .reg k1 vvvvv.toNat, .reg k2 rm.toNat, .imm imm] =
           some [(f0, some (.reg k0 reg.toNat)), (f1, some (.reg k1 vvvvv.toNat)), (f2, some (.reg k2 rm.toNat)), (f3, some (.imm imm))]) :
    ∃ bytes, emitVexEvexR c opcode 0x80000000#32 (reg + (vvvvv <<< 7)) rm imm 1 = .ok bytes ∧
      formOk ctx rule [.reg k0 reg.toNat, .reg k1 vvvvv.toNat, .reg k2 rm.toNat, .imm imm] {} bytes = true := by
  have hnev : ¬ (xR opcode 0x80000000#32 reg vvvvv rm 0#32 &&& 0x00D78150#32 ≠ 0#32) := by
    rw [evex_r_chosen_iff opcode 0x80000000#32 reg vvvvv rm 0#32 (by bv_decide) (by bv_decide) (by bv_decide) (by decide) (by decide)]
    intro h
    rcases h with h | h | h | h | h | h | h <;> bv_decide
  rw [emitVexEvexR_branches32 c opcode reg vvvvv rm imm 1 hpe hk, if_neg hnev]
  by_cases h3 : vexPrep (xR opcode 0x80000000#32 reg vvvvv rm 0#32) opcode 0x80000000#32 &&& 0x8000803E#32 ≠ 0#32
  · rw [if_pos h3]
    refine ⟨_, rfl, ?_⟩
    obtain ⟨p, hp, P, h0, h1, h2, hi⟩ := vex3R_parsed32 rule opcode reg vvvvv rm [imm.truncate 8] hr hv hm hxop hll R hs A
    simp only [emitImmByteOrDword, Nat.one_ne_zero, beq_self_eq_true, ↓reduceIte, show ((1:Nat) == 0) = false from rfl, Bool.false_eq_true] at *
    exact vex_rvmi_formOk ctx rule p _ _ k0 k1 k2 f0 f1 f2 _ _ _ (by simpa [hm64] using hmode) hk0 hk1 hk2 R f3 imm hf3 hib (by simp [hi]) hf0 hf1 hf2 hal (by rw [hm64]; exact hp) P h0 h1 h2
  · rw [if_neg h3]
    refine ⟨_, rfl, ?_⟩
    have h3' : vexPrep (xR opcode 0x80000000#32 reg vvvvv rm 0#32) opcode 0x80000000#32 &&& 0x8000803E#32 = 0#32 := by simpa using h3
    have hmm1 : opcode &&& 0x100#32 ≠ 0#32 := by
      simp only [vexPrep, xR, extractLLMMMMM, kLL_Mask, kMM_Mask, oEvex, oVex3] at h3'
      bv_decide
    obtain ⟨p, hp, P, h0, h1, h2, hi⟩ := vex2R_parsed32 rule opcode reg vvvvv rm [imm.truncate 8] hr hv hm hll hmm1 h3' R hs A
    simp only [emitImmByteOrDword, Nat.one_ne_zero, beq_self_eq_true, ↓reduceIte, show ((1:Nat) == 0) = false from rfl, Bool.false_eq_true] at *
    exact vex_rvmi_formOk ctx rule p _ _ k0 k1 k2 f0 f1 f2 _ _ _ (by simpa [hm64] using hmode) hk0 hk1 hk2 R f3 imm hf3 hib (by simp [hi]) hf0 hf1 hf2 hal (by rw [hm64]; exact hp) P h0 h1 h2

/-- shape [reg, rm, imm8], EVEX rule: whatever `EmitVexEvexR` emits when the EVEX branch is taken satisfies the monitor -/
theorem vexR_rmi_formOk_evex32 (c : Model.X86.Ctx) (ctx : Spec.X86.Ctx) (rule : Rule) (opcode reg rm : BitVec 32)
    (k0 k2 : RegKind) (f0 f2 : FormOp)
    (hpe : c.preferEvex = false) (hk : c.extraId = 0#32) (hm64 : ctx.mode64 = false) (hmode : (rule.modes &&& 1 != 0) = true)
    (hr : reg < 8#32) (hm : rm < 8#32) (hxop : opcode &&& 0x800#32 = 0#32)
    (hev : xR opcode 0x80000000#32 reg 0#32 rm 0#32 &&& 0x00D78150#32 ≠ 0#32)
    (hk0 : PlainKind k0) (hk2 : PlainKind k2)
    (R : VexRule rule 1) (f3 : FormOp) (imm : BitVec 64) (hf3 : f3.role = .imm) (hib : immBitsOf f3 = 8) (hs : rule.space = 2) (A : RowAgree rule opcode true)
    (hf0 : f0.role = .reg) (hf2 : f2.role = .rm)
    (hal : alignOps rule.oszEff rule.ops [.reg k0 reg.toNat, .reg k2 rm.toNat, .imm imm] =
           some [(f0, some (.reg k0 reg.toNat)), (f2, some (.reg k2 rm.toNat)), (f3, some (.imm imm))]) :
    ∃ bytes, emitVexEvexR c opcode 0x80000000#32 (reg + (0#32 <<< 7)) rm imm 1 = .ok bytes ∧
      formOk ctx rule [.reg k0 reg.toNat, .reg k2 rm.toNat, .imm imm] {} bytes = true := by
  rw [emitVexEvexR_branches32 c opcode reg 0#32 rm imm 1 hpe hk, if_pos hev]
  refine ⟨_, rfl, ?_⟩
  obtain ⟨p, hp, P, h0, h1, h2, hi⟩ := evexR_parsed32 rule opcode reg 0#32 rm [imm.truncate 8] hr (by decide) hm hxop R hs A
  simp only [emitImmByteOrDword, Nat.one_ne_zero, beq_self_eq_true, ↓reduceIte, show ((1:Nat) == 0) = false from rfl, Bool.false_eq_true] at *
  exact vex_rmi_formOk ctx rule p _ _ k0 k2 f0 f2 _ _ (by simpa [hm64] using hmode) hk0 hk2 R f3 imm hf3 hib (by simp [hi]) hf0 hf2 hal (by rw [hm64]; exact hp) P h0 h1 h2

/-- shape [reg, rm, imm8], VEX rule: the VEX3 or VEX2 bytes `EmitVexEvexR` emits when EVEX is not needed satisfy the monitor -/
theorem vexR_rmi_formOk_vex32 (c : Model.X86.Ctx) (ctx : Spec.X86.Ctx) (rule : Rule) (opcode reg rm : BitVec 32)
    (k0 k2 : RegKind) (f0 f2 : FormOp)
    (hpe : c.preferEvex = false) (hk : c.extraId = 0#32) (hm64 : ctx.mode64 = false) (hmode : (rule.modes &&& 1 != 0) = true)
    (hr : reg < 8#32) (hm : rm < 8#32) (hxop : opcode &&& 0x800#32 = 0#32) (hll : opcode &&& 0x40001000#32 = 0#32)
    (hmm : opcode &&& 0x1F00#32 ≠ 0#32)
    (hk0 : PlainKind k0) (hk2 : PlainKind k2)
    (R : VexRule rule 1) (f3 : FormOp) (imm : BitVec 64) (hf3 : f3.role = .imm) (hib : immBitsOf f3 = 8) (hs : rule.space = 1) (A : RowAgree rule opcode false)
    (hf0 : f0.role = .reg) (hf2 : f2.role = .rm)
    (hal : alignOps rule.oszEff rule.ops [.reg k0 reg.toNat, .reg k2 rm.toNat, .imm imm] =
           some [(f0, some (.reg k0 reg.toNat)), (f2, some (.reg k2 rm.toNat)), (f3, some (.imm imm))]) :
    ∃ bytes, emitVexEvexR c opcode 0x80000000#32 (reg + (0#32 <<< 7)) rm imm 1 = .ok bytes ∧
      formOk ctx rule [.reg k0 reg.toNat, .reg k2 rm.toNat, .imm imm] {} bytes = true := by
  have hnev : ¬ (xR opcode 0x80000000#32 reg 0#32 rm 0#32 &&& 0x00D78150#32 ≠ 0#32) := by
    rw [evex_r_chosen_iff opcode 0x80000000#32 reg 0#32 rm 0#32 (by bv_decide) (by bv_decide) (by bv_decide) (by decide) (by decide)]
    intro h
    rcases h with h | h | h | h | h | h | h <;> bv_decide
  rw [emitVexEvexR_branches32 c opcode reg 0#32 rm imm 1 hpe hk, if_neg hnev]
  by_cases h3 : vexPrep (xR opcode 0x80000000#32 reg 0#32 rm 0#32) opcode 0x80000000#32 &&& 0x8000803E#32 ≠ 0#32
  · rw [if_pos h3]
    refine ⟨_, rfl, ?_⟩
    obtain ⟨p, hp, P, h0, h1, h2, hi⟩ := vex3R_parsed32 rule opcode reg 0#32 rm [imm.truncate 8] hr (by decide) hm hxop hll R hs A
    simp only [emitImmByteOrDword, Nat.one_ne_zero, beq_self_eq_true, ↓reduceIte, show ((1:Nat) == 0) = false from rfl, Bool.false_eq_true] at *
    exact vex_rmi_formOk ctx rule p _ _ k0 k2 f0 f2 _ _ (by simpa [hm64] using hmode) hk0 hk2 R f3 imm hf3 hib (by simp [hi]) hf0 hf2 hal (by rw [hm64]; exact hp) P h0 h1 h2
  · rw [if_neg h3]
    refine ⟨_, rfl, ?_⟩
    have h3' : vexPrep (xR opcode 0x80000000#32 reg 0#32 rm 0#32) opcode 0x80000000#32 &&& 0x8000803E#32 = 0#32 := by simpa using h3
    have hmm1 : opcode &&& 0x100#32 ≠ 0#32 := by
      simp only [vexPrep, xR, extractLLMMMMM, kLL_Mask, kMM_Mask, oEvex, oVex3] at h3'
      bv_decide
    obtain ⟨p, hp, P, h0, h1, h2, hi⟩ := vex2R_parsed32 rule opcode reg 0#32 rm [imm.truncate 8] hr (by decide) hm hll hmm1 h3' R hs A
    simp only [emitImmByteOrDword, Nat.one_ne_zero, beq_self_eq_true, ↓reduceIte, show ((1:Nat) == 0) = false from rfl, Bool.false_eq_true] at *
    exact vex_rmi_formOk ctx rule p _ _ k0 k2 f0 f2 _ _ (by simpa [hm64] using hmode) hk0 hk2 R f3 imm hf3 hib (by simp [hi]) hf0 hf2 hal (by rw [hm64]; exact hp) P h0 h1 h2



end AsmjitVerif.Props.C01
