/-
C02, end-to-end for the `mov Rd, #imm` pseudo instruction (kEncodingBaseMov, immediate forms): whatever the class model
emits - one MOVZ/MOVN, one ORR (logical immediate), or a MOVZ/MOVN + MOVK sequence of up to four words - is judged
`full` by the property monitor, i.e. executing the words (Arm ARM move-wide semantics / DecodeBitMasks, Spec/A64Imm.lean)
leaves exactly the requested value in the requested register, from any previous register content.
Built on the C17 theorems `movseq64_x`, `movseq64_w`, `movseq64_length`, `logical_sound64/32`.
-/
import AsmjitVerif.Props.C17A64
import AsmjitVerif.Props.C02
import AsmjitVerif.Model.A64AsmMem
namespace AsmjitVerif.C02
open AsmjitVerif.A64 AsmjitVerif.A64Asm AsmjitVerif.A64Spec AsmjitVerif.A64Imm

theorem mov_x_cases (r : Reg) (hrt : r.rt < 32) (hx : (r.rt + 2 ^ 32 - 5) % 2 ^ 32 ≤ 1) :
    (r.rt = rtGp32 ∧ (r.rt + 2 ^ 32 - 5) % 2 ^ 32 = 0) ∨ (r.rt = rtGp64 ∧ (r.rt + 2 ^ 32 - 5) % 2 ^ 32 = 1) := by
  simp only [rtGp32, rtGp64]; omega

/-- the move-wide paths: the sequence loads the value -/
theorem movwide_described (r : Reg) (imm : BitVec 64) (hrt : r.rt < 32) (hx : (r.rt + 2 ^ 32 - 5) % 2 ^ 32 ≤ 1)
    (wf : r.et = 0 ∧ r.hasIdx = false) (hid : checkGpId r idZR = true) :
    describesMovImm r imm
      (encodeMovSequence64 (if (r.rt + 2 ^ 32 - 5) % 2 ^ 32 == 0 then imm &&& 0xFFFFFFFF#64 else imm) (w32 (r.id % 32))
        (w32 ((r.rt + 2 ^ 32 - 5) % 2 ^ 32))) = true := by
  have hnum := checked_id_designates r idZR (Or.inr rfl) hid
  have hz : (idZR == idSP) = false := by decide
  rw [hz] at hnum
  have hrd : (w32 (r.id % 32)).ult 32#32 = true := by simp [w32, BitVec.ult, BitVec.toNat_ofNat]; omega
  rcases mov_x_cases r hrt hx with ⟨h5, hx0⟩ | ⟨h6, hx1⟩
  · -- W destination
    rw [hx0]
    simp only [beq_self_eq_true, if_true]
    have hle : (imm &&& 0xFFFFFFFF#64).ule 0xFFFFFFFF#64 = true := by bv_decide
    have e1 := movseq64_w (imm &&& 0xFFFFFFFF#64) (w32 (r.id % 32)) 0xdeadbeefcafef00d#64 hrd hle
    have e2 := movseq64_w (imm &&& 0xFFFFFFFF#64) (w32 (r.id % 32)) 0x0123456789abcdef#64 hrd hle
    have hl := movseq64_length (imm &&& 0xFFFFFFFF#64) (w32 (r.id % 32)) (w32 0)
    have hw0 : w32 0 = 0#32 := rfl
    rw [hw0] at hl ⊢
    generalize encodeMovSequence64 (imm &&& 0xFFFFFFFF#64) (w32 (r.id % 32)) 0#32 = ws at *
    unfold describesMovImm
    simp only [Reg.isGp, h5, wf.1, wf.2, hnum, w32] at *
    match ws, hl, e1, e2 with
    | [], hl, _, _ => simp at hl
    | [w], _, e1, _ => simp [rtGp32, rtGp64, e1]
    | w1 :: w2 :: rest, hl, e1, e2 => simp [rtGp32, rtGp64, e1, e2]; simpa using hl.2
  · -- X destination
    rw [hx1]
    simp only [show ((1 : Nat) == 0) = false by decide, if_false, Bool.false_eq_true]
    have e1 := movseq64_x imm (w32 (r.id % 32)) 0xdeadbeefcafef00d#64 hrd
    have e2 := movseq64_x imm (w32 (r.id % 32)) 0x0123456789abcdef#64 hrd
    have hl := movseq64_length imm (w32 (r.id % 32)) (w32 1)
    have hw1 : w32 1 = 1#32 := rfl
    rw [hw1] at hl ⊢
    generalize encodeMovSequence64 imm (w32 (r.id % 32)) 1#32 = ws at *
    unfold describesMovImm
    simp only [Reg.isGp, h6, wf.1, wf.2, hnum, w32] at *
    match ws, hl, e1, e2 with
    | [], hl, _, _ => simp at hl
    | [w], _, e1, _ => simp [rtGp32, rtGp64, e1]
    | w1 :: w2 :: rest, hl, e1, e2 => simp [rtGp32, rtGp64, e1, e2]; simpa using hl.2

/-! ### the ORR (logical immediate) path -/

theorem orr_fields (x n r s rd : BitVec 32) (hx : x.ult 2#32 = true) (hn : n.ult 2#32 = true) (hr : r.ult 64#32 = true)
    (hs : s.ult 64#32 = true) (hrd : rd.ult 32#32 = true) :
    (0x320003E0#32 ||| (x <<< 31) ||| (n <<< 22) ||| (r <<< 16) ||| (s <<< 10) ||| (rd <<< 0)) &&& 0xFF800000#32 = 0x32000000#32 ||| (x <<< 31) ∧
    ((0x320003E0#32 ||| (x <<< 31) ||| (n <<< 22) ||| (r <<< 16) ||| (s <<< 10) ||| (rd <<< 0)) >>> 5) &&& 31#32 = 31#32 ∧
    ((0x320003E0#32 ||| (x <<< 31) ||| (n <<< 22) ||| (r <<< 16) ||| (s <<< 10) ||| (rd <<< 0)) >>> 22) &&& 1#32 = n ∧
    ((0x320003E0#32 ||| (x <<< 31) ||| (n <<< 22) ||| (r <<< 16) ||| (s <<< 10) ||| (rd <<< 0)) >>> 16) &&& 63#32 = r ∧
    ((0x320003E0#32 ||| (x <<< 31) ||| (n <<< 22) ||| (r <<< 16) ||| (s <<< 10) ||| (rd <<< 0)) >>> 10) &&& 63#32 = s ∧
    ((0x320003E0#32 ||| (x <<< 31) ||| (n <<< 22) ||| (r <<< 16) ||| (s <<< 10) ||| (rd <<< 0)) >>> 0) &&& 31#32 = rd := by
  bv_decide

theorem toNat_mod_pow (w : BitVec 32) (p s : Nat) (hs : s ≤ 31) :
    (w.toNat >>> p) % 2 ^ s = ((w >>> p) &&& BitVec.ofNat 32 (2 ^ s - 1)).toNat := by
  have h1 : 2 ^ s - 1 < 2 ^ 32 := by
    have : 2 ^ s ≤ 2 ^ 31 := Nat.pow_le_pow_right (by decide) hs
    omega
  simp [BitVec.toNat_and, BitVec.toNat_ushiftRight, BitVec.toNat_ofNat, Nat.mod_eq_of_lt h1]

theorem ofNat6_toNat (v : BitVec 32) : BitVec.ofNat 6 v.toNat = v.truncate 6 := by
  apply BitVec.eq_of_toNat_eq; simp [BitVec.toNat_ofNat, BitVec.truncate]

/-- what `orrImmVal` computes on the packed ORR word -/
theorem orrImmVal_packed (b64 : Bool) (e : LogicalImm) (rd : BitVec 32) (hn : e.n.ult 2#32 = true) (hr : e.r.ult 64#32 = true)
    (hs : e.s.ult 64#32 = true) (hrd : rd.ult 32#32 = true) :
    orrImmVal b64 (0x320003E0#32 ||| ((if b64 then 1#32 else 0#32) <<< 31) ||| (e.n <<< 22) ||| (e.r <<< 16) ||| (e.s <<< 10) ||| (rd <<< 0)) =
      (if b64 then decodeBitMasks (e.n == 1#32) (e.s.truncate 6) (e.r.truncate 6)
       else decodeBitMasks32 (e.n == 1#32) (e.s.truncate 6) (e.r.truncate 6)) ∧
    (0x320003E0#32 ||| ((if b64 then 1#32 else 0#32) <<< 31) ||| (e.n <<< 22) ||| (e.r <<< 16) ||| (e.s <<< 10) ||| (rd <<< 0)).toNat % 32 = rd.toNat := by
  have hx : (if b64 then 1#32 else 0#32 : BitVec 32).ult 2#32 = true := by cases b64 <;> decide
  obtain ⟨k1, k2, k3, k4, k5, k6⟩ := orr_fields (if b64 then 1#32 else 0#32) e.n e.r e.s rd hx hn hr hs hrd
  generalize (0x320003E0#32 ||| ((if b64 then 1#32 else 0#32) <<< 31) ||| (e.n <<< 22) ||| (e.r <<< 16) ||| (e.s <<< 10) ||| (rd <<< 0)) = w at *
  have n1 : w.toNat &&& 0xFF800000 = (0x32000000#32 ||| ((if b64 then 1#32 else 0#32) <<< 31)).toNat := by
    rw [← k1]; simp [BitVec.toNat_and]
  have n2 : (w.toNat >>> 5) % 32 = 31 := by
    have := toNat_mod_pow w 5 5 (by decide); rw [show BitVec.ofNat 32 (2 ^ 5 - 1) = 31#32 from rfl, k2] at this; simpa using this
  have n3 : (w.toNat >>> 22) % 2 = e.n.toNat := by
    have := toNat_mod_pow w 22 1 (by decide); rw [show BitVec.ofNat 32 (2 ^ 1 - 1) = 1#32 from rfl, k3] at this; simpa using this
  have n4 : (w.toNat >>> 16) % 64 = e.r.toNat := by
    have := toNat_mod_pow w 16 6 (by decide); rw [show BitVec.ofNat 32 (2 ^ 6 - 1) = 63#32 from rfl, k4] at this; simpa using this
  have n5 : (w.toNat >>> 10) % 64 = e.s.toNat := by
    have := toNat_mod_pow w 10 6 (by decide); rw [show BitVec.ofNat 32 (2 ^ 6 - 1) = 63#32 from rfl, k5] at this; simpa using this
  have n6 : w.toNat % 32 = rd.toNat := by
    have := toNat_mod_pow w 0 5 (by decide); rw [show BitVec.ofNat 32 (2 ^ 5 - 1) = 31#32 from rfl, k6] at this; simpa using this
  have hn1 : (e.n.toNat == 1) = (e.n == 1#32) := by
    by_cases h : e.n = 1#32
    · rw [h]; decide
    · have : e.n.toNat ≠ 1 := fun hh => h (BitVec.eq_of_toNat_eq (by simpa using hh))
      rw [show (e.n.toNat == 1) = false from by simpa using this, show (e.n == 1#32) = false from by simpa using h]
  refine ⟨?_, n6⟩
  simp only [orrImmVal, n1, n2, n3, n4, n5, ofNat6_toNat, hn1]
  cases b64 <;> simp

theorem orr_described (r : Reg) (imm : BitVec 64) (e : LogicalImm) (b64 : Bool) (hb : b64 = (r.rt == rtGp64)) (hgp : r.isGp = true)
    (wf : r.et = 0 ∧ r.hasIdx = false) (hid : checkGpId r idSP = true)
    (hdec : (if b64 then decodeBitMasks (e.n == 1#32) (e.s.truncate 6) (e.r.truncate 6)
             else decodeBitMasks32 (e.n == 1#32) (e.s.truncate 6) (e.r.truncate 6)) = some (if b64 then imm else imm &&& 0xFFFFFFFF#64))
    (hn : e.n.ult 2#32 = true) (hr : e.r.ult 64#32 = true) (hs : e.s.ult 64#32 = true) :
    describesMovImm r imm [0x320003E0#32 ||| ((if b64 then 1#32 else 0#32) <<< 31) ||| (e.n <<< 22) ||| (e.r <<< 16) ||| (e.s <<< 10) |||
      (BitVec.ofNat 32 (r.id % 32) <<< 0)] = true := by
  have hnum := checked_id_designates r idSP (Or.inl rfl) hid
  have hz : (idSP == idSP) = true := by decide
  rw [hz] at hnum
  have hrd : (BitVec.ofNat 32 (r.id % 32)).ult 32#32 = true := by simp [BitVec.ult, BitVec.toNat_ofNat]; omega
  obtain ⟨o1, o2⟩ := orrImmVal_packed b64 e (BitVec.ofNat 32 (r.id % 32)) hn hr hs hrd
  have hrdn : (BitVec.ofNat 32 (r.id % 32)).toNat = r.id % 32 := by simp [BitVec.toNat_ofNat]; omega
  rw [hrdn] at o2
  unfold describesMovImm
  simp only [hgp, wf.1, wf.2, hnum, ← hb, o1, o2, hdec]
  simp

/-- the three outcomes of `emitMovImm` once the operation width is fixed (x = 0: W, x = 1: X) -/
theorem movImm_core (o0 : Reg) (imm v : BitVec 64) (x : Nat) (b64 : Bool) (ws : List (BitVec 32))
    (hb : b64 = (o0.rt == rtGp64)) (hgp : o0.isGp = true) (wf : o0.et = 0 ∧ o0.hasIdx = false)
    (hxb : (if b64 then 1#32 else 0#32) = w32 x) (hwant : v = (if b64 then imm else imm &&& 0xFFFFFFFF#64))
    (hmw : checkGpId o0 idZR = true → describesMovImm o0 imm (encodeMovSequence64 v (w32 (o0.id % 32)) (w32 x)) = true)
    (hsound : ∀ li, encodeLogicalImm v (if x != 0 then 64 else 32) = some li →
      (if b64 then decodeBitMasks (li.n == 1#32) (li.s.truncate 6) (li.r.truncate 6)
       else decodeBitMasks32 (li.n == 1#32) (li.s.truncate 6) (li.r.truncate 6)) = some v ∧
      li.n.ult 2#32 = true ∧ li.r.ult 64#32 = true ∧ li.s.ult 64#32 = true)
    (h : (if (encodeMovSequence64 v (w32 (o0.id % 32)) (w32 x)).length == 1 && o0.id != idSP then
            (if !checkGpId o0 idZR then invalidPhysId else Result.ok (encodeMovSequence64 v (w32 (o0.id % 32)) (w32 x)))
          else
            match (if o0.id != idZR then encodeLogicalImm v (if x != 0 then 64 else 32) else none) with
            | some li =>
              if !checkGpId o0 idSP then invalidPhysId else
              ok1 (0x320003E0#32 ||| addImm x 31 ||| (li.n <<< 22) ||| (li.r <<< 16) ||| (li.s <<< 10) ||| addReg o0.id 0)
            | none =>
              if !checkGpId o0 idZR then invalidPhysId else Result.ok (encodeMovSequence64 v (w32 (o0.id % 32)) (w32 x))) = Result.ok ws) :
    describesMovImm o0 imm ws = true := by
  by_cases c1 : ((encodeMovSequence64 v (w32 (o0.id % 32)) (w32 x)).length == 1 && o0.id != idSP) = true
  · simp only [c1, if_true] at h
    by_cases c2 : checkGpId o0 idZR = true
    · simp only [c2, Bool.not_true, Bool.false_eq_true, if_false, Result.ok.injEq] at h
      rw [← h]; exact hmw c2
    · simp [c2, invalidPhysId] at h
  · simp only [c1, Bool.false_eq_true, if_false] at h
    cases hE : (if o0.id != idZR then encodeLogicalImm v (if x != 0 then 64 else 32) else none) with
    | none =>
      rw [hE] at h
      simp only [] at h
      by_cases c2 : checkGpId o0 idZR = true
      · simp only [c2, Bool.not_true, Bool.false_eq_true, if_false, Result.ok.injEq] at h
        rw [← h]; exact hmw c2
      · simp [c2, invalidPhysId] at h
    | some li =>
      rw [hE] at h
      simp only [] at h
      by_cases c3 : checkGpId o0 idSP = true
      · simp only [c3, Bool.not_true, Bool.false_eq_true, if_false, ok1, Result.ok.injEq] at h
        have hli : encodeLogicalImm v (if x != 0 then 64 else 32) = some li := by
          by_cases hz : o0.id != idZR
          · simpa [hz] using hE
          · simp [hz] at hE
        obtain ⟨s1, s2, s3, s4⟩ := hsound li hli
        have := orr_described o0 imm li b64 hb hgp wf c3 (by rw [s1, hwant]) s2 s3 s4
        rw [← h]
        simpa [addImm, addReg, hxb, w32] using this
      · simp [c3, invalidPhysId] at h

/-- **End-to-end, `mov Rd, #imm`** (kEncodingBaseMov, integer immediate): every answer of the class model is judged `full`. -/
theorem movImm_end_to_end (forms : List Form) (o0 : Reg) (imm : BitVec 64) (p : Nat) (hrt : o0.rt < 32)
    (wf : o0.et = 0 ∧ o0.hasIdx = false) (ws : List (BitVec 32)) (pc : BitVec 64) (h : emitMovImm o0 imm = .ok ws) :
    judge forms "mov" [.reg o0, .imm imm p] pc (.ok ws) = .full := by
  have key : describesMovImm o0 imm ws = true := by
    unfold emitMovImm at h
    by_cases hx : (o0.rt + 2 ^ 32 - 5) % 2 ^ 32 > 1
    · simp only [hx, if_true, invalidInstruction] at h
      cases h
    · have hx' : (o0.rt + 2 ^ 32 - 5) % 2 ^ 32 ≤ 1 := by omega
      simp only [hx, if_false] at h
      have hmw := movwide_described o0 imm hrt hx' wf
      rcases mov_x_cases o0 hrt hx' with ⟨h5, hx0⟩ | ⟨h6, hx1⟩
      · rw [hx0] at h hmw
        simp only [beq_self_eq_true, if_true] at h hmw
        refine movImm_core o0 imm (imm &&& 0xFFFFFFFF#64) 0 false ws (by simp [h5, rtGp32, rtGp64]) (by simp [Reg.isGp, h5]) wf rfl rfl hmw ?_ h
        intro li hli
        simp only [bne_self_eq_false, Bool.false_eq_true, if_false] at hli
        have hv : (imm &&& 0xFFFFFFFF#64) &&& 0xFFFFFFFF00000000#64 = 0#64 := by bv_decide
        obtain ⟨s1, s2, s3, s4, s5⟩ := logical_sound32 _ li hv hli
        refine ⟨?_, by rw [s1]; decide, s5, s4⟩
        simp [decodeBitMasks32, decodeBitMasks, s1, s2, s3]
      · rw [hx1] at h hmw
        simp only [show ((1 : Nat) == 0) = false by decide, if_false, Bool.false_eq_true] at h hmw
        refine movImm_core o0 imm imm 1 true ws (by simp [h6, rtGp64]) (by simp [Reg.isGp, h6]) wf rfl rfl hmw ?_ h
        intro li hli
        simp only [show ((1 : Nat) != 0) = true by decide, if_true] at hli
        obtain ⟨s1, s2, s3, s4, s5⟩ := logical_sound64 _ li hli
        exact ⟨by simp [decodeBitMasks, s1, s2], s3, s5, s4⟩
  simp [judge, key]

/-! ### refusal, stated as iff: ADD/SUB (immediate) without an explicit shift -/

/-- the class model refuses an immediate exactly when `is_add_sub_imm` (C17: `addsub_sound` / `addsub_complete` - the
value is `imm12 LSL (0|12)` for some imm12) says it has no encoding -/
theorem addSubImmFields_none_iff (imm : BitVec 64) : addSubImmFields imm 0 = none ↔ isAddSubImm imm = false := by
  unfold addSubImmFields isAddSubImm
  by_cases hbig : imm.toNat > 0xFFF
  · have hle : imm.ule 0xFFF#64 = false := by simp [BitVec.ule]; omega
    by_cases hz : imm &&& ~~~0xFFF000#64 = 0#64
    · simp [hbig, hle, hz]
    · simp [hbig, hle, hz]
  · have hle : imm.ule 0xFFF#64 = true := by simp [BitVec.ule]; omega
    simp [hbig, hle]

/-- with `lsl #12` only a 12-bit value is accepted -/
theorem addSubImmFields_shift12_none_iff (imm : BitVec 64) : addSubImmFields imm 1 = none ↔ imm.toNat > 0xFFF := by
  unfold addSubImmFields
  by_cases hbig : imm.toNat > 0xFFF <;> simp [hbig]

/-- `mov Rd, #imm` never refuses a value: for a W/X register with an id 0..30 every 64-bit immediate is accepted
(and, by `movImm_end_to_end`, loaded correctly) - the only refusals are a wrong register type or id. -/
theorem movImm_total (o0 : Reg) (imm : BitVec 64) (hrt : o0.rt = rtGp32 ∨ o0.rt = rtGp64) (hid : o0.id < 31) :
    ∃ ws, emitMovImm o0 imm = .ok ws := by
  have hz : checkGpId o0 idZR = true := by unfold checkGpId; simp [hid]
  have hs : checkGpId o0 idSP = true := by unfold checkGpId; simp [hid]
  have hx : ¬ (o0.rt + 2 ^ 32 - 5) % 2 ^ 32 > 1 := by rcases hrt with h | h <;> simp [h, rtGp32, rtGp64]
  unfold emitMovImm
  simp only [hx, if_false, hz, hs, Bool.not_true, Bool.false_eq_true]
  (repeat' split) <;> exact ⟨_, rfl⟩

theorem movImm_refuses_bad_id (o0 : Reg) (imm : BitVec 64) (hbad : 31 ≤ o0.id ∧ o0.id ≠ idSP ∧ o0.id ≠ idZR) :
    ∀ ws, emitMovImm o0 imm ≠ .ok ws := by
  intro ws
  have hz : checkGpId o0 idZR = false := by unfold checkGpId; simp; omega
  have hs : checkGpId o0 idSP = false := by unfold checkGpId; simp; omega
  unfold emitMovImm
  simp only [hz, hs, Bool.not_false, if_true]
  (repeat' split) <;> simp [invalidPhysId, invalidInstruction]

end AsmjitVerif.C02
