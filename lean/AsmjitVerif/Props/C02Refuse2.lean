/-
C02, refusal side of movi / mvni immediates, per stage of the staged model (`moviStage1/2/3` in Model/A64AsmPerm.lean): which
immediates / shift kinds each element size lets through - everything else ends in InvalidImmediate.  (A single theorem over
`emitSimdMoviMvni` itself takes > 4 min and overflows the kernel's recursion limit whatever the proof style, so it is not stated.)
-/
import AsmjitVerif.Props.C02Refuse
import AsmjitVerif.Spec.A64Decode
namespace AsmjitVerif.C02
open AsmjitVerif.A64 AsmjitVerif.A64Asm AsmjitVerif.Gen.A64Tables
set_option maxRecDepth 100000

/-- stage 1, per size: for 64-bit elements only a byte mask or a value with equal halves gets through -/
theorem moviStage1_64 (imm64 : Nat) (a : Nat × Nat × Nat) (h : moviStage1 3 imm64 = some a) :
    (isByteMask imm64 = true ∧ a = (imm64, byteMaskToImm8 imm64, 3)) ∨
    (imm64 >>> 32 = imm64 % 2 ^ 32 ∧ a = (imm64 % 2 ^ 32, 0, 2)) := by
  unfold moviStage1 at h
  simp only [show ((3 : Nat) == 3) = true from rfl, if_true] at h
  split at h
  · rename_i h1
    left; exact ⟨h1, by simpa using h.symm⟩
  · split at h
    · rename_i h1 h2
      right; exact ⟨by simpa using h2, by simpa using h.symm⟩
    · simp at h

theorem moviStage1_small (size0 imm64 : Nat) (hs : size0 ≠ 3) : moviStage1 size0 imm64 = some (imm64, 0, size0) := by
  unfold moviStage1
  have : (size0 == 3) = false := by simpa using hs
  simp [this]

/-- stage 3, per size: the shift kinds each element size admits -/
theorem moviStage3_size0 (inv imm8 shift8 shiftOp : Nat) (c : Nat × Nat × Nat) (h : moviStage3 inv (imm8, 0, shift8, shiftOp) = some c) :
    shiftOp = sopLSL ∧ c.2.1 = 14 := by
  unfold moviStage3 at h
  simp only [show ((0 : Nat) == 0) = true from rfl, if_true] at h
  split at h
  · simp at h
  · rename_i hs
    exact ⟨by simpa using hs, by rw [← Option.some.inj h]⟩

theorem moviStage3_size2 (inv imm8 shift8 shiftOp : Nat) (c : Nat × Nat × Nat) (h : moviStage3 inv (imm8, 2, shift8, shiftOp) = some c) :
    shiftOp = sopLSL ∨ (shiftOp = sopMSL ∧ (shift8 / 8 = 1 ∨ shift8 / 8 = 2)) := by
  unfold moviStage3 at h
  simp only [show ((2 : Nat) == 0) = false from rfl, show ((2 : Nat) == 1) = false from rfl, show ((2 : Nat) == 2) = true from rfl,
    Bool.false_eq_true, if_false, if_true] at h
  split at h
  · rename_i hl
    left; simpa using hl
  · split at h
    · rename_i hl hm
      split at h
      · simp at h
      · rename_i hr
        right
        refine ⟨by simpa using hm, ?_⟩
        simp only [Bool.or_eq_true, beq_iff_eq, decide_eq_true_eq, not_or] at hr
        omega
    · simp at h

/-! ### LDR / STR (SIMD), immediate offset without write-back: the decision between the scaled form and LDUR / STUR, in two steps -/

/-- step 1: an offset the scaled unsigned form cannot hold is handed to the LDUR / STUR row, unchanged -/
theorem simdLdSt_fallback_eq (d : SimdLdStRow) (o0 : Reg) (mo : Operand) (m : MemView) (pos : Nat)
    (hty : u32sub o0.rt rtVec8 ≤ 4) (het : hasEtOrIdx o0 = false) (hid : o0.id ≤ 31) (hrel : checkMemBaseIndexRel m = true)
    (hb : m.hasBaseReg = true) (hi : m.hasIndex = false) (hmode : m.mode = 0)
    (hns : ¬((m.off32 >>> u32sub o0.rt rtVec8).toNat < 4096 ∧ (m.off32 >>> u32sub o0.rt rtVec8) <<< u32sub o0.rt rtVec8 = m.off32)) :
    emitSimdLdSt d o0 mo m pos =
      (match instTable[d.u_alt_inst_id]? with
       | some r => match simdLdurStur[r.idx]? with
                   | some du => emitSimdLdurStur du o0 m
                   | none => notModelled
       | none => notModelled) := by
  unfold emitSimdLdSt
  have h1 : (decide (u32sub o0.rt rtVec8 > 4) || hasEtOrIdx o0) = false := by simp [het]; omega
  have h2 : ¬ o0.id > 31 := by omega
  simp only [h1, h2, hrel, hb, hi, hmode, Bool.not_true, Bool.false_eq_true, if_false, if_true]
  generalize u32sub o0.rt rtVec8 = sh at *
  have hcond : (!decide ((m.off32 >>> sh).toNat < 4096) || m.off32 >>> sh <<< sh != m.off32) = true := by
    by_cases c1 : (m.off32 >>> sh).toNat < 4096
    · have c2 : ¬ (m.off32 >>> sh <<< sh = m.off32) := fun c2 => hns ⟨c1, c2⟩
      simp [c1, c2]
    · have : decide ((m.off32 >>> sh).toNat < 4096) = false := by simpa using c1
      rw [this]; rfl
  rw [if_neg (by decide), if_pos hcond]
  cases instTable[d.u_alt_inst_id]? with
  | none => rfl
  | some r => cases simdLdurStur[r.idx]? <;> rfl

/-- step 2 (`simdLdurStur_refuses_out_of_range`): … and LDUR / STUR refuses what does not fit 9 signed bits.  Together: an offset
that fits neither form is refused, nothing is appended -/
theorem simdLdSt_offset_fits_neither_refused (d : SimdLdStRow) (o0 : Reg) (mo : Operand) (m : MemView) (pos : Nat)
    (hty : u32sub o0.rt rtVec8 ≤ 4) (het : hasEtOrIdx o0 = false) (hid : o0.id ≤ 31) (hrel : checkMemBaseIndexRel m = true)
    (hb : m.hasBaseReg = true) (hi : m.hasIndex = false) (hmode : m.mode = 0)
    (hns : ¬((m.off32 >>> u32sub o0.rt rtVec8).toNat < 4096 ∧ (m.off32 >>> u32sub o0.rt rtVec8) <<< u32sub o0.rt rtVec8 = m.off32))
    (h9 : isInt9 m.off32 = false) : ∀ ws, emitSimdLdSt d o0 mo m pos ≠ .ok ws := by
  intro ws h
  rw [simdLdSt_fallback_eq d o0 mo m pos hty het hid hrel hb hi hmode hns] at h
  cases hr : instTable[d.u_alt_inst_id]? with
  | none => rw [hr] at h; simp [notModelled] at h
  | some r =>
    rw [hr] at h
    simp only [] at h
    cases hd : simdLdurStur[r.idx]? with
    | none => rw [hd] at h; simp [notModelled] at h
    | some du =>
      rw [hd] at h
      exact simdLdurStur_refuses_out_of_range du o0 m h9 ws h

/-! ### the 64-bit byte-mask packer (`encode_imm64_byte_mask_to_imm8`, model `byteMaskToImm8`) against the spec's
AdvSIMDExpandImm(op = 1, cmode = 1110) - all 256 masks -/

/-- every imm8 expands to a byte mask that the assembler recognises and packs back to the same imm8 (so each byte of the mask goes
to its own bit of abc:defgh) -/
theorem movi_bytemask_roundtrip :
    (List.range 256).all (fun i =>
      match AsmjitVerif.A64Spec.moviExpand 1 14 i with
      | some v => isByteMask v && byteMaskToImm8 v == i && decide (v < 2 ^ 64)
      | none => false) = true := by decide +kernel

/-- conversely the byte masks are exactly these 256 values: a 64-bit value passes `is_byte_mask_imm` iff it is the expansion of
its own packed imm8 -/
theorem movi_bytemask_expand_of_pack (imm : BitVec 64) (h : AsmjitVerif.A64Imm.isByteMaskImm imm = true) :
    AsmjitVerif.A64Imm.byteMaskExpand ((AsmjitVerif.A64Imm.encodeByteMaskToImm8 imm).truncate 8) = imm := by
  unfold AsmjitVerif.A64Imm.isByteMaskImm at h
  unfold AsmjitVerif.A64Imm.byteMaskExpand AsmjitVerif.A64Imm.encodeByteMaskToImm8
  simp only [List.range, List.range.loop, List.foldl]
  bv_decide

/-- the fmov immediate packer (`is_fp64_imm8` / `encode_fp64_to_imm8`, model `isFp64Imm8` / `encodeFp64Imm8`) against VFPExpandImm:
all 256 encodable doubles are accepted and pack back to their imm8 -/
theorem fmov_imm8_roundtrip :
    (List.range 256).all (fun i =>
      let bits := (AsmjitVerif.A64Imm.vfpExpandImm 64 (BitVec.ofNat 8 i)).toNat
      isFp64Imm8 bits && encodeFp64Imm8 bits == i) = true := by decide +kernel

end AsmjitVerif.C02
