/-
C01 property theorems: relative branches to a BOUND label - classes X86Jcc, X86Jmp, X86Call (`EmitJmpCall` + `EmitJmpCallRel`).
The encoder computes the displacement modulo 2^32 and picks rel8 when it fits (`isInt8`, cf. `short_form_only_if_representable` in Props/C03.lean);
the monitor wants end-of-instruction + sign-extended displacement = label position over the integers. Both agree for code offsets below 2^31.
-/
import AsmjitVerif.Props.C01FrontMem
import AsmjitVerif.Lemmas.X86ParseRel
set_option linter.constructorNameAsVariable false
set_option linter.unusedSimpArgs false
set_option linter.unusedVariables false
set_option maxRecDepth 100000
namespace AsmjitVerif.Props.C01
open Spec.X86 Model.X86 AsmjitVerif.Lemmas.X86Parse AsmjitVerif.Gen.X86ClassRows

/-- a rel32 computed modulo 2^32 from positions below 2^31 is the exact signed distance -/
theorem rel32_exact (pos off n : Nat) (hpos : pos < 2 ^ 31) (hoff : off + n < 2 ^ 31) :
    sextNat (BitVec.ofNat 32 pos - BitVec.ofNat 32 off - BitVec.ofNat 32 n).toNat 32 = (pos : Int) - off - n := by
  simp only [sextNat, BitVec.toNat_sub, BitVec.toNat_ofNat]
  have h1 : pos % 2 ^ 32 = pos := Nat.mod_eq_of_lt (by omega)
  have h2 : off % 2 ^ 32 = off := Nat.mod_eq_of_lt (by omega)
  have h3 : n % 2 ^ 32 = n := Nat.mod_eq_of_lt (by omega)
  rw [h1, h2, h3]
  simp only [Nat.reducePow, Nat.reduceSub]
  split <;> omega

/-- the rel8 byte of the short form: when `isInt8` accepts, its sign extension is the 32-bit value -/
theorem rel8_exact (d : BitVec 32) (h : isInt8 d = true) : sextNat (d.truncate 8 : BitVec 8).toNat 8 = sextNat d.toNat 32 := by
  have hb : d ≤ 127#32 ∨ d ≥ 0xFFFFFF80#32 := by simp only [isInt8] at h; bv_decide
  simp only [sextNat, BitVec.truncate, BitVec.toNat_setWidth]
  have hlt := d.isLt
  rcases hb with hb | hb
  · have : d.toNat ≤ 127 := by simpa [BitVec.le_def] using hb
    simp only [Nat.reducePow, Nat.reduceSub]
    split <;> split <;> omega
  · have : d.toNat ≥ 4294967168 := by simpa [BitVec.le_def] using hb
    simp only [Nat.reducePow, Nat.reduceSub]
    split <;> split <;> omega

/-- the byte length of the rel32 form: opcode (+ 0F escape) + 4 -/
def inst32Of (opcode : BitVec 32) : Nat := 5 + (if (opcode &&& kMM_Mask) == kMM_0F then 1 else 0)

/-- `EmitJmpCall` on a bound label, no options, no REX bits in the opcode word -/
theorem emitJmpCall_label (c : Model.X86.Ctx) (opcode altOp : BitVec 32) (pos : Nat) (b : Bool) (hrex : opcode &&& 0xFF000000#32 = 0#32) :
    emitJmpCall c opcode 0#32 0#32 altOp (.label pos) b =
      (if isInt8 (BitVec.ofNat 32 pos - BitVec.ofNat 32 c.off - BitVec.ofNat 32 (inst32Of opcode) + BitVec.ofNat 32 (inst32Of opcode) - 2#32) && altOp != 0#32 then
         .ok [altOp.truncate 8, (BitVec.ofNat 32 pos - BitVec.ofNat 32 c.off - BitVec.ofNat 32 (inst32Of opcode) + BitVec.ofNat 32 (inst32Of opcode) - 2#32).truncate 8]
       else if opcode == 0#32 then .error .invalidDisplacement
       else .ok ((if (opcode &&& kMM_Mask) != 0#32 then [0x0F#8] else []) ++ [opcode.truncate 8] ++
                 le32 (BitVec.ofNat 32 pos - BitVec.ofNat 32 c.off - BitVec.ofNat 32 (inst32Of opcode)))) := by
  have hr : extractRex opcode 0#32 = 0#32 := by simp only [extractRex]; bv_decide
  simp only [emitJmpCall, hr, emitRex, inst32Of, oLongForm, oShortForm, bind, Except.bind, pure, Except.pure]
  simp

/-- what the symbolic layer assumes about a (rule, opcode byte source) pair of a relative-branch form -/
structure RelRule (rule : Rule) (nrel : Nat) : Prop where
  hmode : (rule.modes &&& 2 != 0) = true
  hs : rule.space = 0
  hpp : rule.pp = 0
  hosz : rule.osz ≠ 16
  hri : rule.ri = false
  ha67 : rule.a67 = false
  hmk : rule.modKind = 0
  himm : rule.immBytes = 0
  hrel : rule.relBytes = nrel
  hmoff : rule.moff = false
  hw : wWant rule = 2 ∨ wWant rule = 0

/-- short form: `altOp rel8` -/
theorem jrel_short_formOk (c : Model.X86.Ctx) (ctx : Spec.X86.Ctx) (rule : Rule) (opcode altOp : BitVec 32) (pos : Nat) (f0 : FormOp)
    (hm64 : ctx.mode64 = true) (hoff : ctx.off = c.off) (hpos : pos < 2 ^ 31) (hcoff : c.off + 8 < 2 ^ 31)
    (R : RelRule rule 1) (hmap : rule.map = 0) (hop : rule.opcode = (altOp &&& 0xFF#32).toNat)
    (hsafe : isLegacyPrefix (altOp.truncate 8) false = false ∧ (altOp.truncate 8 : BitVec 8) >>> 4 ≠ 4#8)
    (hf0 : f0.role = .rel)
    (hal : alignOps rule.oszEff rule.ops [.label pos] = some [(f0, some (.label pos))])
    (hd : isInt8 (BitVec.ofNat 32 pos - BitVec.ofNat 32 c.off - BitVec.ofNat 32 (inst32Of opcode) + BitVec.ofNat 32 (inst32Of opcode) - 2#32) = true) :
    formOk ctx rule [.label pos] {}
      [altOp.truncate 8, (BitVec.ofNat 32 pos - BitVec.ofNat 32 c.off - BitVec.ofNat 32 (inst32Of opcode) + BitVec.ofNat 32 (inst32Of opcode) - 2#32).truncate 8] = true := by
  obtain ⟨hmode, hs, hpp, hosz, hri, ha67, hmk, himm, hrel, hmoff, hw⟩ := R
  have hd8 : BitVec.ofNat 32 pos - BitVec.ofNat 32 c.off - BitVec.ofNat 32 (inst32Of opcode) + BitVec.ofNat 32 (inst32Of opcode) - 2#32 =
      BitVec.ofNat 32 pos - BitVec.ofNat 32 c.off - BitVec.ofNat 32 2 := by
    generalize BitVec.ofNat 32 pos = a; generalize BitVec.ofNat 32 c.off = b'; generalize BitVec.ofNat 32 (inst32Of opcode) = n
    show a - b' - n + n - 2#32 = a - b' - 2#32
    bv_decide
  rw [hd8] at hd ⊢
  generalize hdd : BitVec.ofNat 32 pos - BitVec.ofNat 32 c.off - BitVec.ofNat 32 2 = d at hd
  have hparse := parse_legacy_rel rule (altOp.truncate 8) [d.truncate 8] hs (by simp [hpp]) (by omega) hmk
    (fun _ => ⟨hsafe.1, by
      intro h; apply hsafe.2; apply BitVec.eq_of_toNat_eq
      simpa [BitVec.toNat_ushiftRight, Nat.shiftRight_eq_div_pow] using h⟩) (by simp [himm, hrel]) hmoff
  rw [hmap] at hparse
  simp only [legacyEscape, List.nil_append] at hparse
  refine leg_rel_formOk ctx rule _ _ f0 pos (by simpa [hm64] using hmode) hs hpp hosz hri ha67 hf0 hal (by rw [hm64]; exact hparse)
    rfl rfl rfl rfl ?_ ?_ ?_
  · show (altOp.truncate 8 : BitVec 8).toNat = rule.opcode
    rw [hop]; exact toNat_eq_of_zext _ _ (by omega) (by bv_decide)
  · rcases hw with h | h
    · exact Or.inl h
    · right; rw [h]; rfl
  · show ((ctx.off + (0 + 1 + 1) : Nat) : Int) + sextNat (leNat (List.take rule.relBytes [d.truncate 8])) (8 * rule.relBytes) = (pos : Int)
    rw [hrel, hoff]
    simp only [List.take, leNat, Nat.mul_zero, Nat.add_zero, Nat.mul_one]
    rw [rel8_exact d hd, ← hdd, rel32_exact pos c.off 2 hpos (by omega)]
    push_cast; omega

/-- long form: `[0F] opcode rel32` -/
theorem jrel_long_formOk (c : Model.X86.Ctx) (ctx : Spec.X86.Ctx) (rule : Rule) (opcode : BitVec 32) (pos : Nat) (f0 : FormOp)
    (hm64 : ctx.mode64 = true) (hoff : ctx.off = c.off) (hpos : pos < 2 ^ 31) (hcoff : c.off + 8 < 2 ^ 31)
    (R : RelRule rule 4) (hopc : opcode &&& 0xFFFFFE00#32 = 0#32) (hmap : rule.map = ((opcode >>> 8) &&& 3#32).toNat)
    (hop : rule.opcode = (opcode &&& 0xFF#32).toNat)
    (hsafe : (opcode >>> 8) &&& 3#32 = 0#32 → isLegacyPrefix (opcode.truncate 8) false = false ∧ (opcode.truncate 8 : BitVec 8) >>> 4 ≠ 4#8)
    (hf0 : f0.role = .rel)
    (hal : alignOps rule.oszEff rule.ops [.label pos] = some [(f0, some (.label pos))]) :
    formOk ctx rule [.label pos] {}
      ((if (opcode &&& kMM_Mask) != 0#32 then [0x0F#8] else []) ++ [opcode.truncate 8] ++
        le32 (BitVec.ofNat 32 pos - BitVec.ofNat 32 c.off - BitVec.ofNat 32 (inst32Of opcode))) = true := by
  obtain ⟨hmode, hs, hpp, hosz, hri, ha67, hmk, himm, hrel, hmoff, hw⟩ := R
  have hc : (opcode >>> 8) &&& 3#32 = 0#32 ∨ (opcode >>> 8) &&& 3#32 = 1#32 := by bv_decide
  generalize hdd : BitVec.ofNat 32 pos - BitVec.ofNat 32 c.off - BitVec.ofNat 32 (inst32Of opcode) = d
  have hesc : (if (opcode &&& kMM_Mask) != 0#32 then [0x0F#8] else []) = legacyEscape rule.map ∧ inst32Of opcode = (legacyEscape rule.map).length + 5 := by
    rw [hmap]
    rcases hc with h | h
    · have e1 : opcode &&& kMM_Mask = 0#32 := by simp only [kMM_Mask]; bv_decide
      rw [h]; simp [inst32Of, e1, legacyEscape, kMM_0F]
    · have e1 : opcode &&& kMM_Mask = 0x100#32 := by simp only [kMM_Mask]; bv_decide
      rw [h]; simp [inst32Of, e1, legacyEscape, kMM_0F]
  obtain ⟨he1, he2⟩ := hesc
  rw [he1]
  have hparse := parse_legacy_rel rule (opcode.truncate 8) (le32 d) hs (by simp [hpp]) (by rw [hmap]; rcases hc with h | h <;> rw [h] <;> decide) hmk
    (fun hm0 => by
      have hm0' : (opcode >>> 8) &&& 3#32 = 0#32 := by apply BitVec.eq_of_toNat_eq; rw [← hmap, hm0]; rfl
      obtain ⟨s1, s2⟩ := hsafe hm0'
      exact ⟨s1, by
        intro h; apply s2; apply BitVec.eq_of_toNat_eq
        simpa [BitVec.toNat_ushiftRight, Nat.shiftRight_eq_div_pow] using h⟩) (by simp [himm, hrel, le32]) hmoff
  simp only [List.append_assoc, List.singleton_append] at hparse ⊢
  refine leg_rel_formOk ctx rule _ _ f0 pos (by simpa [hm64] using hmode) hs hpp hosz hri ha67 hf0 hal (by rw [hm64]; exact hparse)
    rfl rfl rfl rfl ?_ ?_ ?_
  · show (opcode.truncate 8 : BitVec 8).toNat = rule.opcode
    rw [hop]; exact toNat_eq_of_zext _ _ (by omega) (by bv_decide)
  · rcases hw with h | h
    · exact Or.inl h
    · right; rw [h]; rfl
  · show ((ctx.off + ((legacyEscape rule.map).length + 1 + (le32 d).length) : Nat) : Int) + sextNat (leNat (List.take rule.relBytes (le32 d))) (8 * rule.relBytes) = (pos : Int)
    rw [hrel, hoff]
    have hl : (le32 d).length = 4 := rfl
    have ht : List.take 4 (le32 d) = le32 d := by simp [le32]
    have hl2 : (legacyEscape rule.map).length ≤ 2 := by
      rw [hmap]; rcases hc with h | h <;> rw [h] <;> decide
    rw [hl, ht, leNat_le32, ← hdd, rel32_exact pos c.off (inst32Of opcode) hpos (by rw [he2]; omega)]
    rw [he2]; push_cast; omega

/-! ### table layer: jcc (16 x rel8 / rel32), jmp (rel8 / rel32), call (rel32) -/

/-- the rel32 opcode word: the row's main opcode for Jcc, the constants E9 / E8 for Jmp / Call -/
def relOpcodeOf (e : Entry) : BitVec 32 := if e.enc == 0x26 then e.mainOp else if e.enc == 0x28 then 0xE9#32 else 0xE8#32

def hasRelAlt (f : FormOp) : Bool := f.alts.any fun a => match a with | .rel _ => true | _ => false

theorem hasRelAlt_matches (osz : Nat) (f : FormOp) (pos : Nat) (h : hasRelAlt f = true) : formOpMatches osz f (.label pos) = true := by
  unfold hasRelAlt at h
  unfold formOpMatches
  rw [List.any_eq_true] at h ⊢
  obtain ⟨a, ha, hm⟩ := h
  refine ⟨a, ha, ?_⟩
  cases a <;> simp_all [altMatches]

def relRuleOk (r : Rule) (nrel : Nat) : Bool :=
  r.modes &&& 2 != 0 && (r.space == 0 && (r.pp == 0 && (r.osz != 16 && (!r.ri && (!r.a67 && (r.modKind == 0 && (r.immBytes == 0 && (r.relBytes == nrel &&
  (!r.moff && (wWant r == 2 || wWant r == 0))))))))))

theorem relRuleOk_spec (r : Rule) (n : Nat) (h : relRuleOk r n = true) : RelRule r n := by
  simp only [relRuleOk, Bool.and_eq_true, Bool.or_eq_true, beq_iff_eq, bne_iff_ne, ne_eq, Bool.not_eq_true'] at h
  obtain ⟨hmode, hs, hpp, hosz, hri, ha67, hmk, himm, hrel, hmoff, hw⟩ := h
  exact ⟨by simpa using hmode, hs, hpp, hosz, hri, ha67, hmk, himm, hrel, hmoff, hw⟩

def entryOkRel (e : Entry) : Bool :=
  match e.rule.ops with
  | [f0] =>
    (e.enc == 0x26 || e.enc == 0x28 || e.enc == 0x1C) && (f0.role == .rel && (hasRelAlt f0 && (relOpcodeOf e &&& 0xFFFFFE00#32 == 0#32 && (relOpcodeOf e != 0#32 &&
    ((e.rule.relBytes == 1 && (relRuleOk e.rule 1 && (e.rule.map == 0 && (e.rule.opcode == (e.altOp &&& 0xFF#32).toNat && (e.altOp != 0#32 &&
        (!isLegacyPrefix (e.altOp.truncate 8) false && (e.altOp.truncate 8 : BitVec 8) >>> 4 != 4#8)))))) ||
     (e.rule.relBytes == 4 && (relRuleOk e.rule 4 &&
        (e.rule.map == ((relOpcodeOf e >>> 8) &&& 3#32).toNat && (e.rule.opcode == (relOpcodeOf e &&& 0xFF#32).toNat &&
        ((relOpcodeOf e >>> 8) &&& 3#32 != 0#32 || (!isLegacyPrefix ((relOpcodeOf e).truncate 8) false && ((relOpcodeOf e).truncate 8 : BitVec 8) >>> 4 != 4#8)))))))))))
  | _ => false

theorem rel_entries_ok : lrelChunks.all (fun c => c.all entryOkRel) = true := by decide +kernel

/-- the displacement the encoder tests for the short form -/
def d8Of (c : Model.X86.Ctx) (e : Entry) (pos : Nat) : BitVec 32 :=
  BitVec.ofNat 32 pos - BitVec.ofNat 32 c.off - BitVec.ofNat 32 (inst32Of (relOpcodeOf e)) + BitVec.ofNat 32 (inst32Of (relOpcodeOf e)) - 2#32

/-- **front_cls_correct, classes X86Jcc / X86Jmp with a bound label, rel8 forms** (code offsets and label positions below 2^31): when the
displacement fits in 8 bits the encoder emits `opcode8 rel8`, and end of instruction + sign-extended rel8 = label position. -/
theorem front_cls_correct_rel8 (e : Entry) (ch : List Entry) (hch : ch ∈ lrelChunks) (he : e ∈ ch) (h1 : e.rule.relBytes = 1)
    (c : Model.X86.Ctx) (ctx : Spec.X86.Ctx) (pos : Nat) (b : Bool) (hm64 : ctx.mode64 = true) (hoff : ctx.off = c.off)
    (hpos : pos < 2 ^ 31) (hcoff : c.off + 8 < 2 ^ 31) (hd : isInt8 (d8Of c e pos) = true) :
    ∃ bytes, emitJmpCall c (relOpcodeOf e) 0#32 0#32 e.altOp (.label pos) b = .ok bytes ∧ formOk ctx e.rule [.label pos] {} bytes = true := by
  have hok := mem_chunks_ok rel_entries_ok e ch hch he
  unfold entryOkRel at hok
  split at hok
  · rename_i f0 hops
    simp only [Bool.and_eq_true, Bool.or_eq_true, beq_iff_eq, bne_iff_ne, ne_eq, Bool.not_eq_true'] at hok
    obtain ⟨-, r0, hra, hopc, hne0, hcase⟩ := hok
    have hal : alignOps e.rule.oszEff e.rule.ops [.label pos] = some [(f0, some (.label pos))] := by
      rw [hops]; simp [alignOps, hasRelAlt_matches _ _ pos hra]
    have hrex : relOpcodeOf e &&& 0xFF000000#32 = 0#32 := by generalize relOpcodeOf e = op at *; bv_decide
    rcases hcase with ⟨-, hR, hmap, hop, hne, hs1, hs2⟩ | ⟨h4, -⟩
    · have halt : (e.altOp != 0#32) = true := by simpa using hne
      rw [emitJmpCall_label c (relOpcodeOf e) e.altOp pos b hrex]
      simp only [d8Of] at hd
      simp only [hd, halt, Bool.and_self, ↓reduceIte]
      exact ⟨_, rfl, jrel_short_formOk c ctx e.rule (relOpcodeOf e) e.altOp pos f0 hm64 hoff hpos hcoff (relRuleOk_spec _ _ hR) hmap hop ⟨hs1, hs2⟩ r0 hal hd⟩
    · omega
  · simp at hok

/-- **front_cls_correct, classes X86Jcc / X86Jmp / X86Call with a bound label, rel32 forms**: when the short form is not taken (the
displacement does not fit, or the instruction has none) the encoder emits `[0F] opcode rel32`, and end of instruction + rel32 = label position. -/
theorem front_cls_correct_rel32 (e : Entry) (ch : List Entry) (hch : ch ∈ lrelChunks) (he : e ∈ ch) (h4 : e.rule.relBytes = 4)
    (c : Model.X86.Ctx) (ctx : Spec.X86.Ctx) (pos : Nat) (b : Bool) (hm64 : ctx.mode64 = true) (hoff : ctx.off = c.off)
    (hpos : pos < 2 ^ 31) (hcoff : c.off + 8 < 2 ^ 31) (hd : (isInt8 (d8Of c e pos) && e.altOp != 0#32) = false) :
    ∃ bytes, emitJmpCall c (relOpcodeOf e) 0#32 0#32 e.altOp (.label pos) b = .ok bytes ∧ formOk ctx e.rule [.label pos] {} bytes = true := by
  have hok := mem_chunks_ok rel_entries_ok e ch hch he
  unfold entryOkRel at hok
  split at hok
  · rename_i f0 hops
    simp only [Bool.and_eq_true, Bool.or_eq_true, beq_iff_eq, bne_iff_ne, ne_eq, Bool.not_eq_true'] at hok
    obtain ⟨-, r0, hra, hopc, hne0, hcase⟩ := hok
    have hal : alignOps e.rule.oszEff e.rule.ops [.label pos] = some [(f0, some (.label pos))] := by
      rw [hops]; simp [alignOps, hasRelAlt_matches _ _ pos hra]
    have hrex : relOpcodeOf e &&& 0xFF000000#32 = 0#32 := by generalize relOpcodeOf e = op at *; bv_decide
    rcases hcase with ⟨h1, -⟩ | ⟨-, hR, hmap, hop, hsafe⟩
    · omega
    · have hz : (relOpcodeOf e == 0#32) = false := by simpa using hne0
      rw [emitJmpCall_label c (relOpcodeOf e) e.altOp pos b hrex]
      simp only [d8Of] at hd
      simp only [hd, hz, Bool.false_eq_true, ↓reduceIte]
      refine ⟨_, rfl, jrel_long_formOk c ctx e.rule (relOpcodeOf e) pos f0 hm64 hoff hpos hcoff (relRuleOk_spec _ _ hR) hopc hmap hop ?_ r0 hal⟩
      intro h0
      rcases hsafe with h | ⟨a1, a2⟩
      · exact absurd h0 h
      · exact ⟨a1, a2⟩
  · simp at hok

/-- the class switch reaches `EmitJmpCall` with exactly these arguments -/
theorem dispatch_rel (c : Model.X86.Ctx) (row : Row) (pos : Nat) (henc : row.encoding = 0x26 ∨ row.encoding = 0x28 ∨ row.encoding = 0x1c) :
    dispatch c row 0#32 (.label pos) .none .none .none =
      emitJmpCall c (if row.encoding = 0x26 then row.mainOp else if row.encoding = 0x28 then 0xE9#32 else 0xE8#32) 0#32 0#32 row.altOp (.label pos)
        (row.encoding != 0x26) := by
  rcases henc with h | h | h <;> simp [dispatch, h, sig3, Op.kind]

end AsmjitVerif.Props.C01
