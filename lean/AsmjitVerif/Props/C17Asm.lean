/-
C17, assembler-side encoders of a64assembler.cpp that do not go through `write_offset`:
 * `direct_eq_patched_*` : the DIRECT displacement path `EmitOp_DispImm` (label already bound in the current section /
   absolute target) produces, for every displacement, exactly the bits the PATCHED path (`encode_offset32` OR-ed
   into a zero field by `write_offset`) produces, and refuses exactly the same displacements - for the five AArch64
   formats.  Hence everything Props/C17.lean proves about the patched word holds for the directly emitted word.
   (x86: the direct rel8/rel32 choice of EmitJmpCall is `short_long_selection_sound` in Props/C03.lean - not repeated.)
 (bit-field aliases and `encode_lmh`: Props/C17Bitfield.lean)
-/
import AsmjitVerif.Props.C17
import Std.Tactic.BVDecide
namespace AsmjitVerif.Offset

syntax "prove_direct" : tactic
macro_rules
  | `(tactic| prove_direct) => `(tactic|
      (intro off
       simp [dispImmDirect, encodeOffset32, encode32Value, immValue, OffsetFormat.hasSignBit,
             lsbMask32, isInt32, isEncodableOffset32, isEncodableOffset64]
       (repeat' split) <;> (try simp_all) <;> bv_decide (config := { timeout := 300 })))

theorem direct_eq_patched_imm26 : ∀ off, dispImmDirect fImm26 off = encodeOffset32 fImm26 off := by unfold fImm26; prove_direct
theorem direct_eq_patched_imm19 : ∀ off, dispImmDirect fImm19 off = encodeOffset32 fImm19 off := by unfold fImm19; prove_direct
theorem direct_eq_patched_imm14 : ∀ off, dispImmDirect fImm14 off = encodeOffset32 fImm14 off := by unfold fImm14; prove_direct
theorem direct_eq_patched_adr : ∀ off, dispImmDirect fAdr off = encodeOffset32 fAdr off := by unfold fAdr; prove_direct
theorem direct_eq_patched_adrp : ∀ off, dispImmDirect fAdrp off = encodeOffset32 fAdrp off := by unfold fAdrp; prove_direct

/-! non-vacuity of the direct path -/
example : dispImmDirect fImm19 (BitVec.ofInt 64 (-8)) = some 0x00ffffc0#32 ∧ dispImmDirect fImm19 0x100000#64 = none := by decide
example : dispImmDirect fAdrp 0x1000#64 = some 0x20000000#32 ∧ dispImmDirect fAdrp 0x800#64 = none := by decide

end AsmjitVerif.Offset
