/-
C03, end-to-end theorems over ALL programs (the disjoint-regions frame induction; helper lemmas in Lemmas/RefInv*.lean).

Ghost log: `State.ghost` records, at every `new_fixup` of a patchable fixup (x86 `EmitRel`: jmp/jcc/call/jecxz/loop rel8/rel32 and
RIP-relative operands with trailing immediates; a64 `EmitOp_Rel`: b/bl/b.cond/cbz/tbz/adr/adrp/ldr-literal; forward references
and references to labels bound in another section), the site (section, offset), addend, format and label.

 * `refs_invariant`        for every program of assembling operations (any interleaving of the 15 non-final ops) the invariant `Inv`
                           holds: logged fields are in bounds and pairwise disjoint; each logged reference is *either* still on a
                           fixup list with an untouched zero field *or* on no list and its field decodes (Spec/Offset.lean) to
                           exactly `label offset - site + addend`; every listed fixup is logged; lists hold no overlapping fixups.
 * `resolved_ref_correct`  for every such program followed by `flatten; resolve`: every logged reference either designates
                           `section offset(label) + label offset - (section offset(site) + site) + addend` exactly (same-section
                           and cross-section alike), or is still pending with its zero field untouched.
 * `never_truncates`       ... and in the second case it is on a fixup list, hence counted: the unresolved counter is positive.
                           (With `bind_patch_exact` / Lemmas `bindStep_spec`: a same-section fixup stays on the list only if the
                           codec refuses the displacement, which by C17 `*_refused` means no field content designates it.)
Hypothesis `Op.early`: `resolve` / `relocate` are not called in the middle of assembling (resolving against a layout that later
emissions invalidate is a usage error; the relocation phase is C04).
What is not in these theorems: references emitted against a label already bound in the current section never create a fixup
(they are encoded directly by `EmitJmpCallRel` / `EmitOp_DispImm`; see `short_form_*`, `dispImm`), and the step from
"the field decodes to label - site + addend" to the CPU's `end of instruction + disp` reading of Spec/RefSemantics (the addend
is `-(4 + imm size)` resp. `-1`) is checked by the monitor on every explored program, not proved here.
-/
import AsmjitVerif.Lemmas.RefInvResolve
import Std.Tactic.BVDecide
namespace AsmjitVerif.CodeHolder
open AsmjitVerif.Offset

/-- **the invariant holds in every reachable assembling state** -/
theorem refs_invariant (arch : Arch) (base : BitVec 64) (ops : List Op) (hops : ∀ op ∈ ops, op.early = true) :
    Inv (run (State.init arch base) ops) :=
  run_inv _ ops hops (inv_init arch base)

theorem run_append (s : State) (a b : List Op) : run s (a ++ b) = run (run s a) b := by
  unfold run; rw [List.foldl_append]

/-- **resolved_ref_correct.** For every program of the menu, after `flatten` + `resolve`, every reference ever created through a
fixup designates exactly the laid-out position of its label plus the addend - or is still pending with an untouched field. -/
theorem resolved_ref_correct (arch : Arch) (base : BitVec 64) (ops : List Op) (hops : ∀ op ∈ ops, op.early = true) :
    ∀ g ∈ (run (State.init arch base) (ops ++ [.flatten, .resolve])).ghost,
      Final (run (State.init arch base) (ops ++ [.flatten, .resolve])) g := by
  have h1 := refs_invariant arch base ops hops
  have h2 : Inv (flatten (run (State.init arch base) ops)).1 := h1.frame (frame_flatten _ h1.cur)
  have e : run (State.init arch base) (ops ++ [.flatten, .resolve]) = (resolve (flatten (run (State.init arch base) ops)).1).1 := by
    rw [run_append]; simp [run, step]
  rw [e]
  exact final_resolve _ h2

theorem weight_le_pending : ∀ (ls : List LabelEntry) (l : Nat) (e : LabelEntry), ls[l]? = some e → weight e ≤ pendingOnLabels ls := by
  intro ls
  induction ls with
  | nil => intro l e h; simp at h
  | cons x xs ih =>
    intro l e h
    rw [pendingOnLabels_cons]
    cases l with
    | zero => simp at h; subst h; omega
    | succ k => simp at h; have := ih k e h; omega

theorem pending_pos {s : State} {g : GRef} (h : Pending s g) : 0 < pending s := by
  unfold pending
  rcases h with ⟨fx, h1, h2⟩ | h1
  · have := weight_le_pending _ _ _ h1
    have : 0 < fx.length := List.length_pos_of_mem h2
    simp only [weight] at *
    omega
  · have : 0 < s.fixups.length := List.length_pos_of_mem h1
    omega

/-- **never_truncates.** After `flatten` + `resolve` a logged reference that does not designate its label is on a fixup list
with an untouched zero field, and the reported number of unresolved references is positive. -/
theorem never_truncates (arch : Arch) (base : BitVec 64) (ops : List Op) (hops : ∀ op ∈ ops, op.early = true) :
    let s := run (State.init arch base) (ops ++ [.flatten, .resolve])
    ∀ g ∈ s.ghost,
      (∃ lsec loff, s.labels[g.label]? = some (.bound lsec loff) ∧ Decodes s.secs g (crossDisp s.secs lsec loff g.sec g.offset g.rel)) ∨
      (Pending s g ∧ FieldZero s.secs g ∧ 0 < s.count) := by
  intro s g hg
  rcases resolved_ref_correct arch base ops hops g hg with h | ⟨h1, h2⟩
  · exact .inl h
  · right
    refine ⟨h1, h2, ?_⟩
    have := unresolved_count_exact arch base (ops ++ [.flatten, .resolve])
    rw [this]
    exact pending_pos h1

/-- if the counter is zero after the final phase, every logged reference designates its label -/
theorem count_zero_all_resolved (arch : Arch) (base : BitVec 64) (ops : List Op) (hops : ∀ op ∈ ops, op.early = true)
    (hc : (run (State.init arch base) (ops ++ [.flatten, .resolve])).count = 0) :
    ∀ g ∈ (run (State.init arch base) (ops ++ [.flatten, .resolve])).ghost,
      ∃ lsec loff, (run (State.init arch base) (ops ++ [.flatten, .resolve])).labels[g.label]? = some (.bound lsec loff) ∧
        Decodes (run (State.init arch base) (ops ++ [.flatten, .resolve])).secs g
          (crossDisp (run (State.init arch base) (ops ++ [.flatten, .resolve])).secs lsec loff g.sec g.offset g.rel) := by
  intro g hg
  rcases never_truncates arch base ops hops g hg with h | ⟨_, _, h⟩
  · exact h
  · rw [hc] at h; cases h

/-- what the decoded displacement means: site address + displacement = label address + addend (all relative to the base).
For x86 the addend logged by `EmitRel` is `-(field size + trailing immediate size)` (+ the operand's own displacement), so this is
the CPU's `end of instruction + disp = label (+ disp)`; for AArch64 the site is the instruction (`pc + imm = label + addend`). -/
theorem crossDisp_target (secs : List Section) (lsec : Nat) (loff : BitVec 64) (fsec foff : Nat) (rel : BitVec 64) :
    (secOffset secs fsec + BitVec.ofNat 64 foff) + crossDisp secs lsec loff fsec foff rel = (secOffset secs lsec + loff) + rel := by
  unfold crossDisp
  generalize secOffset secs fsec + BitVec.ofNat 64 foff = a
  generalize secOffset secs lsec + loff = t
  bv_omega

/-- non-vacuity: a two-section x86-64 program logs three references (forward jz, RIP-relative lea with the label bound later
in another section, cross-section jmp to a bound label); after flatten + resolve the counter is 0 -/
example :
    let s := run (State.init .x64 noBase)
      ([.newLabel, .newLabel, .jmp .jz .dflt 0, .mem .lea 1 4#32, .bind 0, .newSection 16 0, .section 1, .jmp .jmp .dflt 0, .bind 1]
        ++ [.flatten, .resolve])
    s.ghost.length = 3 ∧ s.count = 0 ∧
    (s.secs[0]?.map (·.buf)) = some [0x0F#8, 0x84#8, 7#8, 0#8, 0#8, 0#8, 0x48#8, 0x8D#8, 0x05#8, 0x0C#8, 0#8, 0#8, 0#8] := by decide

end AsmjitVerif.CodeHolder
